"""Config engine (C18, C19): H6 differential harness on deadpool_postgres::Config, the three
deadpool_redis Config flavours, the From conversions and the serde impls of PoolConfig /
Timeouts / QueueMode; the Coq model (Config/*.v) evaluated by vm_compute on the same inputs;
per-property projections (correspondence), monitors (the property evaluated on the
implementation's outputs alone) and the field inventory of DESIGN 6.6."""
import glob, hashlib, json, os, re, subprocess, sys, time
from collections import Counter

import common, corr
from common import VERIF, WORK, log

NAME = 'config'
PROPS = ['C18', 'C19']
HARNESS = os.path.join(VERIF, 'harness-config')
TARGET = os.path.join(VERIF, '.cache', 'target-config')
BIN = os.path.join(TARGET, 'debug', 'h6_config')
REPO = os.environ.get('VERIF_REPO', '/repo')

RULE_PREFIX = ('generated inputs (SplitMix64 from VERIF_SEED) run through the real functions of /repo under '
               'catch_unwind and through the Coq model by vm_compute (third-party parsers are oracles: their '
               'observed output is an input of the model); compared row by row on the projection of this '
               'property; plus the field inventory /repo source vs. model records; non-trivial = distinct input that ')
RULES = {
    'C18': ('has a URL or sets at least two options', None),
    'C19': ('is not the all-default configuration / is a conversion / has a timeout or a mutated tree', None),
}
TRUSTED_EXTRA = [
    "config engine: the hand-written models coq/theories/Config/{PgConfig,RedisConfig,Serde}.v and the "
    "integer encoding shared by harness-config/src/enc.rs, Config/Decode.v, Config/Obs.v and lib/config.py",
    "oracles (observed output is an input of the model, never described by it): tokio_postgres 0.7.18 "
    "Config::new / Config::from_str seen through its getters, std::env::var(\"USER\"), num_cpus (default "
    "max_size), redis 0.28.2 IntoConnectionInfo for URLs, ClusterClientBuilder::build / SentinelClient::build "
    "(accept or reject the servers), serde_json 1.0 text <-> Value, config 0.14.1 Environment source -> Value",
    "modelled, validated only by the differential runs: serde's derive for structs with serde(default) and "
    "unit variants, serde's Duration visitor (secs u64 + nanos u32, carry, overflow error), the coercions of "
    "config::Value's Deserializer (decimal strings, true/on/yes, case-insensitive variant names)",
    "observed through Debug renderings because no getter exists: queue_mode of a PoolBuilder / Pool, "
    "recycling_method of deadpool_postgres::Manager",
    "the 'servers used' clause of C19 is observed as the loopback listeners that receive a connection when "
    "the built pool creates its first object (plain flavour: exactly the named one; cluster / sentinel: first "
    "contact only, their discovery protocols are not scripted)",
]


# ------------------------------------------------------------------ tiers
def batches(tier):
    if tier == 'thorough':
        return [('pg', 48000), ('redis', 16000), ('contact', 800), ('conv', 6000), ('serde', 30000)]
    return [('pg', 1800), ('redis', 900), ('contact', 120), ('conv', 400), ('serde', 1800)]


def cargo_build():
    rc, out = common.sh('cargo build --offline 2>&1 | tail -40', cwd=HARNESS, timeout=3000)
    ok = rc == 0 and 'could not compile' not in out and not re.search(r'^error', out, re.M)
    return ok, out


def gen_cases(seed, profile, n):
    p = subprocess.run([BIN, 'gen', str(seed), str(n), profile], stdout=subprocess.PIPE, stderr=subprocess.PIPE,
                       text=True, timeout=3000)
    cases = [json.loads(l) for l in p.stdout.splitlines() if l.strip()]
    for c in cases:
        c['profile'] = profile
    if p.returncode != 0 or len(cases) != n:
        raise RuntimeError('harness failed (rc %d, %d/%d cases): %s' % (p.returncode, len(cases), n, p.stderr[-500:]))
    return cases


def replay_cases(items):
    os.makedirs(WORK, exist_ok=True)
    path = os.path.join(WORK, 'config_replay_in_%d.jsonl' % os.getpid())
    with open(path, 'w') as f:
        for it in items:
            f.write(json.dumps({'cfg': it['cfg'], 'labels': it['labels']}) + '\n')
    p = subprocess.run([BIN, 'replay', path], stdout=subprocess.PIPE, stderr=subprocess.PIPE, text=True, timeout=3000)
    os.remove(path)
    cases = [json.loads(l) for l in p.stdout.splitlines() if l.strip()]
    if p.returncode != 0 or len(cases) != len(items):
        raise RuntimeError('harness replay failed: %s' % p.stderr[-500:])
    for c, it in zip(cases, items):
        c['profile'] = it.get('profile', 'replay')
    return cases


def model_obs(cases, tag='cfg'):
    cs = [(c['cfg'], c['labels']) for c in cases]
    return corr.run_model(tag, 'Config.Obs', 'run_case_z', cs, shard=120)


# ------------------------------------------------------------------ decoding (mirror of Config/Decode.v)
class Cur:
    def __init__(self, d):
        self.d, self.i = d, 0

    def int(self):
        v = self.d[self.i] if self.i < len(self.d) else 0
        self.i += 1
        return v

    def bool(self):
        return self.int() != 0

    def str(self):
        n = max(self.int(), 0)
        v = tuple(self.d[self.i:self.i + n])
        self.i += n
        return v

    def opt(self, f):
        return None if self.int() == 0 else f()

    def list(self, f):
        return [f() for _ in range(max(self.int(), 0))]

    def dur(self):
        return (self.int(), self.int())

    def timeouts(self):
        return (self.opt(self.dur), self.opt(self.dur), self.opt(self.dur))

    def pool(self):
        return (self.int(), self.timeouts(), self.int())

    def rest(self):
        return self.d[self.i:]


def show(s):
    if s is None:
        return None
    try:
        return bytes(s).decode('utf-8')
    except Exception:
        return repr(bytes(s))


PG_FIELDS = ['url', 'user', 'password', 'dbname', 'options', 'application_name', 'ssl_mode', 'host', 'hosts',
             'hostaddr', 'hostaddrs', 'port', 'ports', 'connect_timeout', 'keepalives', 'keepalives_idle',
             'target_session_attrs', 'channel_binding', 'load_balance_hosts', 'manager', 'pool']


def dec_pg_cfg(row):
    c = Cur(row)
    d = {}
    for k in ['url', 'user', 'password', 'dbname', 'options', 'application_name']:
        d[k] = c.opt(c.str)
    d['ssl_mode'] = c.opt(c.int)
    d['host'] = c.opt(c.str)
    d['hosts'] = c.opt(lambda: c.list(c.str))
    d['hostaddr'] = c.opt(c.str)
    d['hostaddrs'] = c.opt(lambda: c.list(c.str))
    d['port'] = c.opt(c.int)
    d['ports'] = c.opt(lambda: c.list(c.int))
    d['connect_timeout'] = c.opt(c.dur)
    d['keepalives'] = c.opt(c.int)
    d['keepalives_idle'] = c.opt(c.dur)
    d['target_session_attrs'] = c.opt(c.int)
    d['channel_binding'] = c.opt(c.int)
    d['load_balance_hosts'] = c.opt(c.int)
    d['manager'] = c.opt(lambda: (c.int(), c.str()))
    d['pool'] = c.opt(c.pool)
    return d


def dec_pg_obs(c):
    d = {}
    for k in ['user', 'password', 'dbname', 'options', 'application_name']:
        d[k] = c.opt(c.str)
    d['ssl_mode'] = c.int()
    d['hosts'] = c.list(lambda: (c.int(), c.str()))
    d['hostaddrs'] = c.list(c.str)
    d['ports'] = c.list(c.int)
    d['connect_timeout'] = c.opt(c.dur)
    d['keepalives'] = c.int()
    d['keepalives_idle'] = c.dur()
    d['target_session_attrs'] = c.int()
    d['channel_binding'] = c.int()
    d['load_balance_hosts'] = c.int()
    d['ssl_negotiation'] = c.int()
    d['tcp_user_timeout'] = c.opt(c.dur)
    d['keepalives_interval'] = c.opt(c.dur)
    d['keepalives_retries'] = c.opt(c.int)
    return d


def dec_addr(c, rside):
    k = c.int()
    if k == 0:
        return ('tcp', c.str(), c.int())
    if k == 1:
        h, p, i = c.str(), c.int(), c.int()
        if rside:
            c.int()
        return ('tls', h, p, i)
    return ('unix', c.str())


def dec_redis(c):
    return (c.int(), c.opt(c.str), c.opt(c.str), c.int())


def dec_info(c, rside):
    return (dec_addr(c, rside), dec_redis(c))


def dec_node(c):
    return (c.opt(c.int), c.opt(lambda: dec_redis(c)))


def dec_tree(c, fuel=8):
    if fuel == 0:
        return None
    k = c.int()
    if k == 0:
        return None
    if k == 1:
        return ('b', c.int())
    if k == 2:
        return ('n', c.int())
    if k == 3:
        return ('s', c.str())
    if k == 5:
        return ('other',)
    n = c.int()
    m = []
    for _ in range(max(n, 0)):
        key = c.str()
        m.append((key, dec_tree(c, fuel - 1)))
    return ('m', tuple(sorted(m, key=lambda kv: kv[0])))


def tree_get(t, key):
    if not t or t[0] != 'm':
        return 'absent'
    for k, v in t[1]:
        if bytes(k).decode('latin1') == key:
            return v
    return 'absent'


# ------------------------------------------------------------------ projections (correspondence)
def mask_qm(row):
    """the queue mode of a built redis pool has no observation: drop the last field of a pool row"""
    return row[:-1] if row and row[0] == 0 else row


def tcp_ports(infos):
    return sorted(set(i[0][2] for i in infos if i[0][0] in ('tcp', 'tls')))


def named_servers(model_row):
    c = Cur(model_row)
    return c.list(lambda: dec_info(c, True))


def correspond(case, mo):
    """-> list of (step, what, impl, model) differences, first per row"""
    out = []
    kind = case['cfg'][0]
    io = case['obs']
    if len(mo) != len(io) or any(m is None for m in mo):
        return [(0, 'model produced %d rows, implementation %d' % (len(mo), len(io)), None, None)]
    for i, (a, b) in enumerate(zip(io, mo)):
        if kind in (2, 3, 4):
            if i == 1:
                a, b = mask_qm(a), mask_qm(b)
            if i == 2:
                if a[:1] != [1]:
                    continue  # contact not observed in this case
                contacted = a[3:3 + a[2]]
                want = tcp_ports(named_servers(b)) if b else []
                ok = (contacted == want) if kind == 2 else (len(contacted) > 0 and set(contacted) <= set(want))
                if not ok:
                    out.append((i, 'servers contacted differ from the servers the model names', contacted, want))
                continue
        if kind == 6 and i == 0:
            if case['cfg'][4] == 2:
                continue  # try_parsing: leaves are typed by the config crate, only the reading is compared
            a, b = dec_tree(Cur(a)), dec_tree(Cur(b))
        if a != b:
            out.append((i, 'row %d differs' % i, a, b))
            break
    return out


# ------------------------------------------------------------------ monitors (the property on the implementation alone)
DEFAULT_UNIX = [(1, tuple(b'/run/postgresql')), (1, tuple(b'/var/run/postgresql')), (1, tuple(b'/tmp'))]


def mk_host(unix, s):
    return (1, s) if (unix and len(s) > 0 and s[0] == 47) else (0, s)


def monitor_pg(case):
    fails = []
    cfg = case['cfg']
    unix, dflt, rt = cfg[1] != 0, cfg[2], cfg[3] != 0
    L = case['labels']
    c = dec_pg_cfg(L[0])
    cu = Cur(L[2])
    env_user = cu.opt(cu.str)
    new = dec_pg_obs(Cur(L[3]))
    cu = Cur(L[4])
    url = cu.opt(lambda: dec_pg_obs(cu))
    o0, o1, o2 = case['obs']
    kind = o0[0]
    if kind == 9:
        fails.append('get_pg_config panicked')
        return fails
    if kind not in (0, 1, 2, 3):
        fails.append('get_pg_config returned an unknown outcome %d' % kind)
        return fails
    base = (url if c['url'] is not None else new)
    nonempty = lambda s: s is not None and len(s) > 0
    # ---- outcome classes
    if c['url'] is not None and url is None:
        if kind != 1:
            fails.append('the URL is rejected by the parser but the outcome is %d, not InvalidUrl' % kind)
        exp_kind = 1
    else:
        db = c['dbname'] if nonempty(c['dbname']) else base['dbname']
        exp_kind = 2 if db is None else (3 if len(db) == 0 else 0)
        if kind != exp_kind:
            fails.append('outcome %d, expected %d (0 Ok, 1 InvalidUrl, 2 DbnameMissing, 3 DbnameEmpty) for dbname %r / URL dbname %r'
                         % (kind, exp_kind, show(c['dbname']), show(base['dbname'])))
    if kind == 0 and exp_kind == 0:
        r = dec_pg_obs(Cur(o0[1:]))
        # ---- every option set is in effect (scalar options override the URL)
        if nonempty(c['user']) and r['user'] != c['user']:
            fails.append('user %r set but the result has %r' % (show(c['user']), show(r['user'])))
        if nonempty(c['dbname']) and r['dbname'] != c['dbname']:
            fails.append('dbname %r set but the result has %r' % (show(c['dbname']), show(r['dbname'])))
        for k in ['password', 'options', 'application_name', 'connect_timeout']:
            if c[k] is not None and r[k] != c[k]:
                fails.append('%s set to %r but the result has %r' % (k, c[k], r[k]))
        for k in ['ssl_mode', 'keepalives', 'keepalives_idle', 'target_session_attrs', 'channel_binding',
                  'load_balance_hosts']:
            if c[k] is not None and r[k] != c[k]:
                fails.append('option %s is set to %r in the Config but the result has %r (URL / default: %r)'
                             % (k, c[k], r[k], base[k]))
        # ---- unset options keep the URL's value
        for k in ['password', 'options', 'application_name', 'connect_timeout', 'ssl_mode', 'keepalives',
                  'keepalives_idle', 'target_session_attrs', 'channel_binding', 'load_balance_hosts']:
            if c[k] is None and r[k] != base[k]:
                fails.append('%s is not set but the result %r differs from the URL / default %r' % (k, r[k], base[k]))
        for k in ['ssl_negotiation', 'tcp_user_timeout', 'keepalives_interval', 'keepalives_retries']:
            if r[k] != base[k]:
                fails.append('%s of the URL (%r) was changed to %r' % (k, base[k], r[k]))
        if not nonempty(c['user']):
            want = base['user'] if nonempty(base['user']) else (env_user if env_user is not None else base['user'])
            if r['user'] != want:
                fails.append('user unset: result %r, expected %r ($USER %r, URL %r)' % (show(r['user']), show(want), show(env_user), show(base['user'])))
        # ---- lists: URL's, then singular, then plural
        named = list(base['hosts']) + [mk_host(unix, h) for h in ([c['host']] if c['host'] is not None else [])] \
            + [mk_host(unix, h) for h in (c['hosts'] or [])]
        want_hosts = named if named else (DEFAULT_UNIX if unix else [(0, tuple(b'127.0.0.1'))])
        if r['hosts'] != want_hosts:
            fails.append('hosts %r, expected %r (URL ++ host ++ hosts, defaults only if none)' % (r['hosts'], want_hosts))
        want = list(base['hostaddrs']) + ([c['hostaddr']] if c['hostaddr'] is not None else []) + (c['hostaddrs'] or [])
        if r['hostaddrs'] != want:
            fails.append('hostaddrs %r, expected %r' % (r['hostaddrs'], want))
        want = list(base['ports']) + ([c['port']] if c['port'] is not None else []) + (c['ports'] or [])
        if r['ports'] != want:
            fails.append('ports %r, expected %r' % (r['ports'], want))
    # ---- pool / manager pass-through, create_pool
    want_mgr = c['manager'] if c['manager'] is not None else (0, ())
    if want_mgr[0] != 3:
        want_mgr = (want_mgr[0], ())
    want_pool = c['pool'] if c['pool'] is not None else (dflt, (None, None, None), 0)
    if kind == 0:
        if o1[0] != 0:
            fails.append('get_pg_config is Ok but builder() gives outcome %d' % o1[0])
        else:
            cu = Cur(o1[1:])
            mgr = (cu.int(), cu.str())
            pool = cu.pool()
            if mgr != want_mgr:
                fails.append('manager section %r reached the builder as %r' % (want_mgr, mgr))
            if pool != want_pool:
                fails.append('pool section %r reached the builder as %r' % (want_pool, pool))
        has_t = any(t is not None for t in want_pool[1])
        if has_t and not rt:
            if o2 != [2]:
                fails.append('timeouts without a runtime: create_pool gave %r, expected a build error' % (o2,))
        else:
            if o2[0] != 0:
                fails.append('create_pool gave %r, expected a pool' % (o2,))
            elif Cur(o2[1:]).pool() != want_pool:
                fails.append('pool section %r reached the built pool as %r' % (want_pool, Cur(o2[1:]).pool()))
    else:
        if o1 != [kind]:
            fails.append('get_pg_config fails with %d but builder() gives %r' % (kind, o1))
        if o2 != [1, kind]:
            fails.append('get_pg_config fails with %d but create_pool gives %r' % (kind, o2))
    return fails


def monitor_redis(case):
    fails = []
    cfg = case['cfg']
    kind, dflt, rt = cfg[0], cfg[1], cfg[2] != 0
    c = Cur(case['labels'][0])
    if kind == 2:
        urls = c.opt(c.str)
        urls = None if urls is None else [urls]
        conns = c.opt(lambda: dec_info(c, False))
        conns = None if conns is None else [conns]
        pool = c.opt(c.pool)
    elif kind == 3:
        urls = c.opt(lambda: c.list(c.str))
        conns = c.opt(lambda: c.list(lambda: dec_info(c, False)))
        pool = c.opt(c.pool)
    else:
        urls = c.opt(lambda: c.list(c.str))
        c.int(); c.str()
        conns = c.opt(lambda: c.list(lambda: dec_info(c, False)))
        c.opt(lambda: dec_node(c))
        pool = c.opt(c.pool)
    o = Cur(case['labels'][1])
    parsed = o.opt(lambda: o.list(lambda: dec_info(o, True)))
    acc_u, acc_c, acc_d = o.bool(), o.bool(), o.bool()
    o0, o1, o2 = case['obs']
    if 9 in (o0[0], o1[0]):
        fails.append('builder() / create_pool() panicked')
        return fails
    want_pool = pool if pool is not None else (dflt, (None, None, None), 0)
    if urls is not None and conns is not None:
        if o0 != [1] or o1 != [1, 1]:
            fails.append('both URL(s) and connection(s) are given but builder()/create_pool() gave %r / %r, '
                         'expected UrlAndConnectionSpecified' % (o0, o1))
        return fails
    if o0 == [1]:
        fails.append('UrlAndConnectionSpecified although only one of URL / connection is given')
        return fails
    if urls is not None:
        accept, named = acc_u, (parsed or [])
    elif conns is not None:
        accept, named = (True if kind == 2 else acc_c), [(ci[0], ci[1]) for ci in conns]
    else:
        accept, named = (True if kind == 2 else acc_d), [(('tcp', tuple(b'127.0.0.1'), 6379), (0, None, None, 0))]
    if not accept:
        if o0 != [2] or o1 != [1, 2]:
            fails.append('the redis crate rejects the named servers (malformed URL or unusable set) but the '
                         'outcome is %r / %r, expected a configuration error' % (o0, o1))
        return fails
    if o0[0] != 0:
        fails.append('the named servers are acceptable but builder() gave %r' % (o0,))
        return fails
    if Cur(o0[1:]).pool() != want_pool:
        fails.append('pool section %r reached the builder as %r' % (want_pool, Cur(o0[1:]).pool()))
    has_t = any(t is not None for t in want_pool[1])
    if has_t and not rt:
        if o1 != [2]:
            fails.append('timeouts without a runtime: create_pool gave %r, expected a build error' % (o1,))
    elif o1[0] != 0 or Cur(o1[1:]).pool()[:2] != want_pool[:2]:
        fails.append('create_pool gave %r, expected a pool with %r' % (o1, want_pool))
    if o2[:1] == [1]:
        contacted = o2[3:3 + o2[2]]
        want = tcp_ports(named)
        if urls is None and conns is None and kind == 4:
            ok = contacted in ([6379], [26379])
        elif kind == 2:
            ok = contacted == want
        else:
            ok = len(contacted) > 0 and set(contacted) <= set(want)
        if not ok:
            fails.append('servers contacted %r, named %r' % (contacted, want))
    return fails


def strip_tls_flag(row):
    """redis-side info row with the tls_params flag cleared"""
    c = Cur(row)
    a = dec_addr(c, True)
    return (a, dec_redis(c))


def monitor_conv(case):
    fails = []
    L, O = case['labels'], case['obs']
    if O and O[0] == [9]:
        return ['a From conversion panicked']
    di = dec_info(Cur(L[0]), False)
    ri = dec_info(Cur(L[1]), True)
    dn, rn = dec_node(Cur(L[2])), dec_node(Cur(L[3]))
    into = dec_info(Cur(O[0]), True)
    if into != di:
        fails.append('ConnectionInfo -> redis::ConnectionInfo changed %r into %r' % (di, into))
    if dec_info(Cur(O[1]), False) != di:
        fails.append('ConnectionInfo round trip through the redis crate: %r became %r' % (di, dec_info(Cur(O[1]), False)))
    if dec_info(Cur(O[2]), False) != ri:
        fails.append('redis::ConnectionInfo -> ConnectionInfo changed %r into %r' % (ri, dec_info(Cur(O[2]), False)))
    if dec_info(Cur(O[3]), True) != ri:
        fails.append('redis::ConnectionInfo round trip: %r became %r' % (ri, dec_info(Cur(O[3]), True)))
    if dec_node(Cur(O[4])) != dn or dec_node(Cur(O[5])) != dn:
        fails.append('SentinelNodeConnectionInfo round trip: %r became %r / %r' % (dn, dec_node(Cur(O[4])), dec_node(Cur(O[5]))))
    if dec_node(Cur(O[6])) != rn or dec_node(Cur(O[7])) != rn:
        fails.append('redis SentinelNodeConnectionInfo round trip: %r became %r / %r' % (rn, dec_node(Cur(O[6])), dec_node(Cur(O[7]))))
    if O[8] != [L[4][0], L[4][1]] or O[9] != [L[4][2], L[4][3]]:
        fails.append('server type / tls mode conversion: %r -> %r %r' % (L[4], O[8], O[9]))
    if dec_addr(Cur(O[10]), True) != di[0] or dec_redis(Cur(O[11])) != di[1]:
        fails.append('ConnectionAddr / RedisConnectionInfo into the redis crate: %r became %r %r' % (di, O[10], O[11]))
    if dec_addr(Cur(O[12]), False) != ri[0] or dec_redis(Cur(O[13])) != ri[1]:
        fails.append('ConnectionAddr / RedisConnectionInfo from the redis crate: %r became %r %r' % (ri, O[12], O[13]))
    return fails


def monitor_serde(case):
    fails = []
    cfg = case['cfg']
    what, src = cfg[2], cfg[4]
    O = case['obs']
    if not O:
        return fails
    value = case['labels'][0]
    if O[1] == [9]:
        return ['deserialisation panicked']
    if O[2] != [1]:
        fails.append('serde_json text round trip did not reproduce the value %r' % (value,))
    if src in (0, 2):
        # the tree read is the serialisation of the value: lossless round trip
        if O[1] != [1] + value:
            fails.append('serialise / deserialise round trip (%s source, %s reader): %r came back as %r'
                         % ('environment' if cfg[3] else 'typed', 'lenient' if cfg[1] else 'typed', value, O[1]))
    elif src == 3:
        # sections left out of the serialised value: the documented defaults take their place
        mask = cfg[5]
        if what == 0:
            m, ts, q = Cur(value).pool()
            want = (m, (None, None, None) if mask & 1 else ts, 0 if mask & 2 else q)
            got = Cur(O[1][1:]).pool() if O[1][:1] == [1] else None
        else:
            ts = Cur(value).timeouts()
            want = tuple(None if mask & (1 << i) else ts[i] for i in range(3))
            got = Cur(O[1][1:]).timeouts() if O[1][:1] == [1] else None
        if got != want:
            names = (['timeouts', 'queue_mode'] if what == 0 else ['wait', 'create', 'recycle'])
            left = [n for i, n in enumerate(names) if mask & (1 << i)]
            fails.append('sections %s omitted from the serialisation of %r: read as %r, expected %r (defaults for what is omitted)'
                         % (left, value, got, want))
    else:
        tree = dec_tree(Cur(case['labels'][1]))
        if O[1][:1] == [1] and what == 0:
            got = Cur(O[1][1:]).pool()
            if tree_get(tree, 'timeouts') == 'absent' and got[1] != (None, None, None):
                fails.append('timeouts section omitted but the result has %r' % (got[1],))
            if tree_get(tree, 'queue_mode') == 'absent' and got[2] != 0:
                fails.append('queue_mode omitted but the result is not Fifo')
        if O[1][:1] == [1] and what == 1:
            got = Cur(O[1][1:]).timeouts()
            for i, k in enumerate(['wait', 'create', 'recycle']):
                if tree_get(tree, k) == 'absent' and got[i] is not None:
                    fails.append('%s omitted but the result has %r' % (k, got[i]))
        if O[1][:1] == [1]:
            # whatever was read is a normalised value
            durs = []
            if what == 0:
                durs = [d for d in Cur(O[1][1:]).pool()[1] if d]
            elif what == 1:
                durs = [d for d in Cur(O[1][1:]).timeouts() if d]
            for s, n in durs:
                if not (0 <= n < 10 ** 9 and 0 <= s < 2 ** 64):
                    fails.append('a duration outside the value range was read: %r' % ((s, n),))
    return fails


def monitor(case):
    k = case['cfg'][0]
    if 'err' in case:
        return []
    if k == 1:
        return monitor_pg(case)
    if k in (2, 3, 4):
        return monitor_redis(case)
    if k == 5:
        return monitor_conv(case)
    return monitor_serde(case)


def prop_of(case):
    return 'C18' if case['cfg'][0] == 1 else 'C19'


def nontrivial(case):
    k = case['cfg'][0]
    if k == 1:
        c = dec_pg_cfg(case['labels'][0])
        nset = sum(1 for f in PG_FIELDS if c[f] is not None)
        return c['url'] is not None or nset >= 2
    if k in (2, 3, 4):
        return case['labels'][0][:1] != [0] or len(case['labels'][0]) > 4
    if k == 5:
        return True
    return case['cfg'][4] in (1, 3) or any(x not in (0, 1) for x in case['labels'][0])


# ------------------------------------------------------------------ inventory (DESIGN 6.6)
def strip_rust(src):
    src = re.sub(r'/\*.*?\*/', '', src, flags=re.S)
    src = re.sub(r'//[^\n]*', '', src)
    # attributes, possibly spanning lines
    out, i = [], 0
    while i < len(src):
        if src.startswith('#[', i) or src.startswith('#![', i):
            depth, j = 0, i
            while j < len(src):
                if src[j] == '[':
                    depth += 1
                elif src[j] == ']':
                    depth -= 1
                    if depth == 0:
                        break
                j += 1
            i = j + 1
        else:
            out.append(src[i])
            i += 1
    return ''.join(out)


def rust_block(src, kind, name):
    m = re.search(r'\bpub\s+%s\s+%s\s*(?:<[^>{]*>)?\s*\{' % (kind, name), src)
    if not m:
        return None
    i = m.end()
    depth, j = 1, i
    while j < len(src) and depth:
        if src[j] == '{':
            depth += 1
        elif src[j] == '}':
            depth -= 1
        j += 1
    return src[i:j - 1]


def split_top(body):
    items, depth, cur = [], 0, ''
    for ch in body:
        if ch in '({[<':
            depth += 1
        elif ch in ')}]>':
            depth -= 1
        if ch == ',' and depth == 0:
            items.append(cur)
            cur = ''
        else:
            cur += ch
    if cur.strip():
        items.append(cur)
    return [x.strip() for x in items if x.strip()]


def rust_struct_fields(path, name):
    src = strip_rust(open(path).read())
    body = rust_block(src, 'struct', name)
    if body is None:
        return None
    return [re.match(r'(?:pub(?:\([^)]*\))?\s+)?(\w+)\s*:', it).group(1) for it in split_top(body)]


def rust_enum_variants(path, name):
    """-> list of (variant, payload) where payload = field names for struct variants, arity for tuples"""
    src = strip_rust(open(path).read())
    body = rust_block(src, 'enum', name)
    if body is None:
        return None
    res = []
    for it in split_top(body):
        m = re.match(r'(\w+)\s*(.*)$', it, re.S)
        v, rest = m.group(1), m.group(2).strip()
        if rest.startswith('{'):
            res.append((v, [re.match(r'(\w+)\s*:', f).group(1) for f in split_top(rest[1:-1])]))
        elif rest.startswith('('):
            res.append((v, len(split_top(rest[1:-1]))))
        else:
            res.append((v, 0))
    return res


def strip_coq(src):
    out, depth, i = [], 0, 0
    while i < len(src):
        if src.startswith('(*', i):
            depth += 1
            i += 2
        elif src.startswith('*)', i) and depth:
            depth -= 1
            i += 2
        else:
            if depth == 0:
                out.append(src[i])
            i += 1
    return ''.join(out)


def coq_record_fields(path, name):
    src = strip_coq(open(path).read())
    m = re.search(r'\bRecord\s+%s\s*:=\s*\{(.*?)\}\s*\.' % name, src, re.S)
    if not m:
        return None
    return [re.match(r'\s*(\w+)\s*:', f).group(1) for f in m.group(1).split(';') if f.strip()]


def coq_inductive(path, name):
    src = strip_coq(open(path).read())
    m = re.search(r'\bInductive\s+%s\s*:=(.*?)\.\s' % name, src, re.S)
    if not m:
        return None
    res = []
    for alt in m.group(1).split('|'):
        alt = alt.strip()
        if not alt:
            continue
        v = re.match(r'(\w+)', alt).group(1)
        binders = re.findall(r'\(\s*([\w\s]+?)\s*:', alt)
        names = [n for b in binders for n in b.split()]
        res.append((v, names))
    return res


def unprefix(n, p):
    return n[len(p):] if n.startswith(p) else '?' + n


def inventory():
    """-> {prop: [messages]}: the structs / enums of /repo vs. the records / inductives of the model"""
    R = lambda p: os.path.join(REPO, p)
    Q = lambda p: os.path.join(common.COQ, 'theories', 'Config', p)
    msgs = {'C18': [], 'C19': []}
    pool_items = [
        ('struct', R('src/managed/config.rs'), 'PoolConfig', Q('Base.v'), 'pool_cfg', 'p_'),
        ('struct', R('src/managed/config.rs'), 'Timeouts', Q('Base.v'), 'timeouts', 't_'),
        ('enum', R('src/managed/config.rs'), 'QueueMode', Q('Base.v'), 'queue_mode', ''),
        ('enum', R('src/managed/builder.rs'), 'BuildError', Q('Base.v'), 'build_error', ''),
    ]
    items = {
        'C18': pool_items + [
            ('struct', R('postgres/src/config.rs'), 'Config', Q('PgConfig.v'), 'pg_cfg', 'c_'),
            ('struct', R('postgres/src/config.rs'), 'ManagerConfig', Q('PgConfig.v'), 'manager_cfg', 'm_'),
            ('enum', R('postgres/src/config.rs'), 'RecyclingMethod', Q('PgConfig.v'), 'recycling_method', 'Rm'),
            ('enum', R('postgres/src/config.rs'), 'SslMode', Q('PgConfig.v'), 'ssl_mode', 'Ssl'),
            ('enum', R('postgres/src/config.rs'), 'TargetSessionAttrs', Q('PgConfig.v'), 'target_session_attrs', 'Tsa'),
            ('enum', R('postgres/src/config.rs'), 'ChannelBinding', Q('PgConfig.v'), 'channel_binding', 'Cb'),
            ('enum', R('postgres/src/config.rs'), 'LoadBalanceHosts', Q('PgConfig.v'), 'load_balance_hosts', 'Lb'),
            ('enum', R('postgres/src/config.rs'), 'ConfigError', Q('PgConfig.v'), 'pg_result', 'Pg'),
        ],
        'C19': pool_items + [
            ('struct', R('redis/src/config.rs'), 'Config', Q('RedisConfig.v'), 'redis_cfg', 'rc_'),
            ('enum', R('redis/src/config.rs'), 'ConnectionAddr', Q('RedisConfig.v'), 'connection_addr', 'D'),
            ('struct', R('redis/src/config.rs'), 'ConnectionInfo', Q('RedisConfig.v'), 'connection_info', 'd_'),
            ('struct', R('redis/src/config.rs'), 'RedisConnectionInfo', Q('RedisConfig.v'), 'redis_connection_info', 'd_'),
            ('enum', R('redis/src/config.rs'), 'ProtocolVersion', Q('RedisConfig.v'), 'protocol_version', 'D'),
            ('enum', R('redis/src/config.rs'), 'ConfigError', Q('RedisConfig.v'), 'redis_config_error', ''),
            ('struct', R('redis/src/cluster/config.rs'), 'Config', Q('RedisConfig.v'), 'cluster_cfg', 'cc_'),
            ('struct', R('redis/src/sentinel/config.rs'), 'Config', Q('RedisConfig.v'), 'sentinel_cfg', 'sc_'),
            ('enum', R('redis/src/sentinel/config.rs'), 'SentinelServerType', Q('RedisConfig.v'), 'sentinel_server_type', 'D'),
            ('enum', R('redis/src/sentinel/config.rs'), 'TlsMode', Q('RedisConfig.v'), 'tls_mode', 'D'),
            ('struct', R('redis/src/sentinel/config.rs'), 'SentinelNodeConnectionInfo', Q('RedisConfig.v'),
             'sentinel_node_connection_info', 'd_'),
        ],
    }
    count = 0
    for prop, lst in items.items():
        for kind, rpath, rname, cpath, cname, prefix in lst:
            count += 1
            where = '%s %s in %s' % (kind, rname, os.path.relpath(rpath, REPO))
            try:
                if kind == 'struct':
                    rf = rust_struct_fields(rpath, rname)
                    cf = coq_record_fields(cpath, cname)
                    if rf is None or cf is None:
                        msgs[prop].append('inventory: cannot find %s or Record %s' % (where, cname))
                        continue
                    cf = [unprefix(f, prefix) for f in cf]
                    if rf != cf:
                        extra = [f for f in rf if f not in cf]
                        gone = [f for f in cf if f not in rf]
                        msgs[prop].append('inventory: %s has fields %s, the model record %s has %s (new in the source: %s; '
                                          'only in the model: %s)' % (where, rf, cname, cf, extra, gone))
                else:
                    rv = rust_enum_variants(rpath, rname)
                    cv = coq_inductive(cpath, cname)
                    if rv is None or cv is None:
                        msgs[prop].append('inventory: cannot find %s or Inductive %s' % (where, cname))
                        continue
                    names_only = cname in ('pg_result', 'redis_config_error')  # error payloads are opaque
                    if cname == 'pg_result':
                        cv = [v for v in cv if v[0] != 'PgOk']
                    rn = [v for v, _ in rv]
                    cn = [unprefix(v, prefix) for v, _ in cv]
                    if rn != cn:
                        msgs[prop].append('inventory: %s has variants %s, the model type %s has %s' % (where, rn, cname, cn))
                        continue
                    for (v, pay), (_, binders) in zip(rv, cv):
                        if names_only:
                            continue
                        if isinstance(pay, list):
                            if pay != binders:
                                msgs[prop].append('inventory: variant %s::%s has fields %s, the model has %s' % (rname, v, pay, binders))
                        elif pay != len(binders):
                            msgs[prop].append('inventory: variant %s::%s has %d components, the model has %d' % (rname, v, pay, len(binders)))
            except Exception as ex:  # a source the extractor cannot read is a finding of the check, not a crash
                msgs[prop].append('inventory: cannot read %s: %r' % (where, ex))
    # every field of deadpool_postgres::Config must be read by the translation functions
    try:
        src = strip_rust(open(R('postgres/src/config.rs')).read())
        m = re.search(r'\bimpl\s+Config\s*\{', src)
        depth, j = 1, m.end()
        while j < len(src) and depth:
            depth += {'{': 1, '}': -1}.get(src[j], 0)
            j += 1
        body = src[m.end():j]
        for f in rust_struct_fields(R('postgres/src/config.rs'), 'Config') or []:
            count += 1
            if not re.search(r'\bself\s*\.\s*%s\b' % f, body):
                msgs['C18'].append('inventory: field `%s` of deadpool_postgres::Config is never read by impl Config '
                                   '(get_pg_config / get_manager_config / get_pool_config): it cannot be in effect' % f)
    except Exception as ex:
        msgs['C18'].append('inventory: cannot analyse impl Config: %r' % (ex,))
    return msgs, count


# ------------------------------------------------------------------ the engine run
def engine_key(seed, tier):
    h = [common.file_hash(BIN), common.vo_hash('Config')]
    for p in sorted(glob.glob(os.path.join(VERIF, 'lib', '*.py'))):
        h.append(common.file_hash(p))
    for p in ['postgres/src/config.rs', 'redis/src/config.rs', 'redis/src/cluster/config.rs',
              'redis/src/sentinel/config.rs', 'src/managed/config.rs', 'src/managed/builder.rs']:
        h.append(common.file_hash(os.path.join(REPO, p)))
    return hashlib.sha1(('|'.join(h) + '|%s|%s' % (seed, tier)).encode()).hexdigest()[:16]


def case_hash(c):
    return hashlib.sha1(json.dumps([c['cfg'], c['labels'][:2] if c['cfg'][0] == 1 else c['labels'][:1]
                                    if c['cfg'][0] in (2, 3, 4) else c['labels']]).encode()).hexdigest()[:12]


KIND_NAMES = {1: 'postgres', 2: 'redis', 3: 'redis-cluster', 4: 'redis-sentinel', 5: 'conversions', 6: 'serde'}


def analyze(cases, mobs_all):
    summ = {p: dict(mismatches=[], monitor_fails=[], evaluations=0, nontrivial=set(), steps=0) for p in PROPS}
    hist = dict(kinds=Counter(), pg_outcomes=Counter(), redis_outcomes=Counter(), serde_results=Counter(),
                pg_fields_set=Counter(), contact=Counter())
    harness_errs = []
    for ci, (c, mo) in enumerate(zip(cases, mobs_all)):
        p = prop_of(c)
        s = summ[p]
        k = c['cfg'][0]
        hist['kinds'][KIND_NAMES.get(k, str(k))] += 1
        if 'err' in c:
            harness_errs.append((ci, c['err']))
            continue
        s['evaluations'] += 1
        s['steps'] += len(c['obs'])
        if nontrivial(c):
            s['nontrivial'].add(case_hash(c))
        if k == 1:
            hist['pg_outcomes'][{0: 'Ok', 1: 'InvalidUrl', 2: 'DbnameMissing', 3: 'DbnameEmpty'}.get(c['obs'][0][0], 'panic')] += 1
            d = dec_pg_cfg(c['labels'][0])
            for f in PG_FIELDS:
                if d[f] is not None:
                    hist['pg_fields_set'][f] += 1
            hist['pg_outcomes']['create_pool:' + {0: 'Ok', 1: 'Config', 2: 'Build'}.get(c['obs'][2][0], 'panic')] += 1
        elif k in (2, 3, 4):
            hist['redis_outcomes']['%s:%s' % (KIND_NAMES[k], {0: 'Ok', 1: 'UrlAndConnectionSpecified', 2: 'Redis'}.get(c['obs'][0][0], 'panic'))] += 1
            if c['obs'][2][:1] == [1]:
                hist['contact']['%s:%d servers contacted' % (KIND_NAMES[k], c['obs'][2][2])] += 1
        elif k == 6:
            hist['serde_results']['%s reader, %s: %s' % ('lenient' if c['cfg'][1] else 'typed',
                                                         ['serialised value', 'mutated tree', 'environment try_parsing', 'sections omitted'][c['cfg'][4]],
                                                         'Some' if c['obs'][1][:1] == [1] else 'None')] += 1
        for msg in monitor(c)[:1]:
            s['monitor_fails'].append(dict(trace=ci, step=0, msg=msg))
        for step, what, a, b in correspond(c, mo)[:1]:
            s['mismatches'].append(dict(trace=ci, step=step, what=what, impl=repr(a), model=repr(b)))
    for p in PROPS:
        summ[p]['nontrivial'] = len(summ[p]['nontrivial'])
    return dict(props=summ, histograms={k: dict(v) for k, v in hist.items()}, harness_errs=harness_errs)


def show_ip(b):
    b = list(b)
    if b[:1] == [4]:
        return '.'.join(str(x) for x in b[1:5])
    return ':'.join('%02x%02x' % (b[i], b[i + 1]) for i in range(1, min(len(b), 17) - 1, 2))


def describe(c):
    """a readable rendering of the input of a case (for replay files and samples)"""
    k = c['cfg'][0]
    d = dict(kind=KIND_NAMES.get(k, k), cfg=c['cfg'])
    try:
        if k == 1:
            x = dec_pg_cfg(c['labels'][0])
            r = {}
            for f, v in x.items():
                if v is None:
                    continue
                if f in ('url', 'user', 'password', 'dbname', 'options', 'application_name', 'host'):
                    r[f] = show(v)
                elif f == 'hosts':
                    r[f] = [show(h) for h in v]
                elif f == 'hostaddr':
                    r[f] = show_ip(v)
                elif f == 'hostaddrs':
                    r[f] = [show_ip(h) for h in v]
                elif f in ('connect_timeout', 'keepalives_idle'):
                    r[f] = '%ds+%dns' % v
                elif f == 'ssl_mode':
                    r[f] = ['Disable', 'Prefer', 'Require'][v]
                elif f == 'target_session_attrs':
                    r[f] = ['Any', 'ReadWrite'][v]
                elif f == 'channel_binding':
                    r[f] = ['Disable', 'Prefer', 'Require'][v]
                elif f == 'load_balance_hosts':
                    r[f] = ['Disable', 'Random'][v]
                elif f == 'manager':
                    r[f] = ['Fast', 'Verified', 'Clean', 'Custom(%r)' % show(v[1])][v[0]]
                elif f == 'pool':
                    r[f] = dict(max_size=v[0], timeouts=dict(zip(['wait', 'create', 'recycle'], v[1])), queue_mode=['Fifo', 'Lifo'][v[2]])
                else:
                    r[f] = v
            d['config'] = r
            cu = Cur(c['labels'][2]) if len(c['labels']) > 2 else Cur([0])
            d['env_USER'] = show(cu.opt(cu.str))
            d['runtime'] = bool(c['cfg'][3])
            d['outcome'] = {0: 'Ok', 1: 'InvalidUrl', 2: 'DbnameMissing', 3: 'DbnameEmpty', 9: 'panic'}.get(c['obs'][0][0]) if c.get('obs') else None
        elif k in (2, 3, 4):
            cu = Cur(c['labels'][0])
            if k == 2:
                u = cu.opt(cu.str)
                d['url'] = show(u)
                d['connection'] = repr(cu.opt(lambda: dec_info(cu, False)))
            else:
                u = cu.opt(lambda: cu.list(cu.str))
                d['urls'] = None if u is None else [show(x) for x in u]
                if k == 4:
                    d['server_type'] = ['Master', 'Replica'][cu.int()]
                    d['master_name'] = show(cu.str())
                d['connections'] = repr(cu.opt(lambda: cu.list(lambda: dec_info(cu, False))))
            d['runtime'] = bool(c['cfg'][2])
            d['contact_observed'] = bool(c['cfg'][3])
        elif k == 6:
            d['reader'] = 'lenient (config crate)' if c['cfg'][1] else 'typed (serde_json)'
            d['type'] = ['PoolConfig', 'Timeouts', 'QueueMode'][c['cfg'][2]]
            d['value'] = c['labels'][0]
            d['tree_read'] = repr(dec_tree(Cur(c['labels'][1])))[:600] if len(c['labels']) > 1 else None
        else:
            d['input_rows'] = [r[:80] for r in c['labels']]
    except Exception as ex:
        d['undecoded'] = repr(ex)
    return d


# item -> value documented in the sources' doc comments (redis/src/config.rs, cluster/config.rs, sentinel/config.rs)
DOCUMENTED_DEFAULTS = {
    'sentinel.omitted.master_name': 'mymaster', 'sentinel.omitted.server_type': 'Master',
    'sentinel.omitted.urls': 'None', 'sentinel.omitted.connections_is_none': 'true',
    'sentinel.omitted.pool_is_none': 'true', 'sentinel.omitted.node_connection_info_is_none': 'true',
    'sentinel.default.master_name': 'mymaster', 'sentinel.default.server_type': 'Master',
    'sentinel.default.urls': 'None',
    'cluster.omitted.urls': 'None', 'cluster.omitted.connections_is_none': 'true', 'cluster.omitted.pool_is_none': 'true',
    'cluster.omitted.read_from_replicas': 'false',
    'redis.omitted.url': 'None', 'redis.omitted.connection_is_none': 'true', 'redis.omitted.pool_is_none': 'true',
    'redis.default.url': 'None', 'redis.default.connection_is_none': 'false',
    'cluster.default.urls': 'None', 'cluster.default.read_from_replicas': 'false',
    # PoolConfig: max_size is a required field (a text omitting it is rejected); if it were accepted, only the
    # documented default cpu_count * 4 would do. Omitted sections: no timeouts, Fifo.
    'poolconfig.omitted_max_size.empty': ('rejected', 'documented default'),
    'poolconfig.omitted_max_size.queue_mode_only': ('rejected', 'documented default'),
    'poolconfig.omitted_max_size.timeouts_only': ('rejected', 'documented default'),
    'poolconfig.default.max_size_is_cpus_times_4': 'true',
    'poolconfig.omitted_sections.timeouts': 'None None None',
    'poolconfig.omitted_sections.queue_mode': 'Fifo',
}


def documented_defaults():
    """-> messages: omitted fields of the redis / cluster / sentinel Config that do not take their documented default"""
    p = subprocess.run([BIN, 'defaults'], stdout=subprocess.PIPE, stderr=subprocess.PIPE, text=True, timeout=120)
    got = {}
    for line in p.stdout.splitlines():
        try:
            d = json.loads(line)
            got[d['item']] = d['value']
        except ValueError:
            pass
    msgs = []
    for k, want in DOCUMENTED_DEFAULTS.items():
        if isinstance(want, tuple):
            if got.get(k) not in want:
                msgs.append('omitted / default %s is %r, allowed: %s' % (k, got.get(k), ' or '.join(want)))
        elif got.get(k) != want:
            msgs.append('omitted / default %s is %r, the documented default is %r' % (k, got.get(k), want))
    return msgs


def sentinel_probe():
    """-> messages: a scripted sentinel + master; the named sentinel is asked for the configured master name, and
    the database / password of node_connection_info reach the master (and nothing of the kind when it is absent),
    whichever way the sentinels are named"""
    p = subprocess.run([BIN, 'sentinel'], stdout=subprocess.PIPE, stderr=subprocess.PIPE, text=True, timeout=300)
    rows = []
    for line in p.stdout.splitlines():
        try:
            rows.append(json.loads(line))
        except ValueError:
            pass
    msgs = []
    if len(rows) != 8:
        return ['sentinel probe: %d of 8 cases ran (%s)' % (len(rows), p.stderr[-300:])], 0
    for r in rows:
        what = 'sentinel::Config naming its sentinels by %s, master name %s, node_connection_info %s' % (
            'urls' if r['via_urls'] else 'connections', 'as the server knows it' if r['right_name'] else 'unknown to the server',
            'set (db 5, password)' if r['with_info'] else 'absent')
        if not r['asked_sentinel']:
            msgs.append('%s: the named sentinel was never asked' % what)
        if r['right_name']:
            if r['got'] != 1:
                msgs.append('%s: no connection to the master (code %d)' % (what, r['got']))
            want_auth = ['AUTH s3cret'] if r['with_info'] else []
            want_sel = ['SELECT 5'] if r['with_info'] else []
            if sorted(set(r['auth'])) != want_auth or sorted(set(r['select'])) != want_sel:
                msgs.append('%s: the master received %s / %s, expected %s / %s' % (what, r['auth'], r['select'], want_auth, want_sel))
        elif r['got'] == 1:
            msgs.append('%s: a connection was handed out although the sentinel does not know that master' % what)
    return msgs, len(rows)


def run_engine(seed, tier):
    ok, out = cargo_build()
    if not ok or not os.path.exists(BIN):
        return dict(build_failed=True, log=out)
    key = engine_key(seed, tier)
    cpath = os.path.join(WORK, 'cache', 'config_%s.json' % key)
    if os.path.exists(cpath):
        res = json.load(open(cpath))
        res['cached'] = True
        return res
    t0 = time.time()
    cases = []
    for bi, (profile, n) in enumerate(batches(tier)):
        cases += gen_cases(seed * 1000 + bi, profile, n)
    t1 = time.time()
    good = [c for c in cases if 'err' not in c]
    mo_good = model_obs(good, tag='cfg%d' % os.getpid())
    it = iter(mo_good)
    mo = [next(it) if 'err' not in c else [] for c in cases]
    t2 = time.time()
    res = analyze(cases, mo)
    inv, ninv = inventory()
    for p in PROPS:
        for msg in inv[p]:
            res['props'][p]['mismatches'].insert(0, dict(trace=-1, step=0, what=msg, impl='source of /repo', model='model records'))
        res['props'][p]['steps'] += ninv
    res['histograms']['inventory_items_compared'] = ninv
    # what an omitted section or field deserialises to, against the documented defaults
    for msg in documented_defaults():
        res['props']['C19']['monitor_fails'].append(dict(trace=-1, step=0, msg=msg))
    res['histograms']['documented_defaults_compared'] = len(DOCUMENTED_DEFAULTS)
    smsgs, nrows = sentinel_probe()
    for msg in smsgs:
        res['props']['C19']['monitor_fails'].append(dict(trace=-1, step=0, msg=msg))
    res['histograms']['sentinel_probe_cases'] = nrows
    res.update(ntraces=len(cases), ncorpus=0, key=key, seed=seed, tier=tier,
               timing=dict(gen_s=round(t1 - t0, 1), model_s=round(t2 - t1, 1), analyze_s=round(time.time() - t2, 1)))
    keep = set()
    for p in PROPS:
        for m in res['props'][p]['mismatches'][:3] + res['props'][p]['monitor_fails'][:3]:
            if m['trace'] >= 0:
                keep.add(m['trace'])
    res['kept'] = {str(i): dict(cfg=cases[i]['cfg'], labels=cases[i]['labels'], profile=cases[i]['profile'],
                                obs=cases[i]['obs'], readable=describe(cases[i])) for i in keep}
    res['kept']['-1'] = dict(cfg=[], labels=[], profile='inventory')
    firsts = {}
    for c in cases:
        firsts.setdefault(c['profile'], c)
    res['samples'] = [describe(c) for c in list(firsts.values())[:5]]
    os.makedirs(os.path.dirname(cpath), exist_ok=True)
    json.dump(res, open(cpath, 'w'))
    res['cached'] = False
    return res


def replay(payload):
    tr = payload.get('trace') or {}
    if not tr.get('cfg'):
        inv, n = inventory()
        log('inventory (%d items): %s' % (n, json.dumps(inv, indent=1)))
        return
    ok, out = cargo_build()
    if not ok:
        log(out)
        return
    cases = replay_cases([tr])
    c = cases[0]
    if 'err' in c:
        log('harness: %s' % c['err'])
        return
    mo = model_obs(cases, tag='cfgrp%d' % os.getpid())[0]
    log('input: %s' % json.dumps(describe(c), ensure_ascii=False))
    for i, o in enumerate(c['obs']):
        m = mo[i] if i < len(mo) else None
        flag = '  ' if m == o else '~~'
        log('%s row %d impl  %s' % (flag, i, o))
        if m != o:
            log('   row %d model %s' % (i, m))
    log('correspondence (projection of %s): %s' % (prop_of(c), correspond(c, mo) or 'agrees'))
    log('monitor (property on the implementation alone): %s' % (monitor(c) or 'holds'))
