"""Managed engine: H1 traces on the real pool, the Coq model on the same labels, per-property
projections (correspondence) and monitors (the property evaluated on the implementation alone)."""
import glob, json, os, subprocess, sys, time
from collections import Counter

import common, corr, mobs
from common import VERIF, WORK, TARGET, log

NAME = 'managed'
PANIC_PROPS = ('C02',)   # properties whose statement excludes a panic of the pool's operations
RULE_PREFIX = ('random thread-level label sequences on the real pool (profiles core/resize/close/mixed, '
               'SplitMix64 from VERIF_SEED) plus corpus; each replayed in the Coq model by vm_compute and '
               'compared on the projection of this property after every label; non-trivial = distinct '
               'label sequence that ')
BIN = os.path.join(TARGET, 'debug', 'h1_managed')
BIN2 = os.path.join(TARGET, 'debug', 'h2_timeouts')
PROPS = ['C01', 'C02', 'C03', 'C04', 'C06', 'C07', 'C08', 'C09', 'C10', 'C11', 'C13']

# ------------------------------------------------------------------ batches
def batches(tier):
    if tier == 'thorough':
        return [('core', 2000, 130), ('resize', 1600, 130), ('close', 1000, 140), ('mixed', 1400, 160), ('order', 600, 0), ('long', 60, 0), ('mixed', 300, 420), ('resize', 200, 420)]
    return [('core', 150, 130), ('resize', 130, 130), ('close', 85, 130), ('mixed', 85, 150), ('order', 60, 0), ('long', 6, 0), ('mixed', 14, 420), ('resize', 10, 420)]


class HarnessDied(RuntimeError):
    """the harness process died (the pool aborted it, or the harness itself panicked); .trace = the input
    that was being executed, recovered from a second run that echoes every label before executing it"""
    def __init__(self, msg, trace=None):
        RuntimeError.__init__(self, msg)
        self.trace = trace


def recover_input(cmd, profile):
    env = dict(os.environ, VERIF_ECHO='1')
    try:
        p = subprocess.run(cmd, stdout=subprocess.DEVNULL, stderr=subprocess.PIPE, text=True, timeout=3000, env=env)
    except Exception:   # noqa
        return None
    cfg, labels = None, []
    for line in p.stderr.splitlines():
        if line.startswith('@cfg '):
            cfg, labels = json.loads(line[5:]), []
        elif line.startswith('@l ') and cfg is not None:
            labels.append(json.loads(line[3:]))
    if cfg is None:
        return None
    return dict(cfg=cfg, labels=labels, profile=profile)


ABORTED = []   # inputs during which the pool killed the harness process (filled by gen_traces)


def gen_traces(seed, profile, n, maxlabels):
    """n traces of a profile; a trace in which the harness process dies (the pool panicked while panicking, or
    poisoned something the harness needs) is recorded in ABORTED with its recovered input and generation carries
    on with the next trace"""
    traces, skip, died = [], 0, 0
    while skip < n:
        cmd = [BIN, 'gen', str(seed), str(n), profile, str(maxlabels), str(skip)]
        p = subprocess.run(cmd, stdout=subprocess.PIPE, stderr=subprocess.PIPE, text=True, timeout=3000)
        got = []
        for line in p.stdout.splitlines():
            try:
                got.append(json.loads(line))
            except ValueError:
                break
        traces += got
        if p.returncode == 0 and skip + len(got) == n:
            break
        died += 1
        msg = 'harness died in trace %d of profile %s (rc %d): %s' % (skip + len(got), profile, p.returncode, p.stderr[-400:])
        inp = recover_input(cmd, profile)
        if inp is None or died > 6:
            raise HarnessDied(msg, inp)
        ABORTED.append(dict(profile=profile, index=skip + len(got), msg=msg, trace=inp))
        skip += len(got) + 1
    for t in traces:
        t['profile'] = profile
    return traces


def gen_traces_exh(k, depth=60, max_edges=300000):
    """bounded-exhaustive thread-level exploration of scripted scenario k (one trace per edge)"""
    p = subprocess.run([BIN, 'exh', str(k), str(depth), str(max_edges)],
                       stdout=subprocess.PIPE, stderr=subprocess.PIPE, text=True, timeout=6000)
    traces = [json.loads(l) for l in p.stdout.splitlines() if l.strip()]
    for t in traces:
        t['profile'] = 'exh%d' % k
    if p.returncode != 0:
        raise RuntimeError('exhaustive exploration failed: %s' % p.stderr[-500:])
    return traces


def gen_traces_seq(max0, hooks, depth=8, max_edges=200000, stride=1):
    """bounded-exhaustive exploration of sequences of whole operations (non-blocking get, get with a rejected idle
    object, return, take, resize 0..3, retain, close, status), breadth first and pruned by the abstract pool state;
    one trace per (state, operation) edge, each followed by the drain and the capacity probe"""
    p = subprocess.run([BIN, 'seq', str(max0), str(hooks), str(depth), str(max_edges), str(stride)],
                       stdout=subprocess.PIPE, stderr=subprocess.PIPE, text=True, timeout=6000)
    traces = []
    for line in p.stdout.splitlines():
        try:
            traces.append(json.loads(line))
        except ValueError:
            break
    for t in traces:
        t['profile'] = 'seq%d.%d' % (max0, hooks)
    if p.returncode != 0:
        raise HarnessDied('sequential exploration died after %d traces (rc %d): %s' % (len(traces), p.returncode, p.stderr[-400:]),
                          traces[-1] if traces else None)
    return traces


def gen_traces_h2(seed, n, maxlabels):
    """task-level traces on a paused tokio clock (pool with a runtime; timeouts can fire)"""
    p = subprocess.run([BIN2, 'gen', str(seed), str(n), str(maxlabels)],
                       stdout=subprocess.PIPE, stderr=subprocess.PIPE, text=True, timeout=3000)
    traces = [json.loads(l) for l in p.stdout.splitlines() if l.strip()]
    for t in traces:
        t['profile'] = 'h2'
        t['kind'] = 'h2'
    if p.returncode != 0 or len(traces) != n:
        raise RuntimeError('h2 harness failed (rc %d, %d/%d traces): %s' % (p.returncode, len(traces), n, p.stderr[-500:]))
    return traces


def run_stress(n, seed=1):
    """free-running races on real threads (search aid for windows without a schedule point):
    four targeted pairs plus random pairs of operations on random reachable states, each followed
    by the at-rest clauses of the properties checked through the public API"""
    out = dict(runs=0, fails=[])
    for args in (['stress', str(n)], ['stress2', str(seed), str(4 * n)]):
        p = subprocess.run([BIN] + args, stdout=subprocess.PIPE, stderr=subprocess.PIPE, text=True, timeout=3000)
        if p.returncode != 0:
            raise RuntimeError('stress run failed: %s' % p.stderr[-500:])
        r = json.loads(p.stdout.strip().splitlines()[-1])
        out['runs'] += r['runs']
        out['fails'] += r['fails']
    return out


def build_table():
    p = subprocess.run([BIN2, 'build'], stdout=subprocess.PIPE, stderr=subprocess.PIPE, text=True, timeout=300)
    return [json.loads(l) for l in p.stdout.splitlines() if l.strip()]


def replay_traces(items):
    """items: list of dict(cfg, labels) -> traces with obs from the real code"""
    os.makedirs(WORK, exist_ok=True)
    path = os.path.join(WORK, 'replay_in_%d.jsonl' % os.getpid())
    with open(path, 'w') as f:
        for it in items:
            f.write(json.dumps({'cfg': it['cfg'], 'labels': it['labels']}) + '\n')
    # a kept trace carries its profile only: the paused-clock harness wrote the 'h2' ones
    for it in items:
        if it.get('profile') == 'h2' and not it.get('kind'):
            it['kind'] = 'h2'
    h2 = bool(items) and items[0].get('kind') == 'h2'
    p = subprocess.run([BIN2 if h2 else BIN, 'replay', path], stdout=subprocess.PIPE, stderr=subprocess.PIPE, text=True, timeout=3000)
    os.remove(path)
    traces = [json.loads(l) for l in p.stdout.splitlines() if l.strip()]
    if p.returncode != 0 or len(traces) != len(items):
        raise RuntimeError('harness replay failed: %s' % p.stderr[-500:])
    for t, it in zip(traces, items):
        if it.get('kind'):
            t['kind'] = it['kind']
        t['profile'] = it.get('profile', 'corpus')
        t['name'] = it.get('name', '')
        t['want_labels'] = it['labels']
    return traces


def load_corpus():
    items = []
    for p in sorted(glob.glob(os.path.join(VERIF, 'corpus', 'managed', '*.json'))):
        for line in open(p):
            line = line.strip()
            if line:
                it = json.loads(line)
                it['labels'] = [(l + [0] * 5)[:5] for l in it['labels']]
                it['profile'] = it.get('profile', 'corpus')
                items.append(it)
    return items


def mcfg(t):
    return t['cfg'] if t.get('kind') == 'h2' else t['cfg'] + [0]


def model_diff(traces, tag='d'):
    """per trace: index of the first label after which model and implementation differ (-1: none);
    H1 traces are replayed step by step, H2 (task-level) traces by macro steps"""
    res = [None] * len(traces)
    for kind, runner in (('h1', 'diff_case_z'), ('h2', 'diff_case_macro_z')):
        idx = [i for i, t in enumerate(traces) if t.get('kind', 'h1') == kind]
        if idx:
            cases = [(mcfg(traces[i]), traces[i]['labels'], traces[i]['obs']) for i in idx]
            for i, d in zip(idx, corr.run_diff(tag + kind, 'Managed.Decode', runner, cases, shard=30)):
                res[i] = d
    return res


def model_obs(traces, tag='m'):
    res = [None] * len(traces)
    for kind, runner in (('h1', 'run_case_z'), ('h2', 'run_case_macro_z')):
        idx = [i for i, t in enumerate(traces) if t.get('kind', 'h1') == kind]
        if idx:
            cases = [(mcfg(traces[i]), traces[i]['labels']) for i in idx]
            for i, m in zip(idx, corr.run_model(tag + kind, 'Managed.Decode', runner, cases, shard=25)):
                res[i] = m
    return res


# ------------------------------------------------------------------ projections
METRIC_FIELDS = {2: (2, 3), 3: (3, 4), 6: (3, 4), 7: (2, 3)}


def evs(d, kinds, metrics=False):
    out = []
    for e in d['events']:
        if e[0] in kinds:
            if not metrics and e[0] in METRIC_FIELDS:
                e = list(e)
                for i in METRIC_FIELDS[e[0]]:
                    e[i] = 0
                e = tuple(e)
            out.append(e)
    return out


def idle_ids(d):
    return [i[0] for i in d['idle']]


PROJ = {
    # live objects / creation
    'C01': lambda d: (d['alive'], d['permits'], d['size'], d['max'], len(d['idle']), d['tasks'],
                      evs(d, {1, 11, 5, 6, 9})),
    # capacity: permits, debt, users, results
    'C02': lambda d: (d['alive'], d['permits'], d['debt'], d['users'], d['closed'], d['max'], d['tasks']),
    # abandoning get: all counters, detach / destroy
    'C03': lambda d: (d['alive'], d['permits'], d['debt'], d['users'], d['size'], len(d['idle']), d['tasks'],
                      evs(d, {4, 5, 10})),
    # call protocol and results
    'C04': lambda d: (d['tasks'], evs(d, {1, 2, 3, 4, 5, 6, 11})),
    'C06': lambda d: (d['alive'], d['closed'], d['max'], idle_ids(d), d['tasks'], evs(d, {4, 5, 6, 10})),
    'C07': lambda d: (d['alive'], d['max'], d['size'], d['debt'], d['permits'], idle_ids(d), d['tasks'],
                      evs(d, {4, 5, 6, 11, 1})),
    'C08': lambda d: (idle_ids(d), d['tasks'], evs(d, {1, 2, 3, 4, 6, 7, 11})),
    'C09': lambda d: (d['alive'], d['size'], d['permits'], d['debt'], idle_ids(d), d['tasks'],
                      evs(d, {4, 5, 7, 8, 9})),
    'C10': lambda d: (d['alive'], d['permits'], d['users'], d['size'], d['debt'], d['closed'], idle_ids(d), d['tasks'],
                      evs(d, {1, 4, 5, 6, 11})),
    'C11': lambda d: (d['alive'], d['size'], d['max'], d['users'], len(d['idle']), d['tasks'], evs(d, {10})),
    'C13': lambda d: (d['idle'], d['tasks'], evs(d, {2, 3, 6, 7, 12}, metrics=True)),
}


# ------------------------------------------------------------------ monitors
class Track:
    """ground truth reconstructed from the implementation's own events"""

    def __init__(self, t):
        self.cfg = t['cfg']
        self.max0 = t['cfg'][0]
        self.live = set()       # objects that exist and belong to the pool or a caller of it
        self.held = set()       # objects in callers' hands
        self.detached = Counter()
        self.destroyed = set()
        self.removed = set()
        self.created = set()
        self.handouts = Counter()
        self.resized = False
        self.closed_started = False


def has_label(t, pred):
    return any(pred(l) for l in t['labels'])


def is_rc(l):
    return l[0] == 0 and l[2] in (3, 5)


def monitor_trace(t, P):
    """returns dict prop -> first failure (step, message) for the monitors that apply"""
    fails = {}

    def fail(p, i, msg):
        if p not in fails:
            fails[p] = (i, msg)

    tr = Track(t)
    norc = not has_label(t, is_rc)
    max0 = t['cfg'][0]
    npre, npost, npc = t['cfg'][3], t['cfg'][5], t['cfg'][7]
    # per object verification state for C04: list of calls since last return
    since = {}
    pool_dropped = False
    last_metrics = {}     # oid -> (rcount, recsome) as last reported by Object::metrics / handout
    closed_done_at = None
    get_started_after_close = set()
    close_tasks = set()
    ops = {}
    taking = set()
    is_h2 = t.get('kind') == 'h2'   # task level: the label's task is not the one that makes the calls
    at_call = {}          # task -> (oid, name of the step whose outcome it is waiting for)
    zero_decided = {}     # zero-wait get -> (closed, permits, step) when its try_acquire ran
    recycling = {}        # task -> object whose Manager::recycle it is waiting for
    start_at = {}         # task -> index of its Start label
    quiet_pending = {}    # cancelled quiet get -> index of its Start label (C03)
    cancelled_tasks = set()   # gets that were abandoned (future dropped, or a panic of the manager / a hook)
    failed_step = {}      # oid -> name of the verification step that failed (C04)
    expect_res = {}       # task -> (result code, why, name) after a failing create / post_create hook
    for i, (l, d) in enumerate(zip(t['labels'], P)):
        # C04 error table: a failing create answers Backend, a failing post_create hook PostCreateHook
        if l[0] == 2 and l[2] == 1 and not is_h2 and i > 0 and l[1] < len(P[i - 1]['tasks']):
            gate = P[i - 1]['tasks'][l[1]]
            if gate == 50:
                expect_res[l[1]] = (104, 'Manager::create failed', 'Backend')
            elif 60 <= gate < 70:
                expect_res[l[1]] = (105, 'post_create hook %d failed' % (gate - 60), 'PostCreateHook')
        for tt, (want, why, wname) in list(expect_res.items()):
            if tt < len(d['tasks']) and d['tasks'][tt] >= 100:
                got = d['tasks'][tt]
                if got not in (want, 108, 109):
                    fail('C04', i, 'get of task %d: %s, it answered code %d, expected %s' % (tt, why, got - 100, wname))
                del expect_res[tt]
        if l[0] == 2 and l[2] != 0 and i > 0 and l[1] < len(P[i - 1]['tasks']) and P[i - 1]['tasks'][l[1]] == 30 \
                and l[1] in recycling:
            failed_step[recycling[l[1]]] = 'recycle check'
        if l[0] == 3:
            cancelled_tasks.add(l[1])
            # C03, the quiet case: a get() that made no manager / hook call and was abandoned while no other task
            # moved leaves the books as they were before it started (paying shrink debt with a permit is allowed:
            # permits - debt is what counts); evaluated when the cancelled task has finished dropping its future
            j = start_at.get(l[1])
            if not is_h2 and j is not None and j > 0 and ops.get(l[1], [0, 0, -1])[2] == 0 \
                    and all(l2[1] == l[1] and l2[0] in (0, 1, 3) for l2 in t['labels'][j:i + 1]) \
                    and not any(P[k2]['events'] for k2 in range(j, i + 1)):
                quiet_pending[l[1]] = j
        for tt, j in list(quiet_pending.items()):
            if l[1] != tt or l[0] not in (1, 3) or d['events'] or not d['alive'] or not P[j - 1]['alive']:
                del quiet_pending[tt]
            elif tt < len(d['tasks']) and d['tasks'][tt] >= 100:
                del quiet_pending[tt]
                b0, b1 = P[j - 1], d
                books0 = (b0['permits'] - b0['debt'], b0['size'], b0['max'], b0['users'], b0['idle'], b0['closed'])
                books1 = (b1['permits'] - b1['debt'], b1['size'], b1['max'], b1['users'], b1['idle'], b1['closed'])
                if books0 != books1:
                    fail('C03', i, 'the get() of task %d (steps %d-%d, no manager call, nobody else moved) was abandoned and '
                                   'left (permits - debt, size, max_size, users, idle, closed) = %s, before it: %s'
                         % (tt, j, i, books1, books0))
        if l[0] == 2 and l[2] == 2:
            cancelled_tasks.add(l[1])
        if l[0] == 2 and l[1] in at_call:
            # the manager / hook answers: a failure or a panic ends the verification of this object
            oid_c, name_c = at_call.pop(l[1])
            if l[2] != 0 and oid_c is not None:
                failed_step[oid_c] = name_c
        if l[0] == 3:
            oc = at_call.pop(l[1], None)
            if oc is not None and oc[0] is not None:
                failed_step[oc[0]] = oc[1] + ' (cancelled)'
        if l[0] == 0:
            ops[l[1]] = l
            start_at[l[1]] = i
            if l[2] in (1, 2):
                tr.held.discard(l[3])
            if l[2] == 2:
                taking.add(l[3])
            if l[2] == 5:
                close_tasks.add(l[1])
            if l[2] == 7:
                pool_dropped = True
            if l[2] == 0 and closed_done_at is not None:
                get_started_after_close.add(l[1])
        for e in d['events']:
            k = e[0]
            if k == 11:
                tr.live.add(e[1]); tr.created.add(e[1]); since[e[1]] = [('create', 0)]
            elif k == 5:
                if e[1] in tr.destroyed:
                    fail('C09', i, 'object %d destroyed twice' % e[1])
                tr.live.discard(e[1]); tr.destroyed.add(e[1])
                # detach discipline (C09 / C03 / C04): destroyed by the pool => detached exactly once,
                # unless the pool itself is gone
                if not pool_dropped and tr.detached[e[1]] != 1 and e[1] not in tr.removed:
                    fail('C09', i, 'object %d destroyed by the pool with %d detach calls' % (e[1], tr.detached[e[1]]))
                    if l[0] in (1, 3) and l[1] in cancelled_tasks and not is_h2:
                        fail('C03', i, 'the abandoned get of task %d dropped object %d with %d detach calls' % (
                            l[1], e[1], tr.detached[e[1]]))
                    if l[0] == 1 and l[1] in close_tasks and not is_h2:
                        fail('C06', i, 'close() released idle object %d with %d detach calls' % (e[1], tr.detached[e[1]]))
            elif k == 4:
                tr.detached[e[1]] += 1
                if tr.detached[e[1]] > 1:
                    fail('C09', i, 'object %d detached %d times' % (e[1], tr.detached[e[1]]))
                if e[1] in tr.held:
                    fail('C09', i, 'checked-out object %d detached' % e[1])
            elif k == 9:
                tr.removed.add(e[1]); tr.live.discard(e[1]); taking.discard(e[1])
                if tr.detached[e[1]] != 1 and not pool_dropped:
                    fail('C09', i, 'object %d handed to the caller with %d detach calls' % (e[1], tr.detached[e[1]]))
            elif k == 6:
                oid = e[1]
                tr.held.add(oid); tr.handouts[oid] += 1
                if oid in tr.destroyed or oid in tr.removed:
                    fail('C04', i, 'object %d handed out after it was discarded' % oid)
                if oid in failed_step:
                    fail('C04', i, 'object %d handed out although its %s failed' % (oid, failed_step[oid]))
                # C04: verified since last return
                calls = since.get(oid, [])
                if calls and calls[0][0] == 'create':
                    want = [('create', 0)] + [('postcreate', k2) for k2 in range(npc)]
                else:
                    want = [('pre', k2) for k2 in range(npre)] + [('recycle', 0)] + [('post', k2) for k2 in range(npost)]
                if calls != want:
                    fail('C04', i, 'object %d handed out after calls %s, expected %s' % (oid, calls, want))
                since[oid] = None
                # C13: recycle_count == number of hand-outs - 1, recycled present iff reused
                if e[3] != tr.handouts[oid] - 1:
                    fail('C13', i, 'object %d handed out with recycle_count %d after %d hand-outs' % (oid, e[3], tr.handouts[oid]))
                if (e[4] == 1) != (e[3] > 0):
                    fail('C13', i, 'object %d: recycled stamp present=%d with recycle_count %d' % (oid, e[4], e[3]))
                last_metrics[oid] = (e[3], e[4])
                if e[2] in get_started_after_close:
                    fail('C06', i, 'get started after close() returned yielded object %d' % oid)
            elif k == 2:
                oid = e[1]
                if since.get(oid) is None:
                    since[oid] = []
                since[oid].append(('recycle', 0))
                recycling[e[4]] = oid
                if oid in failed_step:
                    fail('C04', i, 'recycle() called on object %d after its %s failed' % (oid, failed_step[oid]))
                if not is_h2:
                    at_call[l[1]] = (oid, 'recycle check')
                if oid in last_metrics and (e[2], e[3]) != last_metrics[oid]:
                    fail('C13', i, 'recycle() of %d saw metrics %s, last reported %s' % (oid, (e[2], e[3]), last_metrics[oid]))
            elif k == 3:
                oid = e[2]
                kind, kk = e[1] // 10, e[1] % 10
                if since.get(oid) is None:
                    since[oid] = []
                since[oid].append(({0: 'pre', 2: 'post', 4: 'postcreate'}[kind], kk))
                hname = '%s hook %d' % ({0: 'pre_recycle', 2: 'post_recycle', 4: 'post_create'}[kind], kk)
                if oid in failed_step:
                    fail('C04', i, '%s called on object %d after its %s failed' % (hname, oid, failed_step[oid]))
                if not is_h2:
                    at_call[l[1]] = (oid, hname)
                if kind in (0, 2) and oid in last_metrics and (e[3], e[4]) != last_metrics[oid]:
                    fail('C13', i, 'hook on %d saw metrics %s, last reported %s' % (oid, (e[3], e[4]), last_metrics[oid]))
            elif k == 7:
                oid = e[1]
                if oid in last_metrics and (e[2], e[3]) != last_metrics[oid]:
                    fail('C13', i, 'retain() saw metrics %s of %d, Object::metrics last reported %s' % ((e[2], e[3]), oid, last_metrics[oid]))
                if oid in tr.held:
                    fail('C09', i, 'retain() was shown checked-out object %d' % oid)
            elif k == 8:
                # RetainResult: retained = the idle objects still in the pool, removed = the ones handed over
                # (the Removed events of this step)
                nrem = sum(1 for e2 in d['events'] if e2[0] == 9)
                if e[1] != len(d['idle']) or e[2] != nrem:
                    fail('C09', i, 'retain() reported retained %d / removed %d; %d idle objects stayed, %d were handed over'
                         % (e[1], e[2], len(d['idle']), nrem))
            elif k == 12:
                why = {1: 'created changed', 2: 'recycled went back to None', 3: 'recycled moved backwards',
                       4: 'recycled is before created',
                       5: 'the recycled stamp of a reused object is older than the start of the get that reused it'}
                fail('C13', i, 'metrics of object %d: %s' % (e[1], why.get(e[2], 'anomaly %s' % e[2])))
            elif k == 10:
                # C11 plausibility at every schedule point
                mx, sz, av, wt = e[1:5]
                creating = sum(1 for c in d['tasks'] if c in (50, 9))
                inget = sum(1 for c in d['tasks'] if 2 <= c <= 11 or 20 <= c < 70)
                if sz > len(tr.live) + creating:
                    fail('C11', i, 'status.size %d exceeds objects existing or being created' % sz)
                if av > sz:
                    fail('C11', i, 'status.available %d > size %d' % (av, sz))
                if wt > inget:
                    fail('C11', i, 'status.waiting %d > callers inside get %d' % (wt, inget))
                # c11_chain: without resize / close max_size is the configured limit and size never exceeds it
                if norc and d['alive'] and (mx != max0 or sz > mx):
                    fail('C11', i, 'status() without resize/close: max_size %d (configured %d), size %d' % (mx, max0, sz))
                if min(mx, sz, av, wt) < 0 or max(mx, sz, av, wt) > 10 ** 6:
                    fail('C11', i, 'status counter wrapped: %s' % (e[1:5],))
                # exact at rest: every task is done or a getter queued on the semaphore
                if d['alive'] and all(c >= 100 or c in (3, 4) for j, c in enumerate(d['tasks']) if j != l[1]):
                    waiting = sum(1 for c in d['tasks'] if c in (3, 4))
                    exp = (d['max'], len(d['idle']) + len(tr.held), len(d['idle']), waiting)
                    if (mx, sz, av, wt) != exp:
                        fail('C11', i, 'status at rest %s, ground truth %s' % ((mx, sz, av, wt), exp))
                        ab = [j for j, l2 in enumerate(t['labels'][:i]) if l2[0] == 3 or (l2[0] == 2 and l2[2] == 2)]
                        if ab:
                            fail('C03', i, 'after the get() abandoned at step %d status() at rest reports %s, the '
                                           'ground truth is %s' % (ab[-1], (mx, sz, av, wt), exp))
        # C07: the step in which resize(n) commits (the locked region, one step) leaves max_size = n and no
        # idle object in excess of n: either size <= n or nothing idle is left to release
        if l[0] == 1 and not is_h2 and ops.get(l[1], [0, 0, -1])[2] == 3 and l[1] < len(d['tasks']) \
                and d['tasks'][l[1]] == 110 and i > 0 and l[1] < len(P[i - 1]['tasks']) and P[i - 1]['tasks'][l[1]] == 80 \
                and d['alive'] and not P[i - 1]['closed']:
            n = ops[l[1]][3]
            if d['max'] != n:
                fail('C07', i, 'resize(%d) returned with max_size %d' % (n, d['max']))
            if d['size'] > d['max'] and d['idle']:
                fail('C07', i, 'resize(%d) returned with size %d and idle objects %s kept' % (
                    n, d['size'], [o[0] for o in d['idle']]))
        if d['alive']:
            # counters never wrap
            for name in ('permits', 'size', 'max', 'users', 'debt'):
                if d[name] < 0 or d[name] > 10 ** 6:
                    fail('C11', i, '%s wrapped: %d' % (name, d[name]))
                    fail('C02', i, '%s wrapped: %d' % (name, d[name]))
        # C08: the idle queue only changes by removing elements (order of the rest kept) and by
        # appending at the back; a get offers the front (Fifo) / back (Lifo) element
        if d['alive'] and i > 0 and P[i - 1]['alive']:
            old_ids, new_ids = idle_ids(P[i - 1]), idle_ids(d)
            kept = [x for x in old_ids if x in new_ids]
            fresh = [x for x in new_ids if x not in old_ids]
            if new_ids != kept + fresh:
                fail('C08', i, 'idle queue went from %s to %s: order not preserved / not appended at the back' % (old_ids, new_ids))
            if l[0] == 1 and P[i - 1]['tasks'][l[1]] == 6 and len(old_ids) > len(new_ids) and old_ids:
                gone = [x for x in old_ids if x not in new_ids]
                want = old_ids[-1] if t['cfg'][1] else old_ids[0]
                if gone != [want]:
                    fail('C08', i, 'get popped %s from idle queue %s, queue mode %s offers %d' % (
                        gone, old_ids, 'Lifo' if t['cfg'][1] else 'Fifo', want))
            if any(e[0] == 1 for e in d['events']) and old_ids and l[0] == 1 and P[i - 1]['tasks'][l[1]] == 6:
                fail('C08', i, 'Manager::create called although idle objects %s were available' % old_ids)
        # C10: timeouts
        h2 = t.get('kind') == 'h2'
        for tt, c in enumerate(d['tasks']):
            op = ops.get(tt)
            if op is None or op[2] != 0:
                continue
            tk = op[3]
            w_, c_, r_ = tk % 3, (tk // 3) % 3, (tk // 9) % 3
            if c == 103:
                fail('C10', i, 'get of task %d returned Timeout(Recycle)' % tt)
                fail('C04', i, 'get of task %d returned Timeout(Recycle)' % tt)
            if h2 and c == 107:
                fail('C10', i, 'NoRuntimeSpecified although the pool has a runtime (task %d)' % tt)
            if c == 108 and tt not in cancelled_tasks and (w_, c_, r_) != (0, 0, 0):
                fail('C10', i, 'get of task %d with timeouts (wait %d, create %d, recycle %d) panicked by itself '
                               '(no scripted panic)' % (tt, w_, c_, r_))
            if c == 101 and w_ == 0:
                fail('C10', i, 'task %d answered Timeout(Wait) although no wait timeout applies to it' % tt)
            if c == 102 and c_ == 0:
                fail('C10', i, 'task %d answered Timeout(Create) although no create timeout applies to it' % tt)
            if w_ == 1 and c in (3, 4):
                fail('C10', i, 'get with a zero wait timeout is parked waiting for a slot (task %d)' % tt)
            # a zero wait timeout is decided by one try_acquire: what the semaphore looked like at that step
            if not h2 and w_ == 1 and l[0] == 1 and l[1] == tt and i > 0 and tt < len(P[i - 1]['tasks']) \
                    and (P[i - 1]['tasks'][tt] == 2 or 90 <= P[i - 1]['tasks'][tt] <= 98) and c in (10, 11) \
                    and tt not in zero_decided and (r_ == 0):
                zero_decided[tt] = (P[i - 1]['closed'], P[i - 1]['permits'], i)
            if not h2 and w_ == 1 and c in (101, 106) and tt in zero_decided:
                cl, pm, at = zero_decided.pop(tt)
                if c == 101 and cl:
                    fail('C10', i, 'zero wait timeout: task %d answered Timeout(Wait) although the pool was closed when '
                                   'its try_acquire ran (step %d)' % (tt, at))
                if c == 101 and not cl and pm > 0:
                    fail('C10', i, 'zero wait timeout: task %d answered Timeout(Wait) while %d permits were free (step %d)'
                         % (tt, pm, at))
                if c == 106 and not cl:
                    fail('C10', i, 'zero wait timeout: task %d answered Closed on an open pool (step %d)' % (tt, at))
            if not h2 and c >= 100:
                if r_ != 0 and c != 107:
                    fail('C10', i, 'recycle timeout without runtime: task %d ended with %d, not NoRuntimeSpecified' % (tt, c - 100))
                if r_ == 0 and w_ == 2 and c not in (107,):
                    fail('C10', i, 'finite wait timeout without runtime: task %d ended with %d, not NoRuntimeSpecified' % (tt, c - 100))
            if not h2 and c == 50 and c_ != 0:
                fail('C10', i, 'create timeout without runtime, but Manager::create was called (task %d)' % tt)
        if l[0] == 5 and i > 0:
            before = P[i - 1]['tasks'][l[1]] if l[1] < len(P[i - 1]['tasks']) else None
            after = d['tasks'][l[1]]
            if before == 3 and after != 101:
                fail('C10', i, 'wait deadline passed for task %d: state %s, expected Timeout(Wait)' % (l[1], after))
            if before == 50 and after != 102:
                fail('C10', i, 'create deadline passed for task %d: state %s, expected Timeout(Create)' % (l[1], after))
            if before == 30 and after == 103:
                fail('C10', i, 'recycle deadline passed for task %d: get ended with Timeout(Recycle)' % l[1])
            if before == 30 and not any(e[0] == 4 for e in d['events']):
                fail('C10', i, 'recycle deadline passed for task %d but the object was not discarded' % l[1])
        creating = sum(1 for c in d['tasks'] if c == 50)
        if norc and d['alive']:
            if len(tr.live - taking) + creating > max0:
                fail('C01', i, 'live objects %d (+%d being created) > max_size %d' % (len(tr.live - taking), creating, max0))
            if len(tr.held) > max0:
                fail('C01', i, '%d callers hold an object, max_size %d' % (len(tr.held), max0))
        # C02: a getter that is parked on the semaphore coexists with zero free permits
        if d['alive'] and not d['closed'] and any(c == 3 for c in d['tasks']) and d['permits'] > 0:
            fail('C02', i, 'a get() is parked while %d permits are free' % d['permits'])
        if any(c == 108 for j, c in enumerate(d['tasks'])):
            # a panic that the harness did not script (scripted ones are Env panic labels)
            scripted = any(l2[0] == 2 and l2[2] == 2 for l2 in t['labels'][:i + 1])
            if not scripted:
                fail('C02', i, 'operation panicked without a scripted panic')
        # C06: close
        if l[0] in (1,) and l[1] in close_tasks and d['tasks'][l[1]] == 110 and closed_done_at is None:
            closed_done_at = i
        if closed_done_at is not None and d['alive']:
            if not d['closed']:
                fail('C06', i, 'is_closed() false after close() returned')
            if d['max'] != 0:
                fail('C06', i, 'max_size %d after close() returned' % d['max'])
            # at rest (no operation in progress) a closed pool keeps no idle objects
            if d['idle'] and all(c >= 100 for c in d['tasks']):
                fail('C06', i, 'closed pool at rest keeps idle objects %s' % idle_ids(d))
    # C07 / C02: capacity probe at the end (Mark 2 .. Mark 3): max_size gets succeed, one more times out
    marks = [i for i, l in enumerate(t['labels']) if l[0] == 4]
    m2 = [i for i in marks if t['labels'][i][1] == 2]
    m3 = [i for i in marks if t['labels'][i][1] == 3]
    if m2 and m3:
        a, b = m2[0], m3[0]
        dfin = P[b]
        probe_tasks = [l[1] for l in t['labels'][a:b] if l[0] == 0 and l[2] == 0]
        res = [dfin['tasks'][pt] for pt in probe_tasks]
        cap = P[a]['max'] if not P[a]['closed'] else 0
        want_ok = min(cap, 6)
        # the harness probes with min(max_size, 6) + 1 non-blocking gets
        last = 106 if P[a]['closed'] else (101 if cap <= 6 else 100)
        exp = [100] * want_ok + [last]
        if res != exp:
            msg = 'capacity probe: results %s, expected %s (max_size %d)' % (res, exp, P[a]['max'])
            fail('C02', b, msg)
            fail('C07', b, msg)
            if any(l2[0] == 0 and l2[2] in (2, 4) for l2 in t['labels'][:a]):
                fail('C09', b, msg + ' after take()/retain()')
    return fails


# ------------------------------------------------------------------ non-triviality rules
def nontrivial(t):
    ls = t['labels']
    fault = any(l[0] == 2 and l[2] in (1, 2) for l in ls)
    cancel = any(l[0] == 3 for l in ls)
    resize = any(l[0] == 0 and l[2] == 3 for l in ls)
    close = any(l[0] == 0 and l[2] == 5 for l in ls)
    retain = any(l[0] == 0 and l[2] in (2, 4) for l in ls)
    blocked = any(c in (3, 4) for o in t['obs'] for c in [])  # filled by caller
    timeout = any(l[0] == 5 for l in ls) or any(l[0] == 0 and l[2] == 0 and l[3] != 0 for l in ls)
    return dict(fault=fault, cancel=cancel, resize=resize, close=close, retain=retain, timeout=timeout)


RULES = {
    'C01': ('contains a fault outcome, a cancellation or a take/retain', lambda n: n['fault'] or n['cancel'] or n['retain']),
    'C02': ('contains a fault outcome or a cancellation', lambda n: n['fault'] or n['cancel']),
    'C03': ('contains a cancellation or a panic outcome', lambda n: n['cancel'] or n['fault']),
    'C04': ('contains a failing create / recycle / hook outcome', lambda n: n['fault']),
    'C06': ('contains a close()', lambda n: n['close']),
    'C07': ('contains a resize()', lambda n: n['resize']),
    'C08': ('contains a fault outcome, retain/take or resize', lambda n: n['fault'] or n['retain'] or n['resize']),
    'C09': ('contains retain() or take()', lambda n: n['retain']),
    'C10': ('uses a zero or finite timeout (runtime present: a deadline fires; runtime absent: NoRuntimeSpecified paths)',
            lambda n: n['timeout']),
    'C11': ('contains a fault, cancellation, resize or close', lambda n: n['fault'] or n['cancel'] or n['resize'] or n['close']),
    'C13': ('contains a fault outcome or a cancellation', lambda n: n['fault'] or n['cancel']),
}


# ------------------------------------------------------------------ the engine run
def engine_key(seed, tier):
    h = [common.file_hash(BIN), common.file_hash(BIN2), common.vo_hash('Managed'), common.vo_hash('Common')]
    mine = [os.path.join(VERIF, 'lib', n) for n in ('managed.py', 'mobs.py', 'corr.py', 'common.py')]
    for p in mine + sorted(glob.glob(os.path.join(VERIF, 'corpus', 'managed', '*.json'))):
        h.append(common.file_hash(p))
    import hashlib
    return hashlib.sha1(('|'.join(h) + '|%s|%s' % (seed, tier)).encode()).hexdigest()[:16]


IMPLICIT = {90: 'Mutex::lock', 91: 'Semaphore::acquire', 92: 'Semaphore::try_acquire', 93: 'Semaphore::add_permits',
            94: 'Semaphore::close', 95: 'Semaphore::is_closed', 96: 'Semaphore::available_permits', 97: 'an atomic load',
            98: 'an atomic update'}


def analyze(traces, mobs_all):
    """-> summary per property"""
    summ = {p: dict(mismatches=[], monitor_fails=[], evaluations=0, nontrivial=set(), steps=0) for p in PROPS}
    label_hist = Counter()
    outcome_hist = Counter()
    result_hist = Counter()
    op_hist = Counter()
    implicit_seen = 0
    harness_errs = []
    for ti, (t, mo) in enumerate(zip(traces, mobs_all)):
        if 'err' in t:
            harness_errs.append((ti, t['err']))
        if t.get('want_labels') is not None and len(t['labels']) != len(t['want_labels']):
            harness_errs.append((ti, 'corpus trace %s stops after %d of %d labels' % (t.get('name'), len(t['labels']), len(t['want_labels']))))
        if t.get('want_labels') is not None and t['obs']:
            # a regression trace must still run its operations to the end: after a change of the schedule points
            # an old label sequence can silently stop short of the situation it was recorded for
            last = mobs.parse_obs(t['obs'][-1])['tasks']
            stuck = [j for j, c in enumerate(last) if c < 100 and c not in (3, 4)]
            if stuck:
                harness_errs.append((ti, 'corpus trace %s is stale: task(s) %s are left in the middle of an operation '
                                         '(codes %s)' % (t.get('name'), stuck, [last[j] for j in stuck])))
        P = [mobs.parse_obs(o) for o in t['obs']]
        M = None if mo is None else [mobs.parse_obs(o) if o is not None else None for o in mo]
        h = corr.trace_hash(t)
        nt = nontrivial(t)
        for l in t['labels']:
            label_hist[mobs.LNAMES[l[0]]] += 1
            if l[0] == 2:
                outcome_hist[['ok', 'err', 'panic'][l[2]]] += 1
            if l[0] == 0:
                op_hist[mobs.OPS[l[2]]] += 1
        if P:
            for c in P[-1]['tasks']:
                if c >= 100:
                    result_hist[c - 100] += 1
        implicit_seen += sum(1 for d in P for c in d['tasks'] if 90 <= c <= 98)
        fails = monitor_trace(t, P)
        for p in PROPS:
            s = summ[p]
            s['evaluations'] += 1
            s['steps'] += len(P)
            if RULES[p][1](nt):
                s['nontrivial'].add(h)
            if p in fails:
                s['monitor_fails'].append(dict(trace=ti, step=fails[p][0], msg=fails[p][1]))
            proj = PROJ[p]
            if M is None:
                continue  # the whole observation sequence equals the model's
            for i, d in enumerate(P):
                m = M[i] if i < len(M) else None
                if m is None:
                    s['mismatches'].append(dict(trace=ti, step=i, what='model: label not enabled', impl=None, model=None))
                    break
                a, b = proj(d), proj(m)
                if a != b:
                    what = 'projection differs'
                    imp = [(j, c) for j, c in enumerate(d['tasks']) if 90 <= c <= 98]
                    if imp:
                        what = ('implicit schedule point reached: task %d performs %s away from its explicit schedule point '
                                'and outside the lock region - a window the model (and the code it was written from) '
                                'does not have' % (imp[0][0], IMPLICIT.get(imp[0][1], imp[0][1])))
                    s['mismatches'].append(dict(trace=ti, step=i, what=what, impl=repr(a), model=repr(b)))
                    break
    for p in PROPS:
        summ[p]['nontrivial'] = len(summ[p]['nontrivial'])
    return dict(props=summ, histograms=dict(labels=dict(label_hist), outcomes=dict(outcome_hist),
                                            results={str(k): v for k, v in result_hist.items()},
                                            ops=dict(op_hist), implicit_schedule_points_reached=implicit_seen),
                harness_errs=harness_errs)


def run_engine(seed, tier):
    """build, generate, run model, analyze; cached per (binary, model, seed, tier)"""
    ok, out = common.cargo_build()
    if not ok or not os.path.exists(BIN):
        return dict(build_failed=True, log=out)
    key = engine_key(seed, tier)
    cpath = os.path.join(WORK, 'cache', 'managed_%s.json' % key)
    if os.path.exists(cpath):
        res = json.load(open(cpath))
        res['cached'] = True
        return res
    t0 = time.time()
    del ABORTED[:]
    traces = replay_traces(load_corpus()) if load_corpus() else []
    ncorpus = len(traces)
    for bi, (profile, n, ml) in enumerate(batches(tier)):
        traces += gen_traces(seed * 1000 + bi, profile, n, ml)
    traces += gen_traces_h2(seed * 1000 + 77, 2500 if tier == 'thorough' else 160, 45)
    exh_done = []
    for k in ((0, 1, 2, 3, 4, 5) if tier == 'thorough' else (0, 1, 3)):
        ex = gen_traces_exh(k)
        exh_done.append(dict(scenario=k, edges=len(ex)))
        traces += ex
    seq_done = []
    for (m0, hk) in (((2, 0), (3, 1), (1, 0), (2, 2)) if tier == 'thorough' else ((2, 0), (3, 1))):
        sq = gen_traces_seq(m0, hk)
        seq_done.append(dict(max_size=m0, hooks=hk, edges=len(sq)))
        traces += sq
    table = build_table()
    t1 = time.time()
    # fast path: the comparison of the full observation runs inside Coq; only for traces that
    # differ somewhere the model's observations are printed and compared per projection
    diffs = model_diff(traces, tag='d%d' % os.getpid())
    bad = [i for i, d in enumerate(diffs) if d >= 0]
    mo = [None] * len(traces)
    if bad:
        for i, m in zip(bad, model_obs([traces[i] for i in bad], tag='m%d' % os.getpid())):
            mo[i] = m
    t2 = time.time()
    res = analyze(traces, mo)
    res['full_obs_differ'] = len(bad)
    # PoolBuilder::build: error iff a pool-level timeout is configured and no runtime is given
    for row in table:
        want = 1 if (row['code'] != 0 and not row['runtime']) else 0
        if row['result'] != want:
            res['props']['C10']['monitor_fails'].append(dict(
                trace=-1, step=0, msg='build() with timeouts code %d, runtime %d returned %d, expected %d'
                % (row['code'], row['runtime'], row['result'], want)))
    res['aborted'] = list(ABORTED)
    res['build_table_rows'] = len(table)
    res['exhaustive_scenarios'] = exh_done
    res['sequential_exploration'] = seq_done
    st = run_stress(60000 if tier == 'thorough' else 5000, seed)
    res['stress_runs'] = st['runs']
    for f in st['fails']:
        pid = f.split(' ', 1)[0]
        if pid in res['props']:
            res['props'][pid]['monitor_fails'].append(dict(
                trace=-1, step=0, msg='free-running race (real threads, not deterministically replayable): ' + f))
    res.update(ntraces=len(traces), ncorpus=ncorpus, key=key, seed=seed, tier=tier,
               timing=dict(gen_s=round(t1 - t0, 1), model_s=round(t2 - t1, 1), analyze_s=round(time.time() - t2, 1)))
    # ---- search for a concrete failing input: model and implementation differ, but no monitor names a trace on
    # which a property fails. Look for one in a wider set of schedules (larger random batches with other seeds, the
    # smallest bounded-exhaustive scenario the quick tier leaves out), judged by the monitors on the implementation alone.
    if tier != 'thorough' and any(res['props'][p]['mismatches'] for p in PROPS) \
            and not any(res['props'][p]['monitor_fails'] for p in PROPS):
        t3 = time.time()
        extra = []
        try:
            for bi, (profile, n, ml) in enumerate([('core', 500, 60), ('resize', 500, 60), ('close', 400, 60),
                                                   ('mixed', 400, 60), ('order', 150, 60)]):
                extra += gen_traces(seed * 1000 + 910 + bi, profile, n, ml)
            extra += gen_traces_exh(4)
        except Exception as ex:      # the changed code may kill the harness: what was generated so far is used
            log('search for a failing input stopped: %s' % str(ex)[-200:])
        found = 0
        base = len(traces)
        for j, t in enumerate(extra):
            fails = monitor_trace(t, [mobs.parse_obs(o) for o in t['obs']])
            for p, (stp, msg) in fails.items():
                if p in res['props'] and len(res['props'][p]['monitor_fails']) < 5:
                    res['props'][p]['monitor_fails'].append(dict(trace=base + j, step=stp, msg=msg))
                    found += 1
        traces = traces + extra
        res['search'] = dict(reason='correspondence divergence without a monitor failure', traces=len(extra),
                             monitor_failures_found=found, wall_s=round(time.time() - t3, 1))
    # keep the traces needed for replays and samples
    keep = set()
    for p in PROPS:
        for m in res['props'][p]['mismatches'][:3] + res['props'][p]['monitor_fails'][:3]:
            keep.add(m['trace'])
    res['kept'] = {str(i): dict(cfg=traces[i]['cfg'], labels=traces[i]['labels'], profile=traces[i]['profile']) for i in keep}
    res['samples'] = [dict(cfg=t['cfg'], profile=t['profile'], labels=[mobs.fmt_label(l) for l in t['labels'][:40]])
                      for t in traces[ncorpus:ncorpus + 2]]
    os.makedirs(os.path.dirname(cpath), exist_ok=True)
    json.dump(res, open(cpath, 'w'))
    res['cached'] = False
    return res


def replay(payload):
    tr = payload['trace']
    try:
        traces = replay_traces([tr])
    except RuntimeError as ex:
        # the process died: replay all labels but the last to show the state in which the last one kills it
        log('the harness process died while replaying the input (%d labels): %s' % (len(tr['labels']), str(ex)[-300:]))
        log('last label: %s; the history before it:' % mobs.fmt_label(tr['labels'][-1]))
        tr = dict(tr, labels=tr['labels'][:-1])
        try:
            traces = replay_traces([tr])
        except RuntimeError as ex2:
            log('... dies as well without the last label: %s' % str(ex2)[-300:])
            return
    mo = model_obs(traces, tag='rp%d' % os.getpid())
    t = traces[0]
    for i, (l, o) in enumerate(zip(t['labels'], t['obs'])):
        m = mo[0][i] if i < len(mo[0]) else None
        flag = '  ' if m == o else '!!'
        log('%s %3d %-26s impl  %s' % (flag, i, mobs.fmt_label(l), mobs.fmt_obs(o)))
        if m != o:
            log('   %3s %-26s model %s' % ('', '', mobs.fmt_obs(m) if m else 'label not enabled'))
    P = [mobs.parse_obs(o) for o in t['obs']]
    log('monitors: %s' % monitor_trace(t, P))
