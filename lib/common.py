"""Parts shared by all checks: Coq build and proof re-check, audit, cargo build, evidence,
verdicts and known findings."""
import glob, hashlib, json, os, re, subprocess, sys, time

VERIF = os.path.dirname(os.path.dirname(os.path.abspath(__file__)))
COQ = os.path.join(VERIF, 'coq')
WORK = os.path.join(VERIF, '.work')
TARGET = os.path.join(VERIF, '.cache', 'target')
HARNESS = os.path.join(VERIF, 'harness')
EVIDENCE = os.path.join(VERIF, 'evidence')
REPLAYS = os.path.join(VERIF, 'replays')

ALLOWED_AXIOMS = set()  # names of standard-library axioms a theorem may depend on (none used)

TRUSTED_BASE = [
    "Coq 8.16.1 kernel (coqc) incl. its vm_compute machine (used for the model evaluation in the "
    "correspondence step and for non-vacuity examples); native_compute is not used",
    "axioms: none - every property theorem prints 'Closed under the global context'",
    "the hand-written Coq model of the code (coq/theories/*/Model.v) - tied to /repo by the "
    "correspondence check of this run, not by a translator",
    "the Rust correspondence harness (harness/), its baton scheduler, scripted manager/hooks/servers, "
    "trace generator (SplitMix64 from VERIF_SEED) and the Python driver that diffs projections",
    "cfg(deadpool_verif) schedule points in /repo: assumed not to change behaviour other than by "
    "allowing a context switch; in verification builds the pools' Mutex, Semaphore and atomic counters are "
    "the thin wrappers of src/verif.rs (same std / tokio object inside; an operation that is not directly "
    "preceded by an explicit point and not under the pool lock is a schedule point of its own) - the "
    "properties are shown for the build with the guard on, the shipped build differs by these wrappers",
    "modelled, not verified: tokio::sync::Semaphore (batch_semaphore.rs 1.53.1: FIFO waiters served "
    "before the counter, close fails polls, Acquire::drop passes an assigned permit on), std Mutex / "
    "atomics (each lock region / RMW is one atomic step), Rust drop order of async fn state",
]


def sh(cmd, timeout=None, cwd=None, env=None):
    e = dict(os.environ)
    e.setdefault('CARGO_NET_OFFLINE', 'true')
    if env:
        e.update(env)
    try:
        p = subprocess.run(cmd, shell=isinstance(cmd, str), cwd=cwd, env=e, timeout=timeout,
                           stdout=subprocess.PIPE, stderr=subprocess.STDOUT, text=True)
        return p.returncode, p.stdout
    except subprocess.TimeoutExpired as ex:
        return 124, (ex.stdout or '') + '\nTIMEOUT'


def log(*a):
    print(*a, flush=True)


# ------------------------------------------------------------------ Coq
def coq_build(clean=False):
    mk, prj = os.path.join(COQ, 'Makefile'), os.path.join(COQ, '_CoqProject')
    if not os.path.exists(mk) or clean or os.path.getmtime(prj) > os.path.getmtime(mk):
        rc, out = sh('coq_makefile -f _CoqProject -o Makefile', cwd=COQ, timeout=120)
        if rc != 0:
            return False, out
    if clean:
        sh('make clean', cwd=COQ, timeout=300)
    rc, out = sh('make -j16', cwd=COQ, timeout=3000)
    return rc == 0, out


def coq_check_property(pid):
    """force re-check of Props/<pid>.v; returns dict(obligations, discharged, theorems, axioms, log, ok)"""
    rel = 'theories/Props/%s.v' % pid
    src = os.path.join(COQ, rel)
    vo = src[:-2] + '.vo'
    for ext in ('.vo', '.vok', '.vos', '.glob'):
        try:
            os.remove(src[:-2] + ext)
        except OSError:
            pass
    rc, out = sh('make %s' % (rel[:-2] + '.vo'), cwd=COQ, timeout=1800)
    text = open(src).read()
    theorems = re.findall(r'^\s*Theorem\s+(\w+)', text, re.M)
    printed = re.findall(r'^\s*Print Assumptions\s+(\w+)\s*\.', text, re.M)
    closed = out.count('Closed under the global context')
    axioms = []
    if 'Axioms:' in out:
        for m in re.finditer(r'Axioms:\n((?:.+\n)+?)(?=\S|\Z)', out):
            axioms.append(m.group(1))
    names = re.findall(r'^(\w[\w.\']*)\s*:', '\n'.join(axioms), re.M)
    bad_ax = [n for n in names if n not in ALLOWED_AXIOMS]
    ok = (rc == 0 and os.path.exists(vo) and set(theorems) <= set(printed)
          and closed + (1 if axioms and not bad_ax else 0) >= len(printed) and not bad_ax)
    # every theorem must also be closed by "exact"
    for th in theorems:
        m = re.search(r'Theorem\s+%s\b.*?Proof\.\s*(.*?)\s*Qed\.' % re.escape(th), text, re.S)
        if not m or not re.fullmatch(r'exact\s+[\w.@\']+\s*\.', m.group(1).strip()):
            ok = False
            out += '\nproperty theorem %s is not closed by a single exact' % th
    return dict(ok=ok, obligations=len(theorems), discharged=(len(theorems) if ok else 0),
                theorems=theorems, closed=closed, axioms=names, log=out[-3000:])


def coq_chk(pid):
    """independent re-check of the compiled property file and everything it depends on"""
    rc, out = sh(['coqchk', '-o', '-silent', '-Q', 'theories', 'DP', 'DP.Props.%s' % pid], cwd=COQ, timeout=3000)
    ok = (rc == 0 and '* Axioms: <none>' in out and 'type-in-type: <none>' in out
          and 'unsafe (co)fixpoints: <none>' in out and 'positivity is assumed: <none>' in out)
    return ok, out[-1500:]


FORBIDDEN = r'Admitted|admit|Axiom|Parameter|Conjecture|Unset Guard|bypass_check|type-in-type|impredicative-set|Unset Positivity|Unset Universe'


def coq_audit():
    """forbidden constructs in any file of the development (= the files listed in _CoqProject)"""
    files = [os.path.join(COQ, l.strip()) for l in open(os.path.join(COQ, '_CoqProject'))
             if l.strip().endswith('.v')]
    listed = set(os.path.realpath(f) for f in files)
    # a .v file under theories/ that is imported but not listed would escape: every file under
    # theories/ that has a compiled .vo next to it must be listed
    for root, _, names in os.walk(os.path.join(COQ, 'theories')):
        for n in names:
            if n.endswith('.vo') and os.path.realpath(os.path.join(root, n[:-1])) not in listed:
                files.append(os.path.join(root, n[:-1]))
    files.append(os.path.join(COQ, '_CoqProject'))
    files = [f for f in files if os.path.exists(f)]
    rc, out = sh(['grep', '-nE', FORBIDDEN] + files)
    rc2, out2 = sh(['grep', '-nE', r'^\s*(Variable|Variables|Hypothesis|Hypotheses)\b'] + files)
    return (out.strip() == '' and out2.strip() == ''), (out + out2)


# ------------------------------------------------------------------ Rust
def cargo_build():
    rc, out = sh('cargo build --offline 2>&1 | tail -40', cwd=HARNESS, timeout=3000,
                 env={'CARGO_TARGET_DIR': TARGET})
    return ('error' not in out.lower().split('warning')[0] and rc == 0 and 'could not compile' not in out), out


def file_hash(path):
    h = hashlib.sha1()
    with open(path, 'rb') as f:
        h.update(f.read())
    return h.hexdigest()


def vo_hash(sub):
    h = hashlib.sha1()
    for p in sorted(glob.glob(os.path.join(COQ, 'theories', sub, '*.v'))):
        h.update(open(p, 'rb').read())
    return h.hexdigest()


# ------------------------------------------------------------------ known findings
def load_known():
    p = os.path.join(VERIF, 'KNOWN_FINDINGS.json')
    if not os.path.exists(p):
        return {'known': [], 'fixed': []}
    return json.load(open(p))


# ------------------------------------------------------------------ evidence / verdict
def write_evidence(pid, tier, seed, coverage, wall, violations, assumptions=None, level='proof'):
    os.makedirs(EVIDENCE, exist_ok=True)
    ev = {
        'property_id': pid, 'tier': tier, 'seed': seed, 'level': level,
        'coverage': coverage, 'assumptions': assumptions or [], 'wall_s': round(wall, 2),
        'violations': violations,
    }
    with open(os.path.join(EVIDENCE, pid + '.json'), 'w') as f:
        json.dump(ev, f, indent=1)


def write_replay(pid, name, payload):
    d = os.path.join(REPLAYS, pid)
    os.makedirs(d, exist_ok=True)
    p = os.path.join(d, name)
    with open(p, 'w') as f:
        json.dump(payload, f, indent=1)
    return os.path.relpath(p, VERIF)
