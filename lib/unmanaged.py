"""Unmanaged engine: H1 traces on the real deadpool::unmanaged::Pool, the Coq model
(coq/theories/Unmanaged) on the same labels, per-property projections (correspondence) and monitors
(the property evaluated on the implementation's observations alone).

   python3 lib/unmanaged.py pretty <file.jsonl>      pretty-print harness output"""
import glob, hashlib, json, os, subprocess, sys, time
from collections import Counter

import common, corr
from common import VERIF, WORK, COQ, log

NAME = 'unmanaged'
PROPS = ['C05', 'C12', 'C10']   # C10: the unmanaged pool's single timeout (served together with the managed engine)
HARNESS = os.path.join(VERIF, 'harness-unmanaged')
TARGET = os.path.join(VERIF, '.cache', 'target-unmanaged')
BIN = os.path.join(TARGET, 'debug', 'h1_unmanaged')
BIN2 = os.path.join(TARGET, 'debug', 'h2_unmanaged')
RULE_PREFIX = ('random thread-level label sequences on the real unmanaged pool (profiles core/full/close/mixed, '
               'plus the merges of close() with one other operation: all 8415 in the thorough tier, a sample in quick; '
               'pools built by new / from_config / From<iterator>, SplitMix64 from VERIF_SEED) plus corpus, each '
               'ending in a drain phase and a probe through the public API; each replayed in the Coq model by '
               'vm_compute and compared on the projection of this property after every label; non-trivial = '
               'distinct label sequence that ')
TRUSTED_EXTRA = [
    "unmanaged engine: harness-unmanaged/ (baton scheduler shared with harness/), identity-tagged values with a "
    "logged destructor as ground truth; both tokio semaphores of the unmanaged pool are modelled as in the managed "
    "engine (FIFO waiters served before the counter; close wakes everybody; a closed semaphore fails the poll of "
    "an assigned waiter whose permit returns to the counter; add_permits on a closed semaphore still counts)",
    "unmanaged engine: the lock region of PoolInner::clear (size and available are reduced and the queue emptied) "
    "is one atomic step; a status() read racing into the middle of that region is not modelled",
    "unmanaged engine: the arm of timeout_get that uses a runtime timer is exercised by h2_unmanaged on a paused "
    "tokio clock at task level (every task runs until it parks; Fire = the clock is advanced to the strictly "
    "earliest deadline) and compared with Unmanaged/Macro.v; async-std timers are not exercised; Pool::default "
    "and the Weak upgrade failing (pool dropped while objects are out) are not exercised",
]


# ------------------------------------------------------------------ observations
def parse_obs(o):
    d = {}
    (d['permits'], d['closed'], d['spermits'], d['sclosed'], d['size'], d['avail'], d['max']) = o[0:7]
    i = 7
    for name in ('queue', 'held', 'loose'):
        n = o[i]; i += 1
        d[name] = list(o[i:i + n]); i += n
    nt = o[i]; i += 1
    d['tasks'] = list(o[i:i + nt]); i += nt
    ne = o[i]; i += 1
    d['events'] = [tuple(o[i + 5 * k:i + 5 * k + 5]) for k in range(ne)]
    i += 5 * ne
    assert i == len(o), (i, len(o), o)
    return d


LNAMES = {0: 'Start', 1: 'Step', 3: 'Cancel', 4: 'Mark', 5: 'Fire', 6: 'Tick'}
OPS = {0: 'Get', 1: 'Add', 2: 'Drop', 3: 'Take', 4: 'Close', 5: 'Status'}
GMODES = {0: 'get', 1: 'try_get', 2: 'timeout_get(None)', 3: 'timeout_get(0)', 4: 'timeout_get(700us)'}
RMODES = {0: 'remove', 1: 'try_remove', 2: 'timeout_remove(None)', 3: 'timeout_remove(0)', 4: 'timeout_remove(700us)'}
EVN = {5: 'Destroy', 6: 'HandOut', 7: 'CloseReturned', 8: 'HandBack', 9: 'Removed', 10: 'Status', 12: 'ANOMALY'}
PCN = {0: '-', 1: 'start', 2: 'get.acquire', 3: 'get.parked', 4: 'get.woken', 5: 'get.pop', 6: 'get.popped', 7: 'get.undo',
       13: 'add.parked', 14: 'add.woken', 15: 'add.push', 16: 'add.avail_inc', 17: 'add.add_permits',
       20: 'take.size_dec', 21: 'take.add_permits', 30: 'drop.avail_inc', 31: 'drop.add_permits',
       32: 'drop.clean_up', 33: 'drop.clear', 40: 'close.size_sem', 41: 'close.clear', 50: 'status.available',
       100: 'Ok', 101: 'Timeout', 102: 'Closed', 103: 'NoRuntime', 108: 'PANICKED', 109: 'Cancelled', 110: 'done'}


def fmt_label(l):
    k = l[0]
    if k == 0:
        op = l[2]
        if op == 0:
            return 'Start t%d %s' % (l[1], (RMODES if l[4] else GMODES).get(l[3], l[3]))
        if op == 1:
            return 'Start t%d %s(obj %d)' % (l[1], 'add' if l[4] else 'try_add', l[3])
        if op in (2, 3):
            return 'Start t%d %s(obj %d)' % (l[1], OPS[op], l[3])
        return 'Start t%d %s' % (l[1], OPS.get(op, op))
    if k == 4:
        return 'Mark %d' % l[1]
    return '%s t%d' % (LNAMES.get(k, k), l[1])


def fmt_obs(o):
    d = parse_obs(o)
    ev = ' '.join('%s%s' % (EVN.get(e[0], e[0]), list(e[1:])) for e in d['events'])
    return ('sem=%d%s size_sem=%d%s size=%d available=%d max=%d queue=%s held=%s handed_back=%s tasks=[%s] %s' % (
        d['permits'], '(closed)' if d['closed'] else '', d['spermits'], '(closed)' if d['sclosed'] else '',
        d['size'], d['avail'], d['max'], d['queue'], d['held'], d['loose'],
        ' '.join(PCN.get(c, str(c)) for c in d['tasks']), ev)).rstrip()


def pretty(path, out=sys.stdout):
    for line in open(path):
        line = line.strip()
        if not line:
            continue
        t = json.loads(line)
        out.write('trace %s cfg %s (ctor %s, max_size %d, pool timeout code %d) %s\n' % (
            t.get('id'), t['cfg'], {0: 'new', 1: 'from_config', 2: 'From<iter>'}.get(t['cfg'][0]), t['cfg'][1],
            t['cfg'][2], t.get('err', '')))
        for l, o in zip(t['labels'], t['obs']):
            out.write('  %-34s %s\n' % (fmt_label(l), fmt_obs(o)))
        try:
            P = [parse_obs(o) for o in t['obs']]
            out.write('  monitors: %s\n' % (monitor_trace(t, P) or 'all satisfied'))
        except Exception as ex:   # noqa
            out.write('  monitors: not evaluated (%s)\n' % ex)


# ------------------------------------------------------------------ harness
RACE_TOTAL = 17 * 495   # scenarios x merges of close()'s four labels with <= 8 labels of the other operation


def batches(tier):
    """(profile, number of traces, max random labels); 'race' = close() merged with one other operation in
    every possible way: all merges in the thorough tier, a seeded sample in the quick tier"""
    if tier == 'thorough':
        return [('core', 5000, 70), ('full', 4500, 70), ('close', 5000, 70), ('mixed', 3500, 90), ('race', RACE_TOTAL, 0)]
    return [('core', 120, 60), ('full', 90, 60), ('close', 110, 60), ('mixed', 70, 80), ('race', 60, 0)]


def cargo_build():
    rc, out = common.sh('cargo build --offline 2>&1 | tail -40', cwd=HARNESS, timeout=3000,
                        env={'CARGO_TARGET_DIR': TARGET})
    return ('error' not in out.lower().split('warning')[0] and rc == 0 and 'could not compile' not in out), out


def h2_batch(tier):
    return (4000, 40) if tier == 'thorough' else (220, 36)


def gen_traces_h2(seed, n, maxlabels):
    p = subprocess.run([BIN2, 'gen', str(seed), str(n), str(maxlabels)],
                       stdout=subprocess.PIPE, stderr=subprocess.PIPE, text=True, timeout=3000)
    traces = [json.loads(l) for l in p.stdout.splitlines() if l.strip()]
    for t in traces:
        t['profile'] = 'h2'
    if p.returncode != 0 or len(traces) != n:
        raise RuntimeError('h2_unmanaged failed (rc %d, %d/%d traces): %s' % (p.returncode, len(traces), n, p.stderr[-500:]))
    return traces


def gen_traces_seq(ctor, max0, ptmo, depth=8, max_edges=100000):
    """bounded-exhaustive exploration of sequences of whole operations (try_get / get / timeout_get / try_remove /
    try_add / add / re-add of a handed-back object / drop / take / close / status / abandoning a parked get or add),
    breadth first and pruned by the abstract pool state; one trace per (state, operation) edge plus drain and probe"""
    p = subprocess.run([BIN, 'seq', str(ctor), str(max0), str(ptmo), str(depth), str(max_edges)],
                       stdout=subprocess.PIPE, stderr=subprocess.PIPE, text=True, timeout=3000)
    traces = []
    for line in p.stdout.splitlines():
        try:
            traces.append(json.loads(line))
        except ValueError:
            break
    for t in traces:
        t['profile'] = 'seq'
    if p.returncode != 0:
        raise RuntimeError('sequential exploration failed (rc %d, %d traces): %s' % (p.returncode, len(traces), p.stderr[-400:]))
    return traces


def gen_traces(seed, profile, n, maxlabels):
    p = subprocess.run([BIN, 'gen', str(seed), str(n), profile, str(maxlabels)],
                       stdout=subprocess.PIPE, stderr=subprocess.PIPE, text=True, timeout=3000)
    traces = [json.loads(l) for l in p.stdout.splitlines() if l.strip()]
    for t in traces:
        t['profile'] = profile
    if p.returncode != 0 or len(traces) != n:
        raise RuntimeError('harness failed (rc %d, %d/%d traces): %s' % (p.returncode, len(traces), n, p.stderr[-500:]))
    return traces


def is_h2(it):
    return bool(it.get('h2')) or it.get('profile') == 'h2'


def replay_traces(items):
    """replays thread-level items on h1_unmanaged and task-level (h2) items on h2_unmanaged"""
    os.makedirs(WORK, exist_ok=True)
    traces = [None] * len(items)
    for h2 in (False, True):
        idx = [i for i, it in enumerate(items) if is_h2(it) == h2]
        if not idx:
            continue
        path = os.path.join(WORK, 'ureplay_in_%d.jsonl' % os.getpid())
        with open(path, 'w') as f:
            for i in idx:
                f.write(json.dumps({'cfg': items[i]['cfg'], 'labels': items[i]['labels']}) + '\n')
        p = subprocess.run([BIN2 if h2 else BIN, 'replay', path], stdout=subprocess.PIPE, stderr=subprocess.PIPE,
                           text=True, timeout=3000)
        os.remove(path)
        got = [json.loads(l) for l in p.stdout.splitlines() if l.strip()]
        if p.returncode != 0 or len(got) != len(idx):
            raise RuntimeError('harness replay failed: %s' % p.stderr[-500:])
        for i, g in zip(idx, got):
            if h2:
                g['h2'] = 1
            traces[i] = g
    for t, it in zip(traces, items):
        t['profile'] = it.get('profile', 'corpus')
        t['name'] = it.get('name', '')
        t['want_labels'] = it['labels']
    return traces


def load_corpus():
    items = []
    for p in sorted(glob.glob(os.path.join(VERIF, 'corpus', 'unmanaged', '*.json'))) + \
            sorted(glob.glob(os.path.join(VERIF, 'findings', 'unmanaged_corpus*.replay'))):
        for line in open(p):
            line = line.strip()
            if line:
                it = json.loads(line)
                it['labels'] = [(l + [0] * 5)[:5] for l in it['labels']]
                it['profile'] = it.get('profile', 'corpus')
                items.append(it)
    return items


def ensure_model_built():
    """the Coq model must be compiled before coqc can evaluate it; no-op when up to date"""
    proj = os.path.join(COQ, '_CoqProject.unmanaged')
    mk = os.path.join(COQ, 'Makefile.unmanaged')
    vo = os.path.join(COQ, 'theories', 'Unmanaged', 'Decode.vo')
    srcs = glob.glob(os.path.join(COQ, 'theories', 'Unmanaged', '*.v'))
    if os.path.exists(vo) and all(os.path.getmtime(vo) >= os.path.getmtime(s) for s in srcs
                                  if os.path.basename(s) in ('Model.v', 'Obs.v', 'Decode.v')):
        return True, ''
    if not os.path.exists(proj):
        return False, 'coq/theories/Unmanaged is not compiled'
    if not os.path.exists(mk):
        common.sh('coq_makefile -f _CoqProject.unmanaged -o Makefile.unmanaged', cwd=COQ, timeout=120)
    rc, out = common.sh('make -f Makefile.unmanaged -j8 theories/Unmanaged/Decode.vo', cwd=COQ, timeout=1800)
    return rc == 0, out


def model_obs(traces, tag='u'):
    """thread-level traces through run_case_z, task-level (h2) traces through run_case_macro_z"""
    out = [None] * len(traces)
    for h2, module, runner in ((False, 'Unmanaged.Decode', 'run_case_z'), (True, 'Unmanaged.Macro', 'run_case_macro_z')):
        idx = [i for i, t in enumerate(traces) if is_h2(t) == h2]
        if not idx:
            continue
        res = corr.run_model(tag + ('m' if h2 else ''), module, runner,
                             [(traces[i]['cfg'], traces[i]['labels']) for i in idx], shard=25)
        for i, r in zip(idx, res):
            out[i] = r
    return out


# ------------------------------------------------------------------ projections
def evs(d, kinds):
    return [e for e in d['events'] if e[0] in kinds]


PROJ = {
    # identity and place of every object, both semaphores, counters, results, status
    'C05': lambda d: (d['permits'], d['spermits'], d['size'], d['avail'], d['max'], d['queue'], sorted(d['held']),
                      sorted(d['loose']), d['tasks'], evs(d, {5, 6, 8, 9, 10, 12})),
    # closing: flags, what the pool still holds, results, destructions and hand-backs
    'C12': lambda d: (d['closed'], d['sclosed'], d['queue'], sorted(d['loose']), d['tasks'],
                      evs(d, {5, 6, 7, 8, 9, 12})),
    # timeouts: what every call answers, whether it parks, and that the books are restored
    'C10': lambda d: (d['permits'], d['spermits'], d['size'], d['avail'], d['closed'], d['tasks'], evs(d, {6, 8, 10})),
}

PARKED = (3, 13)


def at_rest(tasks, skip=None):
    return all(c >= 100 or c in PARKED for j, c in enumerate(tasks) if j != skip)


# ------------------------------------------------------------------ monitors
def monitor_trace(t, P):
    """-> dict prop -> (step, message) of the first failure of that property's monitor"""
    fails = {}

    def fail(p, i, msg):
        if p not in fails:
            fails[p] = (i, msg)

    ctor, max0, ptmo = t['cfg'][0], t['cfg'][1], (t['cfg'][2] if t['cfg'][0] == 1 else 0)
    h2 = is_h2(t)                                   # task-level trace: an operation completes within its label
    has_rt = ctor == 1 and len(t['cfg']) > 3 and t['cfg'][3] != 0

    def eff_tmo(op):
        """effective timeout of a get-family call: 0 none, 1 zero, 2 finite"""
        m = op[3]
        return {0: ptmo, 1: 1, 2: 0, 3: 1, 4: 2}.get(m, 0)
    all_oids = set(range(max0)) if ctor == 2 else set()
    destroyed = set()
    excused = set()          # objects whose add() future the caller dropped
    ops = {}                 # task -> start label
    close_done = None
    started_after_close = set()
    returned_after_close = set()   # objects whose Object::drop began after close() had returned
    parked_at_close = set()
    decided = {}            # non-waiting get -> (closed, permits, step) when its semaphore operation was decided
    prev = None
    for i, (l, d) in enumerate(zip(t['labels'], P)):
        tasks = d['tasks']
        if l[0] == 0:
            ops[l[1]] = l
            if l[2] == 1:
                all_oids.add(l[3])
            if close_done is not None:
                started_after_close.add(l[1])
                if l[2] == 2:
                    returned_after_close.add(l[3])
        # ---- events
        for e in d['events']:
            if e[0] == 5:
                oid = e[1]
                if oid in destroyed:
                    fail('C05', i, 'object %d destroyed twice' % oid)
                destroyed.add(oid)
                by_cancel = (l[0] == 3 and ops.get(l[1], [0, 0, -1])[2] == 1 and ops[l[1]][3] == oid)
                if by_cancel:
                    excused.add(oid)
                elif not d['closed']:
                    fail('C05', i, 'object %d was dropped while the pool is open' % oid)
            elif e[0] in (6, 9) and e[1] in returned_after_close:
                # "objects returned later are dropped": the only caller that can still be served is one that took
                # its permit before the close and has not popped yet
                fail('C12', i, 'object %d was returned after close() had returned and was handed out again (to task %d, %s)'
                     % (e[1], e[2], fmt_label(ops[e[2]]) if e[2] in ops else '?'))
            elif e[0] == 12:
                fail('C05', i, 'harness anomaly %s: an object came back with a different identity or twice' % (e,))
            elif e[0] == 8:
                if e[3] == 2 and not d['closed']:
                    fail('C12', i, 'add of object %d refused with Closed on an open pool' % e[1])
                # add() waits while the pool is full and is refused only by a closed pool; try_add() is
                # refused by a full pool (Timeout) or a closed one
                opl = ops.get(e[2])
                if opl is not None and opl[2] == 1:
                    allowed = (2,) if opl[4] == 1 else (1, 2)
                    if e[3] not in allowed:
                        fail('C05', i, '%s of object %d handed the object back with error code %d (1 Timeout, 2 Closed, '
                                       '3 NoRuntimeSpecified): %s' % ('add()' if opl[4] == 1 else 'try_add()', e[1], e[3],
                                       'add() waits for a slot, only a closed pool refuses' if opl[4] == 1 else 'only Timeout (full) or Closed'))
        # ---- identity: one place at a time
        places = d['queue'] + d['held'] + d['loose']
        if len(set(places)) != len(places):
            fail('C05', i, 'an object is in two places: queue %s held %s handed back %s' % (d['queue'], d['held'], d['loose']))
        if destroyed & set(places):
            fail('C05', i, 'destroyed object(s) %s still in circulation' % sorted(destroyed & set(places)))
        if not set(places) <= all_oids:
            fail('C05', i, 'unknown object(s) %s' % sorted(set(places) - all_oids))
        if at_rest(tasks):
            parked_adds = [ops[j][3] for j, c in enumerate(tasks) if c == 13]
            everything = sorted(places + parked_adds + sorted(destroyed))
            if everything != sorted(all_oids):
                fail('C05', i, 'at rest the objects %s are accounted for, added were %s (lost or duplicated)' % (everything, sorted(all_oids)))
        # ---- counters
        for name in ('permits', 'spermits', 'size'):
            if d[name] < 0 or d[name] > 10 ** 6:
                fail('C05', i, '%s wrapped: %d' % (name, d[name]))
                fail('C12', i, '%s wrapped: %d' % (name, d[name]))
        if abs(d['avail']) > 10 ** 6:
            fail('C05', i, 'available wrapped: %d' % d['avail'])
        if d['size'] > d['max']:
            fail('C05', i, 'size %d > max_size %d' % (d['size'], d['max']))
        if len(d['queue']) + len(d['held']) > d['max']:
            fail('C05', i, '%d objects in the pool or checked out, max_size %d' % (len(d['queue']) + len(d['held']), d['max']))
        if d['size'] < len(d['queue']) + len(d['held']):
            fail('C05', i, 'size %d < %d objects in the pool or checked out' % (d['size'], len(d['queue']) + len(d['held'])))
        if not d['closed']:
            # one permit per queued object: free + held by a getter that has not popped yet + not yet
            # released by the thread that pushed
            hp = sum(1 for c in tasks if c in (4, 5))
            pp = sum(1 for c in tasks if c in (30, 31, 16, 17))
            if d['permits'] + hp + pp != len(d['queue']):
                fail('C05', i, 'permits %d + holders %d + pending releases %d != queued objects %d' % (d['permits'], hp, pp, len(d['queue'])))
                fail('C12', i, 'a getter holds a permit that no queued object backs (permits %d, holders %d, pending %d, queue %d)' % (d['permits'], hp, pp, len(d['queue'])))
            # free slots: max_size - size - reserved
            hs = sum(1 for c in tasks if c in (14, 15, 21))
            if d['spermits'] + d['size'] + hs != d['max']:
                fail('C05', i, 'free slots %d + size %d + reserved %d != max_size %d' % (d['spermits'], d['size'], hs, d['max']))
            if any(c == 3 for c in tasks) and d['permits'] > 0:
                fail('C05', i, 'a get() is parked while %d objects are available' % d['permits'])
        if not d['sclosed'] and any(c == 13 for c in tasks) and d['spermits'] > 0:
            fail('C05', i, 'an add() is parked while %d slots are free' % d['spermits'])
        # ---- the deciding step of add / try_add
        if l[0] == 1 and prev is not None and l[1] < len(prev['tasks']) and prev['tasks'][l[1]] == 1 \
                and ops.get(l[1], [0, 0, -1])[2] == 1:
            op = ops[l[1]]
            code = tasks[l[1]]
            full = prev['spermits'] == 0
            if not prev['sclosed']:
                if op[4] == 0 and (code == 101) != full:
                    fail('C05', i, 'try_add answered %s with %d free slots' % (PCN.get(code, code), prev['spermits']))
                if op[4] == 1 and (code == 13) != full:
                    fail('C05', i, 'add %s with %d free slots' % ('parked' if code == 13 else 'did not wait', prev['spermits']))
            if code in (101, 102):
                if op[3] not in d['loose'] or not any(e[0] == 8 and e[1] == op[3] for e in d['events']):
                    fail('C05', i, 'refused add did not hand object %d back' % op[3])
        # ---- status() exact at rest: both loads happen while nothing else is in progress
        for e in d['events']:
            if e[0] == 10 and ((l[0] == 1 and i >= 1 and t['labels'][i - 1][:2] == [1, l[1]]) or (h2 and l[0] == 0)) \
                    and at_rest(tasks, skip=l[1]):
                waiting = sum(1 for c in tasks if c == 3)
                exp = (d['max'], len(d['queue']) + len(d['held']), len(d['queue']), waiting)
                if tuple(e[1:5]) != exp:
                    fail('C05', i, 'status at rest (max_size, size, available, waiting) = %s, ground truth %s' % (tuple(e[1:5]), exp))
        # ---- C12
        for j, c in enumerate(tasks):
            if c == 108:
                fail('C12', i, 'operation of task %d panicked' % j)
            if c >= 100 and j in ops:
                allowed = {0: (100, 101, 102, 103, 109), 1: (100, 101, 102, 109)}.get(ops[j][2], (110,))
                if c not in allowed:
                    fail('C12', i, 'task %d (%s) ended with code %d' % (j, fmt_label(ops[j]), c))
        if (l[0] == 1 or h2) and ops.get(l[1], [0, 0, -1])[2] == 4 and l[1] < len(tasks) and tasks[l[1]] == 110 \
                and close_done is None:
            close_done = i
            parked_at_close = {j for j, c in enumerate(tasks) if c in (3, 4, 13, 14)}
        # ---- C10: the single timeout
        for j, c in enumerate(tasks):
            if j not in ops or ops[j][2] != 0:
                continue
            e = eff_tmo(ops[j])
            newly = c >= 100 and (prev is None or j >= len(prev['tasks']) or prev['tasks'][j] < 100)
            # the deciding semaphore operation of a call that does not wait: what the pool looked like then
            if not h2 and e == 1 and prev is not None and j < len(prev['tasks']) and l[0] == 1 and l[1] == j \
                    and (prev['tasks'][j] in (1, 2) or 90 <= prev['tasks'][j] <= 98) and (c == 7 or c >= 100) \
                    and j not in decided:
                decided[j] = (prev['closed'], prev['permits'], i)
            if newly and c == 101 and j in decided:
                cl, pm, at = decided[j]
                if cl:
                    fail('C10', i, '%s answered Timeout although the semaphore was closed when it was decided (step %d): '
                                   'Closed is the documented answer' % (fmt_label(ops[j]), at))
                    fail('C12', i, '%s answered Timeout on a pool that close() had already closed (decided at step %d)'
                         % (fmt_label(ops[j]), at))
                elif pm > 0:
                    fail('C10', i, '%s answered Timeout while %d objects were available (decided at step %d)'
                         % (fmt_label(ops[j]), pm, at))
            if e == 1 and c in (3, 4):
                fail('C10', i, '%s with a zero timeout is parked on the semaphore' % fmt_label(ops[j]))
            if e == 2 and not has_rt:
                if c in (3, 4, 5, 6):
                    fail('C10', i, '%s without a runtime went for the semaphore instead of answering NoRuntimeSpecified' % fmt_label(ops[j]))
                if newly and c not in (103, 109):
                    fail('C10', i, '%s without a runtime ended with %s, expected NoRuntimeSpecified' % (fmt_label(ops[j]), PCN.get(c, c)))
            if newly and c == 103 and not (e == 2 and not has_rt):
                fail('C10', i, '%s answered NoRuntimeSpecified (runtime %s)' % (fmt_label(ops[j]), 'present' if has_rt else 'absent'))
            if newly and c == 101:
                if e == 0:
                    fail('C10', i, '%s has no timeout and answered Timeout' % fmt_label(ops[j]))
                if e == 2 and not (l[0] == 5 and l[1] == j):
                    fail('C10', i, '%s answered Timeout before its deadline' % fmt_label(ops[j]))
                if h2 and e == 1 and prev is not None and prev['permits'] > 0 and not prev['closed']:
                    fail('C10', i, '%s answered Timeout while %d objects were available' % (fmt_label(ops[j]), prev['permits']))
        if l[0] == 5 and l[1] < len(tasks):
            # the deadline passed while the call was still waiting (task level: nothing else is in progress)
            want = 102 if d['closed'] else 101
            if tasks[l[1]] != want:
                fail('C10', i, 'deadline of %s passed: the call is %s, expected %s' % (
                    fmt_label(ops.get(l[1], l)), PCN.get(tasks[l[1]], tasks[l[1]]), PCN.get(want)))
            if prev is not None and not d['closed'] and (d['permits'], d['size'], d['avail'] - 1, d['queue']) != \
                    (prev['permits'], prev['size'], prev['avail'], prev['queue']):
                fail('C10', i, 'a timed-out get changed the pool: permits/size/available/queue %s -> %s' % (
                    (prev['permits'], prev['size'], prev['avail'], prev['queue']), (d['permits'], d['size'], d['avail'], d['queue'])))
        if (l[0] in (1, 3) or (h2 and l[0] in (0, 5))) and l[1] in ops and tasks[l[1]] >= 100 and (prev is None or l[1] >= len(prev['tasks']) or prev['tasks'][l[1]] < 100):
            op, code = ops[l[1]], tasks[l[1]]
            if code == 102 and not d['closed']:
                fail('C12', i, '%s answered Closed on an open pool' % fmt_label(op))
            if close_done is not None and op[2] in (0, 1) and code != 109 and \
                    (l[1] in started_after_close or l[1] in parked_at_close):
                norun = op[2] == 0 and (op[3] == 4 or (op[3] == 0 and ptmo == 2)) and not has_rt
                want = 103 if norun else 102
                if code != want:
                    when = 'started after' if l[1] in started_after_close else 'parked when'
                    fail('C12', i, '%s (%s close() returned) ended with %s' % (fmt_label(op), when, PCN.get(code, code)))
            if op[2] == 2 and d['closed'] and close_done is not None and l[1] in started_after_close:
                if d['queue']:
                    fail('C12', i, 'object %d returned to a closed pool stays in its queue %s' % (op[3], d['queue']))
                in_transit = any(c in (6, 20, 21) for c in tasks)     # popped by a getter that has not finished: judged at its hand-out
                if op[3] not in destroyed and op[3] not in d['held'] and op[3] not in d['loose'] and not in_transit:
                    fail('C12', i, 'object %d returned to a closed pool is neither destroyed nor in a caller\'s hands' % op[3])
        if close_done is not None:
            if not (d['closed'] and d['sclosed']):
                fail('C12', i, 'pool not closed after close() returned')
            if at_rest(tasks) and d['queue']:
                fail('C12', i, 'closed pool at rest holds objects %s' % d['queue'])
        if d['closed'] and all(c >= 100 or c in (3, 4, 13, 14) for c in tasks) and d['queue']:
            fail('C12', i, 'closed pool with no operation in progress holds objects %s' % d['queue'])
        prev = d
    # ---- the probe through the public API between Mark 2 and Mark 3
    marks = {l[1]: i for i, l in enumerate(t['labels']) if l[0] == 4}
    if 2 in marks and 3 in marks:
        a, b = marks[2], marks[3]
        st = P[a]
        gets = [l[1] for l in t['labels'][a:b] if l[0] == 0 and l[2] == 0]
        adds = [l[1] for l in t['labels'][a:b] if l[0] == 0 and l[2] == 1]
        fin = P[b]['tasks']
        rg = [fin[j] for j in gets]
        ra = [fin[j] for j in adds]
        if st['closed']:
            eg, ea = [102], [102]
        else:
            eg = [100] * len(st['queue']) + [101]
            ea = [100] * (st['max'] - st['size']) + [101]
        if rg != eg[:len(rg)] or len(rg) != min(len(eg), 7):
            fail('C05', b, 'probe: try_get results %s, expected %s (queue %s)' % (rg, eg, st['queue']))
        if ra != ea[:len(ra)] or len(ra) != min(len(ea), 7):
            fail('C05', b, 'probe: try_add results %s, expected %s (size %d, max_size %d)' % (ra, ea, st['size'], st['max']))
        if st['closed'] and (rg != [102] or ra != [102]):
            fail('C12', b, 'probe on the closed pool: try_get %s, try_add %s' % (rg, ra))
    return fails


# ------------------------------------------------------------------ non-triviality rules
def nontrivial(t, P):
    ls = t['labels']
    cancel = any(l[0] == 3 for l in ls)
    take = any(l[0] == 0 and (l[2] == 3 or (l[2] == 0 and l[4] == 1)) for l in ls)
    refused = any(e[0] == 8 for d in P for e in d['events'])
    parked = any(c in PARKED for d in P for c in d['tasks'])
    close_race = False
    for l, d in zip(ls, P):
        if l[0] == 0 and l[2] == 4 and any(1 <= c < 100 for j, c in enumerate(d['tasks']) if j != l[1]):
            close_race = True
    ptmo = t['cfg'][2] if t['cfg'][0] == 1 else 0
    timeout = any(l[0] == 0 and l[2] == 0 and (l[3] in (1, 3, 4) or (l[3] == 0 and ptmo != 0)) for l in ls)
    fired = any(l[0] == 5 for l in ls)
    return dict(cancel=cancel, take=take, refused=refused, parked=parked, close_race=close_race, timeout=timeout,
                fired=fired)


RULES = {
    'C10': ('uses a zero or finite timeout (per call or pool level) on the unmanaged pool',
            lambda n: n.get('timeout', False)),
    'C05': ('contains a cancellation, a take/remove, a refused add or a caller parked on a full / empty pool',
            lambda n: n['cancel'] or n['take'] or n['refused'] or n['parked']),
    'C12': ('contains a close() issued while another operation is in progress or parked',
            lambda n: n['close_race']),
}


# ------------------------------------------------------------------ the engine run
def engine_key(seed, tier):
    h = [common.file_hash(BIN), common.file_hash(BIN2), common.vo_hash('Unmanaged'), common.vo_hash('Common')]
    for p in [os.path.join(VERIF, 'lib', n) for n in ('unmanaged.py', 'corr.py', 'common.py')] + \
            sorted(glob.glob(os.path.join(VERIF, 'corpus', 'unmanaged', '*.json'))) + \
            sorted(glob.glob(os.path.join(VERIF, 'findings', 'unmanaged_corpus*.replay'))):
        h.append(common.file_hash(p))
    return hashlib.sha1(('|'.join(h) + '|%s|%s' % (seed, tier)).encode()).hexdigest()[:16]


IMPLICIT = {90: 'Mutex::lock', 91: 'Semaphore::acquire', 92: 'Semaphore::try_acquire', 93: 'Semaphore::add_permits',
            94: 'Semaphore::close', 95: 'Semaphore::is_closed', 96: 'Semaphore::available_permits', 97: 'an atomic load',
            98: 'an atomic update'}


def analyze(traces, mobs_all):
    summ = {p: dict(mismatches=[], monitor_fails=[], evaluations=0, nontrivial=set(), steps=0) for p in PROPS}
    label_hist, op_hist, result_hist, ctor_hist = Counter(), Counter(), Counter(), Counter()
    harness_errs = []
    for ti, (t, mo) in enumerate(zip(traces, mobs_all)):
        if 'err' in t:
            harness_errs.append((ti, t['err']))
        if t.get('want_labels') is not None and len(t['labels']) != len(t['want_labels']):
            harness_errs.append((ti, 'corpus trace %s stops after %d of %d labels' % (t.get('name'), len(t['labels']), len(t['want_labels']))))
        if t.get('want_labels') is not None and t['obs']:
            last = parse_obs(t['obs'][-1])['tasks']
            stuck = [j for j, c in enumerate(last) if c < 100 and c not in PARKED]
            if stuck:
                harness_errs.append((ti, 'corpus trace %s is stale: task(s) %s are left in the middle of an operation'
                                     % (t.get('name'), stuck)))
        P = [parse_obs(o) for o in t['obs']]
        M = [parse_obs(o) if o is not None else None for o in mo]
        h = corr.trace_hash(t)
        nt = nontrivial(t, P)
        ctor_hist[{0: 'new', 1: 'from_config', 2: 'from_iter'}.get(t['cfg'][0], '?')] += 1
        for l in t['labels']:
            label_hist[LNAMES.get(l[0], str(l[0]))] += 1
            if l[0] == 0:
                op_hist[fmt_label(l).split(' ', 2)[2].split('(')[0]] += 1
        if P:
            for c in P[-1]['tasks']:
                if c >= 100:
                    result_hist[PCN.get(c, str(c))] += 1
        fails = monitor_trace(t, P)
        for p in PROPS:
            s = summ[p]
            s['evaluations'] += 1
            s['steps'] += len(P)
            if RULES[p][1](nt):
                s['nontrivial'].add(h)
            if p in fails:
                s['monitor_fails'].append(dict(trace=ti, step=fails[p][0], msg=fails[p][1]))
            proj = PROJ[p]
            for i, d in enumerate(P):
                m = M[i] if i < len(M) else None
                if m is None:
                    s['mismatches'].append(dict(trace=ti, step=i, what='model: label not enabled', impl=repr(proj(d)), model=None))
                    break
                a, b = proj(d), proj(m)
                if a != b:
                    what = 'projection differs'
                    imp = [(j, c) for j, c in enumerate(d['tasks']) if 90 <= c <= 98]
                    if imp:
                        what = ('implicit schedule point reached: task %d performs %s away from its explicit schedule point '
                                'and outside the lock region - a window the model (and the code it was written from) '
                                'does not have' % (imp[0][0], IMPLICIT.get(imp[0][1], imp[0][1])))
                    s['mismatches'].append(dict(trace=ti, step=i, what=what, impl=repr(a), model=repr(b)))
                    break
    for p in PROPS:
        summ[p]['nontrivial'] = len(summ[p]['nontrivial'])
    return dict(props=summ, histograms=dict(labels=dict(label_hist), ops=dict(op_hist), results=dict(result_hist),
                                            constructors=dict(ctor_hist)),
                harness_errs=harness_errs)


def run_engine(seed, tier):
    """build, generate, run model, analyze; cached per (binary, model, seed, tier)"""
    ok, out = cargo_build()
    if not ok or not os.path.exists(BIN):
        return dict(build_failed=True, log=out)
    ok, out = ensure_model_built()
    if not ok:
        return dict(build_failed=True, log='Coq model of the unmanaged pool does not build:\n' + out)
    key = engine_key(seed, tier)
    cpath = os.path.join(WORK, 'cache', 'unmanaged_%s.json' % key)
    if os.path.exists(cpath):
        res = json.load(open(cpath))
        res['cached'] = True
        return res
    t0 = time.time()
    corpus = load_corpus()
    traces = replay_traces(corpus) if corpus else []
    ncorpus = len(traces)
    for bi, (profile, n, ml) in enumerate(batches(tier)):
        traces += gen_traces(seed * 1000 + bi, profile, n, ml)
    seq_cfgs = ((0, 2, 0), (2, 2, 0), (1, 1, 1), (0, 1, 0), (1, 2, 2), (2, 3, 0)) if tier == 'thorough' else ((0, 2, 0), (1, 1, 1))
    for (ct, mx, pt) in seq_cfgs:
        traces += gen_traces_seq(ct, mx, pt)
    n2, ml2 = h2_batch(tier)
    traces += gen_traces_h2(seed * 1000 + 77, n2, ml2)
    # identical label sequences (frequent among the race merges) are evaluated once
    seen, uniq = set(), []
    for t in traces:
        h = corr.trace_hash(t)
        if h not in seen:
            seen.add(h)
            uniq.append(t)
    traces = uniq
    t1 = time.time()
    mo = model_obs(traces, tag='u%d' % os.getpid())
    t2 = time.time()
    res = analyze(traces, mo)
    res.update(ntraces=len(traces), ncorpus=ncorpus, key=key, seed=seed, tier=tier,
               timing=dict(gen_s=round(t1 - t0, 1), model_s=round(t2 - t1, 1), analyze_s=round(time.time() - t2, 1)))
    # ---- search for a concrete failing input: model and implementation differ, but no monitor names a trace on
    # which a property fails. Look for one in a wider set of schedules (every merge of close() with one other
    # operation, larger random batches), judged by the monitors on the implementation alone.
    if tier != 'thorough' and any(res['props'][p]['mismatches'] for p in PROPS) \
            and not any(res['props'][p]['monitor_fails'] for p in PROPS):
        t3 = time.time()
        extra = gen_traces(seed * 1000 + 904, 'race', RACE_TOTAL, 0)
        for bi, (profile, n, ml) in enumerate([('close', 700, 60), ('mixed', 500, 80), ('full', 400, 60)]):
            extra += gen_traces(seed * 1000 + 910 + bi, profile, n, ml)
        found = 0
        base = len(traces)
        for j, t in enumerate(extra):
            fails = monitor_trace(t, [parse_obs(o) for o in t['obs']])
            for p, (st, msg) in fails.items():
                if p in res['props'] and len(res['props'][p]['monitor_fails']) < 5:
                    res['props'][p]['monitor_fails'].append(dict(trace=base + j, step=st, msg=msg))
                    found += 1
        traces = traces + extra
        res['search'] = dict(reason='correspondence divergence without a monitor failure', traces=len(extra),
                             monitor_failures_found=found, wall_s=round(time.time() - t3, 1))
    keep = set()
    for p in PROPS:
        for m in res['props'][p]['mismatches'][:3] + res['props'][p]['monitor_fails'][:3]:
            keep.add(m['trace'])
    res['kept'] = {str(i): dict(cfg=traces[i]['cfg'], labels=traces[i]['labels'], profile=traces[i]['profile'],
                                h2=int(is_h2(traces[i]))) for i in keep}
    res['samples'] = [dict(cfg=t['cfg'], profile=t['profile'], labels=[fmt_label(l) for l in t['labels'][:40]])
                      for t in traces[ncorpus:ncorpus + 2]]
    os.makedirs(os.path.dirname(cpath), exist_ok=True)
    json.dump(res, open(cpath, 'w'))
    res['cached'] = False
    return res


def replay(payload):
    tr = payload['trace']
    cargo_build()
    ensure_model_built()
    traces = replay_traces([tr])
    mo = model_obs(traces, tag='urp%d' % os.getpid())
    t = traces[0]
    for i, (l, o) in enumerate(zip(t['labels'], t['obs'])):
        m = mo[0][i] if i < len(mo[0]) else None
        same = m is not None and all(PROJ[p](parse_obs(m)) == PROJ[p](parse_obs(o)) for p in PROPS)
        log('%s %3d %-34s impl  %s' % ('  ' if same else '!!', i, fmt_label(l), fmt_obs(o)))
        if not same:
            log('   %3s %-34s model %s' % ('', '', fmt_obs(m) if m else 'label not enabled'))
    if 'err' in t:
        log('harness: %s' % t['err'])
    P = [parse_obs(o) for o in t['obs']]
    log('monitors: %s' % (monitor_trace(t, P) or 'all satisfied'))


if __name__ == '__main__':
    if len(sys.argv) >= 3 and sys.argv[1] == 'pretty':
        pretty(sys.argv[2])
    else:
        print(__doc__)
