"""Parsing of managed-engine observations (flat int lists) into structured form."""
import json

def parse_obs(o):
    i = 0
    d = {}
    d['alive'], d['permits'], d['closed'], d['size'], d['max'], d['users'], d['debt'] = o[0:7]
    n = o[7]; i = 8
    d['idle'] = [tuple(o[i+3*k:i+3*k+3]) for k in range(n)]
    i += 3*n
    nt = o[i]; i += 1
    d['tasks'] = list(o[i:i+nt]); i += nt
    ne = o[i]; i += 1
    d['events'] = [tuple(o[i+5*k:i+5*k+5]) for k in range(ne)]
    i += 5*ne
    assert i == len(o), (i, len(o), o)
    return d

LNAMES = {0: 'Start', 1: 'Step', 2: 'Env', 3: 'Cancel', 4: 'Mark', 5: 'Fire', 6: 'Tick'}
OPS = {0: 'Get', 1: 'Drop', 2: 'Take', 3: 'Resize', 4: 'Retain', 5: 'Close', 6: 'Status', 7: 'DropPool'}
EVN = {1: 'CreateCall', 2: 'RecycleCall', 3: 'HookCall', 4: 'Detach', 5: 'Destroy', 6: 'HandOut',
       7: 'RetainSee', 8: 'RetainResult', 9: 'Removed', 10: 'Status', 11: 'Created', 12: 'ANOMALY'}

def fmt_label(l):
    k = l[0]
    if k == 0:
        return 'Start t%d %s(%d,%d)' % (l[1], OPS.get(l[2], l[2]), l[3], l[4])
    if k == 2:
        return 'Env t%d %s' % (l[1], ['Ok', 'Err', 'Panic'][l[2]])
    if k == 4:
        return 'Mark %d' % l[1]
    return '%s t%d' % (LNAMES[k], l[1])

def fmt_obs(o):
    d = parse_obs(o)
    ev = ' '.join('%s%s' % (EVN.get(e[0], e[0]), list(e[1:])) for e in d['events'])
    return 'alive=%d permits=%d closed=%d size=%d max=%d users=%d debt=%d idle=%s tasks=%s %s' % (
        d['alive'], d['permits'], d['closed'], d['size'], d['max'], d['users'], d['debt'], d['idle'], d['tasks'], ev)

if __name__ == '__main__':
    import sys
    for line in open(sys.argv[1]):
        t = json.loads(line)
        print('trace', t.get('id'), 'cfg', t['cfg'], t.get('err', ''))
        for l, o in zip(t['labels'], t['obs']):
            print('  %-28s %s' % (fmt_label(l), fmt_obs(o)))
