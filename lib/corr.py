"""Correspondence machinery shared by the checks: run the Coq model on label sequences
(inside coqc, vm_compute) and compare its observations with the implementation's."""
import json, os, re, subprocess, sys, time, hashlib
from concurrent.futures import ThreadPoolExecutor

VERIF = os.path.dirname(os.path.dirname(os.path.abspath(__file__)))
COQ = os.path.join(VERIF, 'coq')
WORK = os.path.join(VERIF, '.work')
TARGET = os.path.join(VERIF, '.cache', 'target')


def sh(cmd, timeout=None, cwd=None, env=None):
    e = dict(os.environ)
    if env:
        e.update(env)
    p = subprocess.run(cmd, shell=isinstance(cmd, str), cwd=cwd, env=e, timeout=timeout,
                       stdout=subprocess.PIPE, stderr=subprocess.STDOUT, text=True)
    return p.returncode, p.stdout


def zlist(l):
    return '[' + ';'.join(str(int(x)) if x >= 0 else '(%d)' % x for x in l) + ']'


def write_cases_v(path, module, runner, cases):
    """cases: list of (cfg ints, labels list of int lists)"""
    with open(path, 'w') as f:
        f.write('From Coq Require Import List ZArith.\nImport ListNotations.\nOpen Scope Z_scope.\n')
        f.write('From DP Require Import %s.\n' % module)
        f.write('Definition cases : list (list Z * list (list Z)) := [\n')
        f.write(';\n'.join('(%s, [%s])' % (zlist(c), ';'.join(zlist(l) for l in ls)) for c, ls in cases))
        f.write('].\n')
        f.write('Eval vm_compute in (map %s cases).\n' % runner)


_num = re.compile(r'-?\d+')


def parse_coq_lists(text):
    """parse '= [[1; 2]; [3]] : list (list Z)' into python lists"""
    i = text.index('=')
    j = text.rindex(':')
    body = text[i + 1:j]
    body = body.replace('%Z', '').replace(';', ',').replace('(', '').replace(')', '')
    return json.loads(body)


def split_obs(flat):
    """flat model output -> list of obs (None once the model says 'not enabled')"""
    out = []
    i = 0
    while i < len(flat):
        n = flat[i]
        if n < 0:
            out.append(None)
            break
        out.append(flat[i + 1:i + 1 + n])
        i += 1 + n
    return out


def write_diff_v(path, module, runner, cases):
    """cases: list of (cfg ints, labels, observations)"""
    with open(path, 'w') as f:
        f.write('From Coq Require Import List ZArith.\nImport ListNotations.\nOpen Scope Z_scope.\n')
        f.write('From DP Require Import %s.\n' % module)
        f.write('Definition cases : list (list Z * list (list Z) * list (list Z)) := [\n')
        f.write(';\n'.join('(%s, [%s], [%s])' % (zlist(c), ';'.join(zlist(l) for l in ls), ';'.join(zlist(o) for o in os_))
                            for c, ls, os_ in cases))
        f.write('].\n')
        f.write('Eval vm_compute in (map %s cases).\n' % runner)


def run_diff(tag, module, runner, cases, shard=40, jobs=16, timeout=900):
    """The comparison itself runs inside Coq: for every case the index of the first label after
    which the model's observation differs from the implementation's (-1: none)."""
    os.makedirs(WORK, exist_ok=True)
    shards = [cases[i:i + shard] for i in range(0, len(cases), shard)]
    paths = []
    for k, sh_cases in enumerate(shards):
        p = os.path.join(WORK, 'diff_%s_%d.v' % (tag, k))
        write_diff_v(p, module, runner, sh_cases)
        paths.append(p)

    def one(p):
        rc, out = sh(['coqc', '-noglob', '-Q', os.path.join(COQ, 'theories'), 'DP', p], timeout=timeout, cwd=WORK)
        if rc != 0:
            raise RuntimeError('coqc failed on %s:\n%s' % (p, out[-2000:]))
        i = out.index('=')
        j = out.rindex(':')
        return json.loads(out[i + 1:j].replace('%Z', '').replace(';', ',').replace('(', '').replace(')', ''))

    res = []
    with ThreadPoolExecutor(max_workers=jobs) as ex:
        for r in ex.map(one, paths):
            res.extend(r)
    for p in paths:
        for ext in ('.v', '.vo', '.vok', '.vos', '.glob'):
            try:
                os.remove(p[:-2] + ext)
            except OSError:
                pass
    assert len(res) == len(cases), (len(res), len(cases))
    return res


def run_model(tag, module, runner, cases, shard=150, jobs=16, timeout=900):
    """Evaluate the model on all cases inside Coq. Returns list (per case) of obs lists."""
    os.makedirs(WORK, exist_ok=True)
    shards = [cases[i:i + shard] for i in range(0, len(cases), shard)]
    paths = []
    for k, sh_cases in enumerate(shards):
        p = os.path.join(WORK, 'cases_%s_%d.v' % (tag, k))
        write_cases_v(p, module, runner, sh_cases)
        paths.append(p)

    def one(p):
        rc, out = sh(['coqc', '-noglob', '-Q', os.path.join(COQ, 'theories'), 'DP', p],
                     timeout=timeout, cwd=WORK)
        if rc != 0:
            raise RuntimeError('coqc failed on %s:\n%s' % (p, out[-2000:]))
        return parse_coq_lists(out)

    res = []
    with ThreadPoolExecutor(max_workers=jobs) as ex:
        for r in ex.map(one, paths):
            res.extend(r)
    for p in paths:
        for ext in ('.v', '.vo', '.vok', '.vos', '.glob'):
            try:
                os.remove(p[:-2] + ext)
            except OSError:
                pass
    assert len(res) == len(cases), (len(res), len(cases))
    return [split_obs(r) for r in res]


def trace_hash(t):
    return hashlib.sha1(json.dumps([t['cfg'], t['labels']]).encode()).hexdigest()[:12]
