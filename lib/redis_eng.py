"""redis engine (C17): a real deadpool_redis::Pool against a scripted RESP2 server on loopback TCP
(harness-redis, H5), the Coq model Mgr/Redis.v evaluated on the same labels (correspondence, compared
after every label), and monitors that evaluate C17 on the implementation's observations alone."""
import hashlib, json, os, subprocess, time
from collections import Counter

import common, corr
import pg as _pg
from common import VERIF, WORK, COQ, log

NAME = 'redis'
PROPS = ['C17']
HARNESS = os.path.join(VERIF, 'harness-redis')
TARGET = os.path.join(VERIF, '.cache', 'target-redis')
BIN = os.path.join(TARGET, 'debug', 'h5_redis')
MODEL_FILES = ['Redis.v', 'RedisObs.v']
RULE_PREFIX = ('seeded random histories (profiles mixed/faults, SplitMix64 from VERIF_SEED) of get / use (WATCH, GET, '
               'SET, UNWATCH) / return / Connection::take on a real deadpool_redis::Pool connected to a scripted RESP2 '
               'server on 127.0.0.1 that answers every recycle PING per script (echo, stale or wrong value as bulk / '
               'simple string / integer, nil, error, hang-up), may fail UNWATCH, refuse a connect or hang up at any '
               'time, and keeps the WATCH state of every connection; each history replayed in the Coq model by '
               'vm_compute and compared after every label (result incl. the connection handed out and its WATCH '
               'state, status, per-connection server state, commands received per connection); non-trivial = '
               'distinct history that ')
RULES = {'C17': ('contains a recycle answered with something other than the right echo (stale / wrong value, nil, '
                 'error, failed UNWATCH, hang-up) or a WATCH left behind by the previous user', None)}
TRUSTED_EXTRA = [
    "redis engine: redis-rs 0.28.2 and the RESP wire format are an ORACLE - what the scripted server answers to the "
    "next PING / UNWATCH / connect and when it hangs up are inputs (labels) of the model; that redis-rs reports an "
    "error reply anywhere in the pipeline, a nil reply or EOF as Err, decodes bulk / simple-string / integer replies "
    "carrying v into the String v, and sends the pipeline as UNWATCH followed by PING <n> is assumed as modelled and "
    "validated only by the differential run",
    "redis engine: the scripted RESP2 server (loopback TCP), its per-connection command log and WATCH flag; the "
    "connection a get() returned is identified by a CLIENT ID command the harness sends on it (answered with the "
    "server's number of the connection, logged with the WATCH flag at that moment); one operation at a time on a "
    "current-thread tokio runtime (task level); the idle queue itself is not observed, only which connection the "
    "next get() receives",
    "redis engine: pool-side bookkeeping at thread level (detach / size / permits under interleaving) is the managed "
    "engine's (C09); here Connection::take is compared with the task-level model of Object::take",
]

ANOMALIES = {905: 'get() returned a connection that does not answer', 906: 'the same connection was handed out twice'}

LNAMES = {0: 'get', 1: 'return', 2: 'take', 3: 'use', 4: 'script PING', 5: 'script UNWATCH error', 6: 'script connect refused',
          7: 'server hangs up'}
USE = ['WATCH', 'GET', 'SET', 'UNWATCH']
PMODE = ['echo', 'bulk', 'simple', 'integer', 'nil', 'error', 'hang-up']
CMD = {1: 'UNWATCH', 2: 'PING', 3: 'WATCH', 4: 'GET', 5: 'SET', 6: 'CLIENT ID', 9: 'other'}


def fmt_label(l):
    if l[0] == 3:
        return 'use[%d, %s]' % (l[1], USE[l[2] % 4])
    if l[0] == 4:
        return 'script PING[%d, %s%s]' % (l[1], PMODE[min(l[2], 6)], (' %d' % l[3]) if 1 <= l[2] <= 3 else '')
    return '%s%s' % (LNAMES.get(l[0], '?'), l[1:] if len(l) > 1 else '')


def cargo_build():
    rc, out = common.sh('cargo build --offline 2>&1 | tail -40', cwd=HARNESS, timeout=3000)
    ok = rc == 0 and 'could not compile' not in out and 'error' not in out.lower().split('warning')[0]
    return ok, out


def ensure_coq():
    return _pg.ensure_coq(MODEL_FILES)


def batches(tier):
    if tier == 'thorough':
        return [('mixed', 18000, 90), ('faults', 18000, 90), ('long', 12, 0)]
    return [('mixed', 1200, 45), ('faults', 1200, 45), ('long', 2, 0)]


def gen_traces(seed, profile, n, maxlabels):
    p = subprocess.run([BIN, 'gen', str(seed), str(n), profile, str(maxlabels)],
                       stdout=subprocess.PIPE, stderr=subprocess.PIPE, text=True, timeout=3000)
    traces = [json.loads(l) for l in p.stdout.splitlines() if l.strip()]
    for t in traces:
        t['profile'] = profile
    if p.returncode != 0 or len(traces) != n:
        raise RuntimeError('harness failed (rc %d, %d/%d traces): %s' % (p.returncode, len(traces), n, p.stderr[-500:]))
    return traces


def replay_traces(items):
    os.makedirs(WORK, exist_ok=True)
    path = os.path.join(WORK, 'redis_replay_in_%d.jsonl' % os.getpid())
    with open(path, 'w') as f:
        for it in items:
            f.write(json.dumps({'cfg': it['cfg'], 'labels': it['labels']}) + '\n')
    p = subprocess.run([BIN, 'replay', path], stdout=subprocess.PIPE, stderr=subprocess.PIPE, text=True, timeout=3000)
    os.remove(path)
    traces = [json.loads(l) for l in p.stdout.splitlines() if l.strip()]
    if p.returncode != 0 or len(traces) != len(items):
        raise RuntimeError('harness replay failed: %s' % p.stderr[-500:])
    for t, it in zip(traces, items):
        t['profile'] = it.get('profile', 'replay')
    return traces


def model_obs(traces, tag):
    cases = [(t['cfg'], t['labels']) for t in traces]
    return corr.run_model(tag, 'Mgr.RedisObs', 'run_case_z', cases, shard=60)


# ------------------------------------------------------------------ observations
def parse_obs(o):
    d = dict(res=tuple(o[0:3]), max=o[3], size=o[4], avail=o[5])
    nc = o[6]
    i = 7
    d['conns'] = [(o[i + 2 * j], o[i + 2 * j + 1]) for j in range(nc)]
    i += 2 * nc
    nm = o[i]
    i += 1
    cmds = []
    for _ in range(nm):
        ln = o[i]
        cmds.append(tuple(o[i + 1:i + 1 + ln]))
        i += 1 + ln
    d['cmds'] = cmds
    na = o[i]
    d['anom'] = list(o[i + 1:i + 1 + na])
    return d


FIELDS = [('res', 'result of the operation'), ('max', 'status.max_size'), ('size', 'status.size'),
          ('avail', 'status.available'), ('conns', '(server hung up, WATCH in effect) per connection'),
          ('cmds', 'commands received by the server'), ('anom', 'harness anomalies')]


def first_diff(a, b):
    for f, name in FIELDS:
        if a[f] != b[f]:
            return '%s: impl %s, model %s' % (name, a[f], b[f])
    return None


def fmt_cmd(c):
    s = 'c%d %s' % (c[0], CMD.get(c[1], '?'))
    if c[1] == 2:
        s += ' %d -> %s' % (c[2], c[4] if c[3] else 'no value')
    if c[1] == 6:
        s += ' (watch=%d)' % c[2]
    return s


def fmt_obs(d):
    if d is None:
        return 'label not enabled'
    return 'res=%s max=%d size=%d avail=%d conns=%s cmds=[%s]%s' % (
        list(d['res']), d['max'], d['size'], d['avail'], d['conns'], '; '.join(fmt_cmd(c) for c in d['cmds']),
        (' ANOMALY %s' % d['anom']) if d['anom'] else '')


# ------------------------------------------------------------------ monitor (C17 on the implementation alone)
def monitor_trace(t, P):
    held, taken, seen, gone = set(), set(), set(), set()
    last_ping = -1
    armu = {}
    prev = None
    for i, (l, d) in enumerate(zip(t['labels'], P)):
        k = l[0]
        c = l[1] if len(l) > 1 else 0
        if d['anom']:
            return i, '; '.join(ANOMALIES.get(a, 'harness anomaly %d' % a) for a in d['anom'])
        by_conn = {}
        for m in d['cmds']:
            by_conn.setdefault(m[0], []).append(m)
        # every PING number is new for this manager: strictly increasing over the whole history
        for m in d['cmds']:
            if m[1] == 2:
                if m[2] <= last_ping:
                    return i, 'PING %d sent on connection %d, but %d was already used on this pool' % (m[2], m[0], last_ping)
                last_ping = m[2]
            if m[1] in (1, 2) and k != 0 and not (k == 3 and m[1] == 1):
                return i, 'recycle command %s outside get()' % fmt_cmd(m)
        if k == 0:
            handed = d['res'][1] if d['res'][0] == 1 else None
            if handed is not None:
                if handed in held or handed in taken or handed in gone:
                    return i, 'connection %d handed out although it is %s' % (
                        handed, 'checked out' if handed in held else ('taken' if handed in taken else 'discarded'))
                if handed < 0 or d['conns'][handed][0]:
                    return i, 'a connection the server has hung up on was handed out (%d)' % handed
                seq = by_conn.get(handed, [])
                if handed in seen:
                    ok = (len(seq) == 3 and seq[0][1] == 1 and seq[1][1] == 2 and seq[2][1] == 6)
                    if not ok:
                        return i, ('reused connection %d: the server must receive exactly UNWATCH, PING <n> before the '
                                   'hand-out, got [%s]' % (handed, '; '.join(fmt_cmd(x) for x in seq)))
                    if not (seq[1][3] == 1 and seq[1][4] == seq[1][2]):
                        return i, 'connection %d handed out although PING %d was answered with %s' % (
                            handed, seq[1][2], seq[1][4] if seq[1][3] else 'no value')
                    if armu.get(handed):
                        return i, 'connection %d handed out although UNWATCH was answered with an error' % handed
                    if seq[2][2] != 0 or d['res'][2] != 0:
                        return i, 'connection %d handed out with a WATCH still in effect' % handed
                else:
                    if not (len(seq) == 1 and seq[0][1] == 6 and seq[0][2] == 0):
                        return i, 'fresh connection %d: unexpected commands [%s]' % (handed, '; '.join(fmt_cmd(x) for x in seq))
                seen.add(handed)
                held.add(handed)
            for x, seq in by_conn.items():
                if any(m[1] == 1 for m in seq):
                    was_armed = armu.get(x)
                    armu[x] = 0
                else:
                    was_armed = 0
                if x == handed:
                    continue
                # a rejected connection: UNWATCH, PING n with a bad answer; never seen again
                if not (len(seq) == 2 and seq[0][1] == 1 and seq[1][1] == 2):
                    return i, 'get(): unexpected commands on connection %d: [%s]' % (x, '; '.join(fmt_cmd(m) for m in seq))
                good = seq[1][3] == 1 and seq[1][4] == seq[1][2] and not was_armed
                if good:
                    return i, 'connection %d answered PING %d correctly and was discarded' % (x, seq[1][2])
                gone.add(x)
            if d['res'] == (2, 1, 0) and prev is not None and len(held) < prev['max']:
                return i, 'get() timed out although only %d of %d connections are checked out' % (len(held), prev['max'])
        elif k == 1:
            held.discard(c)
        elif k == 2:
            held.discard(c)
            taken.add(c)
            if prev is not None and (d['size'], d['max']) != (prev['size'] - 1, prev['max']):
                return i, 'Connection::take: status went from size %d to %d' % (prev['size'], d['size'])
        elif k == 3:
            if l[2] % 4 == 3 and any(m[1] == 1 for m in d['cmds']):
                armu[c] = 0
        elif k == 5:
            armu[c] = 1
        # the pool's size is what is idle + checked out: never more than max_size connections are live
        if d['size'] > d['max'] or d['size'] < len(held):
            return i, 'status.size %d with %d connections checked out, max_size %d' % (d['size'], len(held), d['max'])
        prev = d
    return None


def nontrivial(t, P):
    bad = False
    for l, d in zip(t['labels'], P):
        if l[0] == 0:
            for m in d['cmds']:
                if m[1] == 2 and not (m[3] == 1 and m[4] == m[2]):
                    bad = True
    watch_left = False
    watching = set()
    for l in t['labels']:
        if l[0] == 3 and l[2] % 4 == 0:
            watching.add(l[1])
        if l[0] == 3 and l[2] % 4 == 3:
            watching.discard(l[1])
        if l[0] == 1 and l[1] in watching:
            watch_left = True
    return bad or watch_left


# ------------------------------------------------------------------ the engine run
def engine_key(seed, tier):
    h = [common.file_hash(BIN)]
    for f in MODEL_FILES:
        h.append(common.file_hash(os.path.join(COQ, 'theories', 'Mgr', f)))
    for p in ('redis_eng.py', 'pg.py', 'corr.py'):
        h.append(common.file_hash(os.path.join(VERIF, 'lib', p)))
    return hashlib.sha1(('|'.join(h) + '|%s|%s' % (seed, tier)).encode()).hexdigest()[:16]


def analyze(traces, mo):
    s = dict(mismatches=[], monitor_fails=[], evaluations=0, nontrivial=set(), steps=0)
    label_hist, res_hist, ping_hist, stats = Counter(), Counter(), Counter(), Counter()
    harness_errs = []
    for ti, (t, m) in enumerate(zip(traces, mo)):
        if 'err' in t:
            harness_errs.append((ti, t['err']))
        P = [parse_obs(o) for o in t['obs']]
        M = [parse_obs(o) if o is not None else None for o in m]
        s['evaluations'] += 1
        s['steps'] += len(P)
        if nontrivial(t, P):
            s['nontrivial'].add(corr.trace_hash(t))
        for l, d in zip(t['labels'], P):
            label_hist[LNAMES[l[0]]] += 1
            if l[0] == 4:
                ping_hist[PMODE[min(l[2], 6)]] += 1
            if l[0] == 0:
                res_hist[{1: 'handed out', 2: {1: 'Timeout', 2: 'Backend'}.get(d['res'][1], 'other')}[d['res'][0]]] += 1
                pings = [x for x in d['cmds'] if x[1] == 2]
                good = sum(1 for x in pings if x[3] == 1 and x[4] == x[2])
                stats['recycles accepted'] += good
                stats['recycles rejected after a bad answer'] += len(pings) - good
                if d['res'][0] == 1:
                    stats['reuses' if any(x[1] == 2 and x[0] == d['res'][1] for x in d['cmds']) else 'new connections'] += 1
        f = monitor_trace(t, P)
        if f:
            s['monitor_fails'].append(dict(trace=ti, step=f[0], msg=f[1]))
        for i, d in enumerate(P):
            mm = M[i] if i < len(M) else None
            if mm is None:
                s['mismatches'].append(dict(trace=ti, step=i, what='model: label not enabled', impl=fmt_obs(d), model=None))
                break
            df = first_diff(d, mm)
            if df:
                s['mismatches'].append(dict(trace=ti, step=i, what='projection differs at label %s: %s' % (fmt_label(t['labels'][i]), df),
                                            impl=fmt_obs(d), model=fmt_obs(mm)))
                break
    s['nontrivial'] = len(s['nontrivial'])
    return dict(props={'C17': s}, harness_errs=harness_errs,
                histograms=dict(labels=dict(label_hist), get_results=dict(res_hist), scripted_ping_answers=dict(ping_hist),
                                events=dict(stats)))


def run_engine(seed, tier):
    ok, out = cargo_build()
    if not ok or not os.path.exists(BIN):
        return dict(build_failed=True, log=out)
    ok, out = ensure_coq()
    if not ok:
        return dict(build_failed=True, log='Coq model of the redis engine does not build:\n' + out[-3000:])
    key = engine_key(seed, tier)
    cpath = os.path.join(WORK, 'cache', 'redis_%s.json' % key)
    if os.path.exists(cpath):
        res = json.load(open(cpath))
        res['cached'] = True
        return res
    t0 = time.time()
    traces = []
    for bi, (profile, n, ml) in enumerate(batches(tier)):
        traces += gen_traces(seed * 1000 + bi, profile, n, ml)
    t1 = time.time()
    mo = model_obs(traces, 'rd%d' % os.getpid())
    t2 = time.time()
    res = analyze(traces, mo)
    res.update(ntraces=len(traces), ncorpus=0, key=key, seed=seed, tier=tier,
               timing=dict(gen_s=round(t1 - t0, 1), model_s=round(t2 - t1, 1), analyze_s=round(time.time() - t2, 1)))
    keep = set()
    for m in res['props']['C17']['mismatches'][:3] + res['props']['C17']['monitor_fails'][:3]:
        keep.add(m['trace'])
    res['kept'] = {str(i): dict(cfg=traces[i]['cfg'], labels=traces[i]['labels'], profile=traces[i]['profile']) for i in keep}
    res['samples'] = [dict(cfg=t['cfg'], profile=t['profile'], labels=[fmt_label(l) for l in t['labels'][:40]])
                      for t in traces[:2]]
    os.makedirs(os.path.dirname(cpath), exist_ok=True)
    json.dump(res, open(cpath, 'w'))
    res['cached'] = False
    return res


def replay(payload):
    cargo_build()
    ensure_coq()
    tr = payload['trace']
    traces = replay_traces([tr])
    mo = model_obs(traces, 'rdrp%d' % os.getpid())
    t = traces[0]
    log('cfg: max_size %d' % t['cfg'][0])
    P = [parse_obs(o) for o in t['obs']]
    for i, (l, d) in enumerate(zip(t['labels'], P)):
        m = parse_obs(mo[0][i]) if i < len(mo[0]) and mo[0][i] is not None else None
        same = m is not None and first_diff(d, m) is None
        log('%s %3d %-34s impl  %s' % ('  ' if same else '!!', i, fmt_label(l), fmt_obs(d)))
        if not same:
            log('   %3s %-34s model %s' % ('', '', fmt_obs(m)))
    if 'err' in t:
        log('harness: %s' % t['err'])
    log('monitor (C17 on the implementation alone): %s' % (monitor_trace(t, P),))
