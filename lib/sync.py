"""Sync engine (H3): SyncWrapper histories on a real multi-thread tokio runtime (C14) and real pools
built on SyncWrapper - deadpool-sqlite, deadpool-r2d2, deadpool-diesel - with identity markers (C15).
The Coq models (coq/theories/Sync) are evaluated on the same labels by vm_compute and compared with
the implementation's observations after every label; the monitors evaluate the properties on the
implementation's observations alone."""
import glob, hashlib, json, os, subprocess, sys, time
from collections import Counter

import common, corr
from common import VERIF, WORK, COQ, log

NAME = 'sync'
PROPS = ['C14', 'C15']
HARNESS = os.path.join(VERIF, 'harness-sync')
TARGET = os.path.join(VERIF, '.cache', 'target-sync')
BIN = os.path.join(TARGET, 'debug', 'h3_sync')
RULE_PREFIX = ('seeded histories (SplitMix64 from VERIF_SEED) executed on the real code with real threads '
               '(closures, destructors and scripted backends gated by channels; the order in which blocking jobs '
               'win the mutex is observed and fed to the model), each replayed in the Coq model by vm_compute and '
               'compared after every label; non-trivial = distinct history that ')
TRUSTED_EXTRA = [
    "sync engine: the H3 harness (harness-sync/): gates, event hub, cancellable futures, the per-job blocking "
    "pools ('lanes': a tokio runtime whose single blocking thread is plugged until the harness starts the job) and "
    "the classification of threads (async = ever polled a harness future or ran harness async code)",
    "partial by nature, observed not proved: that tokio's spawn_blocking runs closures on threads that never run "
    "async code (checked per run as disjointness of thread-id sets), that dropping a JoinHandle does not abort a "
    "blocking task, and the instant at which a finished blocking task's output is picked up or dropped by the "
    "runtime (the creation result of a cancelled SyncWrapper::new is observed in both orders)",
    "modelled, not verified: std::sync::Mutex (mutual exclusion, poisoning by a panic inside the guard's scope, "
    "lock().unwrap() on a poisoned mutex panics), rusqlite, r2d2's ManageConnection contract, diesel's "
    "AnsiTransactionManager - their observed answers are inputs of the manager models",
    "C15 composition: the recycle decision functions of the three managers (coq/theories/Sync/Mgr.v) are tied to "
    "the code by the differential run; the pool side is DP.Managed.Model driven at task level "
    "(coq/theories/Sync/Pool.v), whose own tie to src/managed is the managed engine's",
]

LNAMES = {0: 'Spawn', 1: 'CancelAwait', 2: 'Deliver', 3: 'BAcquire', 4: 'BSkip', 5: 'BFinish', 6: 'DropWrapper', 7: 'BStart', 9: '(timeout)'}


# ------------------------------------------------------------------ build
def cargo_build():
    rc, out = common.sh('cargo build --offline 2>&1 | tail -40', cwd=HARNESS, timeout=3000,
                        env={'CARGO_TARGET_DIR': TARGET})
    ok = rc == 0 and 'could not compile' not in out and 'error' not in out.lower().split('warning')[0]
    return ok, out


def coq_build():
    """the engine's own Coq files (no-op once they are part of coq/_CoqProject and built by the driver)"""
    mk = os.path.join(COQ, 'Makefile.sync')
    if not os.path.exists(mk):
        rc, out = common.sh('coq_makefile -f _CoqProject.sync -o Makefile.sync', cwd=COQ, timeout=120)
        if rc != 0:
            return False, out
    rc, out = common.sh('make -f Makefile.sync -j8', cwd=COQ, timeout=3000)
    return rc == 0, out


# ------------------------------------------------------------------ harness
def gen_cases(seed, profile, n, maxlabels):
    p = subprocess.run([BIN, 'gen', str(seed), str(n), profile, str(maxlabels)],
                       stdout=subprocess.PIPE, stderr=subprocess.PIPE, text=True, timeout=3000)
    cases = [json.loads(l) for l in p.stdout.splitlines() if l.strip()]
    if p.returncode != 0 or len(cases) != n:
        raise RuntimeError('harness failed (rc %d, %d/%d cases): %s' % (p.returncode, len(cases), n, p.stderr[-500:]))
    # cases skipped after repeated timeouts carry no history
    return [c for c in cases if c['labels'] or not str(c.get('err', '')).startswith('skipped')]


def replay_cases(items):
    os.makedirs(WORK, exist_ok=True)
    path = os.path.join(WORK, 'sync_replay_in_%d.jsonl' % os.getpid())
    with open(path, 'w') as f:
        for it in items:
            f.write(json.dumps({'profile': it.get('profile', 'c14'), 'cfg': it['cfg'], 'labels': it['labels']}) + '\n')
    p = subprocess.run([BIN, 'replay', path], stdout=subprocess.PIPE, stderr=subprocess.PIPE, text=True, timeout=3000)
    os.remove(path)
    cases = [json.loads(l) for l in p.stdout.splitlines() if l.strip()]
    if p.returncode != 0 or len(cases) != len(items):
        raise RuntimeError('harness replay failed: %s' % p.stderr[-500:])
    return cases


def load_corpus():
    items = []
    for p in sorted(glob.glob(os.path.join(VERIF, 'findings', 'sync_*.case.jsonl'))):
        for line in open(p):
            if line.strip():
                it = json.loads(line)
                it['name'] = os.path.basename(p)
                items.append(it)
    return items


# ------------------------------------------------------------------ C14: parsing and projection
def parse14(o):
    """model part of an observation -> dict; returns (dict, rest) where rest = harness extras"""
    d = dict(val=o[0], lock=o[1], poisoned=o[2], alive=o[3], ndestroyed=o[4], nasync=o[5])
    n = o[6]
    i = 7
    d['jobs'] = [tuple(o[i + 5 * k:i + 5 * k + 5]) for k in range(n)]
    i += 5 * n
    ne = o[i]
    i += 1
    d['events'] = [tuple(o[i + 3 * k:i + 3 * k + 3]) for k in range(ne)]
    i += 3 * ne
    return d, o[i:]


def parse_anoms(rest):
    if not rest:
        return []
    n = rest[0]
    return [tuple(rest[1 + 2 * k:3 + 2 * k]) for k in range(n)]


def fmt_label14(l):
    if l[0] == 0:
        if l[2] == 0:
            return 'Spawn %d Create(%s)' % (l[1], ['ok', 'err', 'panic'][l[3]])
        return 'Spawn %d Interact(%s)' % (l[1], ['return', 'panic'][l[3]])
    if l[0] == 6:
        return 'DropWrapper'
    return '%s %d' % (LNAMES.get(l[0], '?'), l[1])


ANOM = {2: 'timeout: %d', 3: 'wrapper still shared at drop', 4: 'dropping the wrapper blocked the async thread',
        5: 'closure of job %d entered while another closure is inside the value',
        6: 'destructor entered while a closure is inside the value', 7: 'unexpected event %d',
        8: 'await of job %d ended differently than scripted', 9: 'label %d not executable',
        10: 'the wrapper was dropped and nothing holds the mutex, but the wrapped value is never destroyed'}


def monitor14(t, P, A):
    """C14 on the implementation's observations alone -> first failure (step, msg) or None"""
    inside = None          # job whose closure (or the destructor) is inside the value
    ran = Counter()
    plan = {}
    poisoned_since = None
    taken = False
    kinds = {}
    for i, (l, d, an) in enumerate(zip(t['labels'], P, A)):
        if l[0] == 0:
            plan[l[1]] = (l[2], l[3])
        for k, j in enumerate(d['jobs']):
            kinds[k] = j[0]
        for e in d['events']:
            kind, k, cls = e
            what = {1: 'closure body of job %d' % k, 2: 'closure body of job %d' % k,
                    3: 'destructor of the wrapped value', 4: 'destructor of the wrapped value'}.get(kind, 'event')
            if cls != 1:
                return i, '%s ran on a thread that polls async code' % what
            if kind == 1:
                ran[k] += 1
                if ran[k] > 1:
                    return i, 'closure of job %d entered twice' % k
                if kinds.get(k) == 1:
                    if inside is not None:
                        return i, 'closure of job %d entered while job %s is inside the value' % (k, inside)
                    if taken:
                        return i, 'closure of job %d entered after the value was destroyed' % k
                    inside = k
            elif kind == 2:
                if kinds.get(k) == 1:
                    inside = None
                    if plan.get(k) == (1, 1):
                        poisoned_since = i
            elif kind == 3:
                if inside is not None:
                    return i, 'destructor entered while the closure of job %s is inside the value' % inside
                if taken:
                    return i, 'destructor ran twice'
                taken = True
                inside = 'drop'
            elif kind == 4:
                inside = None
        if d['ndestroyed'] > 1:
            return i, 'destructor ran %d times' % d['ndestroyed']
        if d['nasync'] > 0:
            return i, 'destructor of the wrapped value ran on a thread that polls async code'
        if poisoned_since is not None and i > poisoned_since and d['alive'] and d['poisoned'] != 1:
            return i, 'is_mutex_poisoned() is false after the closure of a job panicked'
        if poisoned_since is None and d['alive'] and d['poisoned'] == 1:
            return i, 'is_mutex_poisoned() is true although no closure panicked'
        for k, j in enumerate(d['jobs']):
            kind, phase, r, aw, res = j
            if aw == 2 and kind == 1:
                pl = plan.get(k, (1, 0))[1]
                if r and pl == 1 and res != 2:
                    return i, 'interaction %d panicked but interact() returned %s' % (k, {1: 'Ok', 3: 'Aborted'}.get(res, res))
                if r and pl == 0 and res != 1:
                    return i, 'interaction %d returned normally but interact() reported %s' % (k, {2: 'Panic', 3: 'Aborted'}.get(res, res))
                if not r and res == 1:
                    return i, 'interaction %d reported Ok although its closure never ran' % k
        for a in an:
            if a[0] in (4, 5, 6, 10):
                return i, ANOM[a[0]] % a[1] if '%' in ANOM[a[0]] else ANOM[a[0]]
    # end of the history: a created value whose wrapper is gone was destroyed exactly once
    if P and not t.get('err'):
        d = P[-1]
        created = d['val'] != 0
        if created and not d['alive'] and all(j[1] == 2 for j in d['jobs']) and d['ndestroyed'] != 1:
            return len(P) - 1, 'wrapper dropped and all jobs finished, destructor ran %d times' % d['ndestroyed']
    return None


def nontrivial14(t):
    ls = t['labels']
    cancel = any(l[0] == 1 for l in ls)
    panic = any(l[0] == 0 and l[2] == 1 and l[3] == 1 for l in ls)
    skip = any(l[0] == 4 for l in ls)
    # the wrapper dropped while a closure was still running or queued
    busy_drop = False
    for l, o in zip(ls, t['obs']):
        if l[0] == 6:
            d, _ = parse14(o)
            busy_drop = busy_drop or any(j[0] == 1 and j[1] < 2 for j in d['jobs'])
    return cancel or panic or skip or busy_drop


RULES = {
    'C14': ('contains a cancelled await, a panicking closure, a skipped job or a drop of the wrapper while a closure '
            'is running or queued', None),
    'C15': ('contains a poisoned, broken or invalid connection being returned to the pool', None),
}


def analyze14(traces, mobs_all, summ, harness_errs, hist):
    s = summ['C14']
    nt = set()
    for ti, (t, mo) in enumerate(zip(traces, mobs_all)):
        if t['profile'] != 'c14':
            continue
        PA = [parse14(o) for o in t['obs']]
        P = [p for p, _ in PA]
        A = [parse_anoms(r) for _, r in PA]
        s['evaluations'] += 1
        s['steps'] += len(P)
        for l in t['labels']:
            hist['c14_labels'][LNAMES.get(l[0], '?')] += 1
        if P:
            for j in P[-1]['jobs']:
                if j[0] == 1:
                    hist['c14_interact_results'][{0: 'not awaited', 1: 'Ok', 2: 'Panic', 3: 'Aborted'}.get(j[4], j[4])] += 1
        if nontrivial14(t):
            nt.add(corr.trace_hash(t))
        mf = monitor14(t, P, A)
        if mf:
            s['monitor_fails'].append(dict(trace=ti, step=mf[0], msg=mf[1]))
        elif t.get('err'):
            harness_errs.append((ti, t['err']))
        for i, o in enumerate(t['obs']):
            m = mo[i] if i < len(mo) else None
            if m is None:
                s['mismatches'].append(dict(trace=ti, step=i, what='model: label %s not enabled' % fmt_label14(t['labels'][i]),
                                            impl=None, model=None))
                break
            d, _ = parse14(o)
            dm, _ = parse14(m)
            if d != dm:
                s['mismatches'].append(dict(trace=ti, step=i, what='observation differs after %s' % fmt_label14(t['labels'][i]),
                                            impl=repr(d), model=repr(dm)))
                break
    s['nontrivial'] = len(nt)


# ------------------------------------------------------------------ C15: pools with identity markers
MGR = {0: 'sqlite', 1: 'r2d2', 2: 'diesel'}
METHOD = {0: 'Fast', 1: 'Verified', 2: 'CustomQuery', 3: 'CustomFunction'}
KIND15 = {0: 'ok', 1: 'panic', 2: 'cancelled, closure returns', 3: 'cancelled, closure panics'}
ANOM15 = {20: 'connection %d was handed out although its mutex is poisoned',
          21: 'connection %d: marker and recycle_count disagree on whether it is new',
          22: 'has_broken / is_valid of connection %d was called on a thread that polls async code',
          23: 'get() failed', 24: 'an interaction ended differently than scripted', 25: 'timeout (%d)',
          26: 'a connection was established on a thread that polls async code (%d)',
          28: 'is_mutex_poisoned() answers differently while the lock is held (without: %d)',
          27: 'get() was served from connection %d while a cancelled closure was still running on it (its checks were skipped)',
          9: 'label %d does not fit'}


def fmt_label15(l):
    if l[0] == 0:
        return 'get -> hand %d' % l[1]
    if l[0] == 1:
        return 'interact hand %d (%s)' % (l[1], KIND15.get(l[2], l[2]))
    if l[0] == 2:
        return 'return hand %d' % l[1]
    if l[0] == 3:
        return 'script hand %d broken=%d invalid=%d%s' % (l[1], l[2] & 1, (l[2] >> 1) & 1,
                                                         ' next-check-fails-once' if l[2] & 16 else '')
    return 'non-blocking get'


def split15(o):
    return o[:7], parse_anoms(o[7:])


def bad_flags(cfg, flags):
    """does the scripted backend state make the manager's check fail?"""
    mgr, method = cfg[0], cfg[2]
    if mgr == 1:
        return flags & 27 != 0      # 8: has_broken panics, 16: the next validity check (only) fails
    if mgr == 2:
        # 4: transaction manager in its error state; 16: the custom function fails the next time only
        return (flags & 5 != 0) or (flags & 2 != 0 and method in (2, 3)) or (flags & 16 != 0 and method == 3)
    return False


def monitor15(t, O, A):
    cfg = t['cfg']
    maxs, nh = cfg[1], cfg[3]
    hands = [None] * nh
    poisoned = set()
    flags = {}
    condemned = {}
    for i, (l, o, an) in enumerate(zip(t['labels'], O, A)):
        for a in an:
            if a[0] in (20, 22, 23, 26, 27, 28):
                return i, (ANOM15[a[0]] % a[1]) if '%' in ANOM15[a[0]] else ANOM15[a[0]]
        if o[3] > maxs:
            return i, 'status.size %d exceeds max_size %d' % (o[3], maxs)
        if l[0] == 0:
            serial = o[1]
            if serial < 0:
                return i, 'get() did not yield a connection although a slot is free'
            if serial in condemned:
                return i, 'connection %d was handed out again after it was returned %s' % (serial, condemned[serial])
            if serial in [h for h in hands if h is not None]:
                return i, 'connection %d handed out twice' % serial
            hands[l[1]] = serial
        elif l[0] == 1:
            serial = hands[l[1]]
            if o[2] == 1:
                poisoned.add(serial)
            if l[2] in (1, 3) and o[2] != 1:
                return i, 'closure on connection %d panicked but is_mutex_poisoned() is false' % serial
            if l[2] == 1 and o[1] != 2:
                return i, 'closure on connection %d panicked but interact() did not report Panic' % serial
        elif l[0] == 2:
            serial = hands[l[1]]
            hands[l[1]] = None
            why = []
            if serial in poisoned:
                why.append('poisoned')
            if bad_flags(cfg, flags.get(serial, 0)):
                why.append('broken/invalid (flags %d)' % flags.get(serial, 0))
            if why:
                condemned[serial] = ' and '.join(why)
        elif l[0] == 3:
            flags[hands[l[1]]] = l[2]
        else:
            full = all(h is not None for h in hands) and nh >= maxs
            if o[1] == 0:
                if o[2] in condemned:
                    return i, 'connection %d was handed out again after it was returned %s' % (o[2], condemned[o[2]])
                if full:
                    return i, 'a get() succeeded while max_size connections are checked out'
            elif o[1] != 1:
                return i, 'non-blocking get() failed with error code %d' % o[1]
            elif not full and o[1] == 1 and sum(1 for h in hands if h is not None) < maxs:
                return i, 'non-blocking get() timed out although only %d of %d connections are out' % (
                    sum(1 for h in hands if h is not None), maxs)
    return None


def nontrivial15(t):
    cfg = t['cfg']
    hands = {}
    poisoned = set()
    flags = {}
    for l, o in zip(t['labels'], t['obs']):
        if l[0] == 0:
            hands[l[1]] = o[1]
        elif l[0] == 1 and o[2] == 1:
            poisoned.add(hands.get(l[1]))
        elif l[0] == 3:
            flags[hands.get(l[1])] = l[2]
        elif l[0] == 2:
            s = hands.get(l[1])
            if s in poisoned or bad_flags(cfg, flags.get(s, 0)):
                return True
    return False


def analyze15(traces, mobs_all, summ, harness_errs, hist):
    s = summ['C15']
    nt = set()
    for ti, (t, mo) in enumerate(zip(traces, mobs_all)):
        if t['profile'] == 'c14':
            continue
        OA = [split15(o) for o in t['obs']]
        O = [o for o, _ in OA]
        A = [a for _, a in OA]
        s['evaluations'] += 1
        s['steps'] += len(O)
        hist['c15_pools'][MGR[t['cfg'][0]] + ('/' + METHOD[t['cfg'][2]] if t['cfg'][0] == 2 else '')] += 1
        for l in t['labels']:
            hist['c15_labels'][{0: 'get', 1: 'interact:' + KIND15.get(l[2] if len(l) > 2 else 0, '?'), 2: 'return',
                                3: 'script', 5: 'try_get'}[l[0]]] += 1
        if nontrivial15(t):
            nt.add(corr.trace_hash(t))
        mf = monitor15(t, O, A)
        if mf:
            s['monitor_fails'].append(dict(trace=ti, step=mf[0], msg=mf[1]))
        elif t.get('err'):
            harness_errs.append((ti, t['err']))
        # placement (C14): in the pools built on SyncWrapper, too, the backend's checks and the creation of
        # a connection never run on a thread that polls async code
        for i, an in enumerate(A):
            bad = [a for a in an if a[0] in (22, 26, 28)]
            if bad:
                a = bad[0]
                summ['C14']['monitor_fails'].append(dict(trace=ti, step=i, msg='%s pool: %s' % (
                    MGR[t['cfg'][0]], (ANOM15[a[0]] % a[1]) if '%' in ANOM15[a[0]] else ANOM15[a[0]])))
                break
        for i, o in enumerate(O):
            m = mo[i] if i < len(mo) else None
            if m is None:
                s['mismatches'].append(dict(trace=ti, step=i, what='model: %s not possible' % fmt_label15(t['labels'][i]),
                                            impl=repr(o), model=None))
                break
            mm = list(m)
            for k in (5, 6):          # call counts that this backend does not let us observe
                if o[k] == -1:
                    mm[k] = -1
            if o != mm:
                s['mismatches'].append(dict(trace=ti, step=i, what='observation differs after %s' % fmt_label15(t['labels'][i]),
                                            impl=repr(o), model=repr(mm)))
                break
    s['nontrivial'] = len(nt)


# ------------------------------------------------------------------ the engine run
def batches(tier):
    if tier == 'thorough':
        return [('c14', 20000, 60), ('sqlite', 4000, 60), ('r2d2', 8000, 60), ('diesel', 4000, 60)]
    return [('c14', 500, 40), ('sqlite', 120, 30), ('r2d2', 160, 30), ('diesel', 120, 30)]


def engine_key(seed, tier):
    h = [common.file_hash(BIN), common.vo_hash('Sync'), common.vo_hash('Managed')]
    for p in sorted(glob.glob(os.path.join(VERIF, 'lib', '*.py'))) + sorted(glob.glob(os.path.join(VERIF, 'findings', 'sync_*.case.jsonl'))):
        h.append(common.file_hash(p))
    return hashlib.sha1(('|'.join(h) + '|%s|%s' % (seed, tier)).encode()).hexdigest()[:16]


def model_obs(traces, tag):
    c14 = [(i, t) for i, t in enumerate(traces) if t['profile'] == 'c14']
    res = [None] * len(traces)
    if c14:
        out = corr.run_model(tag + 'a', 'Sync.Decode', 'run_case_z', [(t['cfg'], t['labels']) for _, t in c14], shard=40)
        for (i, _), o in zip(c14, out):
            res[i] = o
    c15 = [(i, t) for i, t in enumerate(traces) if t['profile'] != 'c14']
    if c15:
        out = corr.run_model(tag + 'b', 'Sync.Pool', 'run_pool_z',
                             [(t['cfg'], [(l + [0, 0])[:3] for l in t['labels']]) for _, t in c15], shard=30)
        for (i, _), o in zip(c15, out):
            res[i] = o
    return res


def analyze(traces, mo):
    summ = {p: dict(mismatches=[], monitor_fails=[], evaluations=0, nontrivial=0, steps=0) for p in PROPS}
    hist = dict(c14_labels=Counter(), c14_interact_results=Counter(), c15_pools=Counter(), c15_labels=Counter())
    harness_errs = []
    analyze14(traces, mo, summ, harness_errs, hist)
    analyze15(traces, mo, summ, harness_errs, hist)
    return dict(props=summ, histograms={k: dict(v) for k, v in hist.items()}, harness_errs=harness_errs)


def run_engine(seed, tier):
    ok, out = cargo_build()
    if not ok or not os.path.exists(BIN):
        return dict(build_failed=True, log=out)
    ok, out = coq_build()
    if not ok:
        return dict(build_failed=True, log=out)
    key = engine_key(seed, tier)
    cpath = os.path.join(WORK, 'cache', 'sync_%s.json' % key)
    if os.path.exists(cpath):
        res = json.load(open(cpath))
        res['cached'] = True
        return res
    t0 = time.time()
    corpus = load_corpus()
    traces = replay_cases(corpus) if corpus else []
    for t, it in zip(traces, corpus):
        t['name'] = it.get('name', '')
    ncorpus = len(traces)
    for bi, (profile, n, ml) in enumerate(batches(tier)):
        traces += gen_cases(seed * 1000 + bi, profile, n, ml)
    # a case in which the harness itself timed out (machine under load?) is run once more before it counts
    stuck = [i for i, t in enumerate(traces) if t.get('err') and t['labels'] and i >= ncorpus]
    if 0 < len(stuck) <= 12:
        again = replay_cases([dict(profile=traces[i]['profile'], cfg=traces[i]['cfg'], labels=traces[i]['labels']) for i in stuck])
        for i, t in zip(stuck, again):
            if not t.get('err'):
                traces[i] = t
    t1 = time.time()
    try:
        mo = model_obs(traces, 's%d' % os.getpid())
    except RuntimeError as ex:
        # another check rebuilt a library we depend on in the meantime: rebuild ours, once
        if 'inconsistent assumptions' not in str(ex):
            raise
        ok, out = coq_build()
        if not ok:
            return dict(build_failed=True, log=out)
        mo = model_obs(traces, 's%d' % os.getpid())
    t2 = time.time()
    res = analyze(traces, mo)
    res.update(ntraces=len(traces), ncorpus=ncorpus, key=key, seed=seed, tier=tier,
               timing=dict(gen_s=round(t1 - t0, 1), model_s=round(t2 - t1, 1), analyze_s=round(time.time() - t2, 1)))
    keep = set()
    for p in PROPS:
        for m in res['props'][p]['mismatches'][:3] + res['props'][p]['monitor_fails'][:3]:
            keep.add(m['trace'])
    for ti, _ in res['harness_errs'][:3]:
        keep.add(ti)
    res['kept'] = {str(i): dict(profile=traces[i]['profile'], cfg=traces[i]['cfg'], labels=traces[i]['labels']) for i in keep}
    samples = []
    for prof in ('c14', 'sqlite', 'r2d2', 'diesel'):
        for t in [t for t in traces[ncorpus:] if t['profile'] == prof][:2]:
            samples.append(dict(profile=prof, cfg=t['cfg'], labels=[fmt_label(prof, l) for l in t['labels'][:40]]))
    res['samples'] = samples
    os.makedirs(os.path.dirname(cpath), exist_ok=True)
    json.dump(res, open(cpath, 'w'))
    res['cached'] = False
    return res


def fmt_label(profile, l):
    return fmt_label14(l) if profile == 'c14' else fmt_label15(l)


def replay(payload):
    tr = payload['trace']
    ok, out = cargo_build()
    if not ok:
        log(out)
        return
    coq_build()
    traces = replay_cases([tr])
    mo = model_obs(traces, 'rp%d' % os.getpid())
    t = traces[0]
    if t['profile'] != 'c14':
        log('pool %s max_size %d method %s hands %d' % (MGR[t['cfg'][0]], t['cfg'][1], METHOD[t['cfg'][2]], t['cfg'][3]))
        log('obs = [code, x, y, status.size, status.available, has_broken calls, is_valid/ping calls]')
        for i, (l, o) in enumerate(zip(t['labels'], t['obs'])):
            m = mo[0][i] if i < len(mo[0]) else None
            o7, an = split15(o)
            mm = list(m) if m is not None else None
            if mm is not None:
                for k in (5, 6):
                    if o7[k] == -1:
                        mm[k] = -1
            flag = '  ' if o7 == mm else '!!'
            log('%s %3d %-40s impl  %s %s' % (flag, i, fmt_label15(l), o7, an or ''))
            if o7 != mm:
                log('   %3s %-40s model %s' % ('', '', mm if mm is not None else 'not possible'))
        if t.get('err'):
            log('harness: %s' % t['err'])
        OA = [split15(o) for o in t['obs']]
        log('monitor: %s' % (monitor15(t, [o for o, _ in OA], [a for _, a in OA]),))
        return
    for i, (l, o) in enumerate(zip(t['labels'], t['obs'])):
        m = mo[0][i] if i < len(mo[0]) else None
        d, rest = parse14(o)
        dm = parse14(m)[0] if m is not None else None
        flag = '  ' if d == dm else '!!'
        log('%s %3d %-28s impl  %s %s' % (flag, i, fmt_label(t['profile'], l), d, parse_anoms(rest) or ''))
        if d != dm:
            log('   %3s %-28s model %s' % ('', '', dm if dm is not None else 'label not enabled'))
    if t.get('err'):
        log('harness: %s' % t['err'])
    PA = [parse14(o) for o in t['obs']]
    log('monitor: %s' % (monitor14(t, [p for p, _ in PA], [parse_anoms(r) for _, r in PA]),))
