"""pg engine (C16): a real deadpool_postgres::Pool over a scripted PostgreSQL backend (harness-pg,
H4), the Coq model Mgr/Postgres.v evaluated on the same labels (correspondence, compared after
every label), and monitors that evaluate C16 on the implementation's observations alone."""
import glob, hashlib, json, os, subprocess, time
from collections import Counter

import common, corr
from common import VERIF, WORK, COQ, log

NAME = 'pg'
PROPS = ['C16']
HARNESS = os.path.join(VERIF, 'harness-pg')
TARGET = os.path.join(VERIF, '.cache', 'target-pg')
BIN = os.path.join(TARGET, 'debug', 'h4_pg')
MODEL_FILES = ['Postgres.v', 'PostgresObs.v']
RULE_PREFIX = ('seeded random histories (profiles mixed/cache/recycle, SplitMix64 from VERIF_SEED) of get / return / '
               'take / resize / close / retain / prepare_cached / prepare_typed_cached / cache and registry clear() / '
               'remove() on a real deadpool_postgres::Pool whose connections are tokio-postgres clients over '
               'tokio::io::duplex talking to a scripted backend (failures and hang-ups at Query, Parse, connect, '
               'or at any time), every RecyclingMethod; each history replayed in the Coq model by vm_compute and '
               'compared after every label (result, status, idle queue, is_closed, size() of every client ever '
               'created, frontend messages per connection); non-trivial = distinct history that ')
RULES = {'C16': ('contains a scripted server failure or hang-up, or two cache keys differing only in their types, '
                 'or a registry clear()/remove() after a client left the pool', None)}
TRUSTED_EXTRA = [
    "pg engine: tokio-postgres 0.7.18 and the wire protocol are an ORACLE - what the scripted server does with the "
    "next Query / Parse / connect (ok, ErrorResponse, hang-up) and when it hangs up are inputs (labels) of the model; "
    "that tokio-postgres turns an ErrorResponse / EOF into Err, that Client::is_closed() is true once its connection "
    "task has seen EOF, that prepare sends one Parse/Describe/Sync per call and that a Statement is bound to the "
    "connection that parsed it are assumed as modelled and validated only by the differential run",
    "pg engine: the scripted backend, the Connect impl over tokio::io::duplex, statement identity read back from the "
    "RowDescription column name the backend invents (c<conn>_p<parse serial>), client identity by the address of its "
    "Arc<StatementCache> (the harness keeps every Arc and Statement alive for the whole case), the idle queue read "
    "through retain(|..| true); one operation at a time on a current-thread tokio runtime (task level)",
    "pg engine: the registry theorem for thread-level histories depends on the managed pool's detach discipline "
    "(property C09, managed engine) - it is an explicit hypothesis of c16_registry_exact; the executable model "
    "proves the discipline only for its own task-level pool",
]

ANOMALIES = {
    901: 'malformed Parse message', 902: 'a second connection was opened before the first one was handed out',
    903: 'a client did not notice the hang-up of its server', 904: 'get() opened a connection but returned a known client',
    905: 'get() returned a client the harness has never seen and no connection was opened',
    906: 'the same client was handed out twice', 907: 'get() opened a connection and failed',
    908: 'prepare returned a statement whose parameter types are not the ones asked for',
    909: 'the scripted server did not hang up', 910: 'an unknown client is in the idle queue',
    911: 'a connection exists whose client was never handed out',
}

LNAMES = {0: 'get', 1: 'return', 2: 'take', 3: 'resize', 4: 'close', 5: 'retain', 6: 'prepare', 7: 'prepare x2',
          8: 'cache.clear', 9: 'cache.remove', 10: 'registry.clear', 11: 'registry.remove', 12: 'arm query',
          13: 'arm parse', 14: 'arm connect', 15: 'server hangs up', 16: 'prepare via transaction'}
METHODS = ['Fast', 'Verified', 'Clean', 'Custom']


def fmt_label(l):
    return '%s%s' % (LNAMES.get(l[0], '?'), l[1:] if len(l) > 1 else '')


# ------------------------------------------------------------------ builds
def cargo_build():
    rc, out = common.sh('cargo build --offline 2>&1 | tail -40', cwd=HARNESS, timeout=3000)
    ok = rc == 0 and 'could not compile' not in out and 'error' not in out.lower().split('warning')[0]
    return ok, out


def ensure_coq(files=MODEL_FILES, project='_CoqProject.pg', makefile='Makefile.pg'):
    """the model's .vo must exist and be current (normally built by the main coq build)"""
    stale = False
    for f in files:
        v = os.path.join(COQ, 'theories', 'Mgr', f)
        vo = v[:-2] + '.vo'
        if not os.path.exists(vo) or os.path.getmtime(vo) < os.path.getmtime(v):
            stale = True
    if not stale:
        return True, ''
    if not os.path.exists(os.path.join(COQ, makefile)):
        common.sh('coq_makefile -f %s -o %s' % (project, makefile), cwd=COQ, timeout=120)
    targets = ' '.join('theories/Mgr/%s.vo' % f[:-2] for f in files)
    rc, out = common.sh('make -f %s -j8 %s' % (makefile, targets), cwd=COQ, timeout=1800)
    return rc == 0, out


# ------------------------------------------------------------------ harness
def batches(tier):
    if tier == 'thorough':
        return [('mixed', 14000, 90), ('cache', 10000, 70), ('recycle', 14000, 90)]
    return [('mixed', 900, 45), ('cache', 600, 40), ('recycle', 900, 45)]


def gen_traces(seed, profile, n, maxlabels):
    p = subprocess.run([BIN, 'gen', str(seed), str(n), profile, str(maxlabels)],
                       stdout=subprocess.PIPE, stderr=subprocess.PIPE, text=True, timeout=3000)
    traces = [json.loads(l) for l in p.stdout.splitlines() if l.strip()]
    for t in traces:
        t['profile'] = profile
    if p.returncode != 0 or len(traces) != n:
        raise RuntimeError('harness failed (rc %d, %d/%d traces): %s' % (p.returncode, len(traces), n, p.stderr[-500:]))
    return traces


def replay_traces(items):
    os.makedirs(WORK, exist_ok=True)
    path = os.path.join(WORK, 'pg_replay_in_%d.jsonl' % os.getpid())
    with open(path, 'w') as f:
        for it in items:
            f.write(json.dumps({'cfg': it['cfg'], 'labels': it['labels']}) + '\n')
    p = subprocess.run([BIN, 'replay', path], stdout=subprocess.PIPE, stderr=subprocess.PIPE, text=True, timeout=3000)
    os.remove(path)
    traces = [json.loads(l) for l in p.stdout.splitlines() if l.strip()]
    if p.returncode != 0 or len(traces) != len(items):
        raise RuntimeError('harness replay failed: %s' % p.stderr[-500:])
    for t, it in zip(traces, items):
        t['profile'] = it.get('profile', 'replay')
        t['want_labels'] = it['labels']
    return traces


def model_obs(traces, tag):
    cases = [(t['cfg'], t['labels']) for t in traces]
    return corr.run_model(tag, 'Mgr.PostgresObs', 'run_case_z', cases, shard=60)


# ------------------------------------------------------------------ observations
def parse_obs(o):
    d = dict(res=tuple(o[0:3]), closed=o[3], max=o[4], size=o[5], avail=o[6])
    n = o[7]
    d['idle'] = list(o[8:8 + n])
    i = 8 + n
    nc = o[i]
    i += 1
    d['conns'] = [(o[i + 2 * j], o[i + 2 * j + 1]) for j in range(nc)]
    i += 2 * nc
    nm = o[i]
    i += 1
    msgs = []
    for _ in range(nm):
        ln = o[i]
        msgs.append(tuple(o[i + 1:i + 1 + ln]))
        i += 1 + ln
    d['msgs'] = msgs
    na = o[i]
    d['anom'] = list(o[i + 1:i + 1 + na])
    return d


FIELDS = [('res', 'result of the operation'), ('closed', 'is_closed()'), ('max', 'status.max_size'),
          ('size', 'status.size'), ('avail', 'status.available'), ('idle', 'idle queue'),
          ('conns', '(is_closed, statement_cache.size()) per client'), ('msgs', 'frontend messages'),
          ('anom', 'harness anomalies')]


def first_diff(a, b):
    for f, name in FIELDS:
        if a[f] != b[f]:
            return '%s: impl %s, model %s' % (name, a[f], b[f])
    return None


def fmt_obs(d):
    if d is None:
        return 'label not enabled'
    return 'res=%s closed=%d max=%d size=%d avail=%d idle=%s clients=%s msgs=%s%s' % (
        list(d['res']), d['closed'], d['max'], d['size'], d['avail'], d['idle'], d['conns'],
        [list(m) for m in d['msgs']], (' ANOMALY %s' % d['anom']) if d['anom'] else '')


# ------------------------------------------------------------------ monitors (C16 on the implementation alone)
def expected_check(cfg):
    m = cfg[1]
    if m == 0:
        return []
    return [{1: 0, 2: 1}.get(m, 0 if cfg[2] == 2 else 10 + cfg[2])]   # custom text 2 is the empty string (sql id 0)


def label_key(l):
    return (l[3], tuple(l[4:]))


def monitor_trace(t, P):
    """first failure (step, message) of C16 evaluated on the implementation's observations"""
    cfg = t['cfg']
    want = expected_check(cfg)
    held, taken, seen = set(), set(), set()
    ref = {}            # conn -> {key: parse serial}: reference finite map
    armq, armp = {}, {}
    prev = dict(idle=[], conns=[])
    for i, (l, d) in enumerate(zip(t['labels'], P)):
        k = l[0]
        c = l[1] if len(l) > 1 else 0
        if d['anom']:
            return i, '; '.join(ANOMALIES.get(a, 'harness anomaly %d' % a) for a in d['anom'])
        by_conn = {}
        for m in d['msgs']:
            by_conn.setdefault(m[0], []).append(m)
            if m[1] not in (1, 2):
                return i, 'unexpected frontend message %s' % (m,)
        was_closed = lambda x: x < len(prev['conns']) and prev['conns'][x][0] == 1
        if k == 0:
            handed = None
            if d['res'][0] == 1:
                handed = d['res'][1]
                if d['res'][2] != 0:
                    return i, 'client %d handed out while is_closed() is true' % handed
                if handed in seen:
                    if was_closed(handed):
                        return i, 'client %d was closed before the get() and was handed out' % handed
                    got = [m[2] for m in by_conn.get(handed, []) if m[1] == 1]
                    if got != want or len(by_conn.get(handed, [])) != len(want):
                        return i, ('reused client %d: recycle (%s) sent %s, documented check is %s'
                                   % (handed, METHODS[cfg[1]], by_conn.get(handed, []), want))
                    if want and armq.get(handed, 0):
                        return i, 'client %d handed out although its health check was answered with a failure' % handed
                    if handed not in prev['idle']:
                        return i, 'client %d handed out but it was not idle' % handed
                else:
                    if by_conn.get(handed):
                        return i, 'fresh client %d received %s before its first hand-out' % (handed, by_conn[handed])
                seen.add(handed)
                ref.setdefault(handed, {})
                held.add(handed)
            for x, ms in by_conn.items():
                if want and ms and ms[0][1] == 1:
                    armq[x] = 0           # the scripted answer was consumed by this Query
                if x == handed:
                    continue
                if [m[2] for m in ms if m[1] == 1] != want or len(ms) != len(want) or x not in prev['idle']:
                    return i, 'get(): unexpected messages %s on client %d (documented check %s)' % (ms, x, want)
            gone = [x for x in prev['idle'] if x not in d['idle'] and x != handed]
            for x in gone:
                reason = was_closed(x) or (want and by_conn.get(x))
                if not reason:
                    return i, 'idle client %d discarded by get() without a failed check' % x
        elif k == 1:
            held.discard(c)
        elif k == 2:
            held.discard(c)
            taken.add(c)
        elif k in (6, 7):
            key = label_key(l)
            ms = by_conn.get(c, [])
            if len(by_conn) > (1 if ms else 0):
                return i, 'prepare on client %d caused messages on other connections: %s' % (c, d['msgs'])
            hit = ref[c].get(key)
            if hit is not None:
                if d['msgs']:
                    return i, 'cache hit for %s on client %d caused a server round trip: %s' % (key, c, d['msgs'])
                exp = (3, c, hit) if k == 6 else (5, hit, hit)
                if d['res'] != exp:
                    return i, 'cache hit for %s on client %d returned %s, stored statement is %s' % (key, c, d['res'], exp)
            elif was_closed(c):
                if d['msgs'] or d['res'][0] not in (4, 5) or (k == 7 and d['res'] != (5, -1, -1)):
                    return i, 'prepare on closed client %d: %s %s' % (c, d['res'], d['msgs'])
            else:
                nexp = 1 if k == 6 else 2
                if armp.get(c, 0) == 2:
                    nexp = 1
                if len(ms) != nexp or any(m[1] != 2 or (m[3], tuple(m[5:])) != key for m in ms):
                    return i, ('cache miss for %s on client %d must send %d Parse for exactly this key, got %s'
                               % (key, c, nexp, ms))
                f = armp.get(c, 0)
                armp[c] = 0
                sers = [m[2] for m in ms]
                if k == 6:
                    exp = (3, c, sers[0]) if f == 0 else (4, 0, 0)
                    if f == 0:
                        ref[c][key] = sers[0]
                else:
                    if f == 0:
                        exp = (5, sers[0], sers[1])
                        ref[c][key] = sers[1]
                    elif f == 1:
                        exp = (5, -1, sers[1])
                        ref[c][key] = sers[1]
                    else:
                        exp = (5, -1, -1)
                if d['res'] != exp:
                    return i, 'prepare of %s on client %d returned %s, expected %s (statement of this very Parse)' % (key, c, d['res'], exp)
        elif k == 16:
            # the same cache through a Transaction wrapper (3 transaction, 4 nested, 5 savepoint, 6 builder):
            # START TRANSACTION .. COMMIT around it, a hit sends no Parse, a miss one Parse for exactly this key
            key = label_key(l)
            ms = by_conn.get(c, [])
            if len(by_conn) > (1 if ms else 0):
                return i, 'prepare on client %d caused messages on other connections: %s' % (c, d['msgs'])
            w = l[2]
            pre = [24, 22] if w in (4, 5) else [24]
            post = [23, 21] if w in (4, 5) else [21]
            qs = [m[2] for m in ms if m[1] == 1]
            ps = [m for m in ms if m[1] == 2]
            if qs != pre + post:
                return i, 'transaction wrapper %d on client %d sent the simple queries %s, expected %s' % (w, c, qs, pre + post)
            hit = ref[c].get(key)
            if hit is not None:
                if ps:
                    return i, ('cache hit for %s on client %d through a transaction wrapper (%d) caused a Parse: %s - '
                               'the wrapper does not use the client\'s statement cache' % (key, c, w, ps))
                if d['res'] != (3, c, hit):
                    return i, 'cache hit for %s on client %d returned %s, stored statement is %s' % (key, c, d['res'], (3, c, hit))
            else:
                if len(ps) != 1 or (ps[0][3], tuple(ps[0][5:])) != key or [m[1] for m in ms] != [1] * len(pre) + [2] + [1] * len(post):
                    return i, 'cache miss for %s on client %d through a transaction wrapper: messages %s' % (key, c, ms)
                if d['res'] != (3, c, ps[0][2]):
                    return i, 'prepare of %s on client %d returned %s, expected the statement of this Parse' % (key, c, d['res'])
                ref[c][key] = ps[0][2]
        elif k == 8:
            ref[c] = {}
        elif k == 9:
            was = label_key(l) in ref[c]
            if d['res'] != (6, int(was), 0):
                return i, 'statement_cache.remove on client %d returned %s, key present: %s' % (c, d['res'], was)
            ref[c].pop(label_key(l), None)
        elif k in (10, 11):
            owned = set(prev['idle']) | held
            for x in range(len(d['conns'])):
                before, after = prev['conns'][x][1], d['conns'][x][1]
                if k == 10:
                    exp = 0 if x in owned else before
                else:
                    exp = before - (1 if x in owned and label_key(l) in ref.get(x, {}) else 0)
                if after != exp:
                    who = 'owned by the pool' if x in owned else ('taken' if x in taken else 'discarded / released')
                    return i, ('statement_caches.%s: cache of client %d (%s) went from size %d to %d, expected %d'
                               % ('clear()' if k == 10 else 'remove()', x, who, before, after, exp))
            for x in owned:
                if k == 10:
                    ref[x] = {}
                else:
                    ref.get(x, {}).pop(label_key(l), None)
        elif k == 12:
            armq[c] = l[2]
        elif k == 13:
            armp[c] = l[2]
        if d['msgs'] and k not in (0, 6, 7, 16):
            return i, 'operation %s caused frontend messages %s' % (fmt_label(l), d['msgs'])
        # size() == number of keys of the reference map, for every client ever created
        for x, (cl, sz) in enumerate(d['conns']):
            if sz != len(ref.get(x, {})):
                return i, 'client %d: statement_cache.size() = %d, number of cached keys = %d' % (x, sz, len(ref.get(x, {})))
        # a closed client stays closed; idle / held clients are disjoint
        if set(d['idle']) & held:
            return i, 'clients %s are idle and checked out at once' % (set(d['idle']) & held)
        prev = d
    return None


def nontrivial(t):
    ls = t['labels']
    fault = any(l[0] in (12, 13, 14, 15) for l in ls)
    keys = set(label_key(l) for l in ls if l[0] in (6, 7))
    types_only = any(a[0] == b[0] and a[1] != b[1] for a in keys for b in keys)
    left = False
    reg_after_left = False
    for l in ls:
        if l[0] in (2, 3, 4, 5):
            left = True
        if l[0] in (10, 11) and left:
            reg_after_left = True
    return fault or types_only or reg_after_left


# ------------------------------------------------------------------ the engine run
def engine_key(seed, tier):
    h = [common.file_hash(BIN)]
    for f in MODEL_FILES:
        h.append(common.file_hash(os.path.join(COQ, 'theories', 'Mgr', f)))
    for p in ('pg.py', 'corr.py'):
        h.append(common.file_hash(os.path.join(VERIF, 'lib', p)))
    return hashlib.sha1(('|'.join(h) + '|%s|%s' % (seed, tier)).encode()).hexdigest()[:16]


def analyze(traces, mo):
    s = dict(mismatches=[], monitor_fails=[], evaluations=0, nontrivial=set(), steps=0)
    label_hist, res_hist, method_hist, fault_hist = Counter(), Counter(), Counter(), Counter()
    stats = Counter()
    harness_errs = []
    for ti, (t, m) in enumerate(zip(traces, mo)):
        if 'err' in t:
            harness_errs.append((ti, t['err']))
        P = [parse_obs(o) for o in t['obs']]
        M = [parse_obs(o) if o is not None else None for o in m]
        s['evaluations'] += 1
        s['steps'] += len(P)
        method_hist[METHODS[t['cfg'][1]]] += 1
        if nontrivial(t):
            s['nontrivial'].add(corr.trace_hash(t))
        for l, d in zip(t['labels'], P):
            label_hist[LNAMES[l[0]]] += 1
            if l[0] in (12, 13, 14):
                fault_hist['%s %s' % (LNAMES[l[0]], ['', 'error', 'hang-up'][l[-1]])] += 1
            if l[0] == 0:
                res_hist[{1: 'handed out', 2: {1: 'Timeout', 2: 'Backend', 3: 'Closed'}.get(d['res'][1], 'other')}[d['res'][0]]] += 1
                stats['recycle rejects'] += sum(1 for x in set(mm[0] for mm in d['msgs']) if x != d['res'][1] or d['res'][0] != 1)
            if l[0] == 6:
                stats['prepare hit' if (d['res'][0] == 3 and not d['msgs']) else
                      ('prepare miss' if d['res'][0] == 3 else 'prepare error')] += 1
        f = monitor_trace(t, P)
        if f:
            s['monitor_fails'].append(dict(trace=ti, step=f[0], msg=f[1]))
        for i, d in enumerate(P):
            mm = M[i] if i < len(M) else None
            if mm is None:
                s['mismatches'].append(dict(trace=ti, step=i, what='model: label not enabled', impl=fmt_obs(d), model=None))
                break
            df = first_diff(d, mm)
            if df:
                s['mismatches'].append(dict(trace=ti, step=i, what='projection differs at label %s: %s' % (fmt_label(t['labels'][i]), df),
                                            impl=fmt_obs(d), model=fmt_obs(mm)))
                break
    s['nontrivial'] = len(s['nontrivial'])
    return dict(props={'C16': s}, harness_errs=harness_errs,
                histograms=dict(labels=dict(label_hist), get_results=dict(res_hist), methods=dict(method_hist),
                                scripted_faults=dict(fault_hist), events=dict(stats)))


def bulk_probe(n):
    """-> messages: one connection prepares n distinct statement texts twice; the cache keeps every one of them"""
    try:
        p = subprocess.run([BIN, 'bulk', str(n)], stdout=subprocess.PIPE, stderr=subprocess.PIPE, text=True, timeout=600)
        d = json.loads(p.stdout.strip().splitlines()[-1])
    except Exception as ex:
        return ['bulk probe (%d distinct statements on one connection) did not complete: %s' % (n, str(ex)[-200:])]
    want = dict(n=n, errors=0, parses_first=n, size_first=n, parses_second=0, size_second=n, size_cleared=0)
    if d != want:
        return ['%d distinct statements prepared twice on one connection: %s; expected %s (every first prepare goes to the '
                'server, every repeat is served from the cache, size() counts the cached statements, clear() empties it)'
                % (n, json.dumps(d, sort_keys=True), json.dumps(want, sort_keys=True))]
    return []


def run_engine(seed, tier):
    ok, out = cargo_build()
    if not ok or not os.path.exists(BIN):
        return dict(build_failed=True, log=out)
    ok, out = ensure_coq()
    if not ok:
        return dict(build_failed=True, log='Coq model of the pg engine does not build:\n' + out[-3000:])
    key = engine_key(seed, tier)
    cpath = os.path.join(WORK, 'cache', 'pg_%s.json' % key)
    if os.path.exists(cpath):
        res = json.load(open(cpath))
        res['cached'] = True
        return res
    t0 = time.time()
    traces = []
    for bi, (profile, n, ml) in enumerate(batches(tier)):
        traces += gen_traces(seed * 1000 + bi, profile, n, ml)
    t1 = time.time()
    mo = model_obs(traces, 'pg%d' % os.getpid())
    t2 = time.time()
    res = analyze(traces, mo)
    res.update(ntraces=len(traces), ncorpus=0, key=key, seed=seed, tier=tier,
               timing=dict(gen_s=round(t1 - t0, 1), model_s=round(t2 - t1, 1), analyze_s=round(time.time() - t2, 1)))
    # ---- the cache at scale (the random traces use a handful of keys): n distinct texts on one connection
    nb = 6000 if tier == 'thorough' else 1100
    msgs = bulk_probe(nb)
    for m in msgs:
        res['props']['C16']['monitor_fails'].append(dict(trace=-1, step=0, msg=m))
    res.setdefault('histograms', {})['bulk_probe_statements'] = nb
    keep = set()
    for m in res['props']['C16']['mismatches'][:3] + res['props']['C16']['monitor_fails'][:3]:
        keep.add(m['trace'])
    res['kept'] = {str(i): dict(cfg=traces[i]['cfg'], labels=traces[i]['labels'], profile=traces[i]['profile']) for i in keep}
    res['samples'] = [dict(cfg=t['cfg'], profile=t['profile'], labels=[fmt_label(l) for l in t['labels'][:40]])
                      for t in traces[:2]]
    os.makedirs(os.path.dirname(cpath), exist_ok=True)
    json.dump(res, open(cpath, 'w'))
    res['cached'] = False
    return res


def replay(payload):
    cargo_build()
    ensure_coq()
    tr = payload['trace']
    traces = replay_traces([tr])
    mo = model_obs(traces, 'pgrp%d' % os.getpid())
    t = traces[0]
    log('cfg: max_size %d, RecyclingMethod::%s, %s' % (t['cfg'][0], METHODS[t['cfg'][1]], 'Lifo' if t['cfg'][3] else 'Fifo'))
    P = [parse_obs(o) for o in t['obs']]
    for i, (l, d) in enumerate(zip(t['labels'], P)):
        m = parse_obs(mo[0][i]) if i < len(mo[0]) and mo[0][i] is not None else None
        same = m is not None and first_diff(d, m) is None
        log('%s %3d %-28s impl  %s' % ('  ' if same else '!!', i, fmt_label(l), fmt_obs(d)))
        if not same:
            log('   %3s %-28s model %s' % ('', '', fmt_obs(m)))
    if 'err' in t:
        log('harness: %s' % t['err'])
    log('monitor (C16 on the implementation alone): %s' % (monitor_trace(t, P),))
