//! H4 - scripted PostgreSQL backend carrying a real `deadpool_postgres::Pool` (property C16).
//!
//! Usage: h4_pg gen <seed> <n> <profile> <maxlabels>
//!        h4_pg replay <file>        (lines: {"cfg":[..],"labels":[[..],..]})
//!
//! The pool is built with `Manager::from_connect`; the `Connect` impl runs
//! `tokio_postgres::Config::connect_raw` over `tokio::io::duplex`, the other end is the scripted
//! backend below. Every label is executed to completion on a current-thread tokio runtime (task
//! level, one operation at a time); after every label the harness prints what it can see from the
//! outside: result, `status()`, idle queue (through `retain(|..| true)`), `is_closed()` and
//! `statement_cache.size()` of every client and the frontend messages the backend received.
//!
//! cfg    = [max_size, method (0 Fast 1 Verified 2 Clean 3 Custom), custom sql index, lifo]
//! labels = [0] get | [1,c] return | [2,c] take | [3,n] resize | [4] close | [5,bits,n] retain
//!        | [6,c,api,q,oid..] prepare | [7,c,0,q,oid..] two concurrent prepares of one key
//!        | [16,c,w,q,oid..] prepare through a Transaction wrapper (w = 3 transaction, 4 nested transaction,
//!          5 savepoint, 6 build_transaction().start(), 7 / 8 the GenericClient trait on a Transaction), committed afterwards
//!        | [8,c] statement_cache.clear | [9,c,0,q,oid..] statement_cache.remove
//!        | [10] statement_caches.clear | [11,0,0,q,oid..] statement_caches.remove
//!        | [12,c,f] next Query on c fails (1 ErrorResponse, 2 hang up) | [13,c,f] next Parse on c
//!        | [14,f] next connect | [15,c] the server hangs up on c now
//! obs    = [r0,r1,r2, closed,max_size,size,available, nidle,idle.., nconns,(closed_i,size_i)..,
//!           nmsgs,(len,conn,kind,..).., nanomalies, codes..]
#[path = "../../harness/src/rng.rs"]
mod rng;

use std::collections::{BTreeMap, HashMap};
use std::fmt::Write as _;
use std::future::Future;
use std::pin::Pin;
use std::sync::atomic::{AtomicUsize, Ordering};
use std::sync::{Arc, Mutex};
use std::time::Duration;

use deadpool_postgres::{
    ClientWrapper, Connect, Manager, ManagerConfig, Pool, PoolError, RecyclingMethod,
    StatementCache, Timeouts,
};
use rng::Rng;
use tokio::io::{AsyncReadExt, AsyncWriteExt, DuplexStream};
use tokio::sync::Notify;
use tokio::task::JoinHandle;
use tokio_postgres::types::Type;
use tokio_postgres::{Client as PgClient, Config as PgConfig, NoTls, Statement};

type Object = deadpool_postgres::Client;

/// the text documented for `RecyclingMethod::Clean`
const DISCARD_SQL: &str = "CLOSE ALL; SET SESSION AUTHORIZATION DEFAULT; RESET ALL; UNLISTEN *; SELECT pg_advisory_unlock_all(); DISCARD TEMP; DISCARD SEQUENCES;";
// the third custom text is empty: still one round trip (an empty query), not "no check"
const CUSTOM_SQL: [&str; 3] = ["SELECT 1", "SET search_path TO public; SELECT 2", ""];
// the last two differ from the first two only by surrounding white space: still different texts
const QUERIES: [&str; 6] = ["SELECT 1", "SELECT $1", "SELECT $1, $2", "SELECT $1::TEXT", " SELECT 1", "SELECT $1\n"];
const OIDS: [i64; 4] = [23, 25, 20, 16];

fn sql_id(q: &str) -> i64 {
    if q.is_empty() {
        return 0;
    }
    if q == DISCARD_SQL {
        return 1;
    }
    if let Some(i) = CUSTOM_SQL.iter().position(|c| *c == q) {
        return 10 + i as i64;
    }
    // what the transaction wrappers send
    if q == "BEGIN" {
        return 20;
    }
    if q == "COMMIT" {
        return 21;
    }
    if q.starts_with("SAVEPOINT ") {
        return 22;
    }
    if q.starts_with("RELEASE ") {
        return 23;
    }
    if q.starts_with("START TRANSACTION") {
        return 24;
    }
    99
}

/// number of placeholders of a query of the table
fn nparams(q: &str) -> usize {
    (1..=9).filter(|k| q.contains(&format!("${}", k))).count()
}

fn query_id(q: &str) -> i64 {
    QUERIES.iter().position(|c| *c == q).map(|i| i as i64).unwrap_or(99)
}

// ------------------------------------------------------------------ shared world
struct ConnCtl {
    armq: u8,
    armp: u8,
    server_done: bool,
    client_done: bool,
    nparse: i64,
    kill: Arc<Notify>,
}

#[derive(Default)]
struct World {
    log: Vec<Vec<i64>>,
    conns: Vec<ConnCtl>,
    armc: u8,
    last_new: Option<usize>,
    anomalies: Vec<i64>,
}

type Sh = Arc<Mutex<World>>;

// ------------------------------------------------------------------ the scripted backend
fn msg(tag: u8, body: &[u8]) -> Vec<u8> {
    let mut v = vec![tag];
    v.extend(((body.len() + 4) as u32).to_be_bytes());
    v.extend(body);
    v
}

fn error_response(severity: &str, text: &str) -> Vec<u8> {
    let mut b = vec![];
    b.push(b'S');
    b.extend(severity.as_bytes());
    b.push(0);
    b.push(b'V');
    b.extend(severity.as_bytes());
    b.push(0);
    b.push(b'C');
    b.extend(b"XX000\0");
    b.push(b'M');
    b.extend(text.as_bytes());
    b.push(0);
    b.push(0);
    msg(b'E', &b)
}

async fn read_msg(s: &mut DuplexStream) -> Option<(u8, Vec<u8>)> {
    let mut hdr = [0u8; 5];
    s.read_exact(&mut hdr).await.ok()?;
    let n = (u32::from_be_bytes([hdr[1], hdr[2], hdr[3], hdr[4]]) as usize).checked_sub(4)?;
    let mut body = vec![0u8; n];
    s.read_exact(&mut body).await.ok()?;
    Some((hdr[0], body))
}

struct ServerDone(Sh, Arc<AtomicUsize>);
impl Drop for ServerDone {
    fn drop(&mut self) {
        let id = self.1.load(Ordering::SeqCst);
        if let Ok(mut w) = self.0.lock() {
            if let Some(c) = w.conns.get_mut(id) {
                c.server_done = true;
            }
        }
    }
}

async fn backend(mut s: DuplexStream, sh: Sh, idcell: Arc<AtomicUsize>, kill: Arc<Notify>, startup_fault: u8) {
    // startup message: length, protocol version, key/value pairs
    let mut len = [0u8; 4];
    if s.read_exact(&mut len).await.is_err() {
        return;
    }
    let n = (u32::from_be_bytes(len) as usize).saturating_sub(4);
    let mut buf = vec![0u8; n];
    if s.read_exact(&mut buf).await.is_err() {
        return;
    }
    if startup_fault == 2 {
        return;
    }
    if startup_fault == 1 {
        let _ = s.write_all(&error_response("FATAL", "scripted startup failure")).await;
        return;
    }
    let mut out = msg(b'R', &0u32.to_be_bytes()); // AuthenticationOk
    out.extend(msg(b'S', b"server_version\014.0\0"));
    out.extend(msg(b'S', b"client_encoding\0UTF8\0"));
    out.extend(msg(b'K', &[0, 0, 0, 1, 0, 0, 0, 2]));
    out.extend(msg(b'Z', b"I"));
    if s.write_all(&out).await.is_err() {
        return;
    }
    let _done = ServerDone(sh.clone(), idcell.clone());
    let mut skip = false; // after an error in the extended protocol: discard until Sync
    let mut last: (i64, Vec<u32>) = (0, vec![]);
    loop {
        let m = tokio::select! {
            m = read_msg(&mut s) => m,
            _ = kill.notified() => None,
        };
        let (tag, body) = match m {
            Some(x) => x,
            None => break,
        };
        let id = idcell.load(Ordering::SeqCst);
        match tag {
            b'Q' => {
                let q = String::from_utf8_lossy(&body[..body.len().saturating_sub(1)]).to_string();
                let f = {
                    let mut w = sh.lock().unwrap();
                    w.log.push(vec![id as i64, 1, sql_id(&q)]);
                    std::mem::take(&mut w.conns[id].armq)
                };
                let mut out = match f {
                    0 if q.is_empty() => msg(b'I', b""),
                    0 => msg(b'C', b"SELECT 0\0"),
                    1 => error_response("ERROR", "scripted query failure"),
                    _ => break,
                };
                out.extend(msg(b'Z', b"I"));
                if s.write_all(&out).await.is_err() {
                    break;
                }
            }
            b'P' => {
                if skip {
                    continue;
                }
                // Parse: name\0 query\0 nparams(2) oids
                let parts: Vec<&[u8]> = body.splitn(3, |b| *b == 0).collect();
                if parts.len() < 3 || parts[2].len() < 2 {
                    sh.lock().unwrap().anomalies.push(901);
                    break;
                }
                let q = String::from_utf8_lossy(parts[1]).to_string();
                let rest = parts[2];
                let np = u16::from_be_bytes([rest[0], rest[1]]) as usize;
                let oids: Vec<u32> = (0..np)
                    .map(|i| u32::from_be_bytes(rest[2 + 4 * i..6 + 4 * i].try_into().unwrap()))
                    .collect();
                let (f, serial) = {
                    let mut w = sh.lock().unwrap();
                    let serial = w.conns[id].nparse;
                    w.conns[id].nparse += 1;
                    let mut e = vec![id as i64, 2, serial, query_id(&q), np as i64];
                    e.extend(oids.iter().map(|o| *o as i64));
                    w.log.push(e);
                    (std::mem::take(&mut w.conns[id].armp), serial)
                };
                match f {
                    0 => {
                        // like a real server the backend describes every placeholder of the query: the ones the
                        // client gave no type for are inferred (as TEXT)
                        let mut oids = oids;
                        while oids.len() < nparams(&q) {
                            oids.push(25);
                        }
                        last = (serial, oids);
                        if s.write_all(&msg(b'1', b"")).await.is_err() {
                            break;
                        }
                    }
                    1 => {
                        skip = true;
                        if s.write_all(&error_response("ERROR", "scripted parse failure")).await.is_err() {
                            break;
                        }
                    }
                    _ => break,
                }
            }
            b'D' => {
                if skip {
                    continue;
                }
                // ParameterDescription with the oids of the Parse, RowDescription with one INT4 column
                // whose name says on which connection and by which Parse the statement was prepared
                let mut pd = (last.1.len() as u16).to_be_bytes().to_vec();
                for o in &last.1 {
                    pd.extend(o.to_be_bytes());
                }
                let mut out = msg(b't', &pd);
                let mut rd = 1u16.to_be_bytes().to_vec();
                rd.extend(format!("c{}_p{}", id, last.0).as_bytes());
                rd.push(0);
                rd.extend(0u32.to_be_bytes()); // table oid
                rd.extend(0u16.to_be_bytes()); // column
                rd.extend(23u32.to_be_bytes()); // INT4
                rd.extend(4u16.to_be_bytes());
                rd.extend((-1i32).to_be_bytes());
                rd.extend(0u16.to_be_bytes());
                out.extend(msg(b'T', &rd));
                if s.write_all(&out).await.is_err() {
                    break;
                }
            }
            b'S' => {
                skip = false;
                if s.write_all(&msg(b'Z', b"I")).await.is_err() {
                    break;
                }
            }
            b'C' => {
                if skip {
                    continue;
                }
                if s.write_all(&msg(b'3', b"")).await.is_err() {
                    break;
                }
            }
            b'X' => break,
            t => {
                sh.lock().unwrap().log.push(vec![id as i64, 9, t as i64]);
            }
        }
    }
    if let Some(c) = sh.lock().unwrap().conns.get_mut(idcell.load(Ordering::SeqCst)) {
        c.server_done = true;
    }
    drop(s);
}

struct ClientDone(Sh, usize);
impl Drop for ClientDone {
    fn drop(&mut self) {
        if let Ok(mut w) = self.0.lock() {
            w.conns[self.1].client_done = true;
        }
    }
}

struct Scripted {
    sh: Sh,
}

impl Connect for Scripted {
    fn connect(
        &self,
        pg: &PgConfig,
    ) -> Pin<Box<dyn Future<Output = Result<(PgClient, JoinHandle<()>), tokio_postgres::Error>> + Send + '_>> {
        let pg = pg.clone();
        let sh = self.sh.clone();
        Box::pin(async move {
            let fault = std::mem::take(&mut sh.lock().unwrap().armc);
            let (a, b) = tokio::io::duplex(1 << 16);
            let idcell = Arc::new(AtomicUsize::new(usize::MAX));
            let kill = Arc::new(Notify::new());
            drop(tokio::spawn(backend(b, sh.clone(), idcell.clone(), kill.clone(), fault)));
            let (client, conn) = pg.connect_raw(a, NoTls).await?;
            let id = {
                let mut w = sh.lock().unwrap();
                w.conns.push(ConnCtl { armq: 0, armp: 0, server_done: false, client_done: false, nparse: 0, kill });
                let id = w.conns.len() - 1;
                if w.last_new.is_some() {
                    w.anomalies.push(902); // a second connection before the first one was handed out
                }
                w.last_new = Some(id);
                id
            };
            idcell.store(id, Ordering::SeqCst);
            let sh2 = sh.clone();
            let h = tokio::spawn(async move {
                let g = ClientDone(sh2, id);
                let _ = conn.await;
                drop(g);
                // every other connection task outlives its connection (a task that does more than drive
                // the connection): whether the connection is closed is the client's business to know
                if id % 2 == 1 {
                    std::future::pending::<()>().await;
                }
            });
            Ok((client, h))
        })
    }
}

// ------------------------------------------------------------------ one case
struct Case {
    pool: Pool,
    sh: Sh,
    held: BTreeMap<usize, Object>,
    taken: BTreeMap<usize, ClientWrapper>,
    caches: Vec<Option<Arc<StatementCache>>>,
    ptr2id: HashMap<usize, usize>,
    stmts: Vec<Statement>,
    logpos: usize,
    logpos_labels: usize,
}

fn method_of(cfg: &[i64]) -> RecyclingMethod {
    match cfg[1] {
        0 => RecyclingMethod::Fast,
        1 => RecyclingMethod::Verified,
        2 => RecyclingMethod::Clean,
        _ => RecyclingMethod::Custom(CUSTOM_SQL[(cfg[2] as usize) % CUSTOM_SQL.len()].to_string()),
    }
}

fn types_of(oids: &[i64]) -> Vec<Type> {
    oids.iter().map(|o| Type::from_oid(*o as u32).expect("built-in oid")).collect()
}

/// "c<conn>_p<serial>" -> (conn, serial)
fn stmt_identity(s: &Statement) -> (i64, i64) {
    let name = s.columns().first().map(|c| c.name().to_string()).unwrap_or_default();
    let mut it = name.trim_start_matches('c').split("_p");
    let a = it.next().and_then(|x| x.parse().ok()).unwrap_or(-7);
    let b = it.next().and_then(|x| x.parse().ok()).unwrap_or(-7);
    (a, b)
}

impl Case {
    fn new(cfg: &[i64]) -> Case {
        let sh: Sh = Default::default();
        let mut pgc = PgConfig::new();
        pgc.user("u").dbname("d");
        let mgr = Manager::from_connect(pgc, Scripted { sh: sh.clone() }, ManagerConfig { recycling_method: method_of(cfg) });
        let mut b = Pool::builder(mgr).max_size(cfg[0] as usize).runtime(deadpool::Runtime::Tokio1);
        if cfg[3] != 0 {
            b = b.queue_mode(deadpool::managed::QueueMode::Lifo);
        }
        let pool = b.build().unwrap();
        Case { pool, sh, held: BTreeMap::new(), taken: BTreeMap::new(), caches: vec![], ptr2id: HashMap::new(), stmts: vec![], logpos: 0, logpos_labels: 0 }
    }

    fn anomaly(&self, code: i64) {
        self.sh.lock().unwrap().anomalies.push(code);
    }

    /// no scripted fault is pending on the connection and it is open (the wrapper paths are only
    /// exercised in that situation)
    fn via_ready(&self, c: usize) -> bool {
        let w = self.sh.lock().unwrap();
        let ok = c < w.conns.len() && w.conns[c].armq == 0 && w.conns[c].armp == 0;
        drop(w);
        ok && self.wrapper(c).map(|cw| !cw.is_closed()).unwrap_or(false)
    }

    fn wrapper_mut(&mut self, c: usize) -> Option<&mut ClientWrapper> {
        if let Some(o) = self.held.get_mut(&c) {
            return Some(&mut **o);
        }
        self.taken.get_mut(&c)
    }

    fn wrapper(&self, c: usize) -> Option<&ClientWrapper> {
        if let Some(o) = self.held.get(&c) {
            return Some(&**o);
        }
        self.taken.get(&c)
    }

    async fn quiesce(&self) {
        for _ in 0..20000 {
            tokio::task::yield_now().await;
            let w = self.sh.lock().unwrap();
            if w.conns.iter().all(|c| !c.server_done || c.client_done) {
                return;
            }
        }
        self.anomaly(903);
    }

    /// can this label be executed at all (replay of foreign inputs)
    fn enabled(&self, l: &[i64]) -> bool {
        let c = l.get(1).copied().unwrap_or(0) as usize;
        match l[0] {
            1 | 2 => self.held.contains_key(&c),
            6 | 7 | 8 | 9 => self.held.contains_key(&c) || self.taken.contains_key(&c),
            16 => (self.held.contains_key(&c) || self.taken.contains_key(&c)) && (3..=8).contains(&l[2]) && self.via_ready(c),
            12 | 13 | 15 => c < self.sh.lock().unwrap().conns.len(),
            0 | 3 | 4 | 5 | 10 | 11 | 14 => true,
            _ => false,
        }
    }

    async fn apply(&mut self, l: &[i64]) -> Vec<i64> {
        let mut r = [0i64; 3];
        let c = l.get(1).copied().unwrap_or(0) as usize;
        match l[0] {
            0 => {
                self.sh.lock().unwrap().last_new = None;
                let t = Timeouts { wait: Some(Duration::ZERO), create: None, recycle: None };
                match self.pool.timeout_get(&t).await {
                    Ok(obj) => {
                        let ptr = Arc::as_ptr(&obj.statement_cache) as usize;
                        let new = self.sh.lock().unwrap().last_new.take();
                        let id = match (self.ptr2id.get(&ptr).copied(), new) {
                            (Some(id), None) => id,
                            (None, Some(id)) => {
                                let _ = self.ptr2id.insert(ptr, id);
                                while self.caches.len() <= id {
                                    self.caches.push(None);
                                }
                                self.caches[id] = Some(obj.statement_cache.clone());
                                id
                            }
                            (Some(id), Some(_)) => {
                                self.anomaly(904);
                                id
                            }
                            (None, None) => {
                                self.anomaly(905);
                                usize::MAX >> 8
                            }
                        };
                        r = [1, id as i64, obj.is_closed() as i64];
                        if self.held.insert(id, obj).is_some() {
                            self.anomaly(906); // the same client handed out twice
                        }
                    }
                    Err(e) => {
                        if self.sh.lock().unwrap().last_new.take().is_some() {
                            self.anomaly(907);
                        }
                        r = [2, match e {
                            PoolError::Timeout(_) => 1,
                            PoolError::Backend(_) => 2,
                            PoolError::Closed => 3,
                            _ => 9,
                        }, 0];
                    }
                }
            }
            1 => drop(self.held.remove(&c)),
            2 => {
                let o = self.held.remove(&c).unwrap();
                let cw = Object::take(o);
                let _ = self.taken.insert(c, cw);
            }
            3 => self.pool.resize(l[1] as usize),
            4 => self.pool.close(),
            5 => {
                let bits = l[1];
                let n = l[2];
                let mut i = 0i64;
                let res = self.pool.retain(|_, _| {
                    let keep = if i < n { (bits >> i) & 1 == 1 } else { true };
                    i += 1;
                    keep
                });
                r = [7, res.retained as i64, res.removed.len() as i64];
                drop(res);
            }
            6 => {
                let q = QUERIES[l[3] as usize % QUERIES.len()];
                let tys = types_of(&l[4..]);
                let res = {
                    let cw = self.wrapper(c).unwrap();
                    if l[2] == 1 && tys.is_empty() {
                        cw.prepare_cached(q).await
                    } else if l[2] == 2 {
                        use deadpool_postgres::GenericClient;
                        match self.held.get(&c) {
                            Some(o) => GenericClient::prepare_typed_cached(o, q, &tys).await,
                            None => cw.prepare_typed_cached(q, &tys).await,
                        }
                    } else {
                        cw.prepare_typed_cached(q, &tys).await
                    }
                };
                match res {
                    Ok(s) => {
                        let (a, b) = stmt_identity(&s);
                        // the parameter types of the statement are the ones asked for
                        let got: Vec<i64> = s.params().iter().map(|t| t.oid() as i64).collect();
                        let want = l[4..].len().max(nparams(q));
                        if got.len() != want || got[..l[4..].len()] != l[4..] {
                            self.anomaly(908);
                        }
                        r = [3, a, b];
                        self.stmts.push(s);
                    }
                    Err(_) => r = [4, 0, 0],
                }
            }
            16 => {
                let q = QUERIES[l[3] as usize % QUERIES.len()];
                let tys = types_of(&l[4..]);
                let w = l[2];
                let mut failed = false;
                let res: Result<Statement, tokio_postgres::Error> = {
                    let cw = self.wrapper_mut(c).unwrap();
                    match w {
                        3 => match cw.transaction().await {
                            Ok(tx) => {
                                let r = tx.prepare_typed_cached(q, &tys).await;
                                failed |= tx.commit().await.is_err();
                                r
                            }
                            Err(e) => Err(e),
                        },
                        7 | 8 => match cw.transaction().await {
                            // through the GenericClient trait implemented for Transaction
                            Ok(tx) => {
                                use deadpool_postgres::GenericClient;
                                let r = if w == 8 && tys.is_empty() {
                                    GenericClient::prepare_cached(&tx, q).await
                                } else {
                                    GenericClient::prepare_typed_cached(&tx, q, &tys).await
                                };
                                failed |= tx.commit().await.is_err();
                                r
                            }
                            Err(e) => Err(e),
                        },
                        6 => match cw.build_transaction().start().await {
                            Ok(tx) => {
                                let r = tx.prepare_typed_cached(q, &tys).await;
                                failed |= tx.commit().await.is_err();
                                r
                            }
                            Err(e) => Err(e),
                        },
                        _ => match cw.transaction().await {
                            Ok(mut tx) => {
                                let r = if w == 4 {
                                    match tx.transaction().await {
                                        Ok(sp) => {
                                            let r = sp.prepare_typed_cached(q, &tys).await;
                                            failed |= sp.commit().await.is_err();
                                            r
                                        }
                                        Err(e) => Err(e),
                                    }
                                } else {
                                    match tx.savepoint("dpv").await {
                                        Ok(sp) => {
                                            let r = sp.prepare_typed_cached(q, &tys).await;
                                            failed |= sp.commit().await.is_err();
                                            r
                                        }
                                        Err(e) => Err(e),
                                    }
                                };
                                failed |= tx.commit().await.is_err();
                                r
                            }
                            Err(e) => Err(e),
                        },
                    }
                };
                if failed {
                    self.anomaly(909);
                }
                match res {
                    Ok(s) => {
                        let (a, b) = stmt_identity(&s);
                        let got: Vec<i64> = s.params().iter().map(|t| t.oid() as i64).collect();
                        let want = l[4..].len().max(nparams(q));
                        if got.len() != want || got[..l[4..].len()] != l[4..] {
                            self.anomaly(908);
                        }
                        r = [3, a, b];
                        self.stmts.push(s);
                    }
                    Err(_) => r = [4, 0, 0],
                }
            }
            7 => {
                let q = QUERIES[l[3] as usize % QUERIES.len()];
                let tys = types_of(&l[4..]);
                let (a, b) = {
                    let cw = self.wrapper(c).unwrap();
                    tokio::join!(biased; cw.prepare_typed_cached(q, &tys), cw.prepare_typed_cached(q, &tys))
                };
                let mut code = |x: Result<Statement, tokio_postgres::Error>| match x {
                    Ok(s) => {
                        let (cn, k) = stmt_identity(&s);
                        self.stmts.push(s);
                        if cn != c as i64 {
                            -5
                        } else {
                            k
                        }
                    }
                    Err(_) => -1,
                };
                r = [5, code(a), code(b)];
            }
            8 => self.wrapper(c).unwrap().statement_cache.clear(),
            9 => {
                let q = QUERIES[l[3] as usize % QUERIES.len()];
                let tys = types_of(&l[4..]);
                let res = self.wrapper(c).unwrap().statement_cache.remove(q, &tys);
                r = [6, res.is_some() as i64, 0];
                if let Some(s) = res {
                    self.stmts.push(s);
                }
            }
            10 => self.pool.manager().statement_caches.clear(),
            11 => {
                let q = QUERIES[l[3] as usize % QUERIES.len()];
                let tys = types_of(&l[4..]);
                self.pool.manager().statement_caches.remove(q, &tys);
            }
            12 => self.sh.lock().unwrap().conns[c].armq = l[2] as u8,
            13 => self.sh.lock().unwrap().conns[c].armp = l[2] as u8,
            14 => self.sh.lock().unwrap().armc = l[1] as u8,
            15 => {
                let k = self.sh.lock().unwrap().conns[c].kill.clone();
                k.notify_one();
                for _ in 0..20000 {
                    if self.sh.lock().unwrap().conns[c].server_done {
                        break;
                    }
                    tokio::task::yield_now().await;
                }
                if !self.sh.lock().unwrap().conns[c].server_done {
                    self.anomaly(909);
                }
            }
            _ => {}
        }
        self.quiesce().await;
        self.observe(r)
    }

    fn observe(&mut self, r: [i64; 3]) -> Vec<i64> {
        let mut o = r.to_vec();
        let st = self.pool.status();
        o.push(self.pool.is_closed() as i64);
        o.push(st.max_size as i64);
        o.push(st.size as i64);
        o.push(st.available as i64);
        // the idle queue in order, through the public API
        let mut idle: Vec<(usize, bool)> = vec![];
        let _ = self.pool.retain(|cw, _| {
            idle.push((Arc::as_ptr(&cw.statement_cache) as usize, cw.is_closed()));
            true
        });
        let mut closed: HashMap<usize, i64> = HashMap::new();
        o.push(idle.len() as i64);
        for (p, cl) in &idle {
            match self.ptr2id.get(p) {
                Some(id) => {
                    o.push(*id as i64);
                    let _ = closed.insert(*id, *cl as i64);
                }
                None => {
                    o.push(-1);
                    self.anomaly(910);
                }
            }
        }
        for (id, ob) in &self.held {
            let _ = closed.insert(*id, ob.is_closed() as i64);
        }
        for (id, cw) in &self.taken {
            let _ = closed.insert(*id, cw.is_closed() as i64);
        }
        let n = self.sh.lock().unwrap().conns.len();
        o.push(n as i64);
        for id in 0..n {
            o.push(closed.get(&id).copied().unwrap_or(2));
            match self.caches.get(id).and_then(|c| c.as_ref()) {
                Some(c) => o.push(c.size() as i64),
                None => {
                    o.push(-1);
                    self.anomaly(911);
                }
            }
        }
        let mut w = self.sh.lock().unwrap();
        let new: Vec<Vec<i64>> = w.log[self.logpos..].to_vec();
        self.logpos = w.log.len();
        o.push(new.len() as i64);
        for m in new {
            o.push(m.len() as i64);
            o.extend(m);
        }
        o.push(w.anomalies.len() as i64);
        o.extend(w.anomalies.drain(..));
        o
    }
}

// ------------------------------------------------------------------ generation
#[derive(Clone, Copy, PartialEq)]
enum Profile {
    Mixed,
    Cache,
    Recycle,
}

fn gen_cfg(rng: &mut Rng) -> Vec<i64> {
    vec![1 + rng.below(4) as i64, rng.below(4) as i64, rng.below(3) as i64, rng.chance(30) as i64]
}

fn gen_key(rng: &mut Rng, used: &mut Vec<Vec<i64>>) -> Vec<i64> {
    if !used.is_empty() && rng.chance(45) {
        return used[rng.below(used.len() as u64) as usize].clone();
    }
    let v = gen_fresh_key(rng);
    used.push(v.clone());
    v
}

fn gen_fresh_key(rng: &mut Rng) -> Vec<i64> {
    // a small key space so that hits, and keys differing only in types, are frequent
    let q = match rng.below(10) {
        0..=5 => rng.below(2) as i64,
        6 | 7 => rng.below(4) as i64,
        _ => [0, 1, 4, 5][rng.below(4) as usize],
    };
    let n = rng.weighted(&[3, 4, 3]);
    let mut v = vec![q];
    for _ in 0..n {
        let on = if rng.chance(75) { 2 } else { 4 };
        v.push(OIDS[rng.below(on) as usize]);
    }
    v
}

fn pick<T: Copy>(rng: &mut Rng, v: &[T]) -> T {
    v[rng.below(v.len() as u64) as usize]
}

fn gen_label(rng: &mut Rng, cs: &Case, profile: Profile, used: &mut Vec<Vec<i64>>) -> Vec<i64> {
    let held: Vec<i64> = cs.held.keys().map(|k| *k as i64).collect();
    let taken: Vec<i64> = cs.taken.keys().map(|k| *k as i64).collect();
    let users: Vec<i64> = held.iter().chain(taken.iter()).copied().collect();
    let nconns = cs.sh.lock().unwrap().conns.len() as i64;
    let st = cs.pool.status();
    let (h, u, n) = (!held.is_empty() as u64, !users.is_empty() as u64, (nconns > 0) as u64);
    let g: u64 = if held.len() < st.max_size { 5 } else { 1 }; // a get that can only time out is rare
    let w: [u64; 16] = match profile {
        Profile::Mixed => [5 * g, 14 * h, 3 * h, 3, 0, 3, 24 * u, 3 * u, 2 * u, 3 * u, 5, 4, 5 * n, 2 * n, 1, 2 * n],
        Profile::Cache => [2 * g, 5 * h, 3 * h, 1, 0, 2, 44 * u, 5 * u, 4 * u, 6 * u, 8, 7, 1 * n, 4 * n, 1, 1 * n],
        Profile::Recycle => [7 * g, 26 * h, 3 * h, 5, 0, 4, 6 * u, 0, 1 * u, 0, 2, 1, 10 * n, 1 * n, 3, 5 * n],
    };
    // close() ends most of what can happen afterwards: rare, and never early
    if cs.logpos_labels >= 10 && rng.chance(if profile == Profile::Cache { 0 } else { 1 }) {
        return vec![4];
    }
    let k = rng.weighted(&w) as i64;
    match k {
        0 | 4 | 10 => vec![k],
        1 | 2 => vec![k, pick(rng, &held)],
        3 => vec![3, rng.below(st.max_size as u64 + 3).min(5) as i64],
        5 => {
            let n = st.available as i64;
            let bits = rng.below(1 << n.clamp(0, 6)) as i64;
            vec![5, if rng.chance(30) { (1 << n.clamp(0, 6)) - 1 } else { bits }, n]
        }
        6 => {
            let key = gen_key(rng, used);
            let api = if key.len() == 1 && rng.chance(50) { 1 } else if rng.chance(20) { 2 } else { 0 };
            let c = pick(rng, &users);
            // sometimes through one of the Transaction wrappers (only on a connection without a pending fault)
            let mut v = if rng.chance(30) && cs.via_ready(c as usize) {
                vec![16, c, 3 + rng.below(6) as i64]
            } else {
                vec![6, c, api]
            };
            v.extend(key);
            v
        }
        7 | 9 => {
            let mut v = vec![k, pick(rng, &users), 0];
            v.extend(gen_key(rng, used));
            v
        }
        8 => vec![8, pick(rng, &users)],
        11 => {
            let mut v = vec![11, 0, 0];
            v.extend(gen_key(rng, used));
            v
        }
        12 | 13 => {
            // prefer connections that are still alive somewhere
            let c = if !users.is_empty() && rng.chance(40) { pick(rng, &users) } else { rng.below(nconns as u64) as i64 };
            vec![k, c, 1 + rng.below(2) as i64]
        }
        14 => vec![14, 1 + rng.below(2) as i64],
        _ => {
            let c = if !users.is_empty() && rng.chance(40) { pick(rng, &users) } else { rng.below(nconns as u64) as i64 };
            vec![15, c]
        }
    }
}

struct TraceOut {
    cfg: Vec<i64>,
    labels: Vec<Vec<i64>>,
    obs: Vec<Vec<i64>>,
    err: Option<String>,
}

fn runtime() -> tokio::runtime::Runtime {
    tokio::runtime::Builder::new_current_thread().enable_all().build().unwrap()
}

fn gen_trace(rng: &mut Rng, profile: Profile, max_labels: usize) -> TraceOut {
    let cfg = gen_cfg(rng);
    let rt = runtime();
    let mut t = TraceOut { cfg: cfg.clone(), labels: vec![], obs: vec![], err: None };
    rt.block_on(async {
        let mut cs = Case::new(&cfg);
        let mut used: Vec<Vec<i64>> = vec![];
        let n = 8 + rng.below(max_labels.saturating_sub(7).max(1) as u64) as usize;
        for _ in 0..n {
            cs.logpos_labels = t.labels.len();
            let mut l = gen_label(rng, &cs, profile, &mut used);
            // two concurrent prepares are not combined with a scripted hang-up at Parse
            if l[0] == 7 && cs.sh.lock().unwrap().conns[l[1] as usize].armp == 2 {
                l[0] = 6;
            }
            let o = cs.apply(&l).await;
            t.labels.push(l);
            t.obs.push(o);
        }
    });
    t
}

fn replay_trace(cfg: Vec<i64>, labels: &[Vec<i64>]) -> TraceOut {
    let rt = runtime();
    let mut t = TraceOut { cfg: cfg.clone(), labels: vec![], obs: vec![], err: None };
    rt.block_on(async {
        let mut cs = Case::new(&cfg);
        for l in labels {
            if l.is_empty() || !cs.enabled(l) {
                t.err = Some(format!("label {:?} not executable", l));
                break;
            }
            let o = cs.apply(l).await;
            t.labels.push(l.clone());
            t.obs.push(o);
        }
    });
    t
}

fn ints(v: &[i64]) -> String {
    let mut s = String::from("[");
    for (i, x) in v.iter().enumerate() {
        if i > 0 {
            s.push(',');
        }
        let _ = write!(s, "{}", x);
    }
    s.push(']');
    s
}

fn print_trace(i: usize, t: &TraceOut) {
    let mut s = String::new();
    let _ = write!(s, "{{\"id\":{},\"cfg\":{},\"labels\":[", i, ints(&t.cfg));
    s.push_str(&t.labels.iter().map(|l| ints(l)).collect::<Vec<_>>().join(","));
    s.push_str("],\"obs\":[");
    s.push_str(&t.obs.iter().map(|l| ints(l)).collect::<Vec<_>>().join(","));
    s.push(']');
    if let Some(e) = &t.err {
        let _ = write!(s, ",\"err\":\"{}\"", e.replace('"', "'"));
    }
    s.push('}');
    println!("{}", s);
}

fn parse_replay_line(line: &str) -> Option<(Vec<i64>, Vec<Vec<i64>>)> {
    fn parse_arr(s: &str) -> (Vec<i64>, usize) {
        let end = s.find(']').unwrap();
        let v = s[1..end].split(',').filter(|x| !x.trim().is_empty()).map(|x| x.trim().parse::<i64>().unwrap()).collect();
        (v, end + 1)
    }
    let ci = line.find("\"cfg\"")?;
    let cs = &line[ci..];
    let cb = cs.find('[')?;
    let (cfg, _) = parse_arr(&cs[cb..]);
    let li = line.find("\"labels\"")?;
    let ls = &line[li..];
    let lb = ls.find('[')?;
    let mut rest = &ls[lb + 1..];
    let mut labels = vec![];
    loop {
        let r = rest.trim_start_matches([',', ' ']);
        if r.starts_with('[') {
            let (v, n) = parse_arr(r);
            labels.push(v);
            rest = &r[n..];
        } else {
            break;
        }
    }
    Some((cfg, labels))
}

fn main() {
    let args: Vec<String> = std::env::args().collect();
    match args.get(1).map(|s| s.as_str()) {
        Some("gen") => {
            let seed: u64 = args[2].parse().unwrap();
            let n: usize = args[3].parse().unwrap();
            let profile = match args[4].as_str() {
                "cache" => Profile::Cache,
                "recycle" => Profile::Recycle,
                _ => Profile::Mixed,
            };
            let max_labels: usize = args[5].parse().unwrap();
            let mut master = Rng::new(seed);
            for i in 0..n {
                let mut rng = master.fork();
                let t = gen_trace(&mut rng, profile, max_labels);
                print_trace(i, &t);
            }
        }
        Some("replay") => {
            let text = std::fs::read_to_string(&args[2]).unwrap();
            for (i, line) in text.lines().enumerate() {
                if let Some((cfg, labels)) = parse_replay_line(line) {
                    let t = replay_trace(cfg, &labels);
                    print_trace(i, &t);
                }
            }
        }
        Some("bulk") => {
            // one connection, n distinct statement texts, each prepared twice: the cache holds every one of them
            // (no bound, nothing forgotten), size() counts them, every repeat is a hit, clear() empties it
            let n: usize = args.get(2).and_then(|s| s.parse().ok()).unwrap_or(1100);
            let rt = runtime();
            rt.block_on(async {
                let cs = Case::new(&[1, 0, 0, 0]);
                let obj = cs.pool.get().await.expect("bulk: get");
                let parses = |cs: &Case| cs.sh.lock().unwrap().conns.iter().map(|c| c.nparse).sum::<i64>();
                let p0 = parses(&cs);
                let mut errors = 0;
                for k in 0..n {
                    if obj.prepare_cached(&format!("SELECT {}", k)).await.is_err() {
                        errors += 1;
                    }
                }
                let p1 = parses(&cs);
                let size_first = obj.statement_cache.size();
                for k in 0..n {
                    if obj.prepare_cached(&format!("SELECT {}", k)).await.is_err() {
                        errors += 1;
                    }
                }
                let p2 = parses(&cs);
                let size_second = obj.statement_cache.size();
                obj.statement_cache.clear();
                let size_cleared = obj.statement_cache.size();
                println!(
                    "{{\"n\":{},\"errors\":{},\"parses_first\":{},\"size_first\":{},\"parses_second\":{},\"size_second\":{},\"size_cleared\":{}}}",
                    n, errors, p1 - p0, size_first, p2 - p1, size_second, size_cleared
                );
            });
        }
        _ => {
            eprintln!("usage: h4_pg gen <seed> <n> <profile> <maxlabels> | replay <file> | bulk [n]");
            std::process::exit(2);
        }
    }
}
