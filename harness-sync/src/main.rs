//! H3 - SyncWrapper observer (C14) and pools built on SyncWrapper (C15).
//!   h3_sync gen <seed> <n> <profile> [maxlabels]     profile: c14 | sqlite | r2d2 | diesel
//!   h3_sync replay <file>                            lines {"profile":..,"cfg":[..],"labels":[[..]..]}
//! prints one JSON line per case: {"id":..,"cfg":[..],"labels":[[..]..],"obs":[[..]..]} (+ "err" if the
//! harness itself could not complete the case).
#[path = "../../harness/src/rng.rs"]
mod rng;
mod c14;
mod common;
mod pools;

use common::*;
use rng::Rng;

fn print_case(id: usize, profile: &str, cfg: &[i64], labels: &[Vec<i64>], obs: &[Vec<i64>], err: &Option<String>) {
    let mut s = format!(
        "{{\"id\":{},\"profile\":\"{}\",\"cfg\":{},\"labels\":{},\"obs\":{}",
        id,
        profile,
        json_ints(cfg),
        json_lists(labels),
        json_lists(obs)
    );
    if let Some(e) = err {
        s.push_str(&format!(",\"err\":\"{}\"", e.replace('"', "'")));
    }
    s.push('}');
    println!("{}", s);
}

fn main() {
    std::panic::set_hook(Box::new(|_| {}));
    let args: Vec<String> = std::env::args().collect();
    if args.len() < 3 {
        eprintln!("usage: h3_sync gen <seed> <n> <profile> [maxlabels] | replay <file>");
        std::process::exit(2);
    }
    note_async(); // the driver thread is not a blocking-pool thread either
    let rt = tokio::runtime::Builder::new_multi_thread().worker_threads(3).enable_all().build().unwrap();
    match args[1].as_str() {
        "gen" => {
            let seed: u64 = args[2].parse().unwrap();
            let n: usize = args[3].parse().unwrap();
            let profile = args.get(4).map(|s| s.as_str()).unwrap_or("c14").to_string();
            let maxlabels: usize = args.get(5).and_then(|s| s.parse().ok()).unwrap_or(40);
            let mut rng = Rng::new(seed);
            let mut stuck = 0usize;
            for id in 0..n {
                let mut r = rng.fork();
                if stuck >= 5 {
                    // the implementation hangs again and again: do not spend the whole budget waiting
                    print_case(id, &profile, &[], &[], &[], &Some("skipped: five earlier cases of this batch timed out".into()));
                    continue;
                }
                match profile.as_str() {
                    "c14" => {
                        let c = c14::gen_case(&rt, &mut r, maxlabels);
                        if c.err.is_some() {
                            stuck += 1;
                        }
                        print_case(id, &profile, &c.cfg, &c.labels, &c.obs, &c.err);
                    }
                    "sqlite" | "r2d2" | "diesel" => {
                        let mgr = match profile.as_str() {
                            "sqlite" => 0,
                            "r2d2" => 1,
                            _ => 2,
                        };
                        let c = pools::gen_case(&rt, &mut r, mgr, maxlabels.max(10));
                        if c.err.is_some() {
                            stuck += 1;
                        }
                        print_case(id, &profile, &c.cfg, &c.labels, &c.obs, &c.err);
                    }
                    _ => {
                        eprintln!("unknown profile {}", profile);
                        std::process::exit(2);
                    }
                }
            }
        }
        "replay" => {
            let text = std::fs::read_to_string(&args[2]).unwrap();
            for (id, line) in text.lines().enumerate() {
                if line.trim().is_empty() {
                    continue;
                }
                let (cfg, labels) = parse_case(line).expect("bad case line");
                let profile = if let Some(i) = line.find("\"profile\"") {
                    let rest = &line[i + 9..];
                    let a = rest.find('"').unwrap() + 1;
                    let b = rest[a..].find('"').unwrap() + a;
                    rest[a..b].to_string()
                } else {
                    "c14".to_string()
                };
                match profile.as_str() {
                    "c14" => {
                        let c = c14::replay_case(&rt, &cfg, &labels);
                        print_case(id, &profile, &c.cfg, &c.labels, &c.obs, &c.err);
                    }
                    "sqlite" | "r2d2" | "diesel" => {
                        let c = pools::replay_case(&rt, &cfg, &labels);
                        print_case(id, &profile, &c.cfg, &c.labels, &c.obs, &c.err);
                    }
                    _ => {
                        eprintln!("unknown profile {}", profile);
                        std::process::exit(2);
                    }
                }
            }
        }
        _ => std::process::exit(2),
    }
    pools::cleanup();
    rt.shutdown_background();
}
