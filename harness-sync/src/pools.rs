//! H3, part 2: real pools built on SyncWrapper with an identity marker per connection (C15).
//!
//! cfg = [mgr, max_size, method, hands]   mgr: 0 deadpool-sqlite, 1 deadpool-r2d2 (fake ManageConnection),
//!                                        2 deadpool-diesel (SqliteConnection); method (diesel): 0 Fast,
//!                                        1 Verified, 2 CustomQuery, 3 CustomFunction
//! labels: [0,h] get into hand h   [1,h,kind] interact on hand h (0 ok, 1 panic, 2 cancelled + closure returns,
//!         3 cancelled + closure panics, 4 cancelled + the closure still runs while the object is returned
//!         and the next get() arrives - recorded as interact (2), return, get)   [2,h] return hand h   [3,h,flags] script the backend state of the
//!         connection in hand h (bit 0 broken, bit 1 invalid / ping fails)   [5] one non-blocking get
//! obs:    [code, x, y, status.size, status.available, has_broken calls, is_valid / ping calls (-1: not observable)]
//!         followed by the harness' anomalies [n, (code, a)*]
use crate::common::*;
use crate::rng::Rng;
use deadpool::managed::{Manager, Object, Pool, Timeouts};
use deadpool_sync::{InteractError, SyncWrapper};
use std::collections::HashMap;
use std::sync::atomic::{AtomicUsize, Ordering};
use std::sync::{mpsc, Arc, Mutex};
use std::time::Duration;

const TO: Duration = Duration::from_millis(9000);

pub struct Case {
    pub cfg: Vec<i64>,
    pub labels: Vec<Vec<i64>>,
    pub obs: Vec<Vec<i64>>,
    pub err: Option<String>,
}

/// what differs between the three pools
pub trait Kind: 'static {
    type C: Send + 'static;
    type M: Manager<Type = SyncWrapper<Self::C>> + Send + Sync + 'static;
    fn read_marker(c: &mut Self::C) -> Option<i64>;
    fn init_conn(c: &mut Self::C, serial: i64);
    fn script(c: &mut Self::C, flags: i64, table: &Script);
}

/// scripted backend state shared with fake managers / callbacks: serial -> flags; call log
#[derive(Default)]
pub struct ScriptInner {
    pub flags: HashMap<i64, i64>,
    pub calls: Vec<(i64, i64, std::thread::ThreadId)>, // (1 has_broken | 2 is_valid / ping, serial, thread)
}
pub type Script = Arc<Mutex<ScriptInner>>;

// ------------------------------------------------------------------ sqlite
pub struct Sqlite;
impl Kind for Sqlite {
    type C = deadpool_sqlite::rusqlite::Connection;
    type M = deadpool_sqlite::Manager;
    fn read_marker(c: &mut Self::C) -> Option<i64> {
        c.query_row("SELECT id FROM temp.dpv_marker", [], |r| r.get::<_, i64>(0)).ok()
    }
    fn init_conn(c: &mut Self::C, serial: i64) {
        c.execute_batch(&format!(
            "CREATE TEMP TABLE dpv_marker(id INTEGER NOT NULL); INSERT INTO dpv_marker VALUES ({});",
            serial
        ))
        .expect("marker");
    }
    fn script(_c: &mut Self::C, _flags: i64, _t: &Script) {}
}

// ------------------------------------------------------------------ r2d2 over a fake ManageConnection
pub struct FakeConn {
    serial: i64,
}
#[derive(Debug)]
pub struct FakeErr;
impl std::fmt::Display for FakeErr {
    fn fmt(&self, f: &mut std::fmt::Formatter<'_>) -> std::fmt::Result {
        write!(f, "scripted is_valid failure")
    }
}
impl std::error::Error for FakeErr {}
pub struct FakeMgr {
    next: AtomicUsize,
    script: Script,
}
impl r2d2::ManageConnection for FakeMgr {
    type Connection = FakeConn;
    type Error = FakeErr;
    fn connect(&self) -> Result<FakeConn, FakeErr> {
        Ok(FakeConn { serial: self.next.fetch_add(1, Ordering::SeqCst) as i64 })
    }
    fn is_valid(&self, conn: &mut FakeConn) -> Result<(), FakeErr> {
        let mut g = self.script.lock().unwrap();
        g.calls.push((2, conn.serial, std::thread::current().id()));
        let f = g.flags.get(&conn.serial).copied().unwrap_or(0);
        if f & 16 != 0 {
            // fails this once; a second question would be answered with Ok
            let _ = g.flags.insert(conn.serial, f & !16);
            return Err(FakeErr);
        }
        if f & 2 != 0 {
            Err(FakeErr)
        } else {
            Ok(())
        }
    }
    fn has_broken(&self, conn: &mut FakeConn) -> bool {
        let flags = {
            let mut g = self.script.lock().unwrap();
            g.calls.push((1, conn.serial, std::thread::current().id()));
            g.flags.get(&conn.serial).copied().unwrap_or(0)
        };
        if flags & 8 != 0 {
            // the backend's own check panics: the interaction fails and the wrapper is poisoned
            panic!("scripted panic in has_broken");
        }
        flags & 1 != 0
    }
}
pub struct R2d2;
impl Kind for R2d2 {
    type C = FakeConn;
    type M = deadpool_r2d2::Manager<FakeMgr>;
    fn read_marker(c: &mut FakeConn) -> Option<i64> {
        Some(c.serial)
    }
    fn init_conn(_c: &mut FakeConn, _serial: i64) {}
    fn script(c: &mut FakeConn, flags: i64, t: &Script) {
        t.lock().unwrap().flags.insert(c.serial, flags);
    }
}

// ------------------------------------------------------------------ diesel over SqliteConnection
/// the script of the diesel case that is running: diesel's (global) instrumentation records the
/// thread on which a connection is established into its call log (kind 3)
static EST_SCRIPT: Mutex<Option<Script>> = Mutex::new(None);

struct EstWatcher;
impl diesel::connection::Instrumentation for EstWatcher {
    fn on_connection_event(&mut self, event: diesel::connection::InstrumentationEvent<'_>) {
        if let diesel::connection::InstrumentationEvent::StartEstablishConnection { .. } = event {
            if let Some(s) = EST_SCRIPT.lock().unwrap().as_ref() {
                s.lock().unwrap().calls.push((3, -1, std::thread::current().id()));
            }
        }
    }
}
fn est_watcher() -> Option<Box<dyn diesel::connection::Instrumentation>> {
    Some(Box::new(EstWatcher))
}

pub struct Diesel;
fn diesel_marker(c: &mut diesel::SqliteConnection) -> Option<i64> {
    use diesel::RunQueryDsl;
    diesel::select(diesel::dsl::sql::<diesel::sql_types::Integer>("(SELECT id FROM temp.dpv_marker LIMIT 1)"))
        .get_result::<i32>(c)
        .ok()
        .map(|x| x as i64)
}
impl Kind for Diesel {
    type C = diesel::SqliteConnection;
    type M = deadpool_diesel::sqlite::Manager;
    fn read_marker(c: &mut Self::C) -> Option<i64> {
        diesel_marker(c)
    }
    fn init_conn(c: &mut Self::C, serial: i64) {
        use diesel::RunQueryDsl;
        diesel::sql_query("CREATE TEMP TABLE dpv_marker(id INTEGER NOT NULL)").execute(c).expect("marker");
        diesel::sql_query(format!("INSERT INTO dpv_marker VALUES ({})", serial)).execute(c).expect("marker");
        diesel::sql_query("CREATE TEMP TABLE dpv_pingok(x INTEGER)").execute(c).expect("ping table");
    }
    fn script(c: &mut Self::C, flags: i64, t: &Script) {
        use diesel::connection::{AnsiTransactionManager, TransactionManager};
        use diesel::RunQueryDsl;
        let serial = diesel_marker(c).unwrap_or(-1);
        let old = t.lock().unwrap().flags.get(&serial).copied().unwrap_or(0);
        if flags & 2 != 0 && old & 2 == 0 {
            // the ping of CustomQuery fails from now on
            diesel::sql_query("DROP TABLE temp.dpv_pingok").execute(c).expect("drop ping table");
        }
        if flags & 4 != 0 && old & 4 == 0 && old & 1 == 0 && flags & 1 == 0 {
            // the transaction manager in its error state: diesel's own ROLLBACK fails because the closure
            // ended the transaction behind its back
            use diesel::Connection;
            let r: Result<(), diesel::result::Error> = c.transaction(|c| {
                diesel::sql_query("ROLLBACK").execute(c)?;
                Err(diesel::result::Error::RollbackTransaction)
            });
            assert!(r.is_err());
            assert!(AnsiTransactionManager::transaction_manager_status_mut(c).transaction_depth().is_err());
        }
        if flags & 1 != 0 && old & 1 == 0 && old & 4 == 0 {
            // a dangling transaction: the transaction manager counts as broken
            AnsiTransactionManager::begin_transaction(c).expect("begin");
        }
        t.lock().unwrap().flags.insert(serial, old | flags);
    }
}

// ------------------------------------------------------------------ the generic driver
fn run<F>(rt: &tokio::runtime::Runtime, f: F) -> Option<F::Output>
where
    F: std::future::Future + Send + 'static,
    F::Output: Send + 'static,
{
    let (tx, rx) = mpsc::channel();
    drop(rt.spawn(async move {
        note_async();
        let r = f.await;
        note_async();
        let _ = tx.send(r);
    }));
    rx.recv_timeout(TO).ok()
}

struct Drv<'a, K: Kind> {
    rt: &'a tokio::runtime::Runtime,
    pool: Pool<K::M>,
    script: Script,
    observable_calls: (bool, bool),
    hands: Vec<Option<Object<K::M>>>,
    next_serial: i64,
    labels: Vec<Vec<i64>>,
    obs: Vec<Vec<i64>>,
    anomalies: Vec<Vec<i64>>,
    err: Option<String>,
    calls_seen: usize,
}

/// marker of the connection behind a wrapper, read on a blocking thread; works on a poisoned wrapper too
async fn marker_of<K: Kind>(w: &SyncWrapper<K::C>) -> (Option<i64>, bool) {
    if w.is_mutex_poisoned() {
        let m = match w.lock() {
            Ok(mut g) => K::read_marker(&mut g),
            Err(e) => {
                let mut g = e.into_inner();
                g.as_mut().and_then(|c| K::read_marker(c))
            }
        };
        (m, true)
    } else {
        match w.interact(|c| K::read_marker(c)).await {
            Ok(m) => (m, false),
            Err(_) => (None, true),
        }
    }
}

impl<'a, K: Kind> Drv<'a, K>
where
    <K::M as Manager>::Error: std::fmt::Debug + Send,
{
    fn anomaly(&mut self, code: i64, a: i64) {
        self.anomalies.push(vec![code, a]);
    }

    fn fail(&mut self, code: i64, a: i64, msg: &str) {
        self.anomaly(code, a);
        if self.err.is_none() {
            self.err = Some(msg.to_string());
        }
    }

    /// calls of has_broken / is_valid since the last label; flags calls made on async threads
    fn take_calls(&mut self) -> (i64, i64) {
        let calls: Vec<(i64, i64, std::thread::ThreadId)> = {
            let g = self.script.lock().unwrap();
            g.calls[self.calls_seen..].to_vec()
        };
        self.calls_seen += calls.len();
        let mut hb = 0;
        let mut iv = 0;
        for (k, serial, tid) in calls {
            if k == 3 {
                // a connection was established: must not happen on a thread that polls async code
                if class_of(tid) == 0 {
                    self.anomaly(26, serial);
                }
                continue;
            }
            if k == 1 {
                hb += 1;
            } else {
                iv += 1;
            }
            if class_of(tid) == 0 {
                self.anomaly(22, serial);
            }
        }
        (if self.observable_calls.0 { hb } else { -1 }, if self.observable_calls.1 { iv } else { -1 })
    }

    fn record(&mut self, label: Vec<i64>, code: i64, x: i64, y: i64) {
        let st = self.pool.status();
        let (hb, iv) = self.take_calls();
        let mut o = vec![code, x, y, st.size as i64, st.available as i64, hb, iv];
        o.push(self.anomalies.len() as i64);
        for a in &self.anomalies {
            o.extend_from_slice(a);
        }
        self.anomalies.clear();
        self.labels.push(label);
        self.obs.push(o);
    }

    /// identify a connection that was just handed out; returns (serial, is_new)
    fn identify(&mut self, obj: Object<K::M>) -> (Object<K::M>, i64, i64) {
        let fresh = Object::metrics(&obj).recycle_count == 0;
        let next = self.next_serial;
        let r = run(self.rt, async move {
            let (m, poisoned) = marker_of::<K>(&obj).await;
            let m = match m {
                Some(m) => Some(m),
                None if !poisoned => {
                    // no marker yet: a connection we have never seen
                    let _ = obj.interact(move |c| K::init_conn(c, next)).await;
                    None
                }
                None => None,
            };
            (obj, m, poisoned)
        });
        match r {
            Some((obj, m, poisoned)) => {
                if poisoned {
                    self.anomaly(20, m.unwrap_or(-1));
                }
                let (serial, had_marker) = match m {
                    Some(m) => (m, true),
                    None => (next, false),
                };
                if serial >= self.next_serial {
                    self.next_serial = serial + 1;
                }
                // r2d2's fake connections always carry their serial: "new" is what the pool's metrics say
                let is_new = if std::any::TypeId::of::<K>() == std::any::TypeId::of::<R2d2>() { fresh } else { !had_marker };
                if is_new != fresh {
                    self.anomaly(21, serial);
                }
                (obj, serial, is_new as i64)
            }
            None => {
                self.fail(25, 0, "identifying the connection timed out");
                panic!("harness cannot continue");
            }
        }
    }

    fn exec(&mut self, l: &[i64]) {
        match l[0] {
            0 => {
                let h = l[1] as usize;
                let pool = self.pool.clone();
                match run(self.rt, async move { pool.get().await }) {
                    Some(Ok(obj)) => {
                        let (obj, serial, is_new) = self.identify(obj);
                        self.hands[h] = Some(obj);
                        self.record(vec![0, l[1]], 0, serial, is_new);
                    }
                    Some(Err(e)) => {
                        self.fail(23, 0, &format!("get() failed: {:?}", e));
                        self.record(vec![0, l[1]], 0, -1, 0);
                    }
                    None => {
                        self.fail(25, 1, "get() did not return");
                        self.record(vec![0, l[1]], 0, -1, 0);
                    }
                }
            }
            1 => {
                let h = l[1] as usize;
                let kind = l[2];
                let obj = self.hands[h].take().expect("hand holds an object");
                let was_poisoned = obj.is_mutex_poisoned();
                let hub = Hub::new();
                let (res, obj) = if kind < 2 || was_poisoned {
                    let r = run(self.rt, async move {
                        let r = obj
                            .interact(move |c| {
                                let _ = K::read_marker(c);
                                if kind == 1 || kind == 3 {
                                    panic!("scripted interaction panic");
                                }
                            })
                            .await;
                        (r, obj)
                    });
                    match r {
                        Some((Ok(()), obj)) => (1, obj),
                        Some((Err(InteractError::Panic(_)), obj)) => (2, obj),
                        Some((Err(InteractError::Aborted), obj)) => (3, obj),
                        None => {
                            self.fail(25, 2, "interact() did not return");
                            panic!("harness cannot continue");
                        }
                    }
                } else {
                    // the await is dropped while the closure runs; the closure then returns or panics
                    let ctl = Ctl::new(None, None);
                    let (gtx, grx) = mpsc::channel::<i64>();
                    let (rtx, rrx) = mpsc::channel();
                    let (mtx, mrx) = mpsc::channel::<Option<i64>>();
                    let tok = Token::new(&hub, 0);
                    let ctl2 = ctl.clone();
                    drop(self.rt.spawn(async move {
                        note_async();
                        let out = {
                            let fut = obj.interact(move |c| {
                                let tok = tok;
                                let _ = mtx.send(K::read_marker(c));
                                tok.begin();
                                if grx.recv().unwrap_or(0) == 1 {
                                    panic!("scripted interaction panic");
                                }
                            });
                            Cancellable::new(fut, ctl2).await
                        };
                        note_async();
                        let _ = rtx.send((matches!(out, Outcome::Cancelled), obj));
                    }));
                    if hub.wait(0, TO).is_none() {
                        self.fail(25, 3, "closure did not start");
                    }
                    ctl.cancel_now();
                    let obj = match rrx.recv_timeout(TO) {
                        Ok((true, obj)) => obj,
                        Ok((false, obj)) => {
                            self.anomaly(24, 0);
                            obj
                        }
                        Err(_) => {
                            self.fail(25, 4, "cancelled interact() did not return");
                            panic!("harness cannot continue");
                        }
                    };
                    let busy: Option<i64> = mrx.recv_timeout(TO).ok().flatten();
                    if kind == 4 {
                        // the cancelled closure keeps running while the object goes back to the pool and
                        // the next get() arrives: that get has to wait for the closure (its recycle takes the
                        // lock), it must not be served from the connection the closure still works on.
                        // Recorded as the three labels it consists of: interact (cancelled), return, get.
                        let p0 = obj.is_mutex_poisoned() as i64;
                        self.hands[h] = Some(obj);
                        self.record(vec![1, l[1], 2], 1, 0, p0);
                        let obj = self.hands[h].take().unwrap();
                        if run(self.rt, async move { drop(obj) }).is_none() {
                            self.fail(25, 6, "returning the object did not finish");
                        }
                        self.record(vec![2, l[1]], 2, 0, 0);
                        let pool = self.pool.clone();
                        let (otx, orx) = mpsc::channel();
                        drop(self.rt.spawn(async move {
                            note_async();
                            let r = pool.get().await;
                            note_async();
                            let _ = otx.send(r);
                        }));
                        // give the get() time to run into the busy connection
                        let early = orx.recv_timeout(Duration::from_millis(60)).ok();
                        let _ = gtx.send(0);
                        if hub.wait(1, TO).is_none() {
                            self.fail(25, 5, "cancelled closure did not finish");
                        }
                        let was_early = early.is_some();
                        let got = match early {
                            Some(r) => Some(r),
                            None => orx.recv_timeout(TO).ok(),
                        };
                        match got {
                            Some(Ok(obj)) => {
                                let (obj, serial, is_new) = self.identify(obj);
                                if was_early && Some(serial) == busy {
                                    // served from the very connection the cancelled closure still works on
                                    self.anomaly(27, serial);
                                }
                                self.hands[h] = Some(obj);
                                self.record(vec![0, l[1]], 0, serial, is_new);
                            }
                            Some(Err(e)) => {
                                self.fail(23, 0, &format!("get() failed: {:?}", e));
                                self.record(vec![0, l[1]], 0, -1, 0);
                            }
                            None => {
                                self.fail(25, 1, "get() did not return");
                                self.record(vec![0, l[1]], 0, -1, 0);
                            }
                        }
                        return;
                    }
                    let _ = gtx.send(if kind == 3 { 1 } else { 0 });
                    if hub.wait(1, TO).is_none() {
                        self.fail(25, 5, "cancelled closure did not finish");
                    }
                    // the End event precedes the release of the guard: wait until the mutex is free again
                    let t0 = std::time::Instant::now();
                    while matches!(obj.try_lock(), Err(std::sync::TryLockError::WouldBlock)) && t0.elapsed() < TO {
                        std::thread::sleep(Duration::from_micros(20));
                    }
                    (0, obj)
                };
                let p = obj.is_mutex_poisoned() as i64;
                // the flag must not depend on whether somebody holds the lock at the moment it is read
                let p_held = {
                    let g = obj.lock();
                    let v = obj.is_mutex_poisoned() as i64;
                    drop(g);
                    v
                };
                if p_held != p {
                    self.anomaly(28, p);
                }
                self.hands[h] = Some(obj);
                self.record(vec![1, l[1], kind], 1, res, p);
            }
            2 => {
                let h = l[1] as usize;
                let obj = self.hands[h].take().expect("hand holds an object");
                if run(self.rt, async move { drop(obj) }).is_none() {
                    self.fail(25, 6, "returning the object did not finish");
                }
                self.record(vec![2, l[1]], 2, 0, 0);
            }
            3 => {
                let h = l[1] as usize;
                let flags = l[2];
                let obj = self.hands[h].take().expect("hand holds an object");
                let script = self.script.clone();
                let r = run(self.rt, async move {
                    let r = if obj.is_mutex_poisoned() {
                        match obj.lock() {
                            Ok(mut g) => K::script(&mut g, flags, &script),
                            Err(e) => {
                                let mut g = e.into_inner();
                                if let Some(c) = g.as_mut() {
                                    K::script(c, flags, &script)
                                }
                            }
                        };
                        Ok(())
                    } else {
                        obj.interact(move |c| K::script(c, flags, &script)).await
                    };
                    (r.is_ok(), obj)
                });
                match r {
                    Some((ok, obj)) => {
                        if !ok {
                            self.anomaly(24, 1);
                        }
                        self.hands[h] = Some(obj);
                    }
                    None => self.fail(25, 7, "scripting the connection did not finish"),
                }
                self.record(vec![3, l[1], flags], 3, 0, 0);
            }
            _ => {
                let pool = self.pool.clone();
                let t = Timeouts { wait: Some(Duration::from_secs(0)), create: None, recycle: None };
                match run(self.rt, async move { pool.timeout_get(&t).await }) {
                    Some(Ok(obj)) => {
                        let (obj, serial, _) = self.identify(obj);
                        let _ = run(self.rt, async move { drop(obj) });
                        self.record(vec![5], 5, 0, serial);
                    }
                    Some(Err(e)) => {
                        use deadpool::managed::{PoolError, TimeoutType};
                        let code = match e {
                            PoolError::Timeout(TimeoutType::Wait) => 1,
                            PoolError::Timeout(TimeoutType::Create) => 2,
                            PoolError::Timeout(TimeoutType::Recycle) => 3,
                            PoolError::Backend(_) => 4,
                            PoolError::PostCreateHook(_) => 5,
                            PoolError::Closed => 6,
                            PoolError::NoRuntimeSpecified => 7,
                        };
                        self.record(vec![5], 5, code, 0);
                    }
                    None => {
                        self.fail(25, 8, "non-blocking get() did not return");
                        self.record(vec![5], 5, -1, 0);
                    }
                }
            }
        }
    }

    fn finish(mut self, cfg: Vec<i64>) -> Case {
        let hands = std::mem::take(&mut self.hands);
        let pool = self.pool.clone();
        let _ = run(self.rt, async move {
            drop(hands);
            pool.close();
        });
        Case { cfg, labels: std::mem::take(&mut self.labels), obs: std::mem::take(&mut self.obs), err: self.err.take() }
    }
}

static DBN: AtomicUsize = AtomicUsize::new(0);

fn db_path() -> String {
    let n = DBN.fetch_add(1, Ordering::SeqCst);
    let dir = std::env::temp_dir().join(format!("dpv_h3_{}", std::process::id()));
    let _ = std::fs::create_dir_all(&dir);
    dir.join(format!("db{}.sqlite3", n)).to_string_lossy().to_string()
}

pub fn cleanup() {
    let dir = std::env::temp_dir().join(format!("dpv_h3_{}", std::process::id()));
    let _ = std::fs::remove_dir_all(dir);
}

/// run a history on the pool named by cfg; `next` yields the labels one at a time
fn drive<K: Kind>(
    rt: &tokio::runtime::Runtime,
    pool: Pool<K::M>,
    script: Script,
    observable: (bool, bool),
    cfg: Vec<i64>,
    next: &mut dyn FnMut(&[Option<i64>], &[bool], usize) -> Option<Vec<i64>>,
) -> Case
where
    <K::M as Manager>::Error: std::fmt::Debug + Send,
{
    let nh = cfg[3] as usize;
    let mut d: Drv<K> = Drv {
        rt,
        pool,
        script,
        observable_calls: observable,
        hands: (0..nh).map(|_| None).collect(),
        next_serial: 0,
        labels: Vec::new(),
        obs: Vec::new(),
        anomalies: Vec::new(),
        err: None,
        calls_seen: 0,
    };
    // serial of the connection in every hand, and whether it is poisoned, for the generator
    let mut serials: Vec<Option<i64>> = vec![None; nh];
    let mut step = 0usize;
    loop {
        let poisoned: Vec<bool> = d.hands.iter().map(|h| h.as_ref().map(|o| o.is_mutex_poisoned()).unwrap_or(false)).collect();
        let l = match next(&serials, &poisoned, step) {
            Some(l) => l,
            None => break,
        };
        step += 1;
        // a label that does not fit the state (only possible in a replay of a foreign file) ends the case
        let h = l.get(1).copied().unwrap_or(0) as usize;
        let fits = match l[0] {
            0 => h < nh && d.hands[h].is_none(),
            1 | 2 | 3 => h < nh && d.hands[h].is_some(),
            _ => true,
        };
        if !fits {
            d.fail(9, l[0], "label does not fit the state of the hands");
            break;
        }
        let r = std::panic::catch_unwind(std::panic::AssertUnwindSafe(|| d.exec(&l)));
        if r.is_err() || d.err.is_some() {
            break;
        }
        match l[0] {
            0 => serials[h] = d.obs.last().map(|o| o[1]),
            2 => serials[h] = None,
            _ => {}
        }
    }
    d.finish(cfg)
}

fn with_pool(
    rt: &tokio::runtime::Runtime,
    cfg: Vec<i64>,
    next: &mut dyn FnMut(&[Option<i64>], &[bool], usize) -> Option<Vec<i64>>,
) -> Case {
    let max = cfg[1] as usize;
    let script: Script = Arc::new(Mutex::new(ScriptInner::default()));
    let _g = rt.enter();
    match cfg[0] {
        0 => {
            let c = deadpool_sqlite::Config::new(db_path());
            let mgr = deadpool_sqlite::Manager::from_config(&c, deadpool_sqlite::Runtime::Tokio1);
            let pool = Pool::<deadpool_sqlite::Manager>::builder(mgr).max_size(max).runtime(deadpool_sqlite::Runtime::Tokio1).build().unwrap();
            drive::<Sqlite>(rt, pool, script, (false, false), cfg, next)
        }
        1 => {
            let fm = FakeMgr { next: AtomicUsize::new(0), script: script.clone() };
            let mgr = deadpool_r2d2::Manager::new(fm, deadpool_r2d2::Runtime::Tokio1);
            let pool = Pool::<deadpool_r2d2::Manager<FakeMgr>>::builder(mgr).max_size(max).runtime(deadpool_r2d2::Runtime::Tokio1).build().unwrap();
            drive::<R2d2>(rt, pool, script, (true, true), cfg, next)
        }
        _ => {
            use deadpool_diesel::{ManagerConfig, RecyclingMethod};
            let s2 = script.clone();
            let method = match cfg[2] {
                0 => RecyclingMethod::Fast,
                1 => RecyclingMethod::Verified,
                2 => RecyclingMethod::CustomQuery("SELECT x FROM temp.dpv_pingok".into()),
                _ => RecyclingMethod::CustomFunction(Box::new(move |c: &mut diesel::SqliteConnection| {
                    let serial = diesel_marker(c).unwrap_or(-1);
                    let mut g = s2.lock().unwrap();
                    g.calls.push((2, serial, std::thread::current().id()));
                    let f = g.flags.get(&serial).copied().unwrap_or(0);
                    if f & 16 != 0 {
                        // fails this once; a second question would be answered with Ok
                        let _ = g.flags.insert(serial, f & !16);
                        return Err(deadpool_diesel::Error::Ping(diesel::result::Error::NotFound));
                    }
                    if f & 2 != 0 {
                        Err(deadpool_diesel::Error::Ping(diesel::result::Error::NotFound))
                    } else {
                        Ok(())
                    }
                })),
            };
            *EST_SCRIPT.lock().unwrap() = Some(script.clone());
            let _ = diesel::connection::set_default_instrumentation(est_watcher);
            // a file database or the in-memory one (every connection its own): the same rules apply
            let url = if (cfg[1] + cfg[2]) % 2 == 0 { db_path() } else { ":memory:".to_string() };
            let mgr = deadpool_diesel::sqlite::Manager::from_config(
                url,
                deadpool_diesel::Runtime::Tokio1,
                ManagerConfig { recycling_method: method },
            );
            let pool = Pool::<deadpool_diesel::sqlite::Manager>::builder(mgr).max_size(max).runtime(deadpool_diesel::Runtime::Tokio1).build().unwrap();
            let observable = (false, cfg[2] == 3);
            drive::<Diesel>(rt, pool, script, observable, cfg, next)
        }
    }
}

pub fn gen_case(rt: &tokio::runtime::Runtime, rng: &mut Rng, mgr: i64, maxlabels: usize) -> Case {
    let max = 1 + rng.below(3) as i64;
    let method = if mgr == 2 { rng.below(4) as i64 } else { 0 };
    let nh = max as usize;
    let cfg = vec![mgr, max, method, nh as i64];
    let target = 8 + rng.below(maxlabels as u64 - 7) as usize;
    // which script flags can be realised on this backend
    let flag_choices: Vec<i64> = match (mgr, method) {
        (0, _) => vec![],
        (1, _) => vec![0, 1, 2, 3, 8, 10, 16, 16, 18],
        (2, 3) => vec![1, 2, 3, 4, 6, 16, 16],
        (2, 2) => vec![1, 2, 3, 4, 6],
        _ => vec![1, 4],
    };
    let mut tail: Option<Vec<Vec<i64>>> = None;
    let mut flags_of: HashMap<i64, i64> = HashMap::new();
    let mut r = rng.clone();
    let mut next = |serials: &[Option<i64>], poisoned: &[bool], step: usize| -> Option<Vec<i64>> {
        if step >= target && tail.is_none() {
            // the end of every history: everything is returned, then max_size gets must succeed while all
            // are held, one more non-blocking get must time out, and everything is returned again
            let mut t: Vec<Vec<i64>> = Vec::new();
            for (h, s) in serials.iter().enumerate() {
                if s.is_some() {
                    t.push(vec![2, h as i64]);
                }
            }
            for h in 0..nh {
                t.push(vec![0, h as i64]);
            }
            t.push(vec![5]);
            for h in 0..nh {
                t.push(vec![2, h as i64]);
            }
            t.reverse();
            tail = Some(t);
        }
        if let Some(t) = tail.as_mut() {
            return t.pop();
        }
        let mut en: Vec<(Vec<i64>, u64)> = Vec::new();
        for h in 0..nh {
            if serials[h].is_none() {
                en.push((vec![0, h as i64], 30));
            } else {
                let w = if poisoned[h] { 4 } else { 12 };
                en.push((vec![1, h as i64, 0], w));
                en.push((vec![1, h as i64, 1], w / 2 + 2));
                en.push((vec![1, h as i64, 2], w / 2));
                en.push((vec![1, h as i64, 3], w / 2));
                if !poisoned[h] {
                    // cancelled, and the closure is still running when the object is returned and asked for again
                    en.push((vec![1, h as i64, 4], 5));
                }
                en.push((vec![2, h as i64], 22));
                for f in &flag_choices {
                    // diesel's scripted faults cannot be undone: flags only accumulate there
                    let old = if mgr == 2 { flags_of.get(&serials[h].unwrap()).copied().unwrap_or(0) } else { 0 };
                    en.push((vec![3, h as i64, *f | old], 5));
                }
            }
        }
        if serials.iter().all(|s| s.is_some()) {
            en.push((vec![5], 6));
        }
        let w: Vec<u64> = en.iter().map(|e| e.1).collect();
        let l = en[r.weighted(&w)].0.clone();
        if l[0] == 3 {
            flags_of.insert(serials[l[1] as usize].unwrap(), l[2]);
        }
        Some(l)
    };
    let c = with_pool(rt, cfg, &mut next);
    *rng = r;
    c
}

pub fn replay_case(rt: &tokio::runtime::Runtime, cfg: &[i64], labels: &[Vec<i64>]) -> Case {
    let mut cfg = cfg.to_vec();
    while cfg.len() < 4 {
        cfg.push(1);
    }
    let mut i = 0;
    let mut next = |_s: &[Option<i64>], _p: &[bool], _step: usize| -> Option<Vec<i64>> {
        let l = labels.get(i).cloned();
        i += 1;
        l
    };
    with_pool(rt, cfg, &mut next)
}
