//! Shared pieces of the H3 harness: event hub, thread classification, cancellable futures,
//! start-controlled blocking lanes.
use std::collections::HashSet;
use std::future::Future;
use std::panic::{catch_unwind, AssertUnwindSafe};
use std::pin::Pin;
use std::sync::atomic::{AtomicBool, AtomicUsize, Ordering};
use std::sync::{mpsc, Arc, Condvar, Mutex, OnceLock};
use std::task::{Context, Poll, Waker};
use std::thread::ThreadId;
use std::time::{Duration, Instant};

// ------------------------------------------------------------------ async thread set
static ASYNC: OnceLock<Mutex<HashSet<ThreadId>>> = OnceLock::new();

fn async_set() -> &'static Mutex<HashSet<ThreadId>> {
    ASYNC.get_or_init(|| Mutex::new(HashSet::new()))
}

/// Called by every piece of harness code that runs as (or on behalf of) async code.
pub fn note_async() {
    let id = std::thread::current().id();
    let mut g = async_set().lock().unwrap();
    if !g.contains(&id) {
        g.insert(id);
    }
}

pub fn is_async_thread(id: ThreadId) -> bool {
    async_set().lock().unwrap().contains(&id)
}

/// 1 = a thread that never polled a harness future (blocking pool), 0 = async thread
pub fn class_of(id: ThreadId) -> i64 {
    if is_async_thread(id) {
        0
    } else {
        1
    }
}

// ------------------------------------------------------------------ event hub
#[derive(Clone, Debug)]
pub struct Ev {
    pub kind: i64, // 1 begin, 2 end, 3 destroy begin, 4 destroy end, 5 skipped (closure dropped unrun)
    pub job: usize,
    pub tid: ThreadId,
    pub aux: i64,
}

pub struct Hub {
    evs: Mutex<Vec<Ev>>,
    cv: Condvar,
    pub drop_job: AtomicUsize,
}

impl Hub {
    pub fn new() -> Arc<Hub> {
        Arc::new(Hub { evs: Mutex::new(Vec::new()), cv: Condvar::new(), drop_job: AtomicUsize::new(0) })
    }
    pub fn push(&self, kind: i64, job: usize, aux: i64) {
        let mut g = self.evs.lock().unwrap();
        g.push(Ev { kind, job, tid: std::thread::current().id(), aux });
        self.cv.notify_all();
    }
    /// the event number `idx`, waiting for it at most `to`
    pub fn wait(&self, idx: usize, to: Duration) -> Option<Ev> {
        let deadline = Instant::now() + to;
        let mut g = self.evs.lock().unwrap();
        loop {
            if g.len() > idx {
                return Some(g[idx].clone());
            }
            let now = Instant::now();
            if now >= deadline {
                return None;
            }
            let (g2, _) = self.cv.wait_timeout(g, deadline - now).unwrap();
            g = g2;
        }
    }
    pub fn len(&self) -> usize {
        self.evs.lock().unwrap().len()
    }
}

/// Travels inside a closure: reports that the body was entered, left (return or unwind), or that the
/// closure was dropped without ever being called.
pub struct Token {
    hub: Arc<Hub>,
    job: usize,
    began: AtomicBool,
}

impl Token {
    pub fn new(hub: &Arc<Hub>, job: usize) -> Token {
        Token { hub: hub.clone(), job, began: AtomicBool::new(false) }
    }
    pub fn begin(&self) {
        self.began.store(true, Ordering::SeqCst);
        self.hub.push(1, self.job, 0);
    }
}

impl Drop for Token {
    fn drop(&mut self) {
        if self.began.load(Ordering::SeqCst) {
            self.hub.push(2, self.job, if std::thread::panicking() { 1 } else { 0 });
        } else {
            self.hub.push(5, self.job, 0);
        }
    }
}

// ------------------------------------------------------------------ cancellable future
pub struct Ctl {
    pub cancel: AtomicBool,
    pub polls: AtomicUsize,
    waker: Mutex<Option<Waker>>,
    cv: Condvar,
    /// runtime whose blocking pool receives what the inner future spawns
    pub lane: Option<tokio::runtime::Handle>,
    /// runtime entered while the inner future is dropped on cancellation
    pub drop_lane: Option<tokio::runtime::Handle>,
}

impl Ctl {
    pub fn new(lane: Option<tokio::runtime::Handle>, drop_lane: Option<tokio::runtime::Handle>) -> Arc<Ctl> {
        Arc::new(Ctl {
            cancel: AtomicBool::new(false),
            polls: AtomicUsize::new(0),
            waker: Mutex::new(None),
            cv: Condvar::new(),
            lane,
            drop_lane,
        })
    }
    /// request cancellation and have the task polled
    pub fn cancel_now(&self) {
        self.cancel.store(true, Ordering::SeqCst);
        if let Some(w) = self.waker.lock().unwrap().clone() {
            w.wake();
        }
    }
    /// request cancellation at the next poll, whoever causes it
    pub fn cancel_at_next_poll(&self) {
        self.cancel.store(true, Ordering::SeqCst);
    }
    pub fn wait_polled(&self, to: Duration) -> bool {
        let deadline = Instant::now() + to;
        let mut g = self.waker.lock().unwrap();
        loop {
            if self.polls.load(Ordering::SeqCst) > 0 {
                return true;
            }
            let now = Instant::now();
            if now >= deadline {
                return false;
            }
            let (g2, _) = self.cv.wait_timeout(g, deadline - now).unwrap();
            g = g2;
        }
    }
}

pub enum Outcome<T> {
    Done(T),
    Cancelled,
    Panicked,
}

pub struct Cancellable<'a, T> {
    inner: Option<Pin<Box<dyn Future<Output = T> + Send + 'a>>>,
    ctl: Arc<Ctl>,
}

impl<'a, T> Cancellable<'a, T> {
    pub fn new(f: impl Future<Output = T> + Send + 'a, ctl: Arc<Ctl>) -> Self {
        Cancellable { inner: Some(Box::pin(f)), ctl }
    }
}

impl<'a, T> Future for Cancellable<'a, T> {
    type Output = Outcome<T>;
    fn poll(mut self: Pin<&mut Self>, cx: &mut Context<'_>) -> Poll<Outcome<T>> {
        note_async();
        let ctl = self.ctl.clone();
        if ctl.cancel.load(Ordering::SeqCst) {
            // the awaiting future is dropped here, on the thread that polls
            let g = ctl.drop_lane.as_ref().map(|h| h.enter());
            let inner = self.inner.take();
            drop(inner);
            drop(g);
            return Poll::Ready(Outcome::Cancelled);
        }
        let r = {
            let _g = ctl.lane.as_ref().map(|h| h.enter());
            let inner = self.inner.as_mut().expect("polled after completion");
            catch_unwind(AssertUnwindSafe(|| inner.as_mut().poll(cx)))
        };
        {
            let mut g = ctl.waker.lock().unwrap();
            *g = Some(cx.waker().clone());
            ctl.polls.fetch_add(1, Ordering::SeqCst);
            ctl.cv.notify_all();
        }
        // a cancellation requested while we were polling must not be lost
        if ctl.cancel.load(Ordering::SeqCst) {
            cx.waker().wake_by_ref();
        }
        match r {
            Ok(Poll::Ready(v)) => {
                self.inner = None;
                Poll::Ready(Outcome::Done(v))
            }
            Ok(Poll::Pending) => Poll::Pending,
            Err(_) => {
                self.inner = None;
                Poll::Ready(Outcome::Panicked)
            }
        }
    }
}

// ------------------------------------------------------------------ lanes
/// A blocking pool of its own with one thread that is plugged by a harness job until `start()`: whatever
/// is spawned into it meanwhile starts exactly when the harness says so.
pub struct Lane {
    rt: Option<tokio::runtime::Runtime>,
    plug: Option<mpsc::Sender<()>>,
}

impl Lane {
    pub fn new() -> Lane {
        let rt = tokio::runtime::Builder::new_current_thread().max_blocking_threads(1).build().unwrap();
        let (tx, rx) = mpsc::channel::<()>();
        drop(rt.spawn_blocking(move || {
            let _ = rx.recv();
        }));
        Lane { rt: Some(rt), plug: Some(tx) }
    }
    pub fn handle(&self) -> tokio::runtime::Handle {
        self.rt.as_ref().unwrap().handle().clone()
    }
    pub fn start(&mut self) {
        if let Some(tx) = self.plug.take() {
            let _ = tx.send(());
        }
    }
}

impl Drop for Lane {
    fn drop(&mut self) {
        self.start();
        if let Some(rt) = self.rt.take() {
            rt.shutdown_background();
        }
    }
}

// ------------------------------------------------------------------ output
pub fn json_ints(v: &[i64]) -> String {
    let mut s = String::from("[");
    for (i, x) in v.iter().enumerate() {
        if i > 0 {
            s.push(',');
        }
        s.push_str(&x.to_string());
    }
    s.push(']');
    s
}

pub fn json_lists(v: &[Vec<i64>]) -> String {
    let mut s = String::from("[");
    for (i, x) in v.iter().enumerate() {
        if i > 0 {
            s.push(',');
        }
        s.push_str(&json_ints(x));
    }
    s.push(']');
    s
}

/// minimal parser for {"cfg":[..],"labels":[[..],..]} lines (integers only)
pub fn parse_case(line: &str) -> Option<(Vec<i64>, Vec<Vec<i64>>)> {
    fn ints(s: &str) -> Vec<i64> {
        s.split(',').filter_map(|x| x.trim().parse::<i64>().ok()).collect()
    }
    let ci = line.find("\"cfg\"")?;
    let cs = line[ci..].find('[')? + ci;
    let ce = line[cs..].find(']')? + cs;
    let cfg = ints(&line[cs + 1..ce]);
    let li = line.find("\"labels\"")?;
    let ls = line[li..].find('[')? + li;
    // find the matching bracket
    let bytes = line.as_bytes();
    let mut depth = 0;
    let mut le = ls;
    for (i, b) in bytes.iter().enumerate().skip(ls) {
        if *b == b'[' {
            depth += 1;
        } else if *b == b']' {
            depth -= 1;
            if depth == 0 {
                le = i;
                break;
            }
        }
    }
    let body = &line[ls + 1..le];
    let mut labels = Vec::new();
    let mut rest = body;
    while let Some(a) = rest.find('[') {
        let b = rest[a..].find(']')? + a;
        labels.push(ints(&rest[a + 1..b]));
        rest = &rest[b + 1..];
    }
    Some((cfg, labels))
}
