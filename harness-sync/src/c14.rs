//! H3, part 1: one SyncWrapper driven through a history of interactions, cancellations and a drop.
//!
//! Labels (integers, see coq/theories/Sync/Decode.v):
//!   [0,k,0,c] Spawn create (c: 0 ok, 1 err, 2 panic)   [0,k,1,f] Spawn interact (f: 0 return, 1 panic)
//!   [1,k] CancelAwait   [2,k] Deliver   [3,k] BAcquire (observed)   [4,k] BSkip (observed)
//!   [5,k] BFinish       [6] DropWrapper  [7,k] BStart (the pool dequeues job k; lanes mode only)
//! cfg = [mode, dgated]: mode 0 = jobs run on the blocking pool of the multi-thread runtime itself and start
//! at once; mode 1 = every job goes to a pool of its own whose only thread is plugged until BStart.
use crate::common::*;
use crate::rng::Rng;
use deadpool_runtime::Runtime;
use deadpool_sync::{InteractError, SyncWrapper};
use std::sync::atomic::Ordering;
use std::sync::{mpsc, Arc};
use std::time::Duration;

const EV_TIMEOUT: Duration = Duration::from_millis(9000);
const ACK_TIMEOUT: Duration = Duration::from_millis(8000);

pub struct Val {
    hub: Arc<Hub>,
    dgate: Option<mpsc::Receiver<()>>,
}

impl Drop for Val {
    fn drop(&mut self) {
        let k = self.hub.drop_job.load(Ordering::SeqCst);
        self.hub.push(3, k, 0);
        if let Some(rx) = self.dgate.take() {
            let _ = rx.recv();
        }
        self.hub.push(4, k, 0);
    }
}

enum Reply {
    Done(i64),
    Cancelled,
    Panicked,
}

enum Cmd {
    Interact { k: usize, ctl: Arc<Ctl>, gate: mpsc::Receiver<i64>, reply: mpsc::Sender<Reply> },
    Query { expect_free: bool, cursor: usize, reply: mpsc::Sender<bool> },
    Drop { lane: Option<tokio::runtime::Handle>, ack: mpsc::Sender<i64> },
}

struct JobV {
    kind: i64, // 0 create, 1 interact, 2 drop
    phase: i64, // 0 queued, 1 running, 2 done
    ran: bool,
    aw: i64, // 0 waiting, 1 cancelled, 2 delivered, 3 background
    delivered: i64,
    started: bool,
    plan: i64,
    gate: Option<mpsc::Sender<i64>>,
    ctl: Option<Arc<Ctl>>,
    reply: Option<mpsc::Receiver<Reply>>,
    lane: Option<Lane>,
}

pub struct Case {
    pub cfg: Vec<i64>,
    pub labels: Vec<Vec<i64>>,
    pub obs: Vec<Vec<i64>>,
    pub err: Option<String>,
}

struct Run<'a> {
    rt: &'a tokio::runtime::Runtime,
    mode: i64,
    dgated: bool,
    hub: Arc<Hub>,
    cursor: usize,
    jobs: Vec<JobV>,
    val: i64,
    holder: Option<usize>,
    alive: bool,
    ndestroyed: i64,
    ndestroyed_async: i64,
    cmd: Option<tokio::sync::mpsc::UnboundedSender<Cmd>>,
    dgate_tx: Option<mpsc::Sender<()>>,
    next_drop_lane: Option<Lane>,
    labels: Vec<Vec<i64>>,
    obs: Vec<Vec<i64>>,
    pending_evs: Vec<Ev>,
    anomalies: Vec<Vec<i64>>,
    err: Option<String>,
}

fn interact_code(r: Result<i64, InteractError>) -> i64 {
    match r {
        Ok(_) => 1,
        Err(InteractError::Panic(_)) => 2,
        Err(InteractError::Aborted) => 3,
    }
}

impl<'a> Run<'a> {
    fn new(rt: &'a tokio::runtime::Runtime, mode: i64, dgated: bool) -> Self {
        Run {
            rt,
            mode,
            dgated,
            hub: Hub::new(),
            cursor: 0,
            jobs: Vec::new(),
            val: 0,
            holder: None,
            alive: false,
            ndestroyed: 0,
            ndestroyed_async: 0,
            cmd: None,
            dgate_tx: None,
            next_drop_lane: None,
            labels: Vec::new(),
            obs: Vec::new(),
            pending_evs: Vec::new(),
            anomalies: Vec::new(),
            err: None,
        }
    }

    fn fail(&mut self, code: i64, a: i64, msg: &str) {
        self.anomalies.push(vec![code, a]);
        if self.err.is_none() {
            self.err = Some(msg.to_string());
        }
    }

    fn new_lane(&self) -> Option<Lane> {
        if self.mode == 1 {
            Some(Lane::new())
        } else {
            None
        }
    }

    // ---------------------------------------------------------------- observation
    fn poisoned_vis(&mut self) -> i64 {
        if !self.alive {
            return 0;
        }
        let (tx, rx) = mpsc::channel();
        if let Some(c) = &self.cmd {
            let _ = c.send(Cmd::Query { expect_free: self.holder.is_none(), cursor: self.cursor, reply: tx });
        }
        match rx.recv_timeout(ACK_TIMEOUT) {
            Ok(b) => b as i64,
            Err(_) => {
                self.fail(2, 90, "owner task did not answer is_mutex_poisoned()");
                0
            }
        }
    }

    fn record(&mut self, label: Vec<i64>) {
        let p = self.poisoned_vis();
        let mut o = vec![
            self.val,
            match self.holder {
                None => 0,
                Some(k) => k as i64 + 1,
            },
            p,
            self.alive as i64,
            self.ndestroyed,
            self.ndestroyed_async,
            self.jobs.len() as i64,
        ];
        for j in &self.jobs {
            o.extend_from_slice(&[j.kind, j.phase, j.ran as i64, j.aw, j.delivered]);
        }
        // "closure dropped without being called" is not an execution of user code: not part of the log
        let shown: Vec<&Ev> = self.pending_evs.iter().filter(|e| e.kind != 5).collect();
        o.push(shown.len() as i64);
        for e in shown {
            o.extend_from_slice(&[e.kind, e.job as i64, class_of(e.tid)]);
        }
        // harness-side extras: anomalies raised while executing this label
        o.push(self.anomalies.len() as i64);
        for a in &self.anomalies {
            o.extend_from_slice(a);
        }
        self.pending_evs.clear();
        self.anomalies.clear();
        self.labels.push(label);
        self.obs.push(o);
    }

    fn next_event(&mut self) -> Option<Ev> {
        let e = self.hub.wait(self.cursor, EV_TIMEOUT);
        if e.is_some() {
            self.cursor += 1;
        }
        e
    }

    /// book an event; returns the label it stands for when it is an observed one
    fn apply_event(&mut self, e: &Ev) {
        match e.kind {
            1 => {
                if let Some(j) = self.jobs.get_mut(e.job) {
                    j.phase = 1;
                    j.ran = true;
                    if j.kind == 1 {
                        if self.holder.is_some() {
                            self.anomalies.push(vec![5, e.job as i64]);
                        }
                        self.holder = Some(e.job);
                    }
                }
            }
            2 => {
                if let Some(j) = self.jobs.get_mut(e.job) {
                    j.phase = 2;
                    if j.kind == 1 && self.holder == Some(e.job) {
                        self.holder = None;
                    }
                }
            }
            3 => {
                if self.holder.is_some() {
                    self.anomalies.push(vec![6, e.job as i64]);
                }
                self.val = 2;
                self.ndestroyed += 1;
                if class_of(e.tid) == 0 {
                    self.ndestroyed_async += 1;
                }
                if let Some(j) = self.jobs.get_mut(e.job) {
                    if j.kind == 2 {
                        j.phase = 1;
                        self.holder = Some(e.job);
                    }
                }
            }
            4 => {
                if let Some(j) = self.jobs.get_mut(e.job) {
                    if j.kind == 2 {
                        j.phase = 2;
                        if self.holder == Some(e.job) {
                            self.holder = None;
                        }
                    }
                }
            }
            5 => {
                if let Some(j) = self.jobs.get_mut(e.job) {
                    j.phase = 2;
                }
            }
            _ => {}
        }
    }

    /// something on the blocking side is bound to happen without the harness doing anything
    fn expecting(&self) -> bool {
        if let Some(h) = self.holder {
            // an ungated destructor finishes by itself
            return self.jobs[h].kind == 2 && self.jobs[h].phase == 1 && !self.dgated;
        }
        self.jobs.iter().any(|j| j.started && j.phase == 0)
    }

    /// wait until the blocking side is quiescent, turning what is observed into labels
    fn settle(&mut self) {
        while self.err.is_none() && self.expecting() {
            let e = match self.next_event() {
                Some(e) => e,
                None => {
                    let only_drop = self.jobs.iter().all(|j| !(j.started && j.phase == 0) || j.kind == 2);
                    if only_drop && self.holder.is_none() {
                        // nothing competes with the drop job, and still the value is not destroyed
                        self.fail(10, 0, "the drop job can run but the destructor of the wrapped value does not start");
                    } else {
                        self.fail(2, 91, "blocking pool made no progress although a job can run");
                    }
                    self.record(vec![9, 0]);
                    return;
                }
            };
            self.apply_event(&e);
            let label = match e.kind {
                1 | 3 => vec![3, e.job as i64],
                5 => vec![4, e.job as i64],
                2 | 4 => vec![5, e.job as i64],
                _ => vec![9, 0],
            };
            self.pending_evs.push(e);
            self.record(label);
        }
    }

    /// wait for one particular event (kind, job) as the direct effect of a label
    fn expect_event(&mut self, kind: i64, job: usize) -> bool {
        match self.next_event() {
            Some(e) => {
                let ok = e.kind == kind && e.job == job;
                self.apply_event(&e);
                if !ok {
                    self.anomalies.push(vec![7, e.kind * 100 + e.job as i64]);
                }
                self.pending_evs.push(e);
                ok
            }
            None => {
                self.fail(2, kind * 100 + job as i64, "expected event did not arrive");
                false
            }
        }
    }

    // ---------------------------------------------------------------- enabled labels
    fn waiter_exists(&self) -> bool {
        self.jobs.iter().any(|j| j.started && j.phase == 0 && j.kind != 0)
    }
    /// a job may be started only when this cannot make two jobs race for the mutex
    fn may_start(&self) -> bool {
        self.holder.is_none() || !self.waiter_exists()
    }

    fn enabled(&self) -> Vec<Vec<i64>> {
        let mut v = Vec::new();
        let n = self.jobs.len();
        if n == 0 {
            return v;
        }
        if self.alive && n < 9 && (self.mode == 1 || self.may_start()) {
            v.push(vec![0, n as i64, 1, 0]);
            v.push(vec![0, n as i64, 1, 1]);
        }
        for (k, j) in self.jobs.iter().enumerate() {
            if self.mode == 1 && !j.started && j.phase == 0 && (j.kind == 0 || self.may_start()) {
                v.push(vec![7, k as i64]);
            }
            if j.aw == 0 && j.phase < 2 && j.ctl.as_ref().map(|c| c.polls.load(Ordering::SeqCst) > 0).unwrap_or(false) {
                v.push(vec![1, k as i64]);
            }
            if j.aw == 0 && j.phase == 2 {
                v.push(vec![2, k as i64]);
            }
            if j.phase == 1 && (j.kind != 2 || self.dgated) {
                v.push(vec![5, k as i64]);
                if j.aw == 0 && j.kind != 2 {
                    v.push(vec![5, k as i64, 1]); // finish, the await is dropped before it sees the result
                }
            }
        }
        if self.alive && !self.jobs.iter().any(|j| j.aw == 0) && (self.mode == 1 || self.may_start()) {
            v.push(vec![6]);
        }
        v
    }

    // ---------------------------------------------------------------- executing labels
    fn push_drop_job(&mut self, started: bool, lane: Option<Lane>) {
        let k = self.jobs.len();
        self.hub.drop_job.store(k, Ordering::SeqCst);
        self.jobs.push(JobV {
            kind: 2, phase: 0, ran: false, aw: 3, delivered: 0, started, plan: 0,
            gate: None, ctl: None, reply: None, lane,
        });
    }

    fn spawn_create(&mut self, c: i64) {
        let hub = self.hub.clone();
        let lane = self.new_lane();
        // the lane that receives the drop job if the finished creation is dropped unseen
        self.next_drop_lane = self.new_lane();
        let ctl = Ctl::new(lane.as_ref().map(|l| l.handle()), self.next_drop_lane.as_ref().map(|l| l.handle()));
        let (gtx, grx) = mpsc::channel::<i64>();
        let (rtx, rrx) = mpsc::channel::<Reply>();
        let (ctx, mut crx) = tokio::sync::mpsc::unbounded_channel::<Cmd>();
        let (dtx, drx) = mpsc::channel::<()>();
        let dgated = self.dgated;
        if dgated {
            self.dgate_tx = Some(dtx);
        }
        // the id a drop job gets if the finished creation is dropped unseen
        hub.drop_job.store(1, Ordering::SeqCst);
        let tok = Token::new(&hub, 0);
        let hub2 = hub.clone();
        let ctl2 = ctl.clone();
        let handle = self.rt.handle().clone();
        drop(self.rt.spawn(async move {
            note_async();
            let fut = SyncWrapper::new(Runtime::Tokio1, move || {
                let tok = tok;
                tok.begin();
                let fin = grx.recv().unwrap_or(0);
                match fin {
                    0 => Ok(Val { hub: hub2, dgate: if dgated { Some(drx) } else { None } }),
                    1 => Err(()),
                    _ => panic!("scripted creation panic"),
                }
            });
            let out = Cancellable::new(fut, ctl2).await;
            note_async();
            let w = match out {
                Outcome::Done(Ok(w)) => {
                    let _ = rtx.send(Reply::Done(1));
                    w
                }
                Outcome::Done(Err(())) => {
                    let _ = rtx.send(Reply::Done(4));
                    return;
                }
                Outcome::Cancelled => {
                    let _ = rtx.send(Reply::Cancelled);
                    return;
                }
                Outcome::Panicked => {
                    let _ = rtx.send(Reply::Panicked);
                    return;
                }
            };
            let mut w = Some(Arc::new(w));
            while let Some(cmd) = crx.recv().await {
                note_async();
                match cmd {
                    Cmd::Query { expect_free, cursor, reply } => {
                        let wr = w.as_ref().unwrap();
                        if expect_free {
                            // the End event of a closure is emitted just before its guard is released:
                            // wait until the lock region is really left (or somebody else got the mutex)
                            let t0 = std::time::Instant::now();
                            loop {
                                let busy = matches!(wr.try_lock(), Err(std::sync::TryLockError::WouldBlock));
                                if !busy || hub.len() > cursor || t0.elapsed() > Duration::from_secs(2) {
                                    break;
                                }
                                std::thread::sleep(Duration::from_micros(20));
                            }
                        }
                        let _ = reply.send(wr.is_mutex_poisoned());
                    }
                    Cmd::Interact { k, ctl, gate, reply } => {
                        let wc = w.as_ref().unwrap().clone();
                        let hub = hub.clone();
                        drop(handle.spawn(async move {
                            note_async();
                            let tok = Token::new(&hub, k);
                            let r = {
                                let fut = wc.interact(move |_v: &mut Val| {
                                    let tok = tok;
                                    tok.begin();
                                    let fin = gate.recv().unwrap_or(0);
                                    if fin == 1 {
                                        panic!("scripted interaction panic");
                                    }
                                    7i64
                                });
                                Cancellable::new(fut, ctl).await
                            };
                            note_async();
                            drop(wc);
                            let _ = reply.send(match r {
                                Outcome::Done(r) => Reply::Done(interact_code(r)),
                                Outcome::Cancelled => Reply::Cancelled,
                                Outcome::Panicked => Reply::Panicked,
                            });
                        }));
                    }
                    Cmd::Drop { lane, ack } => {
                        let arc = w.take().unwrap();
                        match Arc::try_unwrap(arc) {
                            Ok(wrapper) => {
                                let g = lane.as_ref().map(|h| h.enter());
                                drop(wrapper); // the SyncWrapper is dropped here, by async code
                                drop(g);
                                let _ = ack.send(0);
                            }
                            Err(arc) => {
                                // a harness bug: some interaction task still holds the wrapper
                                drop(arc);
                                let _ = ack.send(1);
                            }
                        }
                        return;
                    }
                }
            }
        }));
        self.cmd = Some(ctx);
        let started = self.mode == 0;
        self.jobs.push(JobV {
            kind: 0, phase: 0, ran: false, aw: 0, delivered: 0, started, plan: c,
            gate: Some(gtx), ctl: Some(ctl.clone()), reply: Some(rrx), lane,
        });
        if !ctl.wait_polled(ACK_TIMEOUT) {
            self.fail(2, 92, "creation task was never polled");
        }
    }

    fn spawn_interact(&mut self, f: i64) {
        let k = self.jobs.len();
        let lane = self.new_lane();
        let ctl = Ctl::new(lane.as_ref().map(|l| l.handle()), None);
        let (gtx, grx) = mpsc::channel::<i64>();
        let (rtx, rrx) = mpsc::channel::<Reply>();
        if let Some(c) = &self.cmd {
            let _ = c.send(Cmd::Interact { k, ctl: ctl.clone(), gate: grx, reply: rtx });
        }
        let started = self.mode == 0;
        self.jobs.push(JobV {
            kind: 1, phase: 0, ran: false, aw: 0, delivered: 0, started, plan: f,
            gate: Some(gtx), ctl: Some(ctl.clone()), reply: Some(rrx), lane,
        });
        if !ctl.wait_polled(ACK_TIMEOUT) {
            self.fail(2, 93, "interaction task was never polled");
        }
    }

    fn take_reply(&mut self, k: usize) -> Option<Reply> {
        let rx = self.jobs[k].reply.take()?;
        match rx.recv_timeout(ACK_TIMEOUT) {
            Ok(r) => Some(r),
            Err(_) => {
                self.fail(2, 94, "awaiting task did not report");
                None
            }
        }
    }

    /// the creation's wrapper was dropped without being seen: a drop job exists now
    fn creation_dropped(&mut self, by_pool_thread: bool) {
        if by_pool_thread {
            // SyncWrapper::drop ran on the pool thread of job 0: the drop job follows it in that pool
            self.next_drop_lane = None;
            self.push_drop_job(true, None);
        } else {
            let lane = self.next_drop_lane.take();
            self.push_drop_job(self.mode == 0, lane);
        }
    }

    fn exec(&mut self, l: &[i64]) {
        let k = l.get(1).copied().unwrap_or(0) as usize;
        match l[0] {
            0 => {
                if l[2] == 0 {
                    self.spawn_create(l[3]);
                } else {
                    self.spawn_interact(l[3]);
                }
                self.record(l[..4].to_vec());
            }
            7 => {
                if let Some(lane) = self.jobs[k].lane.as_mut() {
                    lane.start();
                }
                self.jobs[k].started = true;
                self.record(vec![7, k as i64]);
            }
            1 => {
                if let Some(c) = &self.jobs[k].ctl {
                    c.cancel_now();
                }
                match self.take_reply(k) {
                    Some(Reply::Cancelled) => {}
                    Some(_) => self.anomalies.push(vec![8, k as i64]),
                    None => {}
                }
                self.jobs[k].aw = 1;
                self.record(vec![1, k as i64]);
            }
            2 => {
                match self.take_reply(k) {
                    Some(Reply::Done(c)) => self.jobs[k].delivered = c,
                    Some(Reply::Panicked) => self.jobs[k].delivered = 2,
                    Some(Reply::Cancelled) => self.anomalies.push(vec![8, k as i64]),
                    None => {}
                }
                self.jobs[k].aw = 2;
                if self.jobs[k].kind == 0 && self.jobs[k].delivered == 1 {
                    self.alive = true;
                    self.next_drop_lane = None;
                }
                self.record(vec![2, k as i64]);
            }
            5 => {
                let window = l.len() > 2 && l[2] == 1;
                let kind = self.jobs[k].kind;
                if window {
                    if let Some(c) = &self.jobs[k].ctl {
                        c.cancel_at_next_poll();
                    }
                }
                if kind == 2 {
                    if let Some(tx) = self.dgate_tx.take() {
                        let _ = tx.send(());
                    }
                    self.expect_event(4, k);
                } else {
                    let plan = self.jobs[k].plan;
                    if let Some(tx) = self.jobs[k].gate.take() {
                        let _ = tx.send(plan);
                    }
                    self.expect_event(2, k);
                    if kind == 0 && plan == 0 {
                        self.val = 1;
                        if self.jobs[k].aw == 1 {
                            self.creation_dropped(true);
                        }
                    }
                }
                self.record(vec![5, k as i64]);
                if window {
                    match self.take_reply(k) {
                        Some(Reply::Cancelled) => {}
                        Some(_) => self.anomalies.push(vec![8, k as i64]),
                        None => {}
                    }
                    self.jobs[k].aw = 1;
                    if kind == 0 && self.jobs[k].plan == 0 {
                        self.creation_dropped(false);
                    }
                    self.record(vec![1, k as i64]);
                }
            }
            6 => {
                let lane = self.new_lane();
                let (tx, rx) = mpsc::channel();
                self.hub.drop_job.store(self.jobs.len(), Ordering::SeqCst);
                if let Some(c) = self.cmd.take() {
                    let _ = c.send(Cmd::Drop { lane: lane.as_ref().map(|l| l.handle()), ack: tx });
                }
                self.alive = false;
                let started = self.mode == 0;
                self.push_drop_job(started, lane);
                match rx.recv_timeout(ACK_TIMEOUT) {
                    Ok(0) => {}
                    Ok(_) => self.fail(3, 0, "wrapper still shared when it was to be dropped"),
                    Err(_) => self.fail(4, 0, "dropping the wrapper did not return: it blocks the async thread"),
                }
                self.record(vec![6]);
            }
            _ => self.fail(9, l[0], "label cannot be executed by the harness"),
        }
    }

    /// release everything so that no thread stays parked
    fn abort(&mut self) {
        for j in self.jobs.iter_mut() {
            if let Some(c) = &j.ctl {
                c.cancel_now();
            }
            j.gate = None;
            if let Some(l) = j.lane.as_mut() {
                l.start();
            }
        }
        self.dgate_tx = None;
        self.cmd = None;
        if let Some(l) = self.next_drop_lane.as_mut() {
            l.start();
        }
        std::thread::sleep(Duration::from_millis(50));
    }

    fn terminal(&self) -> bool {
        !self.alive && self.jobs.iter().all(|j| j.phase == 2 && j.aw != 0)
    }

    fn finish(mut self, cfg: Vec<i64>) -> Case {
        if self.err.is_some() || !self.terminal() {
            if self.err.is_none() {
                self.err = Some("case ended before everything was finished".into());
            }
            self.abort();
        }
        let err = self.err.take();
        let labels = std::mem::take(&mut self.labels);
        let obs = std::mem::take(&mut self.obs);
        Case { cfg, labels, obs, err }
    }
}

fn weight(l: &[i64], done: usize, target: usize) -> u64 {
    match l[0] {
        0 => {
            if l[3] == 1 {
                5
            } else {
                26
            }
        }
        7 => 40,
        1 => 10,
        2 => 30,
        5 => {
            if l.len() > 2 {
                8
            } else {
                28
            }
        }
        6 => {
            if done > target {
                60
            } else {
                7
            }
        }
        _ => 1,
    }
}

pub fn gen_case(rt: &tokio::runtime::Runtime, rng: &mut Rng, maxlabels: usize) -> Case {
    let mode = if rng.chance(65) { 1 } else { 0 };
    let dgated = rng.chance(50);
    let cfg = vec![mode, dgated as i64];
    let mut r = Run::new(rt, mode, dgated);
    let c = match rng.below(100) {
        0..=84 => 0,
        85..=92 => 1,
        _ => 2,
    };
    r.exec(&[0, 0, 0, c]);
    let target = 6 + rng.below(maxlabels as u64 / 2 + 1) as usize;
    let mut steps = 0usize;
    loop {
        r.settle();
        if r.err.is_some() {
            break;
        }
        let mut en = r.enabled();
        if en.is_empty() {
            break;
        }
        steps += 1;
        if steps > maxlabels {
            // drive to the end: no new work, finish / deliver / start first, then drop
            en.retain(|l| l[0] != 0 && l[0] != 1 && !(l[0] == 5 && l.len() > 2));
            if en.is_empty() {
                break;
            }
            let l = en[0].clone();
            r.exec(&l);
            continue;
        }
        let w: Vec<u64> = en.iter().map(|l| weight(l, steps, target)).collect();
        let l = en[rng.weighted(&w)].clone();
        r.exec(&l);
    }
    r.finish(cfg)
}

pub fn replay_case(rt: &tokio::runtime::Runtime, cfg: &[i64], labels: &[Vec<i64>]) -> Case {
    let mode = cfg.first().copied().unwrap_or(0);
    let dgated = cfg.get(1).copied().unwrap_or(0) != 0;
    let mut r = Run::new(rt, mode, dgated);
    let mut i = 0;
    while i < labels.len() {
        let l = &labels[i];
        i += 1;
        if l.is_empty() {
            continue;
        }
        let k = l.get(1).copied().unwrap_or(0) as usize;
        // observed labels are not executed: they are observed again
        if l[0] == 3 || l[0] == 4 || l[0] == 9 {
            continue;
        }
        if l[0] == 5 && r.jobs.get(k).map(|j| j.kind == 2).unwrap_or(false) && !dgated {
            continue;
        }
        r.settle();
        if r.err.is_some() {
            break;
        }
        let mut l2 = l.clone();
        if l[0] == 5 && l.len() <= 2 {
            // BFinish k directly followed by CancelAwait k = the await is dropped in the window
            if let Some(n) = labels.get(i) {
                if n.len() >= 2 && n[0] == 1 && n[1] == l[1] {
                    l2 = vec![5, l[1], 1];
                    i += 1;
                }
            }
        }
        let en = r.enabled();
        let first = r.jobs.is_empty() && l2[0] == 0 && l2.len() >= 4 && l2[2] == 0;
        if !first && !en.iter().any(|e| e[..] == l2[..]) {
            r.fail(9, l2[0], "label of the replay file is not executable in the state the implementation is in");
            break;
        }
        r.exec(&l2);
    }
    r.settle();
    let cfg = vec![mode, dgated as i64];
    r.finish(cfg)
}
