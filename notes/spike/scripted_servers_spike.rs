use std::sync::{Arc, Mutex};
use tokio::io::{AsyncReadExt, AsyncWriteExt, DuplexStream};
use deadpool_postgres::{Manager, ManagerConfig, RecyclingMethod, Pool, Connect};
use tokio_postgres::{Config as PgConfig, NoTls, Client};

type Log = Arc<Mutex<Vec<String>>>;

fn msg(tag: u8, body: &[u8]) -> Vec<u8> { let mut v = vec![tag]; v.extend(((body.len() + 4) as u32).to_be_bytes()); v.extend(body); v }

async fn backend(mut s: DuplexStream, id: usize, log: Log) {
    // startup message: len(4) + payload
    let mut len = [0u8; 4];
    if s.read_exact(&mut len).await.is_err() { return; }
    let n = u32::from_be_bytes(len) as usize - 4;
    let mut buf = vec![0u8; n]; s.read_exact(&mut buf).await.unwrap();
    log.lock().unwrap().push(format!("c{id} Startup"));
    let mut out = msg(b'R', &0u32.to_be_bytes());                   // AuthenticationOk
    out.extend(msg(b'S', b"server_version\014.0\0"));
    out.extend(msg(b'S', b"client_encoding\0UTF8\0"));
    out.extend(msg(b'K', &[0, 0, 0, 1, 0, 0, 0, 2]));
    out.extend(msg(b'Z', b"I"));
    s.write_all(&out).await.unwrap();
    loop {
        let mut hdr = [0u8; 5];
        if s.read_exact(&mut hdr).await.is_err() { log.lock().unwrap().push(format!("c{id} EOF")); return; }
        let n = u32::from_be_bytes([hdr[1], hdr[2], hdr[3], hdr[4]]) as usize - 4;
        let mut body = vec![0u8; n]; s.read_exact(&mut body).await.unwrap();
        match hdr[0] {
            b'Q' => {
                let q = String::from_utf8_lossy(&body[..n - 1]).to_string();
                log.lock().unwrap().push(format!("c{id} Query {q:?}"));
                let mut out = if q.is_empty() { msg(b'I', b"") } else { msg(b'C', b"SELECT 0\0") };
                out.extend(msg(b'Z', b"I")); s.write_all(&out).await.unwrap();
            }
            b'P' => { // Parse: name\0 query\0 nparams(2) oids
                let parts: Vec<&[u8]> = body.splitn(3, |b| *b == 0).collect();
                let name = String::from_utf8_lossy(parts[0]).to_string(); let q = String::from_utf8_lossy(parts[1]).to_string();
                let rest = parts[2]; let np = u16::from_be_bytes([rest[0], rest[1]]) as usize;
                let oids: Vec<u32> = (0..np).map(|i| u32::from_be_bytes(rest[2 + 4 * i..6 + 4 * i].try_into().unwrap())).collect();
                log.lock().unwrap().push(format!("c{id} Parse {name} {q:?} {oids:?}"));
                s.write_all(&msg(b'1', b"")).await.unwrap();
                // remember param oids for Describe
                let mut pd = (np as u16).to_be_bytes().to_vec(); for o in &oids { pd.extend(o.to_be_bytes()); }
                s.write_all(&msg(b't', &pd)).await.unwrap(); // ParameterDescription (sent early; fine as order P,D,S answered 1,t,n,Z)
            }
            b'D' => { log.lock().unwrap().push(format!("c{id} Describe")); s.write_all(&msg(b'n', b"")).await.unwrap(); }
            b'S' => { log.lock().unwrap().push(format!("c{id} Sync")); s.write_all(&msg(b'Z', b"I")).await.unwrap(); }
            b'C' => { log.lock().unwrap().push(format!("c{id} Close")); s.write_all(&msg(b'3', b"")).await.unwrap(); }
            b'X' => { log.lock().unwrap().push(format!("c{id} Terminate")); return; }
            t => { log.lock().unwrap().push(format!("c{id} other {}", t as char)); }
        }
    }
}

struct Scripted { log: Log, n: Mutex<usize> }
impl Connect for Scripted {
    fn connect(&self, pg: &PgConfig) -> std::pin::Pin<Box<dyn std::future::Future<Output = Result<(Client, tokio::task::JoinHandle<()>), tokio_postgres::Error>> + Send + '_>> {
        let pg = pg.clone(); let log = self.log.clone();
        let id = { let mut n = self.n.lock().unwrap(); *n += 1; *n };
        Box::pin(async move {
            let (a, b) = tokio::io::duplex(1 << 16);
            tokio::spawn(backend(b, id, log));
            let (client, conn) = pg.connect_raw(a, NoTls).await?;
            let h = tokio::spawn(async move { let _ = conn.await; });
            Ok((client, h))
        })
    }
}

#[tokio::main(flavor = "current_thread")]
async fn main() {
    let log: Log = Default::default();
    let mut pgc = PgConfig::new(); pgc.user("u").dbname("d");
    let mgr = Manager::from_connect(pgc, Scripted { log: log.clone(), n: Mutex::new(0) }, ManagerConfig { recycling_method: RecyclingMethod::Verified });
    let pool = Pool::builder(mgr).max_size(2).build().unwrap();
    {
        let c = pool.get().await.unwrap();
        let s1 = c.prepare_typed_cached("SELECT $1", &[tokio_postgres::types::Type::INT4]).await.unwrap();
        let s2 = c.prepare_typed_cached("SELECT $1", &[tokio_postgres::types::Type::TEXT]).await.unwrap();
        let s3 = c.prepare_typed_cached("SELECT $1", &[tokio_postgres::types::Type::INT4]).await.unwrap();
        println!("params {:?} {:?} {:?} cache size {}", s1.params(), s2.params(), s3.params(), c.statement_cache.size());
    }
    let c = pool.get().await.unwrap();   // recycle -> Query ""
    drop(c);
    for l in log.lock().unwrap().iter() { println!("{l}"); }

    // ---- redis over loopback
    let rlog: Log = Default::default();
    let l = tokio::net::TcpListener::bind("127.0.0.1:0").await.unwrap();
    let addr = l.local_addr().unwrap();
    let rl = rlog.clone();
    tokio::spawn(async move {
        loop {
            let (mut s, _) = l.accept().await.unwrap(); let rl = rl.clone();
            tokio::spawn(async move {
                let mut buf = vec![0u8; 4096]; let mut acc: Vec<u8> = vec![];
                loop {
                    let n = match s.read(&mut buf).await { Ok(0) | Err(_) => return, Ok(n) => n }; acc.extend(&buf[..n]);
                    // parse complete RESP arrays of bulk strings
                    loop {
                        let txt = String::from_utf8_lossy(&acc).to_string();
                        if !txt.starts_with('*') { break; }
                        let mut lines = txt.split("\r\n"); let cnt: usize = lines.next().unwrap()[1..].parse().unwrap();
                        let mut args = vec![]; let mut used = txt.find("\r\n").unwrap() + 2; let mut ok = true;
                        for _ in 0..cnt { let h = lines.next(); let v = lines.next(); match (h, v) { (Some(h), Some(v)) if h.starts_with('$') && lines.clone().next().is_some() => { used += h.len() + 2 + v.len() + 2; args.push(v.to_string()); } _ => { ok = false; break; } } }
                        if !ok { break; }
                        acc.drain(..used);
                        rl.lock().unwrap().push(format!("{:?}", args));
                        let reply = match args[0].to_uppercase().as_str() { "PING" => format!("${}\r\n{}\r\n", args[1].len(), args[1]), _ => "+OK\r\n".to_string() };
                        s.write_all(reply.as_bytes()).await.unwrap();
                    }
                }
            });
        }
    });
    let cfg = deadpool_redis::Config::from_url(format!("redis://{}", addr));
    let rpool = cfg.create_pool(Some(deadpool_redis::Runtime::Tokio1)).unwrap();
    { let _c = rpool.get().await.unwrap(); }
    { let _c = rpool.get().await.unwrap(); }
    { let _c = rpool.get().await.unwrap(); }
    println!("redis status {:?}", rpool.status());
    for l in rlog.lock().unwrap().iter() { println!("redis cmd {l}"); }
}
