From Coq Require Import List ZArith Lia Bool Arith.
Import ListNotations.
Open Scope Z_scope.

(* ---------- task table with sums ---------- *)
Section Tab.
  Context {A : Type} (d : A).
  Fixpoint upd (t : nat) (x : A) (l : list A) : list A :=
    match t, l with
    | O, [] => [x]
    | O, _ :: l' => x :: l'
    | S t', [] => d :: upd t' x []
    | S t', y :: l' => y :: upd t' x l'
    end.
  Definition get (t : nat) (l : list A) : A := nth t l d.
  Fixpoint sum (f : A -> Z) (l : list A) : Z :=
    match l with [] => 0 | x :: l' => f x + sum f l' end.
  Lemma sum_upd f t x l : f d = 0 -> sum f (upd t x l) = sum f l - f (get t l) + f x.
  Proof.
    intros Hd. revert l; induction t as [|t IH]; intros [|y l]; cbn [upd sum get nth].
    - lia. - lia.
    - specialize (IH []). cbn [sum get nth] in IH. unfold get in IH. destruct t; cbn [nth] in IH; lia.
    - specialize (IH l). unfold get in IH. lia.
  Qed.
  Lemma get_upd_same t x l : get t (upd t x l) = x.
  Proof. unfold get. revert l; induction t as [|t IH]; intros [|y l]; cbn [upd nth]; auto. Qed.
  Lemma get_upd_other t t' x l : t <> t' -> get t' (upd t x l) = get t' l.
  Proof.
    unfold get. revert t' l; induction t as [|t IH]; intros [|t'] [|y l] Hne; cbn [upd nth]; try congruence; auto.
    - destruct t'; reflexivity.
    - rewrite IH by congruence. destruct t'; reflexivity.
  Qed.
  Lemma sum_nonneg f l : (forall x, 0 <= f x) -> 0 <= sum f l.
  Proof. intros H; induction l as [|x l IH]; cbn [sum]; [lia|]. specialize (H x). lia. Qed.
End Tab.

(* ---------- a cut-down pool: get (no hooks) / return, thread-level ---------- *)
Inductive pc :=
| Idle | GEnter | GAcquire | GWait (assigned : bool) | GLoop | GCreate | GCreated (o : nat)
| UPermit | UUsers | RUsers (o : nat) | RLock (o : nat) | RAdd.

Record state := { permits : Z; queue : list nat; vec : list nat; size : Z; users : Z;
                  tasks : list pc; out : list nat; next : nat }.

Inductive label := Start_get (t : nat) | Start_drop (t : nat) (o : nat) | Step (t : nat)
                 | EnvOk (t : nat) | EnvErr (t : nat) | Cancel (t : nat).

Definition setp (s : state) (t : nat) (p : pc) : state :=
  {| permits := permits s; queue := queue s; vec := vec s; size := size s; users := users s;
     tasks := upd Idle t p (tasks s); out := out s; next := next s |}.

Fixpoint remove_nat (x : nat) (l : list nat) : list nat :=
  match l with [] => [] | y :: l' => if Nat.eqb x y then l' else y :: remove_nat x l' end.

(* add one permit: serve queue head first *)
Definition sem_add (s : state) : state :=
  match queue s with
  | [] => {| permits := permits s + 1; queue := []; vec := vec s; size := size s; users := users s;
             tasks := tasks s; out := out s; next := next s |}
  | w :: q => {| permits := permits s; queue := q; vec := vec s; size := size s; users := users s;
                 tasks := upd Idle w (GWait true) (tasks s); out := out s; next := next s |}
  end.

Definition step (s : state) (l : label) : option state :=
  match l with
  | Start_get t => match get Idle t (tasks s) with Idle => Some (setp s t GEnter) | _ => None end
  | Start_drop t o => match get Idle t (tasks s) with
                      | Idle => if existsb (Nat.eqb o) (out s)
                                then Some (setp {| permits := permits s; queue := queue s; vec := vec s; size := size s;
                                                   users := users s; tasks := tasks s; out := remove_nat o (out s); next := next s |} t (RUsers o))
                                else None
                      | _ => None end
  | Step t =>
    match get Idle t (tasks s) with
    | GEnter => Some (setp {| permits := permits s; queue := queue s; vec := vec s; size := size s;
                              users := users s + 1; tasks := tasks s; out := out s; next := next s |} t GAcquire)
    | GAcquire => if 0 <? permits s
                  then Some (setp {| permits := permits s - 1; queue := queue s; vec := vec s; size := size s;
                                     users := users s; tasks := tasks s; out := out s; next := next s |} t GLoop)
                  else Some (setp {| permits := permits s; queue := queue s ++ [t]; vec := vec s; size := size s;
                                     users := users s; tasks := tasks s; out := out s; next := next s |} t (GWait false))
    | GWait true => Some (setp s t GLoop)
    | GLoop => match vec s with
               | o :: v => (* recycle always ok in the spike: hand out *)
                 Some (setp {| permits := permits s; queue := queue s; vec := v; size := size s;
                               users := users s; tasks := tasks s; out := o :: out s; next := next s |} t Idle)
               | [] => Some (setp s t GCreate)
               end
    | GCreated o => Some (setp {| permits := permits s; queue := queue s; vec := vec s; size := size s + 1;
                                  users := users s; tasks := tasks s; out := o :: out s; next := next s |} t Idle)
    | UPermit => Some (setp (sem_add s) t UUsers)
    | UUsers => Some (setp {| permits := permits s; queue := queue s; vec := vec s; size := size s;
                              users := users s - 1; tasks := tasks s; out := out s; next := next s |} t Idle)
    | RUsers o => Some (setp {| permits := permits s; queue := queue s; vec := vec s; size := size s;
                                users := users s - 1; tasks := tasks s; out := out s; next := next s |} t (RLock o))
    | RLock o => Some (setp {| permits := permits s; queue := queue s; vec := vec s ++ [o]; size := size s;
                               users := users s; tasks := tasks s; out := out s; next := next s |} t RAdd)
    | RAdd => Some (setp (sem_add s) t Idle)
    | _ => None
    end
  | EnvOk t => match get Idle t (tasks s) with
               | GCreate => Some (setp {| permits := permits s; queue := queue s; vec := vec s; size := size s;
                                          users := users s; tasks := tasks s; out := out s; next := S (next s) |} t (GCreated (next s)))
               | _ => None end
  | EnvErr t => match get Idle t (tasks s) with GCreate => Some (setp s t UPermit) | _ => None end
  | Cancel t => match get Idle t (tasks s) with
                | GCreate => Some (setp s t UPermit)
                | GWait false => Some (setp {| permits := permits s; queue := remove_nat t (queue s); vec := vec s; size := size s;
                                               users := users s; tasks := tasks s; out := out s; next := next s |} t UUsers)
                | GWait true => Some (setp s t UPermit)
                | _ => None end
  end.

(* contributions *)
Definition h (p : pc) : Z := match p with GWait true | GLoop | GCreate | GCreated _ | UPermit => 1 | _ => 0 end.
Definition u (p : pc) : Z := match p with Idle | GEnter | RLock _ | RAdd => 0 | _ => 1 end.
Definition r (p : pc) : Z := match p with RUsers _ | RLock _ | RAdd => 1 | _ => 0 end. (* permit of an object being returned *)
Definition ell (p : pc) : Z := match p with GCreate | GCreated _ | RUsers _ | RLock _ => 1 | _ => 0 end.


Definition slack (p : pc) : Z := h p + r p - ell p.
Lemma slack_nonneg p : 0 <= slack p. Proof. destruct p as [| | |[|]| | | | | | | |]; cbn; lia. Qed.

Definition Inv (M : Z) (s : state) : Prop :=
  permits s + sum h (tasks s) + sum r (tasks s) + Z.of_nat (length (out s)) = M
  /\ 0 <= permits s
  /\ Z.of_nat (length (vec s)) <= permits s + sum slack (tasks s).

Definition live (s : state) : Z := Z.of_nat (length (vec s)) + Z.of_nat (length (out s)) + sum ell (tasks s).

Lemma sum_slack l : sum slack l = sum h l + sum r l - sum ell l.
Proof. induction l as [|x l IH]; cbn [sum]; unfold slack in *; lia. Qed.

Lemma inv_live M s : Inv M s -> live s <= M.
Proof. unfold Inv, live. intros (H1 & H2 & H3). rewrite sum_slack in H3. lia. Qed.

Lemma length_remove_nat o l : existsb (Nat.eqb o) l = true -> Z.of_nat (length (remove_nat o l)) = Z.of_nat (length l) - 1.
Proof.
  induction l as [|y l IH]; cbn [existsb remove_nat length]; [discriminate|].
  destruct (Nat.eqb o y) eqn:E; cbn [orb]; intros H.
  - lia.
  - cbn [length]. rewrite Nat2Z.inj_succ, IH by exact H. lia.
Qed.

Ltac sums := repeat rewrite (sum_upd Idle) by reflexivity.

Lemma sem_add_inv_aux s :
  0 <= permits s ->
  permits (sem_add s) + sum h (tasks (sem_add s)) = permits s + sum h (tasks s) + 1 - (match queue s with [] => 0 | w :: _ => h (get Idle w (tasks s)) end)
  /\ sum r (tasks (sem_add s)) = sum r (tasks s) - (match queue s with [] => 0 | w :: _ => r (get Idle w (tasks s)) end)
  /\ sum ell (tasks (sem_add s)) = sum ell (tasks s) - (match queue s with [] => 0 | w :: _ => ell (get Idle w (tasks s)) end)
  /\ 0 <= permits (sem_add s) /\ vec (sem_add s) = vec s /\ out (sem_add s) = out s.
Proof.
  intros HP. unfold sem_add. destruct (queue s) as [|w q]; cbn [permits tasks vec out]; sums; cbn [h r ell]; repeat split; lia.
Qed.

Definition InvQ (s : state) : Prop := forall w, In w (queue s) -> get Idle w (tasks s) = GWait false.
Definition FullInv M s := Inv M s /\ InvQ s.

Lemma In_remove_nat x y l : In x (remove_nat y l) -> In x l.
Proof. induction l as [|z l IH]; cbn [remove_nat]; [tauto|]. destruct (Nat.eqb y z); cbn [In]; tauto. Qed.

Lemma invq_setp s t p : InvQ s -> (p = GWait false \/ ~ In t (queue s)) -> InvQ (setp s t p).
Proof.
  intros HQ Hp w Hw. cbn [setp queue tasks] in *. destruct (Nat.eq_dec t w) as [->|Hne].
  - rewrite get_upd_same. destruct Hp as [->|Hn]; [reflexivity|contradiction].
  - rewrite get_upd_other by exact Hne. apply HQ, Hw.
Qed.

(* a task that is not GWait false is not in the queue *)
Lemma not_in_queue s t : InvQ s -> get Idle t (tasks s) <> GWait false -> ~ In t (queue s).
Proof. intros HQ Hne Hin. apply Hne, HQ, Hin. Qed.

Ltac inv_tac Hpc :=
  unfold Inv; cbn [setp permits tasks out vec queue length] in *; rewrite ?sum_slack in *;
  repeat rewrite (sum_upd Idle) in * by reflexivity; rewrite ?Hpc in *; cbn [h r ell] in *; try lia.

Lemma queue_head_pc s w q : InvQ s -> queue s = w :: q -> get Idle w (tasks s) = GWait false.
Proof. intros HQ Eq. apply HQ. rewrite Eq. left; reflexivity. Qed.

(* releasing one permit from task t (moving t to pc p with h p = h(pc t) - 1 etc.) *)
Lemma release_inv M s t p :
  FullInv M s -> NoDup (queue s) ->
  get Idle t (tasks s) <> GWait false ->
  h p + r p = h (get Idle t (tasks s)) + r (get Idle t (tasks s)) - 1 ->
  ell p = ell (get Idle t (tasks s)) -> p <> GWait false ->
  FullInv M (setp (sem_add s) t p) /\ NoDup (queue (setp (sem_add s) t p)).
Proof.
  intros [(H1 & H2 & H3) HQ] Hnd Hne Hhr Hl Hp.
  pose proof (not_in_queue s t HQ Hne) as Hnq.
  unfold sem_add. destruct (queue s) as [|w q] eqn:Eq.
  - split; [split|].
    + inv_tac Hne.
    + intros w Hw. cbn [setp queue] in Hw. destruct Hw.
    + cbn. constructor.
  - pose proof (queue_head_pc s w q HQ Eq) as Hw.
    assert (Htw : t <> w) by (intros ->; apply Hnq; left; reflexivity).
    inversion Hnd as [|? ? Hnotin Hnd']; subst.
    split; [split|].
    + unfold Inv; cbn [setp permits tasks out vec queue length] in *; rewrite ?sum_slack in *.
      repeat rewrite (sum_upd Idle) in * by reflexivity.
      rewrite (get_upd_other Idle w t) by congruence. rewrite Hw. cbn [h r ell]. lia.
    + intros w' Hw'. cbn [setp queue tasks] in *.
      assert (w' <> w) by (intros ->; contradiction).
      destruct (Nat.eq_dec t w') as [->|Hn]; [exfalso; apply Hnq; right; exact Hw'|].
      rewrite get_upd_other by exact Hn. rewrite get_upd_other by congruence. apply HQ. rewrite Eq. right; exact Hw'.
    + cbn [setp queue]. exact Hnd'.
Qed.
