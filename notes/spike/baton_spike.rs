//! Baton scheduler spike: every logical task is an OS thread, exactly one runs at a time,
//! control returns to the scheduler at every `deadpool::verif::point`.
use std::future::Future;
use std::pin::Pin;
use std::sync::{Arc, Condvar, Mutex};
use std::task::{Context, Poll, Wake, Waker};

use deadpool::managed::{self, Metrics, RecycleResult};

#[derive(Clone, Debug, PartialEq)]
enum Ev { Point(&'static str), Done(String), Panicked(String) }

struct Shared { turn: Option<usize>, last: Vec<Option<Ev>> }
#[derive(Clone)]
struct Sched(Arc<(Mutex<Shared>, Condvar)>);

impl Sched {
    fn new() -> Self { Sched(Arc::new((Mutex::new(Shared { turn: None, last: vec![] }), Condvar::new()))) }
    fn yield_with(&self, id: usize, ev: Ev, wait_again: bool) {
        let (m, cv) = &*self.0;
        let mut g = m.lock().unwrap();
        g.last[id] = Some(ev);
        g.turn = None;
        cv.notify_all();
        if wait_again { while g.turn != Some(id) { g = cv.wait(g).unwrap(); } }
    }
    /// spawn a task; it does not run until first `step`
    fn spawn(&self, f: impl FnOnce() -> String + Send + 'static) -> usize {
        let id = { let mut g = self.0 .0.lock().unwrap(); g.last.push(None); g.last.len() - 1 };
        let s = self.clone();
        std::thread::spawn(move || {
            { let (m, cv) = &*s.0; let mut g = m.lock().unwrap(); while g.turn != Some(id) { g = cv.wait(g).unwrap(); } }
            let s2 = s.clone();
            deadpool::verif::set_thread_hook(Some(Box::new(move |p| s2.yield_with(id, Ev::Point(p), true))));
            let r = std::panic::catch_unwind(std::panic::AssertUnwindSafe(f));
            deadpool::verif::set_thread_hook(None);
            match r {
                Ok(v) => s.yield_with(id, Ev::Done(v), false),
                Err(e) => s.yield_with(id, Ev::Panicked(e.downcast_ref::<String>().cloned().or(e.downcast_ref::<&str>().map(|s| s.to_string())).unwrap_or_default()), false),
            }
        });
        id
    }
    /// let task `id` run to its next schedule point / completion
    fn step(&self, id: usize) -> Ev {
        let (m, cv) = &*self.0;
        let mut g = m.lock().unwrap();
        g.turn = Some(id);
        cv.notify_all();
        while g.turn.is_some() { g = cv.wait(g).unwrap(); }
        g.last[id].clone().unwrap()
    }
    fn run_to_end(&self, id: usize) -> Ev { loop { let e = self.step(id); if !matches!(e, Ev::Point(_)) { return e; } } }
    fn run_until(&self, id: usize, p: &str) -> Ev { loop { let e = self.step(id); match &e { Ev::Point(q) if *q != p => continue, _ => return e } } }
}

struct FlagWaker; impl Wake for FlagWaker { fn wake(self: Arc<Self>) {} }
fn poll_once<F: Future>(f: Pin<&mut F>) -> Poll<F::Output> {
    let w = Waker::from(Arc::new(FlagWaker)); let mut cx = Context::from_waker(&w); f.poll(&mut cx)
}
fn block_on_ready<F: Future>(f: F) -> F::Output { let mut f = Box::pin(f); match poll_once(f.as_mut()) { Poll::Ready(v) => v, Poll::Pending => panic!("pending") } }

struct Mgr;
impl managed::Manager for Mgr {
    type Type = usize; type Error = ();
    async fn create(&self) -> Result<usize, ()> { Ok(7) }
    async fn recycle(&self, _: &mut usize, _: &Metrics) -> RecycleResult<()> { Ok(()) }
}
type Pool = managed::Pool<Mgr>;

fn main() {
    std::panic::set_hook(Box::new(|_| {}));
    // ---- D4: return racing close leaves an idle object in the closed pool
    {
        let pool: Pool = Pool::builder(Mgr).max_size(1).build().unwrap();
        let obj = block_on_ready(pool.get()).unwrap();
        let s = Sched::new();
        let cell = Arc::new(Mutex::new(Some(obj)));
        let c2 = cell.clone();
        let t1 = s.spawn(move || { drop(c2.lock().unwrap().take()); "dropped".into() });
        let p2 = pool.clone();
        let t2 = s.spawn(move || { p2.close(); "closed".into() });
        println!("D4 t1 -> {:?}", s.run_until(t1, "return.before_add_permits"));
        println!("D4 t2 -> {:?}", s.run_to_end(t2));
        println!("D4 t1 -> {:?}", s.run_to_end(t1));
        println!("D4 snapshot (permits, closed, size, max_size, idle_len, users) = {:?}  status={:?}", pool.verif_snapshot(), pool.status());
    }
    // ---- D5: resize racing close
    {
        let pool: Pool = Pool::builder(Mgr).max_size(1).build().unwrap();
        let s = Sched::new();
        let p1 = pool.clone();
        let t1 = s.spawn(move || { p1.resize(5); "resized".into() });
        let p2 = pool.clone();
        let t2 = s.spawn(move || { p2.close(); "closed".into() });
        println!("D5 t1 -> {:?}", s.run_until(t1, "resize.before_lock"));
        println!("D5 t2 -> {:?}", s.run_to_end(t2));
        println!("D5 t1 -> {:?}", s.run_to_end(t1));
        println!("D5 snapshot = {:?} status={:?} is_closed={}", pool.verif_snapshot(), pool.status(), pool.is_closed());
    }
    // ---- D7: unmanaged try_get racing close
    {
        let pool = deadpool::unmanaged::Pool::from(vec![1usize]);
        let s = Sched::new();
        let p1 = pool.clone();
        let t1 = s.spawn(move || { format!("{:?}", p1.try_get().map(|o| *o)) });
        let p2 = pool.clone();
        let t2 = s.spawn(move || { p2.close(); "closed".into() });
        println!("D7 t1 -> {:?}", s.run_until(t1, "try_get.after_permit"));
        println!("D7 t2 -> {:?}", s.run_to_end(t2));
        println!("D7 t1 -> {:?}", s.run_to_end(t1));
    }
    // ---- D7b: unmanaged add racing close
    {
        let pool = deadpool::unmanaged::Pool::<usize>::new(1);
        let s = Sched::new();
        let p1 = pool.clone();
        let t1 = s.spawn(move || { format!("{:?}", p1.try_add(9).map_err(|e| e.1)) });
        let p2 = pool.clone();
        let t2 = s.spawn(move || { p2.close(); "closed".into() });
        println!("D7b t1 -> {:?}", s.run_until(t1, "_add.entry"));
        println!("D7b t2 -> {:?}", s.run_to_end(t2));
        println!("D7b t1 -> {:?}", s.run_to_end(t1));
        println!("D7b status after close = {:?} is_closed={}", pool.status(), pool.is_closed());
    }
}
