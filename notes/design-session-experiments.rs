use deadpool::managed::{self, Metrics, Object, RecycleResult, Timeouts, PoolError};
use std::sync::atomic::{AtomicUsize, Ordering};
use std::time::Duration;
use std::sync::Arc;

struct Mgr { created: AtomicUsize, detached: Arc<AtomicUsize>, dropped: Arc<AtomicUsize> }
struct Obj(usize, Arc<AtomicUsize>);
impl Drop for Obj { fn drop(&mut self) { self.1.fetch_add(1, Ordering::SeqCst); } }
impl managed::Manager for Mgr {
    type Type = Obj; type Error = ();
    async fn create(&self) -> Result<Obj, ()> { Ok(Obj(self.created.fetch_add(1, Ordering::SeqCst), self.dropped.clone())) }
    async fn recycle(&self, _: &mut Obj, _: &Metrics) -> RecycleResult<()> { Ok(()) }
    fn detach(&self, _o: &mut Obj) { self.detached.fetch_add(1, Ordering::SeqCst); }
}
type Pool = managed::Pool<Mgr>;
fn mk(n: usize) -> (Pool, Arc<AtomicUsize>, Arc<AtomicUsize>) {
    let d = Arc::new(AtomicUsize::new(0)); let dr = Arc::new(AtomicUsize::new(0));
    (Pool::builder(Mgr{created: AtomicUsize::new(0), detached: d.clone(), dropped: dr.clone()}).max_size(n).build().unwrap(), d, dr)
}
fn nb() -> Timeouts { Timeouts { wait: Some(Duration::ZERO), create: None, recycle: None } }

#[tokio::main(flavor = "current_thread")]
async fn main() {
    // E1
    let (p, _, _) = mk(1);
    p.resize(0);
    let r = p.timeout_get(&nb()).await;
    println!("E1 resize(0) then nb get: ok={} status={:?}", r.is_ok(), p.status());
    // E2
    let (p, _, _) = mk(2);
    let a = p.get().await.unwrap(); let b = p.get().await.unwrap();
    p.resize(1); p.resize(2);
    let c = p.timeout_get(&nb()).await;
    println!("E2 third object ok={} status={:?}", c.is_ok(), p.status());
    drop((a,b,c));
    // E3
    let (p, d, dr) = mk(3);
    let a = p.get().await.unwrap(); let b = p.get().await.unwrap(); let c = p.get().await.unwrap();
    drop((a,b,c));
    p.resize(1);
    println!("E3 after shrink 3->1: status={:?} detached={} dropped={}", p.status(), d.load(Ordering::SeqCst), dr.load(Ordering::SeqCst));
    p.close();
    println!("E3b after close: status={:?} detached={} dropped={}", p.status(), d.load(Ordering::SeqCst), dr.load(Ordering::SeqCst));
    // E4
    let (p, d, dr) = mk(2);
    let a = p.get().await.unwrap(); drop(a);
    let t = Timeouts { wait: None, create: None, recycle: Some(Duration::from_secs(1)) };
    let r = p.timeout_get(&t).await;
    println!("E4 per-call recycle timeout no runtime: {:?} id={:?} detached={} dropped={} status={:?}", r.as_ref().map(|_|()).map_err(|e| format!("{:?}", e)), r.as_ref().ok().map(|o| o.0), d.load(Ordering::SeqCst), dr.load(Ordering::SeqCst), p.status());
    drop(r);
    let t = Timeouts { wait: None, create: Some(Duration::from_secs(1)), recycle: None };
    let r = p.timeout_get(&t).await;
    println!("E4b per-call create timeout no runtime, idle object available: {:?}", r.as_ref().map(|o|o.0).map_err(|e| format!("{:?}", e)));
    let t = Timeouts { wait: Some(Duration::from_secs(1)), create: None, recycle: None };
    let r2 = p.timeout_get(&t).await;
    println!("E4c per-call wait timeout no runtime: {:?}", r2.as_ref().map(|o|o.0).map_err(|e| format!("{:?}", e)));
    // E5 unmanaged waiting
    let up = deadpool::unmanaged::Pool::<usize>::new(1);
    let up2 = up.clone();
    let h = tokio::spawn(async move { up2.get().await.map(|o| *o) });
    tokio::task::yield_now().await;
    println!("E5 unmanaged blocked getter: status={:?}", up.status());
    up.add(7).await.unwrap();
    println!("E5b {:?} status={:?}", h.await.unwrap().map_err(|e| format!("{:?}",e)), up.status());
    // E8 pg config
    let mut c = deadpool_postgres::Config::new();
    c.dbname = Some("x".into());
    c.target_session_attrs = Some(deadpool_postgres::TargetSessionAttrs::ReadWrite);
    c.channel_binding = Some(deadpool_postgres::ChannelBinding::Require);
    c.load_balance_hosts = Some(deadpool_postgres::LoadBalanceHosts::Random);
    let pc = c.get_pg_config().unwrap();
    println!("E8 tsa={:?} cb={:?} lbh={:?}", pc.get_target_session_attrs(), pc.get_channel_binding(), pc.get_load_balance_hosts());
    // loopback
    let l = tokio::net::TcpListener::bind("127.0.0.1:0").await;
    println!("loopback bind: {:?}", l.as_ref().map(|l| l.local_addr().unwrap()).map_err(|e| e.to_string()));
    if let Ok(l) = l { let addr = l.local_addr().unwrap(); let c = tokio::net::TcpStream::connect(addr).await; println!("loopback connect ok={}", c.is_ok()); }
}
