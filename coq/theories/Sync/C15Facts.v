(* The lemmas behind Props/C15.v: what the three manager functions reject, that a wrapper whose
   closure panicked stays poisoned (from the SyncWrapper model), and what the managed pool does
   with a rejected object (from Never.v). *)
From Coq Require Import List ZArith Lia Bool Arith.
From DP Require Import Common.Tab Managed.Model Managed.Contrib Managed.Simp Managed.InvQ
  Managed.InvG Managed.Reach Sync.Mgr Sync.Pool Sync.Never.
From DP Require Sync.Model Sync.Inv Sync.Facts.
Import ListNotations.
Open Scope Z_scope.

(* ------------------------------------------------------------------ the decision functions *)
Lemma sqlite_accept_iff p n a : sqlite_recycle p n a = Accept <-> p = false /\ a = Some n.
Proof.
  unfold sqlite_recycle, guarded, sqlite_check. destruct p; [split; [discriminate|intros [H _]; discriminate]|].
  destruct a as [m|]; cbn [option_map].
  - destruct (Z.eqb_spec m n) as [->|Hne]; split; auto; try discriminate.
    intros [_ H]. inversion H. contradiction.
  - split; [discriminate|intros [_ H]; discriminate].
Qed.

Lemma r2d2_accept_iff p b : r2d2_recycle p b = Accept <-> p = false /\ b = Some (false, true).
Proof.
  unfold r2d2_recycle, guarded, r2d2_check. destruct p; [split; [discriminate|intros [H _]; discriminate]|].
  destruct b as [[hb iv]|]; cbn [option_map fst snd].
  - destruct hb, iv; split; auto; try discriminate; intros [_ H]; inversion H.
  - split; [discriminate|intros [_ H]; discriminate].
Qed.

Lemma r2d2_calls_spec p hb :
  (p = true -> r2d2_calls p hb = []) /\
  (p = false -> hb = true -> r2d2_calls p hb = [HasBroken]) /\
  (p = false -> hb = false -> r2d2_calls p hb = [HasBroken; IsValid]).
Proof. unfold r2d2_calls. destruct p, hb; repeat split; intros; try reflexivity; discriminate. Qed.

Lemma diesel_accept_iff p m b :
  diesel_recycle p m b = Accept <->
  p = false /\ exists ping, b = Some (false, ping) /\ (m = Fast \/ ping = true).
Proof.
  unfold diesel_recycle, guarded, diesel_check. destruct p.
  - split; [discriminate|intros [H _]; discriminate].
  - destruct b as [[br pk]|]; cbn [option_map fst snd].
    + destruct br.
      * split; [discriminate|]. intros [_ (ping & H & _)]. inversion H.
      * split.
        -- intros H. split; [reflexivity|]. exists pk. split; [reflexivity|].
           destruct m; auto; destruct pk; auto; discriminate.
        -- intros [_ (ping & H1 & H2)]. inversion H1; subst.
           destruct H2 as [->| ->]; [reflexivity|]. destruct m; reflexivity.
    + split; [discriminate|]. intros [_ (ping & H & _)]. discriminate.
Qed.

(* the decision the differential run uses: poisoned, broken or invalid => reject *)
Lemma decide_rejects m n cn :
  c_poisoned cn = true
  \/ (m = MR2d2 /\ (c_broken cn = true \/ c_invalid cn = true))
  \/ (exists me, m = MDiesel me /\ (c_broken cn = true \/ (me <> Fast /\ c_invalid cn = true))) ->
  fst (decide m n cn) = Reject.
Proof.
  intros [Hp|[[-> H]|(me & -> & H)]].
  - destruct m; cbn [decide fst]; unfold sqlite_recycle, r2d2_recycle, diesel_recycle, guarded;
      rewrite Hp; reflexivity.
  - cbn [decide fst]. unfold r2d2_recycle, guarded, r2d2_check. cbn [option_map fst snd].
    destruct (c_poisoned cn); [reflexivity|]. destruct H as [->| ->]; [reflexivity|].
    destruct (c_broken cn); reflexivity.
  - cbn [decide fst]. unfold diesel_recycle, guarded, diesel_check. cbn [option_map fst snd].
    destruct (c_poisoned cn); [reflexivity|]. destruct H as [->|[Hm ->]]; [reflexivity|].
    destruct (c_broken cn); [reflexivity|]. destruct me; try reflexivity. contradiction.
Qed.

(* ------------------------------------------------------------------ panicked => poisoned *)
Module S := DP.Sync.Model.
Import DP.Sync.Inv.

Record PI (s : S.state) : Prop := {
  p_queued : forall k j, nth_error (S.jobs s) k = Some j -> S.jst j = S.JQueued -> S.jran j = false;
  p_panicked : forall k j, nth_error (S.jobs s) k = Some j -> S.jkind j = S.KInteract S.FPanic ->
                 S.jran j = true -> unfinished (S.jst j) = false -> S.poisoned s = true
}.

Lemma PI_init : PI S.init.
Proof. constructor; cbn; intros k j H; destruct (nth_nil_some _ _ H). Qed.

Lemma PI_step s l s' : PI s -> S.step s l = Some s' -> PI s'.
Proof.
  intros [P1 P2] H.
  destruct l as [k kd|k|k|k|k|k| |k]; cbn [S.step] in H; unfold S.jget in H; break H;
    inversion H; subst; clear H; ssp;
    constructor; ssp; intros; old_jobs; fields; rw_fields; preds;
    try discriminate; try congruence; eauto;
    try (match goal with
         | Hx : nth_error (S.jobs s) _ = Some ?j0, Hq : S.jst ?j0 = S.JQueued, Hr : S.jran ?j0 = true |- _ =>
             rewrite (P1 _ _ Hx Hq) in Hr; discriminate Hr
         end);
    try (match goal with
         | Hx : nth_error (S.jobs s) ?k0 = Some ?j0 |- S.jran ?j0 = false => eapply P1; [exact Hx|congruence]
         | Hx : nth_error (S.jobs s) ?k0 = Some ?j0 |- S.poisoned s = true =>
             eapply P2; [exact Hx|congruence|assumption|
               first [assumption|congruence|match goal with E : S.jst _ = _ |- _ => rewrite E end; reflexivity]]
         | Hx : nth_error (S.jobs s) ?k0 = Some ?j0 |- _ = true =>
             first [reflexivity | rewrite <- (P2 _ _ Hx) by (first [assumption|congruence]); reflexivity]
         end).
Qed.

Lemma PI_run tr : forall s s', PI s -> S.run s tr = Some s' -> PI s'.
Proof.
  induction tr as [|l tr IH]; intros s s' I H; cbn [S.run] in H.
  - inversion H; subst. exact I.
  - destruct (S.step s l) as [s1|] eqn:E; [|discriminate].
    eapply IH; [eapply PI_step; eassumption|exact H].
Qed.

(* a wrapper on which an interaction closure panicked - awaited, cancelled, whenever - reports
   is_mutex_poisoned() in every later state, so each of the three recycle functions rejects it *)
Lemma panicked_is_rejected tr s k j :
  S.run S.init tr = Some s -> nth_error (S.jobs s) k = Some j ->
  S.jkind j = S.KInteract S.FPanic -> S.jran j = true -> S.jst j = S.JDone S.RPanic ->
  S.poisoned s = true /\
  (forall n a, sqlite_recycle (S.poisoned s) n a = Reject) /\
  (forall b, r2d2_recycle (S.poisoned s) b = Reject) /\
  (forall m b, diesel_recycle (S.poisoned s) m b = Reject).
Proof.
  intros Hr Hj Hk Hran Hst.
  assert (Hp : S.poisoned s = true).
  { eapply (p_panicked _ (PI_run _ _ _ PI_init Hr)); [exact Hj|exact Hk|exact Hran|rewrite Hst; reflexivity]. }
  rewrite Hp. repeat split; intros; reflexivity.
Qed.

(* ------------------------------------------------------------------ the pool side *)
Lemma rejected_never_reissued c tr1 s t g o st s1 tr2 s2 :
  run c (init c) tr1 = Some s -> pcof s t = GRec g o st ->
  step c s (Env t OErr) = Some s1 -> run c s1 tr2 = Some s2 ->
  ~ In (oid o) (map oid (vec s2)) /\ ~ In (oid o) (map oid (out s2))
  /\ (forall o' t', In (EHandOut o' t') (log s2) -> oid o' = oid o -> In (EHandOut o' t') (log s1))
  /\ (forall t', w false (oid o) (pcof s2 t') = 0).
Proof.
  intros Hr Hpc Hs Hr2.
  destruct (reject_gone c tr1 s t g o st s1 Hr Hpc Hs) as [H0 _].
  destruct (gone_forever c (oid o) tr2 s1 s2 H0 Hr2) as (A & B & C & _).
  repeat split; try assumption.
  intros o' t' Hin Hx. eapply no_handout_after; eassumption.
Qed.

(* the get that met the rejection discards the object and goes back to the idle queue / a
   creation with the permit it holds *)
Lemma rejected_is_replaced c s t g o st s1 :
  pcof s t = GRec g o st -> step c s (Env t OErr) = Some s1 ->
  exists s2 s3, step c s1 (Step t) = Some s2 /\ step c s2 (Step t) = Some s3
    /\ pcof s1 t = UUnready g o CLoop /\ pcof s2 t = UDetach g o CLoop /\ pcof s3 t = GPop g
    /\ vec s3 = vec s1 /\ out s3 = out s1 /\ permits s3 = permits s1 /\ size s3 = size s1 - 1
    /\ hp (pcof s1 t) = 1 /\ hp (pcof s2 t) = 1 /\ hp (pcof s3 t) = 1
    /\ log s3 = EDestroy (oid o) t :: EDetach (oid o) t :: log s1.
Proof.
  intros Hpc Hs. cbn [step] in Hs. unfold env_task in Hs. rewrite Hpc in Hs. cbn [option_map] in Hs.
  inversion Hs; subst; clear Hs.
  assert (P1 : pcof (tick (setpc s t (UUnready g o CLoop))) t = UUnready g o CLoop).
  { unfold tick, pcof. sp. apply get_upd_same. }
  eexists. eexists. split.
  { cbn [step]. unfold step_task. rewrite P1. cbn [option_map]. reflexivity. }
  split.
  { cbn [step]. unfold step_task.
    match goal with |- context [pcof ?x t] =>
      assert (P2 : pcof x t = UDetach g o CLoop) by (unfold tick, pcof; sp; apply get_upd_same) end.
    rewrite P2. cbn [option_map]. reflexivity. }
  repeat split;
    try (unfold tick, pcof; sp; first [apply get_upd_same | reflexivity | lia
                                      | rewrite get_upd_same; reflexivity]).
Qed.

(* rejecting and replacing loses no capacity: the conservation law of the managed pool holds in
   every reachable state, whatever the managers answered *)
Lemma capacity_conserved c s :
  Reachable c s -> alive s = true ->
  permits s + sum hp (tasks s) + zlen (out s) = maxs s + debt s.
Proof. intros R Ha. destruct (reachable_G c s R) as [_ A]. apply (a_perm _ A Ha). Qed.
