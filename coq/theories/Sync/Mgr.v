(* The recycle decisions of the three managers built on SyncWrapper:
     sqlite/src/lib.rs  Manager::recycle      r2d2/src/manager.rs  Manager::recycle
     diesel/src/manager.rs  Manager::recycle + RecyclingMethod::perform_recycle_check
   What the backend answers (echo of SELECT n, has_broken / is_valid, transaction manager
   status, ping) is an input; [None] stands for "the interaction itself failed"
   (InteractError, or for sqlite also a query error).  Definitions only. *)
From Coq Require Import List ZArith Bool.
From DP Require Import Managed.Model.
Import ListNotations.
Open Scope Z_scope.

Inductive verdict := Accept | Reject.

(* Manager::recycle answers Ok(()) / Err(..): the outcome the pool sees at the recycle gate *)
Definition recycle_outcome (v : verdict) : outcome :=
  match v with Accept => OOk | Reject => OErr end.

(* common shape: "if conn.is_mutex_poisoned() { return Err }", then one interact() whose
   failure is an error as well *)
Definition guarded (poisoned : bool) (inner : option verdict) : verdict :=
  if poisoned then Reject
  else match inner with Some v => v | None => Reject end.

(* ---- sqlite: n = recycle_count.fetch_add(1); SELECT n must echo n *)
Definition sqlite_check (n answer : Z) : verdict := if Z.eqb answer n then Accept else Reject.
Definition sqlite_recycle (poisoned : bool) (n : Z) (answer : option Z) : verdict :=
  guarded poisoned (option_map (sqlite_check n) answer).

(* ---- r2d2: has_broken, then is_valid; both on the blocking thread *)
Inductive r2d2_call := HasBroken | IsValid.
Definition r2d2_check (has_broken is_valid_ok : bool) : verdict :=
  if has_broken then Reject else if is_valid_ok then Accept else Reject.
Definition r2d2_calls (poisoned has_broken : bool) : list r2d2_call :=
  if poisoned then [] else if has_broken then [HasBroken] else [HasBroken; IsValid].
Definition r2d2_recycle (poisoned : bool) (backend : option (bool * bool)) : verdict :=
  guarded poisoned (option_map (fun a => r2d2_check (fst a) (snd a)) backend).

(* ---- diesel: broken transaction manager, then the ping of the RecyclingMethod *)
Inductive method := Fast | Verified | CustomQuery | CustomFunction.
Definition diesel_check (m : method) (broken_tm ping_ok : bool) : verdict :=
  if broken_tm then Reject
  else match m with
       | Fast => Accept
       | Verified | CustomQuery | CustomFunction => if ping_ok then Accept else Reject
       end.
Definition diesel_pings (m : method) (poisoned broken_tm : bool) : bool :=
  negb poisoned && negb broken_tm && match m with Fast => false | _ => true end.
Definition diesel_recycle (poisoned : bool) (m : method) (backend : option (bool * bool)) : verdict :=
  guarded poisoned (option_map (fun a => diesel_check m (fst a) (snd a)) backend).
