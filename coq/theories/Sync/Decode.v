(* Decoding of the harness' integer encoding of labels (the configuration list is not read by
   the model: it only tells the harness how to realise the schedule). *)
From Coq Require Import List ZArith Bool Arith.
From DP Require Import Sync.Model Sync.Obs.
Import ListNotations.
Open Scope Z_scope.

Definition zn (z : Z) : nat := Z.to_nat z.
Definition nthz (l : list Z) (i : nat) : Z := nth i l 0.

Definition dec_kind (a b : Z) : kind :=
  if Z.eqb a 0 then KCreate (if Z.eqb b 0 then CFOk else if Z.eqb b 1 then CFErr else CFPanic)
  else if Z.eqb a 1 then KInteract (if Z.eqb b 0 then FRet else FPanic)
  else KDrop.

(* label = [kind; k; a; b] *)
Definition dec_label (l : list Z) : label :=
  let c := nthz l 0 in
  let k := zn (nthz l 1) in
  if Z.eqb c 0 then Spawn k (dec_kind (nthz l 2) (nthz l 3))
  else if Z.eqb c 1 then CancelAwait k
  else if Z.eqb c 2 then Deliver k
  else if Z.eqb c 3 then BAcquire k
  else if Z.eqb c 4 then BSkip k
  else if Z.eqb c 5 then BFinish k
  else if Z.eqb c 6 then DropWrapper
  else BStart k.

Definition run_case_z (x : list Z * list (list Z)) : list Z :=
  run_case (map dec_label (snd x)).
