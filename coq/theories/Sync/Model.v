(* Executable model of deadpool_sync::SyncWrapper (sync/src/lib.rs) over
   deadpool_runtime::Runtime::{spawn_blocking, spawn_blocking_background}.

   Two kinds of actors: the async side (creates the wrapper, spawns interactions, cancels
   their awaits, picks up results, drops the wrapper) and the jobs of the blocking pool, which
   run in any order and with any parallelism - the only thing that serialises them is the
   mutex around the wrapped value.  All nondeterminism is in the labels, so [step] is a
   function and "for all schedules, histories and cancellation points" is "for all label
   lists".  Nothing is proved in this file; see Inv.v. *)
From Coq Require Import List ZArith Bool Arith.
Import ListNotations.

Inductive actor := Async | Blocking (k : nat).

(* the wrapped value: not created yet / inside the mutex / taken out (by the drop job) *)
Inductive value := NotYet | Present | Taken.

(* how a closure body ends *)
Inductive fin := FRet | FPanic.
(* how the creation closure ends: Ok(value), Err(e), panic *)
Inductive cfin := CFOk | CFErr | CFPanic.

Inductive kind := KCreate (c : cfin) | KInteract (f : fin) | KDrop.

(* what the job hands to its JoinHandle *)
Inductive result := ROk | RPanic | RAborted | RErr.

Inductive jstate := JQueued | JRunning | JDone (r : result).

(* the async side of a job: still awaited / await dropped / result picked up / never awaited *)
Inductive await := AWaiting | ACancelled | ADelivered | ABackground.

Record job := { jkind : kind; jst : jstate; jaw : await; jran : bool (* closure body entered *) }.

(* ghost events: which actor executed which piece of user code *)
Inductive event :=
| EBegin (k : nat) (a : actor)        (* closure body of job k entered *)
| EEnd (k : nat) (a : actor)          (* closure body of job k left (return or unwind) *)
| EDestroyBegin (a : actor)           (* destructor of the wrapped value entered *)
| EDestroyEnd (a : actor).

Record state := {
  val : value;
  lock : option nat;                  (* the job that holds the mutex *)
  poisoned : bool;
  jobs : list job;                    (* index = job id *)
  wrapper_alive : bool;
  destroyed_by : list actor;
  log : list event                    (* newest first *)
}.

Inductive label :=
| Spawn (k : nat) (kd : kind)         (* async: SyncWrapper::new / interact reaches spawn_blocking *)
| CancelAwait (k : nat)               (* async: the awaiting future is dropped *)
| Deliver (k : nat)                   (* async: the await returns the job's result *)
| BAcquire (k : nat)                  (* blocking: job k enters (interact / drop: wins the free mutex) *)
| BSkip (k : nat)                     (* blocking: interaction k found the mutex poisoned or the value gone *)
| BFinish (k : nat)                   (* blocking: the body of job k returns or panics *)
| DropWrapper                         (* async: the SyncWrapper is dropped *)
| BStart (k : nat).                   (* the pool dequeues job k: no effect on the state *)

Definition init : state :=
  {| val := NotYet; lock := None; poisoned := false; jobs := []; wrapper_alive := false;
     destroyed_by := []; log := [] |}.

(* ------------------------------------------------------------------ setters *)
Definition set_val (s : state) (v : value) : state :=
  {| val := v; lock := lock s; poisoned := poisoned s; jobs := jobs s;
     wrapper_alive := wrapper_alive s; destroyed_by := destroyed_by s; log := log s |}.
Definition set_lock (s : state) (v : option nat) : state :=
  {| val := val s; lock := v; poisoned := poisoned s; jobs := jobs s;
     wrapper_alive := wrapper_alive s; destroyed_by := destroyed_by s; log := log s |}.
Definition set_poisoned (s : state) (v : bool) : state :=
  {| val := val s; lock := lock s; poisoned := v; jobs := jobs s;
     wrapper_alive := wrapper_alive s; destroyed_by := destroyed_by s; log := log s |}.
Definition set_jobs (s : state) (v : list job) : state :=
  {| val := val s; lock := lock s; poisoned := poisoned s; jobs := v;
     wrapper_alive := wrapper_alive s; destroyed_by := destroyed_by s; log := log s |}.
Definition set_alive (s : state) (v : bool) : state :=
  {| val := val s; lock := lock s; poisoned := poisoned s; jobs := jobs s;
     wrapper_alive := v; destroyed_by := destroyed_by s; log := log s |}.
Definition set_destroyed (s : state) (v : list actor) : state :=
  {| val := val s; lock := lock s; poisoned := poisoned s; jobs := jobs s;
     wrapper_alive := wrapper_alive s; destroyed_by := v; log := log s |}.
Definition emit (s : state) (e : event) : state :=
  {| val := val s; lock := lock s; poisoned := poisoned s; jobs := jobs s;
     wrapper_alive := wrapper_alive s; destroyed_by := destroyed_by s; log := e :: log s |}.

Fixpoint setn {A : Type} (k : nat) (x : A) (l : list A) : list A :=
  match l, k with
  | [], _ => []
  | _ :: l', O => x :: l'
  | y :: l', S k' => y :: setn k' x l'
  end.

Definition jget (s : state) (k : nat) : option job := nth_error (jobs s) k.
Definition jset (s : state) (k : nat) (j : job) : state := set_jobs s (setn k j (jobs s)).
Definition push (s : state) (j : job) : state := set_jobs s (jobs s ++ [j]).

Definition with_st (j : job) (st : jstate) : job :=
  {| jkind := jkind j; jst := st; jaw := jaw j; jran := jran j |}.
Definition with_aw (j : job) (a : await) : job :=
  {| jkind := jkind j; jst := jst j; jaw := a; jran := jran j |}.
Definition entered (j : job) : job :=
  {| jkind := jkind j; jst := JRunning; jaw := jaw j; jran := true |}.

(* SyncWrapper::drop: spawn_blocking_background of the job that takes the value *)
Definition spawn_drop (s : state) : state :=
  push s {| jkind := KDrop; jst := JQueued; jaw := ABackground; jran := false |}.

Definition waiting (j : job) : bool := match jaw j with AWaiting => true | _ => false end.

(* ------------------------------------------------------------------ the step function *)
Definition step (s : state) (l : label) : option state :=
  match l with
  | Spawn k kd =>
      if negb (Nat.eqb k (length (jobs s))) then None else
      match kd with
      | KCreate _ =>
          match jobs s with
          | [] => Some (push s {| jkind := kd; jst := JQueued; jaw := AWaiting; jran := false |})
          | _ => None
          end
      | KInteract _ =>
          if wrapper_alive s
          then Some (push s {| jkind := kd; jst := JQueued; jaw := AWaiting; jran := false |})
          else None
      | KDrop => None
      end
  | CancelAwait k =>
      match jget s k with
      | Some j =>
          match jaw j with
          | AWaiting =>
              let s1 := jset s k (with_aw j ACancelled) in
              match jkind j, jst j with
              | KCreate _, JDone ROk => Some (spawn_drop s1)  (* the finished wrapper is dropped unseen *)
              | _, _ => Some s1
              end
          | _ => None
          end
      | None => None
      end
  | Deliver k =>
      match jget s k with
      | Some j =>
          match jaw j, jst j with
          | AWaiting, JDone r =>
              let s1 := jset s k (with_aw j ADelivered) in
              match jkind j, r with
              | KCreate _, ROk => Some (set_alive s1 true)
              | _, _ => Some s1
              end
          | _, _ => None
          end
      | None => None
      end
  | BAcquire k =>
      match jget s k with
      | Some j =>
          match jst j with
          | JQueued =>
              match jkind j with
              | KCreate _ => Some (emit (jset s k (entered j)) (EBegin k (Blocking k)))
              | KInteract _ =>
                  match lock s, poisoned s, val s with
                  | None, false, Present =>
                      Some (emit (set_lock (jset s k (entered j)) (Some k)) (EBegin k (Blocking k)))
                  | _, _, _ => None
                  end
              | KDrop =>
                  match lock s with
                  | None =>
                      match val s with
                      | Present =>
                          Some (emit (set_destroyed
                                        (set_val (set_lock (jset s k (with_st j JRunning)) (Some k)) Taken)
                                        (Blocking k :: destroyed_by s))
                                     (EDestroyBegin (Blocking k)))
                      | _ => Some (jset s k (with_st j (JDone ROk)))
                      end
                  | Some _ => None
                  end
              end
          | _ => None
          end
      | None => None
      end
  | BSkip k =>
      match jget s k with
      | Some j =>
          match jst j, jkind j with
          | JQueued, KInteract _ =>
              if poisoned s then Some (jset s k (with_st j (JDone RPanic)))
              else match val s with
                   | Taken => Some (jset s k (with_st j (JDone RAborted)))
                   | _ => None
                   end
          | _, _ => None
          end
      | None => None
      end
  | BFinish k =>
      match jget s k with
      | Some j =>
          match jst j with
          | JRunning =>
              match jkind j with
              | KCreate c =>
                  let s0 := emit s (EEnd k (Blocking k)) in
                  match c with
                  | CFOk =>
                      let s1 := set_val (jset s0 k (with_st j (JDone ROk))) Present in
                      match jaw j with
                      | ACancelled => Some (spawn_drop s1)   (* the pool thread drops the wrapper *)
                      | _ => Some s1
                      end
                  | CFErr => Some (jset s0 k (with_st j (JDone RErr)))
                  | CFPanic => Some (jset s0 k (with_st j (JDone RPanic)))
                  end
              | KInteract f =>
                  let s0 := emit (set_lock s None) (EEnd k (Blocking k)) in
                  match f with
                  | FRet => Some (jset s0 k (with_st j (JDone ROk)))
                  | FPanic => Some (set_poisoned (jset s0 k (with_st j (JDone RPanic))) true)
                  end
              | KDrop =>
                  Some (emit (set_lock (jset s k (with_st j (JDone ROk))) None)
                             (EDestroyEnd (Blocking k)))
              end
          | _ => None
          end
      | None => None
      end
  | DropWrapper =>
      if wrapper_alive s && negb (existsb waiting (jobs s))
      then Some (spawn_drop (set_alive s false))
      else None
  | BStart _ => Some s
  end.

Fixpoint run (s : state) (tr : list label) : option state :=
  match tr with
  | [] => Some s
  | l :: tr' => match step s l with Some s' => run s' tr' | None => None end
  end.

Definition Reachable (s : state) : Prop := exists tr, run init tr = Some s.

(* labels of the async actor / of the blocking pool *)
Definition async_label (l : label) : bool :=
  match l with
  | Spawn _ _ | CancelAwait _ | Deliver _ | DropWrapper => true
  | _ => false
  end.
