(* The lemmas behind Props/C14.v. *)
From Coq Require Import List ZArith Lia Bool Arith.
From DP Require Import Sync.Model Sync.Inv.
Import ListNotations.

(* ---- the destructor runs at most once, exactly once after the drop job ran *)
Lemma destroyed_le1 tr s : run init tr = Some s -> length (destroyed_by s) <= 1.
Proof.
  intros H. pose proof (Inv_run _ _ _ Inv_init H) as I.
  destruct (val s) eqn:E.
  - rewrite (i_destroyed0 _ I) by congruence. cbn. lia.
  - rewrite (i_destroyed0 _ I) by congruence. cbn. lia.
  - rewrite (i_destroyed1 _ I E). lia.
Qed.

Lemma destroyed_once_after_drop tr s k j :
  run init tr = Some s -> nth_error (jobs s) k = Some j -> jkind j = KDrop -> jst j <> JQueued ->
  length (destroyed_by s) = 1 /\ val s = Taken.
Proof.
  intros H Hj Hk Hq. pose proof (Inv_run _ _ _ Inv_init H) as I.
  assert (Hv : val s = Taken).
  { eapply (i_drop _ I); [exact Hj|rewrite Hk; reflexivity|].
    destruct (jst j); try reflexivity. congruence. }
  split; [apply (i_destroyed1 _ I Hv)|exact Hv].
Qed.

Lemma not_destroyed_before tr s :
  run init tr = Some s -> val s <> Taken -> destroyed_by s = [].
Proof. intros H. apply (i_destroyed0 _ (Inv_run _ _ _ Inv_init H)). Qed.

Lemma drop_wrapper_spawns s s' :
  step s DropWrapper = Some s' ->
  wrapper_alive s = true /\ wrapper_alive s' = false /\
  nth_error (jobs s') (length (jobs s)) =
    Some {| jkind := KDrop; jst := JQueued; jaw := ABackground; jran := false |}
  /\ existsb waiting (jobs s) = false.
Proof.
  cbn [step]. intros H. destruct (wrapper_alive s && negb (existsb waiting (jobs s))) eqn:E; [|discriminate].
  apply andb_prop in E. destruct E as [Ea Ew]. inversion H; subst; clear H. ssp.
  repeat split; try assumption.
  - rewrite nth_snoc, Nat.eqb_refl. reflexivity.
  - destruct (existsb waiting (jobs s)); [discriminate|reflexivity].
Qed.

(* ---- placement *)
Lemma placement tr s :
  run init tr = Some s ->
  (forall e, In e (log s) -> placed s e) /\
  (forall a, In a (destroyed_by s) ->
     exists k j, a = Blocking k /\ nth_error (jobs s) k = Some j /\ jkind j = KDrop).
Proof.
  intros H. pose proof (Inv_run _ _ _ Inv_init H) as I. split; [apply (i_log _ I)|].
  intros a Ha. destruct (i_dby _ I a Ha) as (k & j & E1 & E2 & E3 & _).
  exists k, j. repeat split; try assumption. destruct (jkind j); try discriminate. reflexivity.
Qed.

Lemma async_frame s l s' :
  async_label l = true -> step s l = Some s' ->
  val s' = val s /\ lock s' = lock s /\ poisoned s' = poisoned s
  /\ destroyed_by s' = destroyed_by s /\ log s' = log s.
Proof.
  intros Ha H. destruct l as [k kd|k|k|k|k|k| |k]; try discriminate Ha;
    cbn [step] in H; unfold jget in H; break H; inversion H; subst; clear H; ssp; repeat split.
Qed.

(* every change of the value, the poison flag, the log and the destruction record is made by a
   blocking label, and names its own job as the actor *)
Lemma blocking_actor s l s' e :
  step s l = Some s' -> In e (log s') -> ~ In e (log s) ->
  exists k, (l = BAcquire k \/ l = BFinish k) /\
            (e = EBegin k (Blocking k) \/ e = EEnd k (Blocking k)
             \/ e = EDestroyBegin (Blocking k) \/ e = EDestroyEnd (Blocking k)).
Proof.
  intros H Hin Hn. destruct l as [k kd|k|k|k|k|k| |k];
    cbn [step] in H; unfold jget in H; break H; inversion H; subst; clear H; ssp;
    try contradiction; cbn [In] in Hin; destruct Hin as [<-|Hin]; try contradiction;
    exists k; split; auto.
Qed.

(* ---- the destruction happens with the mutex held and nobody inside *)
Lemma destruction_step s l s' :
  Inv s -> step s l = Some s' -> destroyed_by s' <> destroyed_by s ->
  exists k j, l = BAcquire k /\ nth_error (jobs s) k = Some j /\ jkind j = KDrop
    /\ lock s = None /\ val s = Present /\ val s' = Taken
    /\ destroyed_by s' = Blocking k :: destroyed_by s
    /\ (forall k0 j0, nth_error (jobs s) k0 = Some j0 -> is_create (jkind j0) = false ->
                      running (jst j0) = false).
Proof.
  intros I H Hd. destruct l as [k kd|k|k|k|k|k| |k];
    cbn [step] in H; unfold jget in H; break H; inversion H; subst; clear H; ssp;
    try (exfalso; apply Hd; reflexivity).
  exists k, j. repeat split; try assumption.
  intros k0 j0 H0 Hc. destruct (running (jst j0)) eqn:Er; [|reflexivity].
  pose proof (i_lock _ I _ _ H0 Er Hc). congruence.
Qed.

(* ---- cancelling an await *)
Lemma cancel_frame s k s' :
  step s (CancelAwait k) = Some s' ->
  val s' = val s /\ lock s' = lock s /\ poisoned s' = poisoned s
  /\ destroyed_by s' = destroyed_by s /\ log s' = log s /\ wrapper_alive s' = wrapper_alive s
  /\ forall k0 j0, nth_error (jobs s) k0 = Some j0 ->
       exists j0', nth_error (jobs s') k0 = Some j0' /\ jkind j0' = jkind j0
                   /\ jst j0' = jst j0 /\ jran j0' = jran j0.
Proof.
  intros H. cbn [step] in H; unfold jget in H; break H; inversion H; subst; clear H; ssp;
    repeat split; intros k0 j0 H0; pose proof (nth_some_lt _ _ _ H0) as Hlt;
    new_jobs; rewrite ?(eqb_lt_false _ _ Hlt);
    (destruct (Nat.eqb_spec k k0) as [->|Hne];
     [rewrite H0 in E; inversion E; subst; eexists; split; [reflexivity|]; fields; repeat split
     |exists j0; repeat split; auto]).
Qed.

(* ---- panics *)
Lemma panic_poisons s k j s' :
  step s (BFinish k) = Some s' -> nth_error (jobs s) k = Some j -> jkind j = KInteract FPanic ->
  poisoned s' = true /\ nth_error (jobs s') k = Some (with_st j (JDone RPanic)).
Proof.
  intros H Hj Hk. cbn [step] in H. unfold jget in H. rewrite Hj, Hk in H.
  destruct (jst j); try discriminate. inversion H; subst; clear H. ssp. split; [reflexivity|].
  eapply nth_setn_same, Hj.
Qed.

Lemma return_result s k j s' :
  step s (BFinish k) = Some s' -> nth_error (jobs s) k = Some j -> jkind j = KInteract FRet ->
  poisoned s' = poisoned s /\ nth_error (jobs s') k = Some (with_st j (JDone ROk)).
Proof.
  intros H Hj Hk. cbn [step] in H. unfold jget in H. rewrite Hj, Hk in H.
  destruct (jst j); try discriminate. inversion H; subst; clear H. ssp. split; [reflexivity|].
  eapply nth_setn_same, Hj.
Qed.

Lemma poisoned_step s l s' : step s l = Some s' -> poisoned s = true -> poisoned s' = true.
Proof.
  intros H Hp. destruct l as [k kd|k|k|k|k|k| |k];
    cbn [step] in H; unfold jget in H; break H; inversion H; subst; clear H; ssp; auto; congruence.
Qed.

Lemma poisoned_run tr : forall s s', run s tr = Some s' -> poisoned s = true -> poisoned s' = true.
Proof.
  induction tr as [|l tr IH]; intros s s' H Hp; cbn [run] in H.
  - inversion H; subst. exact Hp.
  - destruct (step s l) as [s1|] eqn:E; [|discriminate].
    eapply IH; [exact H|eapply poisoned_step; eassumption].
Qed.

Lemma result_run tr : forall s s' k j r,
  run s tr = Some s' -> nth_error (jobs s) k = Some j -> jst j = JDone r ->
  exists j', nth_error (jobs s') k = Some j' /\ jst j' = JDone r /\ jkind j' = jkind j.
Proof.
  induction tr as [|l tr IH]; intros s s' k j r H Hj Hr; cbn [run] in H.
  - inversion H; subst. exists j. auto.
  - destruct (step s l) as [s1|] eqn:E; [|discriminate].
    destruct (step_mono _ _ _ E _ _ Hj) as (j1 & Hj1 & Hk1 & _ & Hr1 & _).
    destruct (IH _ _ _ _ _ H Hj1 (Hr1 _ Hr)) as (j' & A & B & C).
    exists j'. repeat split; try assumption. congruence.
Qed.

(* the await obtains exactly what the job left behind *)
Lemma deliver_reports s k s' :
  step s (Deliver k) = Some s' ->
  exists j r, nth_error (jobs s) k = Some j /\ jst j = JDone r /\ jaw j = AWaiting
              /\ nth_error (jobs s') k = Some (with_aw j ADelivered).
Proof.
  intros H. cbn [step] in H; unfold jget in H; break H; inversion H; subst; clear H; ssp;
    eexists; eexists; (split; [reflexivity|]); (split; [eassumption|]); (split; [assumption|]);
    eapply nth_setn_same; eassumption.
Qed.

(* ---- once the value is taken *)
Lemma taken_step s l s' : Inv s -> step s l = Some s' -> val s = Taken -> val s' = Taken.
Proof.
  intros I H Hv. destruct l as [k kd|k|k|k|k|k| |k];
    cbn [step] in H; unfold jget in H; break H; inversion H; subst; clear H; ssp; auto;
    try congruence.
  all: exfalso; match goal with Hj : nth_error (jobs _) _ = Some ?j, Hk : jkind ?j = KCreate _ |- _ =>
         pose proof (i_pre _ I _ _ Hj) as P; rewrite Hk in P end;
       match goal with Hs : jst _ = JRunning |- _ => rewrite Hs in P end;
       specialize (P eq_refl eq_refl); congruence.
Qed.

Lemma taken_run tr : forall s s', Inv s -> run s tr = Some s' -> val s = Taken -> val s' = Taken.
Proof.
  induction tr as [|l tr IH]; intros s s' I H Hv; cbn [run] in H.
  - inversion H; subst. exact Hv.
  - destruct (step s l) as [s1|] eqn:E; [|discriminate].
    eapply IH; [eapply Inv_step; eassumption|exact H|eapply taken_step; eassumption].
Qed.

(* a queued interaction, once the value is gone or the mutex poisoned, can only leave the queue
   through BSkip: its closure is never entered *)
Lemma late_job_skips s l s' k j f :
  nth_error (jobs s) k = Some j -> jkind j = KInteract f -> jst j = JQueued ->
  (val s = Taken \/ poisoned s = true) ->
  step s l = Some s' ->
  exists j', nth_error (jobs s') k = Some j' /\ jran j' = jran j /\
    (jst j' = JQueued \/
     (l = BSkip k /\ log s' = log s /\ val s' = val s /\
      jst j' = JDone (if poisoned s then RPanic else RAborted))).
Proof.
  intros Hj Hk Hq Hv H. pose proof (nth_some_lt _ _ _ Hj) as Hlt.
  destruct l as [k0 kd|k0|k0|k0|k0|k0| |k0];
    cbn [step] in H; unfold jget in H; break H; inversion H; subst; clear H; ssp;
    try (destruct (nth_nil_some _ _ Hj));
    new_jobs; rewrite ?(eqb_lt_false _ _ Hlt);
    try (destruct (Nat.eqb_spec k0 k) as [->|Hne]);
    try match goal with E : nth_error (jobs s) k = Some ?x |- _ =>
          tryif constr_eq x j then fail else (rewrite Hj in E; inversion E; subst; clear E) end;
    try congruence; try (destruct Hv; congruence);
    rewrite ?Hj; eexists; (split; [reflexivity|]); fields; (split; [reflexivity|]);
    first [left; assumption | right; repeat split; first [reflexivity|assumption]].
Qed.

(* ---- mutual exclusion of everything that touches the value *)
Lemma mutex s k1 j1 k2 j2 :
  Inv s -> nth_error (jobs s) k1 = Some j1 -> nth_error (jobs s) k2 = Some j2 ->
  running (jst j1) = true -> running (jst j2) = true ->
  is_create (jkind j1) = false -> is_create (jkind j2) = false -> k1 = k2.
Proof.
  intros I H1 H2 R1 R2 C1 C2.
  pose proof (i_lock _ I _ _ H1 R1 C1). pose proof (i_lock _ I _ _ H2 R2 C2). congruence.
Qed.
