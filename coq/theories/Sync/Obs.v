(* Observation function of the SyncWrapper model: the flat integer list the harness prints
   after every label. *)
From Coq Require Import List ZArith Bool Arith.
From DP Require Import Sync.Model.
Import ListNotations.
Open Scope Z_scope.

Definition b2z (b : bool) : Z := if b then 1 else 0.
Definition n2z (n : nat) : Z := Z.of_nat n.

Definition val_code (v : value) : Z := match v with NotYet => 0 | Present => 1 | Taken => 2 end.
Definition res_code (r : result) : Z :=
  match r with ROk => 1 | RPanic => 2 | RAborted => 3 | RErr => 4 end.
Definition phase_code (st : jstate) : Z :=
  match st with JQueued => 0 | JRunning => 1 | JDone _ => 2 end.
Definition await_code (a : await) : Z :=
  match a with AWaiting => 0 | ACancelled => 1 | ADelivered => 2 | ABackground => 3 end.
Definition kind_code (k : kind) : Z :=
  match k with KCreate _ => 0 | KInteract _ => 1 | KDrop => 2 end.
(* the result is only visible to an await that picked it up *)
Definition delivered_code (j : job) : Z :=
  match jaw j, jst j with
  | ADelivered, JDone r => res_code r
  | _, _ => 0
  end.
Definition job_code (j : job) : list Z :=
  [kind_code (jkind j); phase_code (jst j); b2z (jran j); await_code (jaw j); delivered_code j].

Definition class_code (a : actor) : Z := match a with Async => 0 | Blocking _ => 1 end.
Definition actor_job (a : actor) : Z := match a with Async => 0 | Blocking k => n2z k end.
Definition ev_code (e : event) : list Z :=
  match e with
  | EBegin k a => [1; n2z k; class_code a]
  | EEnd k a => [2; n2z k; class_code a]
  | EDestroyBegin a => [3; actor_job a; class_code a]
  | EDestroyEnd a => [4; actor_job a; class_code a]
  end.

Definition is_async (a : actor) : bool := match a with Async => true | _ => false end.

Definition obs (prev : nat) (s : state) : list Z :=
  let evs := rev (firstn (length (log s) - prev) (log s)) in
  [val_code (val s);
   match lock s with None => 0 | Some k => n2z k + 1 end;
   (if wrapper_alive s then b2z (poisoned s) else 0);
   b2z (wrapper_alive s);
   n2z (length (destroyed_by s));
   n2z (length (filter is_async (destroyed_by s)));
   n2z (length (jobs s))]
  ++ flat_map job_code (jobs s)
  ++ [n2z (length evs)] ++ flat_map ev_code evs.

Fixpoint run_obs (s : state) (tr : list label) : list Z :=
  match tr with
  | [] => []
  | l :: tr' =>
      match step s l with
      | Some s' =>
          let o := obs (length (log s)) s' in
          n2z (length o) :: o ++ run_obs s' tr'
      | None => [-1]
      end
  end.

Definition run_case (tr : list label) : list Z := run_obs init tr.
