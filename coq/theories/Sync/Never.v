(* Identity of pooled objects in the managed model, as a potential function:
     Phi d x s = (copies of oid x in vec) + (copies in out) + (copies held by operations)
                 + (1 if x has not been allocated yet)
   never increases along any step.  With d = true every holder counts: Phi = 1 initially, so
   an oid exists at most once (and not at all before it is allocated).  With d = false the
   holders that are discarding their object (UUnready / UDetach) do not count: once that
   potential is 0 - e.g. right after a rejected recycle - the oid can never be in the idle
   queue, in a caller's hands or on its way there again. *)
From Coq Require Import List ZArith Lia Bool Arith.
From DP Require Import Common.Tab Managed.Model Managed.Contrib Managed.Simp Managed.InvQ
  Managed.Effects.
Import ListNotations.
Open Scope Z_scope.

Definition ind (x : nat) (o : obj) : Z := if Nat.eqb (oid o) x then 1 else 0.

Fixpoint cl (x : nat) (l : list obj) : Z :=
  match l with [] => 0 | o :: r => ind x o + cl x r end.

(* the object an operation has in hand *)
Definition w (d : bool) (x : nat) (p : pc) : Z :=
  match p with
  | UUnready _ o _ | UDetach _ o _ => if d then ind x o else 0
  | GRec _ o _ | GCreated _ o | GPostC _ o _
  | RStart o | RLock o | RSurplus o | RDetach o
  | TStart o | TLock o | TAdd o | TDetach o => ind x o
  | _ => 0
  end.

Definition fresh (x : nat) (s : state) : Z := if Nat.leb (next_oid s) x then 1 else 0.

Definition Phi (d : bool) (x : nat) (s : state) : Z :=
  cl x (vec s) + cl x (out s) + sum (w d x) (tasks s) + fresh x s.

Lemma ind_nonneg x o : 0 <= ind x o. Proof. unfold ind. destruct (Nat.eqb (oid o) x); lia. Qed.
Lemma cl_nonneg x l : 0 <= cl x l.
Proof. induction l as [|o r IH]; cbn [cl]; [lia|]. pose proof (ind_nonneg x o). lia. Qed.
Lemma w_nonneg d x p : 0 <= w d x p.
Proof. destruct p; cbn [w]; try lia; try apply ind_nonneg; destruct d; try lia; apply ind_nonneg. Qed.
Lemma w_le d x p : w false x p <= w d x p.
Proof. destruct p; cbn [w]; try lia; destruct d; try lia; apply ind_nonneg. Qed.
Lemma fresh_nonneg x s : 0 <= fresh x s. Proof. unfold fresh. destruct (Nat.leb (next_oid s) x); lia. Qed.

Lemma cl_app x l1 l2 : cl x (l1 ++ l2) = cl x l1 + cl x l2.
Proof. induction l1 as [|o r IH]; cbn [cl app]; lia. Qed.
Lemma cl_rev x l : cl x (rev l) = cl x l.
Proof. induction l as [|o r IH]; cbn [cl rev]; [reflexivity|]. rewrite cl_app. cbn [cl]. lia. Qed.
Lemma cl_skipn x k l : cl x (skipn k l) <= cl x l.
Proof.
  revert l; induction k as [|k IH]; intros [|o r]; cbn [skipn cl]; try lia.
  specialize (IH r). pose proof (ind_nonneg x o). lia.
Qed.
Lemma cl_in0 x l : cl x l = 0 -> ~ In x (map oid l).
Proof.
  induction l as [|o r IH]; cbn [cl map In]; [tauto|]. intros H [E|Hin].
  - unfold ind in H. rewrite E, Nat.eqb_refl in H. pose proof (cl_nonneg x r). lia.
  - pose proof (ind_nonneg x o). pose proof (cl_nonneg x r). apply IH; [lia|exact Hin].
Qed.

Lemma pop_idle_cl x c v o r : pop_idle c v = Some (o, r) -> cl x v = ind x o + cl x r.
Proof.
  unfold pop_idle. destruct (lifo c).
  - destruct (rev v) as [|y l] eqn:E; [discriminate|]. intros H. inversion H; subst.
    rewrite <- (cl_rev x v), E. cbn [cl]. rewrite cl_rev. reflexivity.
  - destruct v as [|y l]; [discriminate|]. intros H. inversion H; subst. reflexivity.
Qed.

Lemma find_remove_cl x y l o :
  find_oid y l = Some o -> cl x l = ind x o + cl x (remove_oid y l).
Proof.
  induction l as [|z l IH]; cbn [find_oid remove_oid]; [discriminate|].
  destruct (Nat.eqb y (oid z)); intros H.
  - inversion H; subst. reflexivity.
  - cbn [cl]. rewrite (IH H). lia.
Qed.

(* ---- the helpers that rewrite the task table only touch waiting getters *)
Lemma sem_add_w d x s : sum (w d x) (tasks (sem_add s)) = sum (w d x) (tasks s).
Proof.
  unfold sem_add. destruct (queue s) as [|t q]; [reflexivity|].
  destruct (pcof s t) eqn:E; try reflexivity.
  rewrite sum_setpc by reflexivity. unfold pcof in *. sp. rewrite E. cbn [w]. lia.
Qed.

Lemma sem_add_n_w d x n s : sum (w d x) (tasks (sem_add_n n s)) = sum (w d x) (tasks s).
Proof.
  revert s; induction n as [|n IH]; intros s; cbn [sem_add_n]; [reflexivity|].
  rewrite IH. apply sem_add_w.
Qed.

Lemma sem_add_pc_w d x s t : w d x (pcof (sem_add s) t) = w d x (pcof s t).
Proof.
  unfold sem_add. destruct (queue s) as [|t0 q]; [reflexivity|].
  destruct (pcof s t0) eqn:E; try reflexivity.
  destruct (Nat.eq_dec t0 t) as [->|Hne].
  - rewrite pcof_setpc_same. unfold pcof in *. sp. rewrite E. reflexivity.
  - rewrite pcof_setpc_other by exact Hne. reflexivity.
Qed.

Lemma shrink_idle_phi x t fuel s :
  cl x (vec (shrink_idle t fuel s)) <= cl x (vec s).
Proof.
  destruct (shrink_idle_vec t fuel s) as [k ->]. apply cl_skipn.
Qed.

Lemma sem_add_n_pc_w d x n : forall s t, w d x (pcof (sem_add_n n s) t) = w d x (pcof s t).
Proof.
  induction n as [|n IH]; intros s t; cbn [sem_add_n]; [reflexivity|].
  rewrite IH. apply sem_add_pc_w.
Qed.

Lemma resize_locked_phi d x s t n :
  let s' := resize_locked s t n in
  cl x (vec s') <= cl x (vec s) /\ out s' = out s /\ next_oid s' = next_oid s
  /\ sum (w d x) (tasks s') = sum (w d x) (tasks s)
  /\ (forall t0, w d x (pcof s' t0) = w d x (pcof s t0)).
Proof.
  unfold resize_locked. cbv zeta.
  set (s0 := set_maxs s n).
  pose proof (shrink_idle_effect t (length (vec s0)) s0) as H.
  pose proof (shrink_idle_phi x t (length (vec s0)) s0) as Hc.
  set (s1 := shrink_idle t (length (vec s0)) s0) in *.
  cbv zeta in H. destruct H as (H1&H2&H3&H4&H5&H6&H7&H8&H9&H10&H11&H12&H13).
  assert (Hv : cl x (vec s1) <= cl x (vec s)) by (etransitivity; [exact Hc|]; subst s0; sp; lia).
  assert (Ho : out s1 = out s) by (rewrite H8; reflexivity).
  assert (Hn : next_oid s1 = next_oid s) by (rewrite H11; reflexivity).
  assert (Ht : tasks s1 = tasks s) by (rewrite H7; reflexivity).
  destruct (Z.ltb n (maxs s)); [|destruct (Z.ltb (maxs s) n)].
  - sp. unfold pcof. sp. rewrite Ht. repeat split; auto.
  - match goal with |- context [sem_add_n ?k ?y] =>
      pose proof (sem_add_n_fields k y) as (F1&F2&F3&F4&F5&F6&F7&F8&F9&F10&F11);
      pose proof (sem_add_n_w d x k y) as Hw;
      pose proof (sem_add_n_pc_w d x k y) as Hp end.
    rewrite F1, F6, F10, Hw. sp. rewrite Ht. repeat split; auto.
    intros t0. rewrite Hp. unfold pcof. sp. rewrite Ht. reflexivity.
  - unfold pcof. rewrite Ht. repeat split; auto.
Qed.

Lemma retain_loop_cl x t ds v s :
  let '(s', kept, removed) := retain_loop t ds v s in
  cl x kept + cl x removed = cl x v.
Proof.
  revert ds s; induction v as [|o r IH]; intros ds s; cbn [retain_loop]; [reflexivity|].
  destruct (match ds with [] => true | b :: _ => b end).
  - match goal with |- context [retain_loop t ?a r ?y] =>
      specialize (IH a y); destruct (retain_loop t a r y) as [[s2 k2] r2] end.
    cbn [cl]. lia.
  - match goal with |- context [retain_loop t ?a r ?y] =>
      specialize (IH a y); destruct (retain_loop t a r y) as [[s2 k2] r2] end.
    cbn [cl]. lia.
Qed.

Lemma ind_oid x o o' : oid o' = oid o -> ind x o' = ind x o.
Proof. unfold ind. intros ->. reflexivity. Qed.

(* [ind x (f .. o)] for any wrapper f that keeps the oid (recycled_obj, idle_at, ...) *)
Ltac ind_norm :=
  repeat match goal with
         | |- context [ind ?x ?e] =>
             tryif is_var e then fail else
               (let v := eval cbn in (oid e) in
                match v with
                | oid ?o => rewrite (ind_oid x o e eq_refl)
                | _ => change (ind x e) with (if Nat.eqb v x then 1 else 0)
                end)
         end.

Lemma sem_add_get_w d x s t :
  w d x (get PNone t (tasks (sem_add s))) = w d x (get PNone t (tasks s)).
Proof. exact (sem_add_pc_w d x s t). Qed.

(* ---- the potential never increases.  The proof is written so that it does not depend on the
   number or the order of the program counters of the managed model: every case is closed by
   the same tactic, which recognises the composite helpers by their names. *)
Ltac nonneg_facts x :=
  repeat match goal with
         | |- context [ind x ?o] =>
             lazymatch goal with
             | _ : 0 <= ind x o |- _ => fail
             | _ => pose proof (ind_nonneg x o)
             end
         | |- context [cl x ?l] =>
             lazymatch goal with
             | _ : 0 <= cl x l |- _ => fail
             | _ => pose proof (cl_nonneg x l)
             end
         | H : context [cl x ?l] |- _ =>
             lazymatch goal with
             | _ : 0 <= cl x l |- _ => fail
             | _ => pose proof (cl_nonneg x l)
             end
         end.

(* case analysis of a step hypothesis; the lemmas about the list helpers are recorded on the way *)
Ltac split_step x H :=
  try match type of H with
      | context [retain_loop ?t ?ds ?v ?s0] =>
          let RE := fresh "RE" in let RC := fresh "RC" in
          pose proof (retain_loop_effect t ds v s0) as RE;
          pose proof (retain_loop_cl x t ds v s0) as RC;
          destruct (retain_loop t ds v s0) as [[? ?] ?];
          destruct RE as (_&_&_&RE4&_&_&_&_&RE9&RE10&_&_&RE13&_)
      end;
  repeat match type of H with
         | context [if ?b then _ else _] => destruct b eqn:?
         | context [match ?y with _ => _ end] => destruct y eqn:?
         end;
  repeat match goal with
         | Ep : pop_idle _ _ = Some (_, _) |- _ => pose proof (pop_idle_cl x _ _ _ _ Ep); clear Ep
         | Ef : find_oid _ _ = Some _ |- _ => pose proof (find_remove_cl x _ _ _ Ef); clear Ef
         end.

Ltac phi_pre x Hpc :=
  unfold Phi, fresh, acquire, leave_wait, next_stage, first_stage, new_obj, status_event;
  repeat match goal with
         | |- context [if ?b then _ else _] =>
             lazymatch b with
             | Nat.leb _ _ => fail
             | Nat.eqb _ _ => fail
             | _ => destruct b
             end
         | |- context [match ?y with _ => _ end] =>
             lazymatch y with
             | gw _ => destruct y
             | pre _ => destruct y
             | post _ => destruct y
             | pcr _ => destruct y
             | _ => is_var y; destruct y
             end
         end;
  sp; autorewrite with fld;
  repeat match goal with
         | |- context [emit_removed ?t ?l ?y] =>
             let F := fresh "F" in
             pose proof (emit_removed_fields t l y) as F; cbv zeta in F;
             destruct F as (_&_&_&F4&_&_&_&_&F9&F10&_&_&F13);
             rewrite ?F4, ?F9, ?F10, ?F13; clear F4 F9 F10 F13
         | |- context [emit_destroyed ?t ?l ?y] =>
             let F := fresh "F" in
             pose proof (emit_destroyed_fields t l y) as F; cbv zeta in F;
             destruct F as (_&_&_&F4&_&_&_&_&F9&F10&_&_&F13);
             rewrite ?F4, ?F9, ?F10, ?F13; clear F4 F9 F10 F13
         | |- context [sum (w ?d x) (tasks (resize_locked ?s0 ?t ?n))] =>
             let E := fresh "E" in
             pose proof (resize_locked_phi d x s0 t n) as E; cbv zeta in E;
             destruct E as (E1&E2&E3&E4&E5);
             rewrite ?E2, ?E3, ?E4; revert E1; generalize (vec (resize_locked s0 t n)); intros ? E1
         | |- context [sum (w ?d x) (upd PNone ?t0 ?p (tasks (resize_locked ?s0 ?t ?n)))] =>
             let E := fresh "E" in
             pose proof (resize_locked_phi d x s0 t n) as E; cbv zeta in E;
             destruct E as (E1&E2&E3&E4&E5);
             rewrite (sum_upd PNone) by reflexivity; unfold pcof in E5;
             rewrite ?E2, ?E3, ?E4, ?E5; revert E1; generalize (vec (resize_locked s0 t n)); intros ? E1
         end;
  sp; rewrite ?(sum_upd PNone) by reflexivity;
  rewrite ?sem_add_get_w, ?sem_add_w;
  repeat match goal with
         | E : tasks ?a = tasks _ |- context [tasks ?a] => rewrite E
         | E : out ?a = out _ |- context [out ?a] => rewrite E
         | E : next_oid ?a = next_oid _ |- context [next_oid ?a] => rewrite E
         | E : vec ?a = vec _ |- context [vec ?a] => rewrite E
         end;
  unfold pcof in Hpc; rewrite ?Hpc; cbn [w]; ind_norm;
  rewrite ?cl_app; cbn [cl]; ind_norm; cbn [ind oid];
  nonneg_facts x;
  try match goal with |- context [if Nat.eqb ?a ?b then _ else _] => destruct (Nat.eqb_spec a b); subst end;
  repeat match goal with |- context [Nat.leb ?a ?b] => destruct (Nat.leb_spec a b) end.

Ltac phi_finish x Hpc :=
  phi_pre x Hpc; first [lia | match goal with dd : bool |- _ => destruct dd; lia end].

Lemma pcof_fresh' s t : Nat.eqb t (length (tasks s)) = true -> pcof s t = PNone.
Proof. intros H. apply Nat.eqb_eq in H. unfold pcof. apply get_beyond. lia. Qed.

Theorem Phi_step d x c s l s' : step c s l = Some s' -> Phi d x s' <= Phi d x s.
Proof.
  intros H. destruct l; cbn [step] in H.
  - (* Start *)
    unfold start in H.
    match type of H with context [Nat.eqb ?t (length (tasks s))] =>
      destruct (Nat.eqb t (length (tasks s))) eqn:Et; cbn [negb] in H; [|discriminate];
      pose proof (pcof_fresh' s t Et) as Hpc end.
    destruct o; cbn [option_map] in H; split_step x H; try discriminate H;
      inversion H; subst; phi_finish x Hpc.
  - (* Step *)
    unfold step_task in H.
    match type of H with context [pcof s ?t] => destruct (pcof s t) eqn:Hpc end;
      cbn [option_map] in H; try discriminate H; split_step x H; try discriminate H;
      inversion H; subst; phi_finish x Hpc.
  - (* Env *)
    unfold env_task in H.
    match type of H with context [pcof s ?t] => destruct (pcof s t) eqn:Hpc end;
      cbn [option_map] in H; try discriminate H; split_step x H; try discriminate H;
      inversion H; subst; phi_finish x Hpc.
  - (* Cancel *)
    unfold cancel_task in H.
    match type of H with context [pcof s ?t] => destruct (pcof s t) eqn:Hpc end;
      cbn [option_map] in H; try discriminate H; split_step x H; try discriminate H;
      inversion H; subst; phi_finish x Hpc.
  - (* Fire *)
    unfold fire_task in H. destruct (negb (runtime c)); [discriminate|].
    match type of H with context [pcof s ?t] => destruct (pcof s t) eqn:Hpc end;
      cbn [option_map] in H; try discriminate H; split_step x H; try discriminate H;
      inversion H; subst; phi_finish x Hpc.
  - inversion H; subst. lia.
Qed.

Lemma Phi_run d x c tr : forall s s', run c s tr = Some s' -> Phi d x s' <= Phi d x s.
Proof.
  induction tr as [|l tr IH]; intros s s' H; cbn [run] in H.
  - inversion H; subst. lia.
  - destruct (step c s l) as [s1|] eqn:E; [|discriminate].
    pose proof (Phi_step d x c s l s1 E). pose proof (IH _ _ H). lia.
Qed.

Lemma Phi_init d x c : Phi d x (init c) = 1.
Proof. reflexivity. Qed.

(* an oid exists at most once, and not before it was allocated *)
Lemma unique_oid c tr s x :
  run c (init c) tr = Some s ->
  cl x (vec s) + cl x (out s) + sum (w true x) (tasks s) + fresh x s <= 1.
Proof. intros H. pose proof (Phi_run true x c tr _ _ H). rewrite Phi_init in *. exact H0. Qed.

Lemma sum_zero_each (f : pc -> Z) l :
  (forall p, 0 <= f p) -> f PNone = 0 -> sum f l = 0 -> forall t, f (get PNone t l) = 0.
Proof.
  intros Hn Hd. induction l as [|p l IH]; intros Hs t.
  - unfold get. destruct t; exact Hd.
  - cbn [sum] in Hs. pose proof (Hn p). pose proof (sum_nonneg f l Hn).
    destruct t as [|t]; [unfold get; cbn [nth]; lia|]. apply (IH ltac:(lia) t).
Qed.

(* potential 0 (not counting discarding holders): the oid is gone for good *)
Lemma gone_forever c x tr s s' :
  Phi false x s <= 0 -> run c s tr = Some s' ->
  ~ In x (map oid (vec s')) /\ ~ In x (map oid (out s')) /\ (forall t, w false x (pcof s' t) = 0)
  /\ (next_oid s' <= x -> False)%nat.
Proof.
  intros H0 Hr. pose proof (Phi_run false x c tr _ _ Hr) as Hle. unfold Phi in Hle, H0.
  pose proof (cl_nonneg x (vec s')). pose proof (cl_nonneg x (out s')).
  pose proof (sum_nonneg (w false x) (tasks s') (w_nonneg false x)).
  pose proof (fresh_nonneg x s').
  assert (Hv : cl x (vec s') = 0) by lia. assert (Ho : cl x (out s') = 0) by lia.
  assert (Hs : sum (w false x) (tasks s') = 0) by lia. assert (Hf : fresh x s' = 0) by lia.
  split; [apply cl_in0, Hv|]. split; [apply cl_in0, Ho|]. split.
  - intros t. unfold pcof. apply sum_zero_each; [apply w_nonneg|reflexivity|exact Hs].
  - intros Hlt. unfold fresh in Hf. apply Nat.leb_le in Hlt. rewrite Hlt in Hf. discriminate.
Qed.

(* the recycle gate answers "reject": from the next state on the potential is 0 *)
Lemma reject_gone c tr s t g o st s1 :
  run c (init c) tr = Some s -> pcof s t = GRec g o st ->
  step c s (Env t OErr) = Some s1 ->
  Phi false (oid o) s1 <= 0 /\ pcof s1 t = UUnready g o CLoop.
Proof.
  intros Hr Hpc Hs. pose proof (unique_oid c tr s (oid o) Hr) as U.
  cbn [step] in Hs. unfold env_task in Hs. rewrite Hpc in Hs. cbn [option_map] in Hs.
  inversion Hs; subst; clear Hs. split.
  - unfold Phi, fresh in *. sp. rewrite (sum_upd PNone) by reflexivity.
    unfold pcof in Hpc. rewrite Hpc. cbn [w].
    pose proof (sum_le (w false (oid o)) (w true (oid o)) (tasks s) (w_le true (oid o))).
    assert (Hi : ind (oid o) o = 1) by (unfold ind; rewrite Nat.eqb_refl; reflexivity).
    assert (Hg : sum (w true (oid o)) (tasks s) >= 1).
    { pose proof (sum_upd PNone (w true (oid o)) t PNone (tasks s) eq_refl) as Hu.
      pose proof (sum_nonneg (w true (oid o)) (upd PNone t PNone (tasks s)) (w_nonneg true (oid o))).
      rewrite Hpc in Hu. cbn [w] in Hu. lia. }
    pose proof (cl_nonneg (oid o) (vec s)). pose proof (cl_nonneg (oid o) (out s)).
    destruct (Nat.leb (next_oid s) (oid o)); lia.
  - unfold tick, pcof. sp. apply get_upd_same.
Qed.

(* the same for every way in which the get gives the object up at the gate *)
Lemma discard_gone c tr s t g o k :
  run c (init c) tr = Some s -> pcof s t = UUnready g o k -> Phi false (oid o) s <= 0.
Proof.
  intros Hr Hpc. pose proof (unique_oid c tr s (oid o) Hr) as U.
  unfold Phi, fresh in *.
  pose proof (sum_upd PNone (w true (oid o)) t PNone (tasks s) eq_refl) as Hu.
  pose proof (sum_upd PNone (w false (oid o)) t PNone (tasks s) eq_refl) as Hf.
  pose proof (sum_le (w false (oid o)) (w true (oid o)) (upd PNone t PNone (tasks s)) (w_le true (oid o))).
  pose proof (sum_nonneg (w false (oid o)) (upd PNone t PNone (tasks s)) (w_nonneg false (oid o))).
  unfold pcof in Hpc. rewrite Hpc in Hu, Hf. cbn [w] in Hu, Hf.
  assert (Hi : ind (oid o) o = 1) by (unfold ind; rewrite Nat.eqb_refl; reflexivity).
  pose proof (cl_nonneg (oid o) (vec s)). pose proof (cl_nonneg (oid o) (out s)).
  destruct (Nat.leb (next_oid s) (oid o)); lia.
Qed.

(* ---- hand-outs are logged exactly when an object enters [out] *)
Definition is_handout (e : event) : bool := match e with EHandOut _ _ => true | _ => false end.

Lemma shrink_idle_log t fuel s e :
  is_handout e = true -> In e (log (shrink_idle t fuel s)) -> In e (log s).
Proof.
  intros He. revert s; induction fuel as [|f IH]; intros s; cbn [shrink_idle]; [tauto|].
  destruct (Z.ltb (maxs s) (size s)); [|tauto].
  destruct (vec s) as [|o r]; [tauto|]. intros Hin. apply IH in Hin. sp. cbn [In] in Hin.
  destruct Hin as [<-|[<-|Hin]]; try discriminate He. exact Hin.
Qed.

Lemma resize_locked_log s t n e :
  is_handout e = true -> In e (log (resize_locked s t n)) -> In e (log s).
Proof.
  intros He. unfold resize_locked. cbv zeta.
  destruct (Z.ltb n (maxs s)); [|destruct (Z.ltb (maxs s) n)].
  - sp. intros Hin. apply (shrink_idle_log _ _ _ _ He) in Hin. exact Hin.
  - match goal with |- context [sem_add_n ?k ?y] =>
      pose proof (sem_add_n_fields k y) as (F1&F2&F3&F4&F5&F6&F7&F8&F9&F10&F11) end.
    rewrite F11. sp. intros Hin. apply (shrink_idle_log _ _ _ _ He) in Hin. exact Hin.
  - intros Hin. apply (shrink_idle_log _ _ _ _ He) in Hin. exact Hin.
Qed.

Lemma retain_loop_log t ds v s e :
  is_handout e = true ->
  let '(s', kept, removed) := retain_loop t ds v s in In e (log s') -> In e (log s).
Proof.
  intros He. revert ds s; induction v as [|o r IH]; intros ds s; cbn [retain_loop]; [tauto|].
  destruct (match ds with [] => true | b :: _ => b end).
  - match goal with |- context [retain_loop t ?a r ?y] =>
      specialize (IH a y); destruct (retain_loop t a r y) as [[s2 k2] r2] end.
    intros Hin. apply IH in Hin. sp. cbn [In] in Hin. destruct Hin as [<-|Hin]; [discriminate He|exact Hin].
  - match goal with |- context [retain_loop t ?a r ?y] =>
      specialize (IH a y); destruct (retain_loop t a r y) as [[s2 k2] r2] end.
    intros Hin. apply IH in Hin. sp. cbn [In] in Hin.
    destruct Hin as [<-|[<-|Hin]]; try discriminate He. exact Hin.
Qed.

Lemma emit_removed_log t l s e : is_handout e = true -> In e (log (emit_removed t l s)) -> In e (log s).
Proof.
  intros He. revert s; induction l as [|o r IH]; intros s; cbn [emit_removed]; [tauto|].
  intros Hin. apply IH in Hin. sp. cbn [In] in Hin. destruct Hin as [<-|Hin]; [discriminate He|exact Hin].
Qed.

Lemma emit_destroyed_log t l s e : is_handout e = true -> In e (log (emit_destroyed t l s)) -> In e (log s).
Proof.
  intros He. revert s; induction l as [|o r IH]; intros s; cbn [emit_destroyed]; [tauto|].
  intros Hin. apply IH in Hin. sp. cbn [In] in Hin. destruct Hin as [<-|Hin]; [discriminate He|exact Hin].
Qed.

(* strip the list helpers off a membership hypothesis about the new log *)
Ltac ho_strip Hin :=
  repeat first
    [ match type of Hin with
      | In ?e (log (emit_removed ?t ?l ?y)) => apply (emit_removed_log t l y e eq_refl) in Hin
      | In ?e (log (emit_destroyed ?t ?l ?y)) => apply (emit_destroyed_log t l y e eq_refl) in Hin
      | In ?e (log (resize_locked ?y ?t ?n)) => apply (resize_locked_log y t n e eq_refl) in Hin
      | In ?e (log (sem_add ?y)) => rewrite sem_add_log in Hin
      end
    | progress (sp; cbn [In] in Hin) ].

Ltac ho_finish :=
  unfold acquire, leave_wait, next_stage, first_stage, status_event;
  repeat match goal with
         | |- context [if ?b then _ else _] => destruct b
         | |- context [match ?y with _ => _ end] =>
             lazymatch y with
             | gw _ => destruct y
             | pre _ => destruct y
             | post _ => destruct y
             | pcr _ => destruct y
             | _ => is_var y; destruct y
             end
         end;
  sp; autorewrite with fld;
  let Hin := fresh "Hin" in intros Hin; ho_strip Hin;
  repeat match goal with
         | H : _ \/ _ |- _ => destruct H as [H|H]; ho_strip H
         | H : EHandOut _ _ = EHandOut _ _ |- _ => inversion H; subst; clear H
         | H : _ = EHandOut _ _ |- _ => discriminate H
         end;
  first [ left; assumption
        | right; left; reflexivity
        | left; match goal with RL : In _ (log _) -> In _ (log _) |- _ => apply RL; assumption end
        | tauto ].

Theorem handout_enters_out c s l s' o t :
  step c s l = Some s' -> In (EHandOut o t) (log s') -> In (EHandOut o t) (log s) \/ In o (out s').
Proof.
  intros H. destruct l; cbn [step] in H.
  - unfold start in H.
    match type of H with context [Nat.eqb ?t0 (length (tasks s))] =>
      destruct (Nat.eqb t0 (length (tasks s))); cbn [negb] in H; [|discriminate] end.
    match goal with op0 : op |- _ => destruct op0 end; cbn [option_map] in H;
      repeat match type of H with
             | context [if ?b then _ else _] => destruct b
             | context [match ?y with _ => _ end] => destruct y
             end; try discriminate H; inversion H; subst; ho_finish.
  - unfold step_task in H.
    match type of H with context [pcof s ?t0] => destruct (pcof s t0) eqn:Hpc end;
      cbn [option_map] in H; try discriminate H;
      try match type of H with
          | context [retain_loop ?t0 ?ds ?v ?s0] =>
              pose proof (retain_loop_log t0 ds v s0 (EHandOut o t) eq_refl) as RL;
              destruct (retain_loop t0 ds v s0) as [[? ?] ?]
          end;
      repeat match type of H with
             | context [if ?b then _ else _] => destruct b
             | context [match ?y with _ => _ end] => destruct y
             end; try discriminate H; inversion H; subst; ho_finish.
  - unfold env_task in H.
    match type of H with context [pcof s ?t0] => destruct (pcof s t0) eqn:Hpc end;
      cbn [option_map] in H; try discriminate H;
      repeat match type of H with
             | context [if ?b then _ else _] => destruct b
             | context [match ?y with _ => _ end] => destruct y
             end; try discriminate H; inversion H; subst; ho_finish.
  - unfold cancel_task in H.
    match type of H with context [pcof s ?t0] => destruct (pcof s t0) eqn:Hpc end;
      cbn [option_map] in H; try discriminate H;
      repeat match type of H with
             | context [if ?b then _ else _] => destruct b
             | context [match ?y with _ => _ end] => destruct y
             end; try discriminate H; inversion H; subst; ho_finish.
  - unfold fire_task in H. destruct (negb (runtime c)); [discriminate|].
    match type of H with context [pcof s ?t0] => destruct (pcof s t0) eqn:Hpc end;
      cbn [option_map] in H; try discriminate H;
      repeat match type of H with
             | context [if ?b then _ else _] => destruct b
             | context [match ?y with _ => _ end] => destruct y
             end; try discriminate H; inversion H; subst; ho_finish.
  - inversion H; subst. tauto.
Qed.

(* once the potential is 0 no hand-out of that oid is ever logged again *)
Lemma no_handout_after c x tr : forall s s',
  Phi false x s <= 0 -> run c s tr = Some s' ->
  forall o t, In (EHandOut o t) (log s') -> oid o = x -> In (EHandOut o t) (log s).
Proof.
  induction tr as [|l tr IH]; intros s s' H0 Hr o t Hin Hx; cbn [run] in Hr.
  - inversion Hr; subst. exact Hin.
  - destruct (step c s l) as [s1|] eqn:E; [|discriminate].
    assert (H1 : Phi false x s1 <= 0) by (pose proof (Phi_step false x c s l s1 E); lia).
    specialize (IH s1 s' H1 Hr o t Hin Hx).
    destruct (handout_enters_out c s l s1 o t E IH) as [Hl|Ho]; [exact Hl|].
    exfalso. destruct (gone_forever c x [] s1 s1 H1 eq_refl) as (_ & Hout & _).
    apply Hout. subst x. apply in_map. exact Ho.
Qed.
