(* A pool of one of the three managers, at the level of whole operations: every get / return
   of the history is executed on DP.Managed.Model by stepping the calling task to completion
   (the operations of the C15 histories never overlap), and the outcome at each recycle gate
   is the decision of the manager function on the state of that connection.  Definitions
   only; used by the differential run and by Props/C15.v. *)
From Coq Require Import List ZArith Bool Arith.
From DP Require Import Common.Tab Managed.Model Sync.Mgr.
Import ListNotations.
Open Scope Z_scope.

Inductive mgr := MSqlite | MR2d2 | MDiesel (m : method).

(* what the harness knows / scripts about a connection *)
Record conn := { c_poisoned : bool; c_broken : bool; c_invalid : bool }.
Definition conn0 : conn := {| c_poisoned := false; c_broken := false; c_invalid := false |}.

(* the decision at a recycle gate and the (has_broken, is_valid / ping) calls it makes *)
Definition decide (m : mgr) (n : Z) (cn : conn) : verdict * (Z * Z) :=
  match m with
  | MSqlite => (sqlite_recycle (c_poisoned cn) n (Some n), (0, 0))
  | MR2d2 =>
      (r2d2_recycle (c_poisoned cn) (Some (c_broken cn, negb (c_invalid cn))),
       let cl := r2d2_calls (c_poisoned cn) (c_broken cn) in
       (Z.of_nat (length (filter (fun c => match c with HasBroken => true | _ => false end) cl)),
        Z.of_nat (length (filter (fun c => match c with IsValid => true | _ => false end) cl))))
  | MDiesel me =>
      (diesel_recycle (c_poisoned cn) me (Some (c_broken cn, negb (c_invalid cn))),
       (0, if diesel_pings me (c_poisoned cn) (c_broken cn) then 1 else 0))
  end.

Record pstate := {
  ms : state;                    (* the managed pool *)
  tab : list conn;               (* index = oid *)
  hands : list (option nat);     (* the callers' hands: oid held *)
  ntask : nat;
  nrec : Z                       (* recycle counter of the sqlite manager *)
}.

Definition pcfg (max : nat) : cfg :=
  {| max0 := max; lifo := false; pre := []; post := []; pcr := []; runtime := true |}.

Definition pinit (max : nat) (nhands : nat) : pstate :=
  {| ms := init (pcfg max); tab := []; hands := repeat None nhands; ntask := 0; nrec := 0 |}.

(* run task t until its operation is done *)
Fixpoint drive (fuel : nat) (c : cfg) (m : mgr) (tb : list conn) (s : state) (t : nat)
               (n : Z) (calls : Z * Z) : option (state * Z * (Z * Z)) :=
  match fuel with
  | O => None
  | S f =>
      match pcof s t with
      | PDone _ => Some (s, n, calls)
      | GRec _ o SRecycle =>
          let '(v, (a, b)) := decide m n (nth (oid o) tb conn0) in
          match step c s (Env t (recycle_outcome v)) with
          | Some s' => drive f c m tb s' t (n + (if c_poisoned (nth (oid o) tb conn0) then 0 else 1))
                             (fst calls + a, snd calls + b)
          | None => None
          end
      | GCreate _ =>
          match step c s (Env t OOk) with
          | Some s' => drive f c m tb s' t n calls
          | None => None
          end
      | GWait _ _ => None
      | _ =>
          match step c s (Step t) with
          | Some s' => drive f c m tb s' t n calls
          | None => None
          end
      end
  end.

Definition fuel_of (s : state) : nat := 12 * (length (vec s) + 4).

Definition g_block : getk := {| gw := TNone; gc := TNone; gr := TNone |}.
Definition g_try : getk := {| gw := TZero; gc := TNone; gr := TNone |}.

Inductive hlabel :=
| HGet (h : nat)
| HInteract (h : nat) (kind : nat)     (* 0 ok, 1 panic, 2 cancelled+returns, 3 cancelled+panics *)
| HReturn (h : nat)
| HScript (h : nat) (broken invalid : bool)
| HTry.

Definition run_op (c : cfg) (m : mgr) (p : pstate) (o : op) : option (pstate * res * (Z * Z)) :=
  let t := ntask p in
  match step c (ms p) (Start t o) with
  | Some s1 =>
      match drive (fuel_of s1) c m (tab p) s1 t (nrec p) (0, 0) with
      | Some (s2, n, calls) =>
          match pcof s2 t with
          | PDone r =>
              Some ({| ms := s2; tab := tab p; hands := hands p; ntask := S t; nrec := n |}, r, calls)
          | _ => None
          end
      | None => None
      end
  | None => None
  end.

Definition ensure (x : nat) (tb : list conn) : list conn :=
  if Nat.ltb x (length tb) then tb else tb ++ repeat conn0 (S x - length tb).

Definition set_hand (p : pstate) (h : nat) (v : option nat) : pstate :=
  {| ms := ms p; tab := tab p; hands := upd None h v (hands p); ntask := ntask p; nrec := nrec p |}.
Definition set_tab (p : pstate) (tb : list conn) : pstate :=
  {| ms := ms p; tab := tb; hands := hands p; ntask := ntask p; nrec := nrec p |}.

Definition status_obs (p : pstate) : list Z := [size (ms p); Z.of_nat (length (vec (ms p)))].

Definition is_panic_kind (k : nat) : bool := Nat.eqb k 1 || Nat.eqb k 3.

(* one operation of the history -> new state and the observation *)
Definition hstep (c : cfg) (m : mgr) (p : pstate) (l : hlabel) : option (pstate * list Z) :=
  match l with
  | HGet h =>
      match get None h (hands p) with
      | Some _ => None
      | None =>
          match run_op c m p (OpGet g_block) with
          | Some (p1, ROk, calls) =>
              match out (ms p1) with
              | o :: _ =>
                  let p2 := set_tab (set_hand p1 h (Some (oid o))) (ensure (oid o) (tab p1)) in
                  Some (p2, [0; Z.of_nat (oid o); (if Nat.eqb (rcount o) 0 then 1 else 0)]
                            ++ status_obs p2 ++ [fst calls; snd calls])
              | [] => None
              end
          | _ => None
          end
      end
  | HInteract h kind =>
      match get None h (hands p) with
      | Some x =>
          let cn := nth x (tab p) conn0 in
          let was := c_poisoned cn in
          let now := was || is_panic_kind kind in
          let r := if was then 2 else if Nat.eqb kind 0 then 1 else if Nat.eqb kind 1 then 2 else 0 in
          let p1 := set_tab p (upd conn0 x {| c_poisoned := now; c_broken := c_broken cn;
                                              c_invalid := c_invalid cn |} (tab p)) in
          Some (p1, [1; r; (if now then 1 else 0)] ++ status_obs p1 ++ [0; 0])
      | None => None
      end
  | HReturn h =>
      match get None h (hands p) with
      | Some x =>
          match run_op c m p (OpDrop x) with
          | Some (p1, _, calls) =>
              let p2 := set_hand p1 h None in
              Some (p2, [2; 0; 0] ++ status_obs p2 ++ [fst calls; snd calls])
          | None => None
          end
      | None => None
      end
  | HScript h b i =>
      match get None h (hands p) with
      | Some x =>
          let cn := nth x (tab p) conn0 in
          let p1 := set_tab p (upd conn0 x {| c_poisoned := c_poisoned cn; c_broken := b;
                                              c_invalid := i |} (tab p)) in
          Some (p1, [3; 0; 0] ++ status_obs p1 ++ [0; 0])
      | None => None
      end
  | HTry =>
      match run_op c m p (OpGet g_try) with
      | Some (p1, ROk, calls) =>
          match out (ms p1) with
          | o :: _ =>
              match run_op c m (set_tab p1 (ensure (oid o) (tab p1))) (OpDrop (oid o)) with
              | Some (p2, _, _) =>
                  Some (p2, [5; 0; Z.of_nat (oid o)] ++ status_obs p2 ++ [fst calls; snd calls])
              | None => None
              end
          | [] => None
          end
      | Some (p1, r, calls) =>
          Some (p1, [5; res_code r; 0] ++ status_obs p1 ++ [fst calls; snd calls])
      | None => None
      end
  end.

Fixpoint hrun_obs (c : cfg) (m : mgr) (p : pstate) (tr : list hlabel) : list Z :=
  match tr with
  | [] => []
  | l :: tr' =>
      match hstep c m p l with
      | Some (p', o) => Z.of_nat (length o) :: o ++ hrun_obs c m p' tr'
      | None => [-1]
      end
  end.

(* ---- decoding of the harness' integers: cfg = [mgr; max_size; method; hands] *)
Definition zn (z : Z) : nat := Z.to_nat z.
Definition nthz (l : list Z) (i : nat) : Z := nth i l 0.
Definition dec_method (z : Z) : method :=
  if Z.eqb z 0 then Fast else if Z.eqb z 1 then Verified else if Z.eqb z 2 then CustomQuery
  else CustomFunction.
Definition dec_mgr (k me : Z) : mgr :=
  if Z.eqb k 0 then MSqlite else if Z.eqb k 1 then MR2d2 else MDiesel (dec_method me).
Definition dec_hlabel (l : list Z) : hlabel :=
  let k := nthz l 0 in
  if Z.eqb k 0 then HGet (zn (nthz l 1))
  else if Z.eqb k 1 then HInteract (zn (nthz l 1)) (zn (nthz l 2))
  else if Z.eqb k 2 then HReturn (zn (nthz l 1))
  (* flags: 1 = reported as broken (r2d2 has_broken / a dangling diesel transaction), 2 = fails its validity
     check, 4 = diesel's transaction manager in its error state - broken as well, 8 = r2d2's has_broken
     panics (the interaction fails: rejected like a broken connection, is_valid is not reached), 16 = the
     next validity check fails and later ones would succeed (the connection is discarded by that one failure,
     so for the pool it is an invalid connection) *)
  else if Z.eqb k 3 then HScript (zn (nthz l 1)) (Z.odd (nthz l 2) || Z.odd (Z.div2 (Z.div2 (nthz l 2)))
                                                   || Z.odd (Z.div2 (Z.div2 (Z.div2 (nthz l 2)))))
                                 (Z.odd (Z.div2 (nthz l 2)) || Z.odd (Z.div2 (Z.div2 (Z.div2 (Z.div2 (nthz l 2))))))
  else HTry.

Definition run_pool_z (x : list Z * list (list Z)) : list Z :=
  let cf := fst x in
  let max := zn (nthz cf 1) in
  hrun_obs (pcfg max) (dec_mgr (nthz cf 0) (nthz cf 2)) (pinit max (zn (nthz cf 3)))
           (map dec_hlabel (snd x)).
