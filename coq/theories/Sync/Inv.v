(* Invariants of the SyncWrapper model and the lemmas behind Props/C14.v. *)
From Coq Require Import List ZArith Lia Bool Arith.
From DP Require Import Sync.Model.
Import ListNotations.

(* ------------------------------------------------------------------ lists *)
Lemma nth_setn_same {A} k (x y : A) l : nth_error l k = Some y -> nth_error (setn k x l) k = Some x.
Proof.
  revert k; induction l as [|z l IH]; intros [|k] H; cbn [setn nth_error] in *; try discriminate.
  - reflexivity.
  - apply IH, H.
Qed.

Lemma nth_setn_other {A} k k' (x : A) l : k <> k' -> nth_error (setn k x l) k' = nth_error l k'.
Proof.
  revert k k'; induction l as [|z l IH]; intros [|k] [|k'] H; cbn [setn nth_error]; try reflexivity.
  - congruence.
  - apply IH. congruence.
Qed.

Lemma length_setn {A} k (x : A) l : length (setn k x l) = length l.
Proof. revert k; induction l as [|z l IH]; intros [|k]; cbn [setn length]; auto. Qed.

Lemma nth_snoc {A} (l : list A) x k :
  nth_error (l ++ [x]) k = if Nat.eqb k (length l) then Some x else nth_error l k.
Proof.
  revert k; induction l as [|z l IH]; intros [|k]; cbn [app nth_error length Nat.eqb]; try reflexivity.
  - destruct k; reflexivity.
  - apply IH.
Qed.

Lemma nth_some_lt {A} (l : list A) k x : nth_error l k = Some x -> k < length l.
Proof. intros H. apply nth_error_Some. congruence. Qed.

(* ------------------------------------------------------------------ job table *)
Ltac ssp :=
  cbn [val lock poisoned jobs wrapper_alive destroyed_by log set_val set_lock set_poisoned
       set_jobs set_alive set_destroyed emit jset push spawn_drop] in *.

Lemma jget_jset s k j j' k' :
  jget s k = Some j -> jget (jset s k j') k' = if Nat.eqb k k' then Some j' else jget s k'.
Proof.
  unfold jget. ssp. intros H. destruct (Nat.eqb_spec k k') as [<-|Hne].
  - eapply nth_setn_same, H.
  - apply nth_setn_other, Hne.
Qed.

Lemma jget_push s j k' :
  jget (push s j) k' = if Nat.eqb k' (length (jobs s)) then Some j else jget s k'.
Proof. unfold jget. ssp. apply nth_snoc. Qed.

Lemma jget_lt s k j : jget s k = Some j -> k < length (jobs s).
Proof. apply nth_some_lt. Qed.

Lemma nth_setn_cases {A} k k' (x y : A) l :
  nth_error l k = Some y ->
  nth_error (setn k x l) k' = if Nat.eqb k k' then Some x else nth_error l k'.
Proof.
  intros H. destruct (Nat.eqb_spec k k') as [<-|Hne].
  - eapply nth_setn_same, H.
  - apply nth_setn_other, Hne.
Qed.

(* ------------------------------------------------------------------ the invariant *)
Definition is_create (kd : kind) : bool := match kd with KCreate _ => true | _ => false end.
Definition is_interact (kd : kind) : bool := match kd with KInteract _ => true | _ => false end.
Definition is_drop (kd : kind) : bool := match kd with KDrop => true | _ => false end.
Definition unfinished (st : jstate) : bool := match st with JDone _ => false | _ => true end.
Definition queued (st : jstate) : bool := match st with JQueued => true | _ => false end.
Definition running (st : jstate) : bool := match st with JRunning => true | _ => false end.

(* an event names a blocking job of the right kind *)
Definition placed (s : state) (e : event) : Prop :=
  match e with
  | EBegin k a | EEnd k a =>
      a = Blocking k /\ exists j, nth_error (jobs s) k = Some j /\ is_drop (jkind j) = false
  | EDestroyBegin a | EDestroyEnd a =>
      exists k j, a = Blocking k /\ nth_error (jobs s) k = Some j /\ is_drop (jkind j) = true
  end.

Record Inv (s : state) : Prop := {
  (* whoever is inside the value holds the mutex *)
  i_lock : forall k j, nth_error (jobs s) k = Some j -> running (jst j) = true ->
                       is_create (jkind j) = false -> lock s = Some k;
  i_destroyed1 : val s = Taken -> length (destroyed_by s) = 1;
  i_destroyed0 : val s <> Taken -> destroyed_by s = [];
  i_dby : forall a, In a (destroyed_by s) ->
                    exists k j, a = Blocking k /\ nth_error (jobs s) k = Some j
                                /\ is_drop (jkind j) = true /\ queued (jst j) = false;
  i_drop : forall k j, nth_error (jobs s) k = Some j -> is_drop (jkind j) = true ->
                       queued (jst j) = false -> val s = Taken;
  i_notyet : val s = NotYet ->
             wrapper_alive s = false
             /\ forall k j, nth_error (jobs s) k = Some j -> is_drop (jkind j) = false;
  i_pre : forall k j, nth_error (jobs s) k = Some j -> is_create (jkind j) = true ->
                      unfinished (jst j) = true -> val s = NotYet;
  i_empty : jobs s = [] -> val s = NotYet;
  i_taken : val s = Taken -> forall k j, nth_error (jobs s) k = Some j ->
                             is_interact (jkind j) = true -> running (jst j) = false;
  i_log : forall e, In e (log s) -> placed s e;
  i_created : forall k j, nth_error (jobs s) k = Some j -> is_create (jkind j) = true ->
                          jst j = JDone ROk -> val s <> NotYet;
  i_create0 : forall k j, nth_error (jobs s) k = Some j -> is_create (jkind j) = true -> k = 0
}.

Lemma nth_nil_some {A} k (x : A) : nth_error [] k = Some x -> False.
Proof. destruct k; discriminate. Qed.

Lemma Inv_init : Inv init.
Proof.
  constructor; cbn; intros;
    try match goal with H : nth_error [] _ = Some _ |- _ => destruct (nth_nil_some _ _ H) end;
    try reflexivity; try contradiction; try discriminate.
  split; [reflexivity|]. intros k j Hn. destruct (nth_nil_some _ _ Hn).
Qed.

(* ------------------------------------------------------------------ case analysis of a step *)
Ltac break H :=
  repeat match type of H with
  | context [match ?x with _ => _ end] => let E := fresh "E" in destruct x eqn:E
  | context [if ?x then _ else _] => let E := fresh "E" in destruct x eqn:E
  end; try discriminate H.

Ltac fields := cbn [entered with_st with_aw jkind jst jaw jran] in *.

(* rewrite lookups in the new job table into lookups in the old one; Hk : the updated entry *)
Ltac jc Hk :=
  repeat match goal with
  | H : context [nth_error (_ ++ [_]) _] |- _ => rewrite nth_snoc in H
  | H : context [nth_error (setn _ _ _) _] |- _ => rewrite (nth_setn_cases _ _ _ _ _ Hk) in H
  | H : context [length (setn _ _ _)] |- _ => rewrite length_setn in H
  | H : context [if Nat.eqb ?a ?b then _ else _] |- _ => destruct (Nat.eqb_spec a b); subst
  | H : Some _ = Some _ |- _ => inversion H; subst; clear H
  end.

Ltac jg Hk :=
  repeat match goal with
  | |- context [nth_error (_ ++ [_]) _] => rewrite nth_snoc
  | |- context [nth_error (setn _ _ _) _] => rewrite (nth_setn_cases _ _ _ _ _ Hk)
  | |- context [length (setn _ _ _)] => rewrite length_setn
  end.

Lemma eqb_lt_false k n : k < n -> Nat.eqb k n = false.
Proof. intros H. apply Nat.eqb_neq. lia. Qed.

(* jobs never disappear, never change their kind, never go back *)
Lemma step_mono s l s' :
  step s l = Some s' ->
  forall k j, nth_error (jobs s) k = Some j ->
  exists j', nth_error (jobs s') k = Some j' /\ jkind j' = jkind j
             /\ (queued (jst j) = false -> queued (jst j') = false)
             /\ (forall r, jst j = JDone r -> jst j' = JDone r)
             /\ (jran j = true -> jran j' = true).
Proof.
  intros H k0 j0 H0. pose proof (nth_some_lt _ _ _ H0) as Hlt.
  destruct l as [k kd|k|k|k|k|k| |k]; cbn [step] in H; unfold jget in H; break H;
    inversion H; subst; clear H; ssp;
    try (match goal with Hk : nth_error (jobs s) ?k = Some ?j |- _ =>
           jg Hk; rewrite ?(eqb_lt_false _ _ Hlt);
           destruct (Nat.eqb_spec k k0) as [->|Hne];
           [ rewrite H0 in Hk; inversion Hk; subst; eexists; split; [reflexivity|]; fields;
             repeat split; intros; try congruence; try reflexivity
           | exists j0; repeat split; auto ]
         end; fail);
    try (jg H0; rewrite ?(eqb_lt_false _ _ Hlt); exists j0; repeat split; auto; fail).
  exfalso. eapply nth_nil_some. exact H0.
Qed.

Definition Mono (s s' : state) : Prop :=
  forall k j, nth_error (jobs s) k = Some j ->
  exists j', nth_error (jobs s') k = Some j' /\ jkind j' = jkind j
             /\ (queued (jst j) = false -> queued (jst j') = false)
             /\ (forall r, jst j = JDone r -> jst j' = JDone r)
             /\ (jran j = true -> jran j' = true).

Lemma placed_mono s s' e : Mono s s' -> placed s e -> placed s' e.
Proof.
  intros M P. destruct e as [k a|k a|a|a]; cbn [placed] in *.
  - destruct P as [Ha (j & Hj & Hd)]. split; [exact Ha|].
    destruct (M _ _ Hj) as (j' & Hj' & Hk & _). exists j'. split; [exact Hj'|]. rewrite Hk. exact Hd.
  - destruct P as [Ha (j & Hj & Hd)]. split; [exact Ha|].
    destruct (M _ _ Hj) as (j' & Hj' & Hk & _). exists j'. split; [exact Hj'|]. rewrite Hk. exact Hd.
  - destruct P as (k & j & Ha & Hj & Hd). destruct (M _ _ Hj) as (j' & Hj' & Hk & _).
    exists k, j'. rewrite Hk. auto.
  - destruct P as (k & j & Ha & Hj & Hd). destruct (M _ _ Hj) as (j' & Hj' & Hk & _).
    exists k, j'. rewrite Hk. auto.
Qed.

Lemma dby_mono s s' a : Mono s s' ->
  (exists k j, a = Blocking k /\ nth_error (jobs s) k = Some j
               /\ is_drop (jkind j) = true /\ queued (jst j) = false) ->
  (exists k j, a = Blocking k /\ nth_error (jobs s') k = Some j
               /\ is_drop (jkind j) = true /\ queued (jst j) = false).
Proof.
  intros M (k & j & Ha & Hj & Hd & Hq). destruct (M _ _ Hj) as (j' & Hj' & Hk & Hq' & _).
  exists k, j'. rewrite Hk. auto.
Qed.

Inductive Seen (k : nat) (j : job) : Prop := seen.

Ltac rw_fields :=
  repeat match goal with
  | E : jkind ?j = _ |- _ => rewrite E in *
  | E : jst ?j = _ |- _ => rewrite E in *
  | E : jaw ?j = _ |- _ => rewrite E in *
  | E : val ?s = _ |- _ => rewrite E in *
  | E : lock ?s = _ |- _ => rewrite E in *
  end.

Ltac preds := cbn [running queued unfinished is_create is_interact is_drop] in *.

Lemma setn_nil {A} k (x : A) l : setn k x l = [] -> l = [].
Proof. destruct l as [|y l]; [reflexivity|]. destruct k; discriminate. Qed.

Lemma snoc_not_nil {A} (l : list A) x : l ++ [x] = [] -> False.
Proof. destruct l; discriminate. Qed.

(* hypotheses about the new job table become hypotheses about the old one *)
Ltac old_jobs :=
  repeat match goal with
  | H : _ ++ [_] = [] |- _ => destruct (snoc_not_nil _ _ H)
  | H : setn _ _ _ = [] |- _ => apply setn_nil in H
  | E : jobs ?s = [], H : nth_error (jobs ?s) _ = Some _ |- _ =>
      rewrite E in H; destruct (nth_nil_some _ _ H)
  | H : context [nth_error (_ ++ [_]) _] |- _ => rewrite nth_snoc in H
  | Hk : nth_error ?l ?k = Some _, H : context [nth_error (setn ?k _ ?l) _] |- _ =>
      rewrite (nth_setn_cases _ _ _ _ _ Hk) in H
  | H : context [length (setn _ _ _)] |- _ => rewrite length_setn in H
  | H : context [if Nat.eqb ?a ?b then _ else _] |- _ => destruct (Nat.eqb_spec a b); subst
  | H : Some _ = Some _ |- _ => inversion H; subst; clear H
  end.

Ltac new_jobs :=
  repeat match goal with
  | |- context [nth_error (_ ++ [_]) _] => rewrite nth_snoc
  | Hk : nth_error ?l ?k = Some _ |- context [nth_error (setn ?k _ ?l) _] =>
      rewrite (nth_setn_cases _ _ _ _ _ Hk)
  | |- context [length (setn _ _ _)] => rewrite length_setn
  | |- context [Nat.eqb ?a ?a] => rewrite Nat.eqb_refl
  end.

Lemma interact_not_create kd : is_interact kd = true -> is_create kd = false.
Proof. destruct kd; cbn; congruence. Qed.
Lemma drop_not_create kd : is_drop kd = true -> is_create kd = false.
Proof. destruct kd; cbn; congruence. Qed.

Theorem Inv_step s l s' : Inv s -> step s l = Some s' -> Inv s'.
Proof.
  intros I H. pose proof (step_mono _ _ _ H) as M. fold (Mono s s') in M.
  assert (L : forall e, In e (log s) -> placed s' e).
  { intros e He. eapply placed_mono; [exact M|]. apply (i_log _ I), He. }
  assert (D : forall a, In a (destroyed_by s) ->
            exists k j, a = Blocking k /\ nth_error (jobs s') k = Some j
                        /\ is_drop (jkind j) = true /\ queued (jst j) = false).
  { intros a Ha. eapply dby_mono; [exact M|]. apply (i_dby _ I), Ha. }
  clear M.
  destruct I as [I1 I2 I2' I3 I4 I5 I6 I7 I8 I9 I10 I11].
  pose (fwd := fun k0 j0 (Hx : nth_error (jobs s) k0 = Some j0) =>
                 conj (I1 _ _ Hx) (conj (I4 _ _ Hx) (conj (I6 _ _ Hx)
                   (conj (fun h => I8 h _ _ Hx) (conj (fun h => proj2 (I5 h) _ _ Hx)
                   (conj (I10 _ _ Hx) (I11 _ _ Hx))))))).
  destruct l as [k kd|k|k|k|k|k| |k]; cbn [step] in H; unfold jget in H; break H;
    inversion H; subst; clear H; ssp;
    constructor; ssp; try assumption; intros; try (split; intros); cbn [In] in *;
    repeat match goal with
    | H : _ = _ \/ In _ _ |- _ => destruct H as [<-|H]; [|first [apply L, H|apply D, H]]
    end;
    old_jobs;
    repeat match goal with
    | Hx : nth_error (jobs s) ?k0 = Some ?j0 |- _ =>
        lazymatch goal with
        | _ : Seen k0 j0 |- _ => fail
        | _ => pose proof (fwd _ _ Hx); pose proof (seen k0 j0)
        end
    end; clear fwd;
    repeat match goal with
    | Hi : is_interact (jkind ?j) = true |- _ =>
        lazymatch goal with
        | _ : is_create (jkind j) = false |- _ => fail
        | _ => pose proof (interact_not_create _ Hi)
        end
    end;
    fields; rw_fields; preds; cbn [length placed] in *;
    try match goal with |- running ?st = false => destruct (running st) eqn:?; [exfalso|reflexivity] end;
    try solve [intuition (try congruence; try discriminate; try lia; eauto)];
    try solve [ssp; split; [reflexivity|]; eexists; split; [new_jobs; reflexivity|];
               fields; rw_fields; reflexivity];
    try solve [ssp; do 2 eexists; split; [reflexivity|]; split; [new_jobs; reflexivity|];
               fields; rw_fields; split; reflexivity].
  - rewrite E1. reflexivity.
  - rewrite I2' by discriminate. reflexivity.
  - split; [reflexivity|]. eexists. split.
    + ssp. new_jobs. rewrite (eqb_lt_false _ _ (nth_some_lt _ _ _ E)). reflexivity.
    + fields. rewrite E1. reflexivity.
  - apply andb_prop in E. destruct E as [Ea _]. destruct (I5 eq_refl) as [Hf _]. congruence.
Qed.

Lemma Inv_run tr : forall s s', Inv s -> run s tr = Some s' -> Inv s'.
Proof.
  induction tr as [|l tr IH]; intros s s' I H; cbn [run] in H.
  - inversion H; subst. exact I.
  - destruct (step s l) as [s1|] eqn:E; [|discriminate].
    eapply IH; [eapply Inv_step; eassumption|exact H].
Qed.

Theorem reachable_Inv s : Reachable s -> Inv s.
Proof. intros [tr H]. eapply Inv_run; [apply Inv_init|exact H]. Qed.
