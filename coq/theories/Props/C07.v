(* C07 - resize() makes the new limit effective in both directions. *)
From Coq Require Import List ZArith Bool.
From DP Require Import Common.Tab Managed.Model Managed.Contrib Managed.All Managed.Ops Managed.Ops2
  Managed.Thms Managed.Frame.
Import ListNotations.
Open Scope Z_scope.

(* after resize(n) on an open pool: max_size = n and no idle object is kept above the limit *)
Theorem c07_status_and_release : forall c s t n, pcof s t = OResizeL n -> closed s = false ->
  exists s', step c s (Step t) = Some s' /\ maxs s' = Z.of_nat n
             /\ (size s' <= maxs s' \/ vec s' = []).
Proof. exact t_resize_status. Qed.

(* a get passes the semaphore ("is granted") only with no debt outstanding, and then the
   objects out plus all permits held inside operations fit into max_size: while max_size or
   more objects are out nobody is granted *)
Theorem c07_grant_bound : forall c s t g, Reachable c s -> alive s = true -> pcof s t = GSettle g ->
  debt s = 0 -> zlen (out s) + 1 <= maxs s /\ sum hp (tasks s) + zlen (out s) <= maxs s.
Proof. exact t_grant_bound. Qed.

(* when a granted get commits to creating an object, the live objects including the new one
   stay within max_size + debt; debt is only raised by a later shrink (next theorem), so
   without one the bound is max_size *)
Theorem c07_commit_bound : forall c s t g s', Reachable c s -> alive s = true -> pcof s t = GPop g ->
  vec s = [] -> step c s (Step t) = Some s' ->
  live s' <= maxs s' + debt s' /\ maxs s' = maxs s /\ debt s' = debt s.
Proof. exact t_commit_bound. Qed.

Theorem c07_debt_only_by_resize : forall c s l s', step c s l = Some s' ->
  (forall t, l = Step t -> is_rc_pc (pcof s t) = false) -> debt s' <= debt s.
Proof. exact debt_only_grows_by_resize. Qed.

(* the surplus is discarded as it comes back *)
Theorem c07_surplus_discarded : forall c s t o, pcof s t = RLock o -> maxs s < size s ->
  step c s (Step t) = Some (tick (setpc (set_size s (size s - 1)) t (RSurplus o))).
Proof. exact return_surplus. Qed.

(* after any sequence of shrinks and grows, once outstanding objects have returned and
   nothing is in progress, the capacity is exactly the last value *)
Theorem c07_last_value_wins : forall c s, Reachable c s -> alive s = true -> at_rest s -> out s = [] ->
  permits s - debt s = maxs s /\ users s = 0 /\ size s = zlen (vec s).
Proof. exact t_rest_capacity. Qed.

(* non-vacuity: the two histories that failed before the repair (DESIGN 9, D1 and D2) *)
Definition gnb := {| gw := TZero; gc := TNone; gr := TNone |}.
Definition cfg1 := {| max0 := 1; lifo := false; pre := []; post := []; pcr := []; runtime := false |}.
Definition cfg2 := {| max0 := 2; lifo := false; pre := []; post := []; pcr := []; runtime := false |}.
Definition tr_d1 : list label :=
  [Start 0 (OpResize 0); Step 0; Step 0; Start 1 (OpGet gnb); Step 1; Step 1; Step 1].
Example c07_nonvacuous_d1 :
  exists s, run cfg1 (init cfg1) tr_d1 = Some s /\ pcof s 1 = PDone RTimeoutWait /\ maxs s = 0
            /\ permits s = 0 /\ live s = 0.
Proof. eexists. vm_compute. repeat split. Qed.

Definition tr_d2 : list label :=
  [Start 0 (OpGet gnb); Step 0; Step 0; Step 0; Step 0; Env 0 OOk; Step 0;
   Start 1 (OpGet gnb); Step 1; Step 1; Step 1; Step 1; Env 1 OOk; Step 1;
   Start 2 (OpResize 1); Step 2; Step 2; Start 3 (OpResize 2); Step 3; Step 3;
   Start 4 (OpGet gnb); Step 4; Step 4; Step 4].
Example c07_nonvacuous_d2 :
  exists s, run cfg2 (init cfg2) tr_d2 = Some s /\ pcof s 4 = PDone RTimeoutWait /\ maxs s = 2
            /\ zlen (out s) = 2 /\ debt s = 0 /\ size s = 2.
Proof. eexists. vm_compute. repeat split. Qed.

Check c07_commit_bound : forall c s t g s', Reachable c s -> alive s = true -> pcof s t = GPop g ->
  vec s = [] -> step c s (Step t) = Some s' ->
  live s' <= maxs s' + debt s' /\ maxs s' = maxs s /\ debt s' = debt s.
Print Assumptions c07_status_and_release.
Print Assumptions c07_grant_bound.
Print Assumptions c07_commit_bound.
Print Assumptions c07_debt_only_by_resize.
Print Assumptions c07_surplus_discarded.
Print Assumptions c07_last_value_wins.
