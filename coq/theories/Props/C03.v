(* C03 - Abandoning get() at any suspension point is harmless. *)
From Coq Require Import List ZArith Bool.
From DP Require Import Common.Tab Managed.Model Managed.Contrib Managed.All Managed.Ops Managed.Ops2
  Managed.Abandon.
Import ListNotations.
Open Scope Z_scope.

(* the points at which a get can be abandoned by dropping its future are exactly its await
   points: waiting for a slot, each async pre_recycle hook, Manager::recycle, each async
   post_recycle hook, Manager::create, each async post_create hook *)
Theorem c03_cancel_points : forall c s t,
  (exists s', step c s (Cancel t) = Some s') <-> cancellable c (pcof s t) = true.
Proof. exact cancel_enabled_iff. Qed.

(* dropping the future enters the undo chain ... *)
Theorem c03_cancel_unwinds : forall c s t s',
  step c s (Cancel t) = Some s' -> exists n r, unwind_len (pcof s' t) = Some (n, r).
Proof. exact cancel_unwinds. Qed.

(* ... so does a panic of the manager or of a hook (sync or async) ... *)
Theorem c03_panic_unwinds : forall c s t s',
  step c s (Env t OPanic) = Some s' -> exists n, unwind_len (pcof s' t) = Some (n, RPanicked).
Proof. exact panic_unwinds. Qed.

(* ... and it is the same chain on the same state (only the reported result differs) *)
Theorem c03_same_unwind : forall c s t s1 s2,
  at_gate (pcof s t) = true ->
  step c s (Cancel t) = Some s1 -> step c s (Env t OPanic) = Some s2 ->
  strip (pcof s1 t) = strip (pcof s2 t)
  /\ permits s1 = permits s2 /\ size s1 = size s2 /\ users s1 = users s2 /\ vec s1 = vec s2
  /\ out s1 = out s2 /\ debt s1 = debt s2 /\ queue s1 = queue s2.
Proof. exact cancel_panic_same_unwind. Qed.

(* the chain always reaches its end *)
Theorem c03_unwind_terminates : forall c n s t r, unwind_len (pcof s t) = Some (n, r) ->
  exists s', run c s (repeat (Step t) n) = Some s' /\ pcof s' t = PDone r.
Proof. exact unwind_terminates. Qed.

(* the object the call had in hand is detached and destroyed exactly once, its slot and the
   users count are given back, the idle queue and the handed-out objects are untouched *)
Theorem c03_object_discarded : forall c s t g o r,
  pcof s t = UUnready g o (CRes r) ->
  exists s', run c s [Step t; Step t; Step t; Step t] = Some s'
    /\ pcof s' t = PDone r
    /\ log s' = EDestroy (oid o) t :: EDetach (oid o) t :: log s
    /\ size s' = size s - 1 /\ users s' = users s - 1 /\ same_slots s s'.
Proof. exact discard_chain. Qed.

(* afterwards the pool's books read as if the call had never been made: under every
   interleaving with other tasks, a finished call holds no permit, no slot, no users count
   and is not queued - the conservation laws hold over the other tasks alone *)
Theorem c03_as_if_never_made : forall c s t r,
  Reachable c s -> alive s = true -> pcof s t = PDone r ->
  let others := upd PNone t PNone (tasks s) in
  permits s + sum hp others + zlen (out s) = maxs s + debt s
  /\ size s = zlen (vec s) + zlen (out s) + sum cs others
  /\ users s = sum up others + zlen (out s)
  /\ ~ In t (queue s).
Proof. exact done_contributes_nothing. Qed.

(* an object reaches a caller only through a get that ends in Ok *)
Theorem c03_never_handed_out : forall c s l s',
  step c s l = Some s' ->
  out s' = out s
  \/ (exists t o, l <> Start t (OpDrop (oid o)) /\ out s' = o :: out s /\ pcof s' t = PDone ROk)
  \/ (exists t x, l = Start t (OpDrop x) \/ l = Start t (OpTake x)).
Proof. exact out_only_by_handout. Qed.

(* non-vacuity: one cancellation at each kind of await point (max_size 1, one async hook of
   each kind) leaves permits = 1, users = 0 and size reduced by the discarded object *)
Definition g0 := {| gw := TNone; gc := TNone; gr := TNone |}.
Definition cfgh := {| max0 := 1; lifo := false; pre := [true]; post := [true]; pcr := [true]; runtime := false |}.
Definition tr_cancels : list label :=
  [ (* cancel in create *)
    Start 0 (OpGet g0); Step 0; Step 0; Step 0; Step 0; Cancel 0; Step 0; Step 0;
    (* cancel in post_create: object 0 discarded *)
    Start 1 (OpGet g0); Step 1; Step 1; Step 1; Step 1; Env 1 OOk; Step 1; Cancel 1; Step 1; Step 1; Step 1; Step 1;
    (* a successful get and return, so that an idle object exists *)
    Start 2 (OpGet g0); Step 2; Step 2; Step 2; Step 2; Env 2 OOk; Step 2; Env 2 OOk;
    Start 3 (OpDrop 1); Step 3; Step 3; Step 3;
    (* cancel in pre_recycle: object 1 discarded *)
    Start 4 (OpGet g0); Step 4; Step 4; Step 4; Step 4; Cancel 4; Step 4; Step 4; Step 4; Step 4 ].
Example c03_nonvacuous :
  exists s, run cfgh (init cfgh) tr_cancels = Some s /\ at_rest s /\ permits s = 1 /\ users s = 0
            /\ size s = 0 /\ vec s = [] /\ out s = []
            /\ pcof s 0 = PDone RCancelled /\ pcof s 1 = PDone RCancelled /\ pcof s 4 = PDone RCancelled.
Proof. eexists. vm_compute. repeat split. Qed.

Check c03_as_if_never_made : forall c s t r,
  Reachable c s -> alive s = true -> pcof s t = PDone r ->
  let others := upd PNone t PNone (tasks s) in
  permits s + sum hp others + zlen (out s) = maxs s + debt s
  /\ size s = zlen (vec s) + zlen (out s) + sum cs others
  /\ users s = sum up others + zlen (out s)
  /\ ~ In t (queue s).
Print Assumptions c03_cancel_points.
Print Assumptions c03_cancel_unwinds.
Print Assumptions c03_panic_unwinds.
Print Assumptions c03_same_unwind.
Print Assumptions c03_unwind_terminates.
Print Assumptions c03_object_discarded.
Print Assumptions c03_as_if_never_made.
Print Assumptions c03_never_handed_out.
