(* C09 - retain(), take() and detach keep the books straight. *)
From Coq Require Import List ZArith Bool.
From DP Require Import Common.Tab Managed.Model Managed.Contrib Managed.All Managed.Count Managed.Retain.
Import ListNotations.
Open Scope Z_scope.

(* retain(): removes exactly the idle objects whose decision is false - the predicate (also a
   stateful FnMut one) is a list of decisions consulted once per idle object in queue order -
   keeps the order of the others, shrinks size accordingly, and touches neither the
   checked-out objects nor the capacity *)
Theorem c09_retain_spec : forall c s t ds,
  pcof s t = ORetainL ds ->
  exists s', step c s (Step t) = Some s'
    /\ vec s' = select true (decisions ds (vec s)) (vec s)
    /\ size s' = size s - zlen (select false (decisions ds (vec s)) (vec s))
    /\ out s' = out s /\ permits s' = permits s /\ maxs s' = maxs s /\ debt s' = debt s
    /\ users s' = users s /\ queue s' = queue s.
Proof. exact retain_spec. Qed.

(* take(): hands the value over (Removed), shrinks the pool by one, gives the slot back
   (the sem_add in its third step), detaches exactly once *)
Theorem c09_take_spec : forall c s t o,
  pcof s t = TStart o -> alive s = true ->
  exists s', run c s [Step t; Step t; Step t; Step t] = Some s'
    /\ pcof s' t = PDone RUnit
    /\ log s' = ERemoved (oid o) t :: EDetach (oid o) t :: log s
    /\ size s' = size s - 1 /\ users s' = users s - 1
    /\ vec s' = vec s /\ out s' = out s /\ maxs s' = maxs s /\ debt s' = debt s.
Proof. exact take_chain. Qed.

(* the counting law: for every object id, places holding it + detach calls = 1 once created,
   0 before - under every interleaving of gets, returns, takes, retains, resizes and close *)
Theorem c09_counting_law : forall c s x, Reachable c s -> alive s = true ->
  cnt x s + dcount x (log s) = born x s.
Proof. exact counting_law. Qed.

Theorem c09_detach_at_most_once : forall c s x, Reachable c s -> alive s = true -> dcount x (log s) <= 1.
Proof. exact detach_at_most_once. Qed.

(* never for an object that stays in the pool *)
Theorem c09_owned_not_detached : forall c s x, Reachable c s -> alive s = true -> 1 <= cnt x s ->
  dcount x (log s) = 0 /\ cnt x s = 1.
Proof. exact owned_not_detached. Qed.

(* exactly once for every object the pool has let go of - taken, removed by retain, rejected by
   recycling, surplus on return, released by a shrink or by close *)
Theorem c09_let_go_detached_once : forall c s x, Reachable c s -> alive s = true ->
  (x < next_oid s)%nat -> cnt x s = 0 -> dcount x (log s) = 1.
Proof. exact let_go_detached_once. Qed.

Theorem c09_no_duplicates : forall c s x, Reachable c s -> alive s = true -> cnt x s <= 1.
Proof. exact no_duplicates. Qed.

Theorem c09_detached_is_gone : forall c s x, Reachable c s -> alive s = true -> dcount x (log s) = 1 ->
  zcount x (vec s) = 0 /\ zcount x (out s) = 0 /\ sum (pcnt x) (tasks s) = 0.
Proof. exact detached_is_gone. Qed.

(* non-vacuity: three objects; one taken, one removed by retain, one released by a shrink *)
Definition g0 := {| gw := TNone; gc := TNone; gr := TNone |}.
Definition cfg3 := {| max0 := 3; lifo := false; pre := []; post := []; pcr := []; runtime := false |}.
Definition get_new t := [Start t (OpGet g0); Step t; Step t; Step t; Step t; Env t OOk; Step t].
Definition ret t o := [Start t (OpDrop o); Step t; Step t; Step t].
Definition tr9 : list label :=
  get_new 0 ++ get_new 1 ++ get_new 2
  ++ [Start 3 (OpTake 0); Step 3; Step 3; Step 3; Step 3]
  ++ ret 4 1 ++ ret 5 2
  ++ [Start 6 (OpRetain [false]); Step 6; Step 6; Step 6; Start 7 (OpResize 0); Step 7; Step 7].
Example c09_nonvacuous :
  exists s, run cfg3 (init cfg3) tr9 = Some s /\ alive s = true
            /\ dcount 0 (log s) = 1 /\ dcount 1 (log s) = 1 /\ dcount 2 (log s) = 1
            /\ cnt 0 s = 0 /\ cnt 1 s = 0 /\ cnt 2 s = 0 /\ size s = 0 /\ vec s = [].
Proof. eexists. vm_compute. repeat split. Qed.

Check c09_counting_law : forall c s x, Reachable c s -> alive s = true ->
  cnt x s + dcount x (log s) = born x s.
Print Assumptions c09_retain_spec.
Print Assumptions c09_take_spec.
Print Assumptions c09_counting_law.
Print Assumptions c09_detach_at_most_once.
Print Assumptions c09_owned_not_detached.
Print Assumptions c09_let_go_detached_once.
Print Assumptions c09_no_duplicates.
Print Assumptions c09_detached_is_gone.
