(* C15 - A connection whose interaction panicked or broke is never reissued
   (pools built on SyncWrapper: deadpool-sqlite, deadpool-r2d2, deadpool-diesel).

   Three layers, each quantified over everything:
   (1) the recycle decision functions of the three managers (Sync/Mgr.v): exactly which
       connection states are accepted;
   (2) the SyncWrapper model (Sync/Model.v): a wrapper on which a closure panicked - awaited or
       cancelled - is poisoned in every later state, hence rejected by (1);
   (3) the managed pool model (Managed/Model.v, all interleavings, all labels including resize,
       close, retain, take, cancellation, timers): an object whose recycle gate is answered
       "reject" is discarded by the very get that asked, never enters the idle queue or a
       caller's hands again, no later hand-out of it is logged, and the get goes on with the
       permit it holds; the pool's capacity equation is unaffected.
   This file only states the theorems (closed by [exact]) and prints their assumptions. *)
From Coq Require Import List ZArith Bool Arith.
From DP Require Import Common.Tab Managed.Model Managed.Contrib Sync.Mgr Sync.Pool Sync.Never
  Sync.C15Facts.
From DP Require Sync.Model.
Import ListNotations.
Open Scope Z_scope.

Module S := DP.Sync.Model.

(* ---- (1) what the managers accept *)
Theorem c15_sqlite_accepts_iff : forall p n a,
  sqlite_recycle p n a = Accept <-> p = false /\ a = Some n.
Proof. exact sqlite_accept_iff. Qed.

Theorem c15_r2d2_accepts_iff : forall p b,
  r2d2_recycle p b = Accept <-> p = false /\ b = Some (false, true).
Proof. exact r2d2_accept_iff. Qed.

(* is_valid is consulted only when has_broken said no, neither on a poisoned wrapper *)
Theorem c15_r2d2_calls : forall p hb,
  (p = true -> r2d2_calls p hb = []) /\
  (p = false -> hb = true -> r2d2_calls p hb = [HasBroken]) /\
  (p = false -> hb = false -> r2d2_calls p hb = [HasBroken; IsValid]).
Proof. exact r2d2_calls_spec. Qed.

Theorem c15_diesel_accepts_iff : forall p m b,
  diesel_recycle p m b = Accept <->
  p = false /\ exists ping, b = Some (false, ping) /\ (m = Fast \/ ping = true).
Proof. exact diesel_accept_iff. Qed.

(* the decision used by the differential run: poisoned, broken or invalid => reject *)
Theorem c15_bad_connection_rejected : forall m n cn,
  c_poisoned cn = true
  \/ (m = MR2d2 /\ (c_broken cn = true \/ c_invalid cn = true))
  \/ (exists me, m = MDiesel me /\ (c_broken cn = true \/ (me <> Fast /\ c_invalid cn = true))) ->
  fst (decide m n cn) = Reject.
Proof. exact decide_rejects. Qed.

(* ---- (2) a panicked interaction poisons for good: all three managers reject from then on *)
Theorem c15_panicked_wrapper_rejected : forall tr s k j,
  S.run S.init tr = Some s -> nth_error (S.jobs s) k = Some j ->
  S.jkind j = S.KInteract S.FPanic -> S.jran j = true -> S.jst j = S.JDone S.RPanic ->
  S.poisoned s = true /\
  (forall n a, sqlite_recycle (S.poisoned s) n a = Reject) /\
  (forall b, r2d2_recycle (S.poisoned s) b = Reject) /\
  (forall m b, diesel_recycle (S.poisoned s) m b = Reject).
Proof. exact panicked_is_rejected. Qed.

(* ---- (3) the pool: a rejected object is never reissued *)
Theorem c15_never_reissued : forall c tr1 s t g o st s1 tr2 s2,
  run c (init c) tr1 = Some s -> pcof s t = GRec g o st ->
  step c s (Env t OErr) = Some s1 -> run c s1 tr2 = Some s2 ->
  ~ In (oid o) (map oid (vec s2)) /\ ~ In (oid o) (map oid (out s2))
  /\ (forall o' t', In (EHandOut o' t') (log s2) -> oid o' = oid o -> In (EHandOut o' t') (log s1))
  /\ (forall t', w false (oid o) (pcof s2 t') = 0).
Proof. exact rejected_never_reissued. Qed.

(* an oid exists at most once in the whole pool (idle, checked out, in an operation's hand),
   and not at all before it was allocated: markers identify connections *)
Theorem c15_identity : forall c tr s x,
  run c (init c) tr = Some s ->
  cl x (vec s) + cl x (out s) + sum (w true x) (tasks s) + fresh x s <= 1.
Proof. exact unique_oid. Qed.

Theorem c15_replaced : forall c s t g o st s1,
  pcof s t = GRec g o st -> step c s (Env t OErr) = Some s1 ->
  exists s2 s3, step c s1 (Step t) = Some s2 /\ step c s2 (Step t) = Some s3
    /\ pcof s1 t = UUnready g o CLoop /\ pcof s2 t = UDetach g o CLoop /\ pcof s3 t = GPop g
    /\ vec s3 = vec s1 /\ out s3 = out s1 /\ permits s3 = permits s1 /\ size s3 = size s1 - 1
    /\ hp (pcof s1 t) = 1 /\ hp (pcof s2 t) = 1 /\ hp (pcof s3 t) = 1
    /\ log s3 = EDestroy (oid o) t :: EDetach (oid o) t :: log s1.
Proof. exact rejected_is_replaced. Qed.

Theorem c15_capacity : forall c s,
  Reachable c s -> alive s = true ->
  permits s + sum hp (tasks s) + zlen (out s) = maxs s + debt s.
Proof. exact capacity_conserved. Qed.

(* ------------------------------------------------------------------ non-vacuity *)
(* sqlite pool of size 1: get, panic, return, get: connection 0 is rejected, connection 1 is
   created and handed out; observation format of the differential run *)
Example c15_nonvacuous_sqlite :
  run_pool_z ([0; 1; 0; 1], [[0; 0; 0]; [1; 0; 1]; [2; 0; 0]; [0; 0; 0]; [5; 0; 0]; [2; 0; 0]])
  = [7; 0; 0; 1; 1; 0; 0; 0;   7; 1; 2; 1; 1; 0; 0; 0;   7; 2; 0; 0; 1; 1; 0; 0;
     7; 0; 1; 1; 1; 0; 0; 0;   7; 5; 1; 0; 1; 0; 0; 0;   7; 2; 0; 0; 1; 1; 0; 0].
Proof. vm_compute. reflexivity. Qed.

(* r2d2: has_broken => rejected without consulting is_valid (1 has_broken call, 0 is_valid) *)
Example c15_nonvacuous_r2d2 :
  run_pool_z ([1; 1; 0; 1], [[0; 0; 0]; [3; 0; 1]; [2; 0; 0]; [0; 0; 0]])
  = [7; 0; 0; 1; 1; 0; 0; 0;   7; 3; 0; 0; 1; 0; 0; 0;   7; 2; 0; 0; 1; 1; 0; 0;
     7; 0; 1; 1; 1; 0; 1; 0].
Proof. vm_compute. reflexivity. Qed.

(* the hypothesis of c15_never_reissued is reachable: a recycle gate answered by a reject *)
Definition g0 := {| gw := TNone; gc := TNone; gr := TNone |}.
Definition cfg1 := {| max0 := 1; lifo := false; pre := []; post := []; pcr := []; runtime := true |}.
Example c15_nonvacuous_reject :
  exists s o s1,
    run cfg1 (init cfg1) [Start 0 (OpGet g0); Step 0; Step 0; Step 0; Step 0; Env 0 OOk; Step 0;
                          Start 1 (OpDrop 0); Step 1; Step 1; Step 1;
                          Start 2 (OpGet g0); Step 2; Step 2; Step 2; Step 2] = Some s
    /\ pcof s 2 = GRec g0 o SRecycle /\ oid o = 0%nat
    /\ step cfg1 s (Env 2 (recycle_outcome (sqlite_recycle true 0 (Some 0)))) = Some s1.
Proof. eexists. eexists. eexists. vm_compute. repeat split. Qed.

Check c15_never_reissued : forall c tr1 s t g o st s1 tr2 s2,
  run c (init c) tr1 = Some s -> pcof s t = GRec g o st ->
  step c s (Env t OErr) = Some s1 -> run c s1 tr2 = Some s2 ->
  ~ In (oid o) (map oid (vec s2)) /\ ~ In (oid o) (map oid (out s2))
  /\ (forall o' t', In (EHandOut o' t') (log s2) -> oid o' = oid o -> In (EHandOut o' t') (log s1))
  /\ (forall t', w false (oid o) (pcof s2 t') = 0).
Print Assumptions c15_sqlite_accepts_iff.
Print Assumptions c15_r2d2_accepts_iff.
Print Assumptions c15_r2d2_calls.
Print Assumptions c15_diesel_accepts_iff.
Print Assumptions c15_bad_connection_rejected.
Print Assumptions c15_panicked_wrapper_rejected.
Print Assumptions c15_never_reissued.
Print Assumptions c15_identity.
Print Assumptions c15_replaced.
Print Assumptions c15_capacity.
