(* C08 - Reuse order follows the queue mode; creation is lazy; no background work. *)
From Coq Require Import List ZArith Bool.
From DP Require Import Common.Tab Managed.Model Managed.Contrib Managed.All Managed.Others Managed.Order.
Import ListNotations.
Open Scope Z_scope.

(* the idle queue is always ordered by the time the objects became idle, whatever returns (in
   any order), rejected objects, takes, retains, resizes happened before *)
Theorem c08_idle_sorted : forall c s, Reachable c s ->
  ssorted (vec s) /\ (forall y, In y (vec s) -> (since y < clock s)%nat).
Proof. exact reachable_SI. Qed.

(* Fifo: get() offers the idle object that has been idle longest;
   Lifo: the one that was returned most recently *)
Theorem c08_reuse_order : forall c s t g o r,
  Reachable c s -> pcof s t = GPop g -> pop_idle c (vec s) = Some (o, r) ->
  (exists s', step c s (Step t) = Some s' /\ (exists st, pcof s' t = GRec g o st) /\ vec s' = r)
  /\ (if lifo c then forall y, In y r -> (since y < since o)%nat
      else forall y, In y r -> (since o < since y)%nat).
Proof. exact reuse_order. Qed.

(* the manager is asked to create only by a get() that found no idle object to try *)
Theorem c08_lazy_creation : forall c s l s',
  step c s l = Some s' ->
  creates (log s') = creates (log s)
  \/ (creates (log s') = S (creates (log s))
      /\ exists t g, l = Step t /\ pcof s t = GPop g /\ vec s = [] /\ pcof s' t = GCreate g).
Proof. exact create_only_when_empty. Qed.

(* building a pool calls nothing *)
Theorem c08_init_silent : forall c, log (init c) = [] /\ creates (log (init c)) = 0%nat.
Proof. exact init_silent. Qed.

(* nothing happens in the background *)
Theorem c08_no_background : forall c s l s',
  step c s l = Some s' -> log s' <> log s ->
  exists t, (l = Step t \/ exists r, l = Env t r) /\ pcof s t <> PNone.
Proof. exact log_only_in_operations. Qed.

(* non-vacuity: three objects returned in the order 1, 0, 2; Fifo offers 1, Lifo offers 2 *)
Definition g0 := {| gw := TNone; gc := TNone; gr := TNone |}.
Definition cfgf := {| max0 := 3; lifo := false; pre := []; post := []; pcr := []; runtime := false |}.
Definition cfgl := {| max0 := 3; lifo := true; pre := []; post := []; pcr := []; runtime := false |}.
Definition get_new t := [Start t (OpGet g0); Step t; Step t; Step t; Step t; Env t OOk; Step t].
Definition ret t o := [Start t (OpDrop o); Step t; Step t; Step t].
Definition tr8 : list label :=
  get_new 0 ++ get_new 1 ++ get_new 2 ++ ret 3 1 ++ ret 4 0 ++ ret 5 2
  ++ [Start 6 (OpGet g0); Step 6; Step 6; Step 6; Step 6].
Example c08_nonvacuous_fifo :
  exists s g o st, run cfgf (init cfgf) tr8 = Some s /\ pcof s 6 = GRec g o st /\ oid o = 1%nat
                   /\ map oid (vec s) = [0%nat; 2%nat].
Proof. do 4 eexists. vm_compute. repeat split. Qed.
Example c08_nonvacuous_lifo :
  exists s g o st, run cfgl (init cfgl) tr8 = Some s /\ pcof s 6 = GRec g o st /\ oid o = 2%nat
                   /\ map oid (vec s) = [1%nat; 0%nat].
Proof. do 4 eexists. vm_compute. repeat split. Qed.

Check c08_reuse_order : forall c s t g o r,
  Reachable c s -> pcof s t = GPop g -> pop_idle c (vec s) = Some (o, r) ->
  (exists s', step c s (Step t) = Some s' /\ (exists st, pcof s' t = GRec g o st) /\ vec s' = r)
  /\ (if lifo c then forall y, In y r -> (since y < since o)%nat
      else forall y, In y r -> (since o < since y)%nat).
Print Assumptions c08_idle_sorted.
Print Assumptions c08_reuse_order.
Print Assumptions c08_lazy_creation.
Print Assumptions c08_init_silent.
Print Assumptions c08_no_background.
