(* C16 - Postgres pool: health checks, statement cache and cache registry are exact.
   This file only states the theorems (closed by [exact]) and prints their assumptions.
   Model: Mgr/Postgres.v (Manager::recycle, StatementCache, StatementCaches of postgres/src/lib.rs,
   RecyclingMethod::query of postgres/src/config.rs, over a task-level managed pool). The behaviour
   of the server / tokio-postgres is an input: [armq] / [armp] / [armc] script the next Query / Parse /
   connect, [closed] is Client::is_closed(). [ctl x (tl s)] is the timeline of client x, newest
   first: frontend messages [TMsg], hand-outs [THand reused closed], returns to the idle queue
   [TRet], the pool letting go of the client [TGone]. *)
From Coq Require Import List ZArith Bool.
From DP Require Import Mgr.Postgres Mgr.PostgresCache Mgr.PostgresInv Mgr.PostgresC16 Mgr.Registry.
Import ListNotations.
Open Scope Z_scope.

(* ---- recycling ---- *)
(* after the is_closed check each method sends exactly: nothing / Query "" / Query <clean-up script>
   / Query <custom sql> (sql ids 0, 1, custom_sql k: 10+k, and 0 for the empty custom text), whatever the server is scripted to answer *)
Theorem c16_recycle_msgs_per_method : forall cn,
  closed cn = false ->
  snd (fst (recycle MFast cn)) = []
  /\ snd (fst (recycle MVerified cn)) = [MQuery 0]
  /\ snd (fst (recycle MClean cn)) = [MQuery 1]
  /\ forall k, snd (fst (recycle (MCustom k) cn)) = [MQuery (custom_sql k)].
Proof. exact recycle_msgs_exact. Qed.

(* a closed client is rejected and nothing is sent *)
Theorem c16_recycle_closed_rejects : forall m cn,
  closed cn = true -> recycle m cn = (cn, [], false).
Proof. exact recycle_closed. Qed.

(* accepted exactly when not closed and the check (if the method has one) did not fail *)
Theorem c16_recycle_verdict : forall m cn,
  snd (recycle m cn) = true <-> closed cn = false /\ (sql_of m = None \/ armq cn = FNone).
Proof. exact recycle_verdict. Qed.

(* For every history and every client: at every hand-out the client is not closed; a new client has
   no history; a reused client was returned to the idle queue and then received exactly the
   documented check of the configured method, nothing else. *)
Theorem c16_handout_after_exact_check : forall c tr s x,
  run c (init c) tr = Some s -> hand_ok (meth c) (ctl x (tl s)).
Proof. exact c16_timeline. Qed.

(* An idle client that the pool still owns after a get() was either not touched at all, or it was
   not closed, its check (if the method has one) did not fail, it received exactly that check and
   was handed out - so a closed client and a client whose check failed are not owned any more. *)
Theorem c16_failed_check_discards : forall c tr s s' r x,
  run c (init c) tr = Some s -> step c s LGet = Some (s', r) -> In x (idle s) -> owned s' x ->
  (In x (idle s') /\ ctl x (tl s') = ctl x (tl s) /\ getc s' x = getc s x)
  \/ (In x (out s')
      /\ closed (getc s x) = false /\ (sql_of (meth c) = None \/ armq (getc s x) = FNone)
      /\ ctl x (tl s') = THand true false :: map TMsg (rev (check_msgs (meth c))) ++ ctl x (tl s)).
Proof. exact c16_get_touched. Qed.

(* a client the pool has let go of (failed check, closed, taken, retain, shrink, close, surplus) is
   never idle, handed out or in the registry again *)
Theorem c16_let_go_never_again : forall c tr s tr' s' y,
  run c (init c) tr = Some s -> run c s tr' = Some s' ->
  (y < length (conns s))%nat -> ~ owned s y ->
  ~ owned s' y /\ ~ In y (registry s').
Proof. exact c16_never_again. Qed.

(* ---- statement cache ---- *)
(* a hit returns the stored statement, sends nothing, changes nothing *)
Theorem c16_cache_hit : forall cn k v,
  find k (cch cn) = Some v -> prepare1 cn k = (cn, [], Some v).
Proof. exact prepare1_hit. Qed.

(* a miss on an open client sends exactly one Parse for exactly (query, types) on this client;
   if the server accepts it the statement of this very Parse is returned and stored under exactly
   this key, every other key is untouched, size() grows by one; if not, nothing is stored *)
Theorem c16_cache_miss : forall cn k,
  find k (cch cn) = None -> closed cn = false ->
  let '(cn', ms, r) := prepare1 cn k in
  ms = [MParse (nparse cn) k]
  /\ (armp cn = FNone ->
      r = Some (nparse cn) /\ find k (cch cn') = Some (nparse cn)
      /\ (forall k', k' <> k -> find k' (cch cn') = find k' (cch cn))
      /\ ccnt (cch cn') = ccnt (cch cn) + 1 /\ closed cn' = false)
  /\ (armp cn <> FNone -> r = None /\ cch cn' = cch cn).
Proof. exact prepare1_miss. Qed.

(* keys that differ only in their type lists are different keys *)
Theorem c16_cache_types_distinct : forall q t1 t2 v c,
  t1 <> t2 ->
  key_eqb (q, t1) (q, t2) = false /\ find (q, t2) (cinsert (q, t1) v c) = find (q, t2) c.
Proof. exact cache_types_distinct. Qed.

(* in every history, for every client ever created: the map has one entry per key and size()
   (the separately kept counter) is the number of keys *)
Theorem c16_cache_size_is_number_of_keys : forall c tr s cn,
  run c (init c) tr = Some s -> In cn (conns s) ->
  NoDup (keys (cmap (cch cn))) /\ ccnt (cch cn) = Z.of_nat (length (keys (cmap (cch cn)))).
Proof. exact caches_size_keys. Qed.

Theorem c16_cache_clear_remove : forall k k' c,
  find k' (cclear c) = None /\ ccnt (cclear c) = 0
  /\ find k (cremove k c) = None
  /\ (k' <> k -> find k' (cremove k c) = find k' c)
  /\ ccnt (cremove k c) = ccnt c - (match find k c with None => 0 | Some _ => 1 end).
Proof. exact cache_clear_remove. Qed.

(* two prepares of one absent key in flight at once: two Parse, one entry, size() + 1 *)
Theorem c16_cache_concurrent_miss : forall cn k,
  find k (cch cn) = None -> closed cn = false -> armp cn = FNone ->
  let '(cn', ms, r1, r2) := prepare2 cn k in
  ms = [MParse (nparse cn) k; MParse (nparse cn + 1) k]
  /\ r1 = Some (nparse cn) /\ r2 = Some (nparse cn + 1)
  /\ find k (cch cn') = Some (nparse cn + 1)
  /\ ccnt (cch cn') = ccnt (cch cn) + 1.
Proof. exact prepare2_miss. Qed.

(* the Transaction wrappers (transaction, nested transaction, savepoint, build_transaction) use
   the client's own cache: result, cache and all clients are exactly those of the direct call *)
Theorem c16_transaction_wrappers_share_cache : forall c s w x k s' r,
  step c s (LPrepVia w x k) = Some (s', r) ->
  exists s0, step c s (LPrep x k) = Some (s0, r)
    /\ conns s' = conns s0 /\ out s' = out s0 /\ idle s' = idle s0 /\ taken s' = taken s0
    /\ registry s' = registry s0.
Proof. exact via_is_direct. Qed.

(* ---- registry ---- *)
(* Composed statement with the pool's detach discipline as an explicit hypothesis: [grun ginit h =
   Some g] says history h obeys it (a client is let go of only while owned; Manager::detach is
   called only for a client that was let go of, at most once - property C09 of the managed pool),
   [gpend g = []] says every such call has been made (exactly once). Then the registry computed by
   StatementCaches' own attach / detach code holds exactly the clients the pool owns. *)
Theorem c16_registry_exact : forall h g,
  grun ginit h = Some g -> gpend g = [] -> forall x, In x (greg g) <-> In x (gown g).
Proof. exact registry_exact. Qed.

(* while detach calls are outstanding: registry = owned + let go of but not yet detached *)
Theorem c16_registry_owned_or_pending : forall h g x,
  grun ginit h = Some g -> (In x (greg g) <-> In x (gown g) \/ In x (gpend g)).
Proof. exact registry_owned_or_pending. Qed.

Theorem c16_registry_never_again : forall h g h' g' x,
  grun ginit h = Some g -> grun g h' = Some g' ->
  In x (gseen g) -> ~ In x (gown g) -> ~ In x (gpend g) -> ~ In x (greg g').
Proof. exact registry_never_again. Qed.

(* the executable model (whose task-level pool obeys the discipline by construction), every
   history: the registry lists, without repetition, exactly the idle and checked-out clients *)
Theorem c16_registry_model : forall c tr s,
  run c (init c) tr = Some s ->
  NoDup (registry s) /\ forall x, In x (registry s) <-> owned s x.
Proof. exact registry_model_owned. Qed.

(* statement_caches.clear() / remove() = f applied to the cache of every owned client and to no
   other client (taken, discarded, released) *)
Theorem c16_registry_reach : forall c tr s f x,
  run c (init c) tr = Some s -> (x < length (conns s))%nat ->
  (owned s x -> cch (getc (reg_apply f s) x) = f (cch (getc s x)))
  /\ (~ owned s x -> getc (reg_apply f s) x = getc s x).
Proof. exact reg_apply_reach. Qed.

(* ---- non-vacuity ---- *)
Definition cv := {| max0 := 2; meth := MVerified; lifo := false |}.
Definition kq (t : list Z) : key := (1, t).

(* keys differing only in types; a hit; a reuse with the Verified check *)
Example c16_nonvacuous_cache :
  exists s, run cv (init cv) [LGet; LPrep 0 (kq [23]); LPrep 0 (kq [25]); LPrep 0 (kq [23]); LRet 0; LGet] = Some s
    /\ ctl 0 (tl s) = [THand true false; TMsg (MQuery 0); TRet; TMsg (MParse 1 (kq [25]));
                       TMsg (MParse 0 (kq [23])); THand false false]
    /\ ccnt (cch (getc s 0)) = 2 /\ registry s = [0%nat].
Proof. eexists. vm_compute. repeat split. Qed.

(* the server hung up on an idle client: it is discarded without a message, a new one is created;
   a failing check (Clean) discards as well *)
Example c16_nonvacuous_closed :
  exists s, run cv (init cv) [LGet; LRet 0; LKill 0; LGet; LRet 1; LArmQ 1 FErr; LGet] = Some s
    /\ ctl 0 (tl s) = [TGone; TRet; THand false false]
    /\ ctl 1 (tl s) = [TGone; TMsg (MQuery 0); TRet; THand false false]
    /\ out s = [2%nat] /\ idle s = [] /\ registry s = [2%nat] /\ size s = 1.
Proof. eexists. vm_compute. repeat split. Qed.

(* the registry does not reach a taken client, nor one released by a shrink *)
Example c16_nonvacuous_registry :
  exists s, run cv (init cv) [LGet; LGet; LPrep 0 (kq []); LPrep 1 (kq []); LTake 0; LRet 1;
                             LResize 0; LRClear] = Some s
    /\ ccnt (cch (getc s 0)) = 1 /\ ccnt (cch (getc s 1)) = 1 /\ registry s = [] /\ taken s = [0%nat].
Proof. eexists. vm_compute. repeat split. Qed.

Example c16_nonvacuous_discipline :
  exists g, grun ginit [PCreate 0; PCreate 1; PLetGo 0; PCreate 2; PDetach 0; PLetGo 2; PDetach 2] = Some g
    /\ gpend g = [] /\ greg g = [1%nat] /\ gown g = [1%nat].
Proof. eexists. vm_compute. repeat split. Qed.

(* detach called twice, or for a client the pool still owns, is not a disciplined history *)
Example c16_discipline_rejects :
  grun ginit [PCreate 0; PDetach 0] = None /\ grun ginit [PCreate 0; PLetGo 0; PDetach 0; PDetach 0] = None.
Proof. vm_compute. split; reflexivity. Qed.

Check c16_handout_after_exact_check : forall c tr s x,
  run c (init c) tr = Some s -> hand_ok (meth c) (ctl x (tl s)).
Print Assumptions c16_recycle_msgs_per_method.
Print Assumptions c16_recycle_closed_rejects.
Print Assumptions c16_recycle_verdict.
Print Assumptions c16_handout_after_exact_check.
Print Assumptions c16_failed_check_discards.
Print Assumptions c16_let_go_never_again.
Print Assumptions c16_cache_hit.
Print Assumptions c16_cache_miss.
Print Assumptions c16_cache_types_distinct.
Print Assumptions c16_cache_size_is_number_of_keys.
Print Assumptions c16_cache_clear_remove.
Print Assumptions c16_cache_concurrent_miss.
Print Assumptions c16_registry_exact.
Print Assumptions c16_registry_owned_or_pending.
Print Assumptions c16_registry_never_again.
Print Assumptions c16_registry_model.
Print Assumptions c16_registry_reach.
Print Assumptions c16_transaction_wrappers_share_cache.
