(* C06 - close() is prompt, final and leaves nothing behind. *)
From Coq Require Import List ZArith Bool.
From DP Require Import Common.Tab Managed.Model Managed.Contrib Managed.All Managed.Ops Managed.Ops2
  Managed.Thms.
Import ListNotations.
Open Scope Z_scope.

(* is_closed() stays true *)
Theorem c06_sticky : forall c s l s', step c s l = Some s' -> closed s = true -> closed s' = true.
Proof. exact t_closed_sticky. Qed.

(* a closed pool reports max_size 0 and keeps no idle object - at every reachable state, that
   is under every thread-level interleaving of close with returns, takes, resize, retain, gets *)
Theorem c06_closed_empty : forall c s, Reachable c s -> alive s = true -> closed s = true ->
  maxs s = 0 /\ vec s = [].
Proof. exact t_closed_empty. Qed.

(* waiting callers fail with Closed at their next poll *)
Theorem c06_waiters : forall c s t g a, pcof s t = GWait g a -> closed s = true ->
  exists s', step c s (Step t) = Some s' /\ pcof s' t = UUsers RClosed
             /\ unwind_len (pcof s' t) = Some (1%nat, RClosed).
Proof. exact waiter_closed. Qed.

(* later callers, blocking or not: the acquire attempt ends in Closed (or NoRuntimeSpecified
   for a finite wait timeout without runtime), never in a permit *)
Theorem c06_later : forall c s t g, closed s = true ->
  pcof (acquire c s t g) t = UUsers RClosed \/ pcof (acquire c s t g) t = UUsers RNoRuntime.
Proof. exact acquire_closed_pc. Qed.

(* no step on a closed pool lets a caller pass the semaphore: whoever holds a permit inside
   get() held it before *)
Theorem c06_no_grant : forall c s l s' t0, Reachable c s -> step c s l = Some s' -> closed s = true ->
  granted (pcof s' t0) = true -> granted (pcof s t0) = true.
Proof. exact t_no_grant_when_closed. Qed.

(* resize() on a closed pool has no effect *)
Theorem c06_resize_noop : forall c s t n, pcof s t = OResizeL n -> closed s = true ->
  step c s (Step t) = Some (tick (setpc s t (PDone RUnit))).
Proof. exact resize_closed. Qed.

(* an object returned afterwards is discarded, not kept *)
Theorem c06_return_after : forall c s t o, Reachable c s -> alive s = true -> closed s = true ->
  pcof s t = RLock o ->
  step c s (Step t) = Some (tick (setpc (set_size s (size s - 1)) t (RSurplus o))).
Proof. exact t_return_after_close. Qed.

(* objects that outlive every pool handle are simply destroyed / handed over *)
Theorem c06_orphan_drop : forall c s t o, pcof s t = RStart o -> alive s = false ->
  step c s (Step t) = Some (tick (setpc (emit s (EDestroy (oid o) t)) t (PDone RUnit))).
Proof. exact orphan_drop. Qed.

Theorem c06_orphan_take : forall c s t o, pcof s t = TStart o -> alive s = false ->
  step c s (Step t) = Some (tick (setpc (emit s (ERemoved (oid o) t)) t (PDone RUnit))).
Proof. exact orphan_take. Qed.

(* non-vacuity: max_size 1, one object out, one caller waiting, one idle object is impossible
   here, so: object 0 out, t1 waits, close; t1 gets Closed; the object comes back and is
   destroyed; a later non-blocking and a later blocking get both fail with Closed *)
Definition g0 := {| gw := TNone; gc := TNone; gr := TNone |}.
Definition gnb := {| gw := TZero; gc := TNone; gr := TNone |}.
Definition cfg1 := {| max0 := 1; lifo := false; pre := []; post := []; pcr := []; runtime := false |}.
Definition tr_close : list label :=
  [Start 0 (OpGet g0); Step 0; Step 0; Step 0; Step 0; Env 0 OOk; Step 0;
   Start 1 (OpGet g0); Step 1; Step 1;
   Start 2 OpClose; Step 2; Step 2;
   Step 1; Step 1;
   Start 3 (OpDrop 0); Step 3; Step 3; Step 3; Step 3;
   Start 4 (OpGet gnb); Step 4; Step 4; Step 4;
   Start 5 (OpGet g0); Step 5; Step 5; Step 5;
   Start 6 (OpResize 3); Step 6; Step 6].
Example c06_nonvacuous :
  exists s, run cfg1 (init cfg1) tr_close = Some s /\ closed s = true /\ maxs s = 0 /\ vec s = []
            /\ pcof s 1 = PDone RClosed /\ pcof s 4 = PDone RClosed /\ pcof s 5 = PDone RClosed
            /\ size s = 0 /\ at_rest s.
Proof. eexists. vm_compute. repeat split. Qed.

Check c06_closed_empty : forall c s, Reachable c s -> alive s = true -> closed s = true ->
  maxs s = 0 /\ vec s = [].
Print Assumptions c06_sticky.
Print Assumptions c06_closed_empty.
Print Assumptions c06_waiters.
Print Assumptions c06_later.
Print Assumptions c06_no_grant.
Print Assumptions c06_resize_noop.
Print Assumptions c06_return_after.
Print Assumptions c06_orphan_drop.
Print Assumptions c06_orphan_take.
