(* C12 - Unmanaged pool calls never panic and close() is final.
   This file only states the theorems (closed by [exact]) and prints their assumptions.
   Model: Unmanaged/Model.v (the code after the repairs of D7, D8 and D14); thread level: the three
   steps of close() interleave with every step of every other operation. *)
From Coq Require Import List ZArith Bool Arith.
From DP Require Import Common.Tab Unmanaged.Model Unmanaged.Contrib Unmanaged.InvQ Unmanaged.InvStepQ
  Unmanaged.InvG Unmanaged.InvId Unmanaged.Reach Unmanaged.CloseFinal.
Import ListNotations.
Open Scope Z_scope.

(* the place of the former unwrap(): while the pool is open, a getter that holds a permit
   finds an object in the queue *)
Theorem c12_pop_never_fails_while_open : forall c tr s t w rm,
  run c (init c) tr = Some s -> closed s = false -> pcof s t = GPop w rm -> vec s <> [].
Proof. exact pop_safe. Qed.

(* hence an empty pop, and every Closed answer, only happens on a closed pool *)
Theorem c12_closed_answer_truthful : forall c tr s t,
  run c (init c) tr = Some s ->
  (exists w rm, pcof s t = GPopped w rm None) \/ pcof s t = PDone RClosed \/ pcof s t = UAvail RClosed ->
  closed s = true.
Proof. exact closed_truthful. Qed.

(* no counter wraps around *)
Theorem c12_no_underflow : forall c tr s,
  run c (init c) tr = Some s -> 0 <= permits s /\ 0 <= spermits s /\ 0 <= size s.
Proof. exact no_underflow. Qed.

(* every operation in progress has a next step: the model contains no state in which the code
   would be stuck or would have to panic; all results are Ok / Timeout / Closed /
   NoRuntimeSpecified (see [res]) *)
Theorem c12_progress : forall c s t,
  pcof s t <> PNone -> (forall r, pcof s t <> PDone r) -> exists s', step c s (Step t) = Some s'.
Proof. exact progress. Qed.

(* closing is final *)
Theorem c12_close_sticky : forall c s l s',
  step c s l = Some s' -> (closed s = true -> closed s' = true) /\ (sclosed s = true -> sclosed s' = true).
Proof. exact closed_sticky. Qed.

(* once close() has returned both semaphores are closed (for good, by the previous theorem) *)
Theorem c12_close_done : forall c tr s t,
  run c (init c) tr = Some s -> In (ECloseDone t) (log s) -> closed s = true /\ sclosed s = true.
Proof. exact close_done. Qed.

(* on a closed pool every acquire attempt - first, non-blocking or of a parked getter -
   answers Closed (a finite timeout without a runtime answers NoRuntimeSpecified before it
   looks at the pool) *)
Theorem c12_after_close_get : forall c s t,
  closed s = true ->
  (forall rm, pcof s t = GStart KTry rm -> step c s (Step t) = Some (setpc s t (PDone RClosed)))
  /\ (forall rm, pcof s t = GAcq TNone rm -> step c s (Step t) = Some (setpc s t (UAvail RClosed)))
  /\ (forall rm, pcof s t = GAcq TZero rm -> step c s (Step t) = Some (setpc s t (UAvail RClosed)))
  /\ (forall rm a, pcof s t = GWait rm a ->
        exists s', step c s (Step t) = Some s' /\ pcof s' t = UAvail RClosed)
  /\ (forall r, pcof s t = UAvail r ->
        exists s', step c s (Step t) = Some s' /\ pcof s' t = PDone r).
Proof. exact after_close_get. Qed.

(* ... and add / try_add - new, parked, or already past the size semaphore - hand the object
   back with Closed and leave the queue alone *)
Theorem c12_after_close_add : forall c s t o,
  (forall b, sclosed s = true -> pcof s t = AStart o b ->
     exists s', step c s (Step t) = Some s' /\ pcof s' t = PDone RClosed /\ In o (loose s') /\ vec s' = vec s)
  /\ (forall a, sclosed s = true -> pcof s t = AWait o a ->
     exists s', step c s (Step t) = Some s' /\ pcof s' t = PDone RClosed /\ In o (loose s') /\ vec s' = vec s)
  /\ (closed s = true -> pcof s t = APush o ->
     exists s', step c s (Step t) = Some s' /\ pcof s' t = PDone RClosed /\ In o (loose s') /\ vec s' = vec s).
Proof. exact after_close_add. Qed.

(* a closed pool holds no objects once nobody is on the way to clear it; in particular at rest *)
Theorem c12_closed_empty : forall c tr s,
  run c (init c) tr = Some s -> closed s = true -> sum cl (tasks s) = 0 -> vec s = [].
Proof. exact closed_empty. Qed.

Theorem c12_closed_rest_empty : forall c tr s,
  run c (init c) tr = Some s -> closed s = true -> at_rest s -> vec s = [].
Proof. exact closed_rest_empty. Qed.

(* an object returned to a closed pool is destroyed by the returning thread, in the one step of
   Object::drop (its lock region): it is never queued, so no caller can be handed it *)
Theorem c12_returned_destroyed : forall c s t o,
  closed s = true -> pcof s t = DStart o ->
  exists s', step c s (Step t) = Some s'
    /\ In o (dead s') /\ vec s' = vec s /\ size s' = size s - 1 /\ pcof s' t = PDone RUnit.
Proof. exact returned_destroyed. Qed.

(* a closed pool takes no object in: every step of every operation leaves its queue as it is, pops the
   head or clears it (after the repair of D14, Object::drop included) *)
Theorem c12_closed_pool_takes_nothing : forall c s l s',
  closed s = true -> step c s l = Some s' ->
  vec s' = vec s \/ vec s' = tl (vec s) \/ vec s' = [].
Proof. exact closed_vec. Qed.

(* once close() has returned the pool holds no objects - in every later state of every history, whatever
   is returned, added or popped afterwards and however the threads interleave ("the pool holds no
   objects, objects returned later are dropped") *)
Theorem c12_after_close_empty : forall c tr s u,
  run c (init c) tr = Some s -> In (ECloseDone u) (log s) -> vec s = [].
Proof. exact after_close_empty. Qed.

(* so even a caller that obtained its permit before the close and pops after close() has returned is
   handed nothing: its pop comes back empty (and it answers Closed, c12_closed_answer_truthful) *)
Theorem c12_late_pop_finds_nothing : forall c tr s t w rm u,
  run c (init c) tr = Some s -> In (ECloseDone u) (log s) -> pcof s t = GPop w rm ->
  step c s (Step t) = Some (setpc s t (GPopped w rm None)).
Proof. exact late_pop_closed. Qed.

(* ------------------------------------------------------------------ non-vacuity *)
Definition cfg_iter1 := {| how := CIter; max0 := 1; ptmo := TNone; rt := false |}.
Definition cfg_new1 := {| how := CNew; max0 := 1; ptmo := TNone; rt := false |}.

(* the history of D7: try_get holds the permit, close() runs completely, try_get continues:
   Closed, no panic; the object was destroyed by close() *)
Definition tr_d7a : list label :=
  [Start 0 (OpGet STry false); Step 0; Start 1 OpClose; Step 1; Step 1; Step 1; Step 0; Step 0].
Example c12_nonvacuous_d7a :
  exists s, run cfg_iter1 (init cfg_iter1) tr_d7a = Some s
    /\ pcof s 0 = PDone RClosed /\ pcof s 1 = PDone RUnit /\ dead s = [0%nat] /\ vec s = []
    /\ closed s = true /\ sclosed s = true /\ at_rest s.
Proof. eexists. vm_compute. repeat split. Qed.

(* the same history one step earlier: the pop after the permit came back empty - the state in
   which the code before the repair called unwrap() on None and panicked (finding D7) *)
Definition tr_d7a_pop : list label :=
  [Start 0 (OpGet STry false); Step 0; Start 1 OpClose; Step 1; Step 1; Step 1; Step 0].
Example c12_d7_empty_pop_reachable :
  exists s, run cfg_iter1 (init cfg_iter1) tr_d7a_pop = Some s
    /\ pcof s 0 = GPopped false false None /\ closed s = true.
Proof. eexists. vm_compute. repeat split. Qed.

(* try_add past the size semaphore, close() runs completely, _add continues: handed back *)
Definition tr_d7b : list label :=
  [Start 0 (OpAdd 0 false); Step 0; Start 1 OpClose; Step 1; Step 1; Step 1; Step 0].
Example c12_nonvacuous_d7b :
  exists s, run cfg_new1 (init cfg_new1) tr_d7b = Some s
    /\ pcof s 0 = PDone RClosed /\ loose s = [0%nat] /\ vec s = [] /\ size s = 0 /\ at_rest s.
Proof. eexists. vm_compute. repeat split. Qed.

(* a parked get() and a parked add() are woken by close() and answer Closed *)
Definition tr_parked : list label :=
  [Start 0 (OpGet SGet false); Step 0; Step 0;
   Start 1 OpClose; Step 1; Step 1; Step 1; Step 0; Step 0].
Example c12_nonvacuous_parked :
  exists s, run cfg_new1 (init cfg_new1) tr_parked = Some s /\ pcof s 0 = PDone RClosed /\ avail s = 0.
Proof. eexists. vm_compute. repeat split. Qed.

(* the history of D14: task 1 (try_get) holds a permit from before the close and has not popped; close()
   runs completely; object 1, checked out all the time, is returned afterwards; task 1 continues: its pop
   finds nothing, it answers Closed; both objects are destroyed (0 by close(), 1 by the returning
   thread), nothing is queued or handed out *)
Definition cfg_iter2 := {| how := CIter; max0 := 2; ptmo := TNone; rt := false |}.
Definition tr_d14 : list label :=
  [Start 0 (OpGet STry false); Step 0; Step 0; Step 0;
   Start 1 (OpGet STry false); Step 1;
   Start 2 OpClose; Step 2; Step 2; Step 2;
   Start 3 (OpDrop 1); Step 3;
   Step 1; Step 1].
Example c12_nonvacuous_d14 :
  exists s, run cfg_iter2 (init cfg_iter2) tr_d14 = Some s
    /\ In (ECloseDone 2) (log s) /\ pcof s 1 = PDone RClosed /\ pcof s 3 = PDone RUnit
    /\ vec s = [] /\ out s = [] /\ loose s = [] /\ size s = 0 /\ at_rest s.
Proof. eexists. vm_compute. repeat split. auto 10. Qed.

Check c12_pop_never_fails_while_open : forall c tr s t w rm,
  run c (init c) tr = Some s -> closed s = false -> pcof s t = GPop w rm -> vec s <> [].
Print Assumptions c12_pop_never_fails_while_open.
Print Assumptions c12_closed_answer_truthful.
Print Assumptions c12_no_underflow.
Print Assumptions c12_progress.
Print Assumptions c12_close_sticky.
Print Assumptions c12_close_done.
Print Assumptions c12_after_close_get.
Print Assumptions c12_after_close_add.
Print Assumptions c12_closed_empty.
Print Assumptions c12_closed_rest_empty.
Print Assumptions c12_returned_destroyed.
Print Assumptions c12_closed_pool_takes_nothing.
Print Assumptions c12_after_close_empty.
Print Assumptions c12_late_pop_finds_nothing.
