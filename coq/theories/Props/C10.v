(* C10 - Timeouts, non-blocking mode and missing runtimes behave as documented: the managed
   pool's three timeouts first, the unmanaged pool's single timeout (theorems c10_u_...) second. *)
From Coq Require Import List ZArith Bool.
From DP Require Import Common.Tab Managed.Model Managed.Contrib Managed.All Managed.InvQ Managed.Ops
  Managed.Ops2 Managed.Protocol Managed.Timeouts Managed.Macro.
From DP Require Unmanaged.Model Unmanaged.InvQ Unmanaged.Macro Unmanaged.Timeouts.
Import ListNotations.
Open Scope Z_scope.
Module UM := DP.Unmanaged.Model.
Module UT := DP.Unmanaged.Timeouts.

(* zero wait timeout: never waits; a permit, Timeout(Wait) iff none is free, Closed iff closed *)
Theorem c10_zero_wait : forall c s t g,
  gw g = TZero ->
  let p := pcof (acquire c s t g) t in
  (p = GSettle g /\ closed s = false /\ 0 < permits s)
  \/ (p = UUsers RTimeoutWait /\ closed s = false /\ permits s <= 0)
  \/ (p = UUsers RClosed /\ closed s = true).
Proof. exact zero_wait. Qed.

(* a waiter that is assigned a permit before its deadline is polled proceeds with it ... *)
Theorem c10_slot_before_deadline : forall c s t g, pcof s t = GWait g true -> closed s = false ->
  step c s (Step t) = Some (tick (setpc s t (GSettle g))).
Proof. exact woken_proceeds. Qed.

(* ... and once the deadline has passed without one the call fails with Timeout(Wait), leaving
   the queue (an assigned but unused permit is passed on) *)
Theorem c10_wait_deadline : forall c s t g a,
  runtime c = true -> pcof s t = GWait g a -> gw g = TFin ->
  step c s (Fire t) = Some (tick (setpc (leave_wait s t a) t (UUsers RTimeoutWait))).
Proof. exact wait_deadline. Qed.

Theorem c10_wait_deadline_leaves_queue : forall s t g a,
  GQ s -> pcof s t = GWait g a ->
  ~ In t (queue (setpc (leave_wait s t a) t (UUsers RTimeoutWait))).
Proof. exact wait_deadline_leaves_queue. Qed.

(* create timeout: Timeout(Create) and the slot is released by the undo chain *)
Theorem c10_create_deadline : forall c s t g,
  runtime c = true -> pcof s t = GCreate g -> timed (gc g) = true ->
  exists s1, step c s (Fire t) = Some s1 /\ pcof s1 t = UPermit RTimeoutCreate
    /\ unwind_len (pcof s1 t) = Some (2%nat, RTimeoutCreate)
    /\ vec s1 = vec s /\ size s1 = size s /\ out s1 = out s /\ log s1 = log s.
Proof. exact create_deadline. Qed.

(* recycle timeout: counts as a rejected object, the get moves on *)
Theorem c10_recycle_deadline : forall c s t g o,
  runtime c = true -> pcof s t = GRec g o SRecycle -> timed (gr g) = true ->
  step c s (Fire t) = Some (tick (setpc s t (UUnready g o CLoop))).
Proof. exact recycle_deadline. Qed.

(* Timeout(Recycle) is never returned *)
Theorem c10_never_timeout_recycle : forall c s t,
  Reachable c s -> carries (pcof s t) <> Some RTimeoutRecycle.
Proof. exact never_timeout_recycle. Qed.

(* without a runtime there are no timers; each kind of timeout yields NoRuntimeSpecified
   instead of hanging, panicking or silently discarding objects *)
Theorem c10_no_runtime_no_timer : forall c s t, runtime c = false -> step c s (Fire t) = None.
Proof. exact no_runtime_no_timer. Qed.

Theorem c10_no_runtime_recycle : forall c s t g,
  runtime c = false -> pcof s t = GStart g -> gr g <> TNone ->
  step c s (Step t) = Some (tick (setpc s t (PDone RNoRuntime))).
Proof. exact no_runtime_recycle. Qed.

Theorem c10_no_runtime_wait : forall c s t g,
  runtime c = false -> gw g = TFin -> acquire c s t g = setpc s t (UUsers RNoRuntime).
Proof. exact no_runtime_wait. Qed.

Theorem c10_no_runtime_create : forall c s t g,
  runtime c = false -> pcof s t = GPop g -> vec s = [] -> gc g <> TNone ->
  step c s (Step t) = Some (tick (setpc s t (UPermit RNoRuntime))).
Proof. exact no_runtime_create. Qed.

(* build(): an error exactly when a pool-level timeout is configured without a runtime *)
Theorem c10_build : forall tw tc tr rt,
  build_err tw tc tr rt = true <-> ((tw <> TNone \/ tc <> TNone \/ tr <> TNone) /\ rt = false).
Proof. exact build_rule. Qed.

(* the task-level (virtual clock) executions used to tie these to the code are executions of
   the thread-level model, so every invariant of C01 - C13 holds along them *)
Theorem c10_macro_is_run : forall c s l s',
  macro c s l = Some s' -> exists tr, run c s (l :: tr) = Some s'.
Proof. exact macro_is_run. Qed.

(* non-vacuity: max_size 1 with a runtime; object out; a second get with finite timeouts waits;
   its deadline passes: Timeout(Wait), users back to 1 *)
Definition g0 := {| gw := TNone; gc := TNone; gr := TNone |}.
Definition gf := {| gw := TFin; gc := TFin; gr := TFin |}.
Definition cfgr := {| max0 := 1; lifo := false; pre := []; post := []; pcr := []; runtime := true |}.
Definition tr10 : list label :=
  [Start 0 (OpGet g0); Step 0; Step 0; Step 0; Step 0; Env 0 OOk; Step 0;
   Start 1 (OpGet gf); Step 1; Step 1; Fire 1; Step 1].
Example c10_nonvacuous :
  exists s, run cfgr (init cfgr) tr10 = Some s /\ pcof s 1 = PDone RTimeoutWait /\ users s = 1
            /\ queue s = [] /\ permits s = 0.
Proof. eexists. vm_compute. repeat split. Qed.

(* ------------------------------------------------------------------ the unmanaged pool *)
(* timeout_get(Some(0)): one step decides and the call never joins the wait queue *)
Theorem c10_u_zero_wait : forall c s t rm,
  UM.pcof s t = UM.GAcq UM.TZero rm ->
  exists s', UM.step c s (UM.Step t) = Some s' /\ UM.queue s' = UM.queue s /\
    ((UM.closed s = true /\ UM.pcof s' t = UM.UAvail UM.RClosed /\ UM.permits s' = UM.permits s)
     \/ (UM.closed s = false /\ 0 < UM.permits s /\ UM.pcof s' t = UM.GPop true rm
         /\ UM.permits s' = UM.permits s - 1)
     \/ (UM.closed s = false /\ UM.permits s <= 0 /\ UM.pcof s' t = UM.UAvail UM.RTimeout
         /\ UM.permits s' = UM.permits s)).
Proof. exact UT.zero_wait. Qed.

Theorem c10_u_try_get : forall c s t rm,
  UM.pcof s t = UM.GStart UM.KTry rm ->
  exists s', UM.step c s (UM.Step t) = Some s' /\ UM.queue s' = UM.queue s /\
    ((UM.closed s = true /\ UM.pcof s' t = UM.PDone UM.RClosed)
     \/ (UM.closed s = false /\ 0 < UM.permits s /\ UM.pcof s' t = UM.GPop false rm)
     \/ (UM.closed s = false /\ UM.permits s <= 0 /\ UM.pcof s' t = UM.PDone UM.RTimeout)).
Proof. exact UT.try_get_decides. Qed.

(* a finite timeout without a runtime: NoRuntimeSpecified, the pool exactly as before *)
Theorem c10_u_no_runtime : forall c s t rm,
  UM.rt c = false -> UM.pcof s t = UM.GStart (UM.KTimed UM.TFin) rm ->
  exists s3, UM.run c s [UM.Step t; UM.Step t; UM.Step t] = Some s3
    /\ UM.pcof s3 t = UM.PDone UM.RNoRuntime
    /\ UT.same_pool s s3 /\ (forall u, u <> t -> UM.pcof s3 u = UM.pcof s u).
Proof. exact UT.no_runtime_get. Qed.

Theorem c10_u_no_runtime_no_timer : forall c s t, UM.rt c = false -> UM.step c s (UM.Fire t) = None.
Proof. exact UT.no_runtime_no_timer. Qed.

(* with a runtime the call waits like a get() without timeout ... *)
Theorem c10_u_timed_get_waits : forall c s t rm,
  UM.rt c = true -> UM.pcof s t = UM.GAcq UM.TFin rm ->
  UM.step c s (UM.Step t)
  = Some (UM.acquire (UM.set_timed s (t :: UM.timed s)) t true rm true).
Proof. exact UT.timed_get_waits. Qed.

(* ... until the deadline: Timeout, the queue is left and the reservation returned, nothing else *)
Theorem c10_u_wait_deadline : forall c s t rm,
  UM.rt c = true -> In t (UM.timed s) -> UM.pcof s t = UM.GWait rm false -> UM.closed s = false ->
  exists s1 s2, UM.step c s (UM.Fire t) = Some s1 /\ UM.step c s1 (UM.Step t) = Some s2
    /\ UM.pcof s2 t = UM.PDone UM.RTimeout
    /\ UM.permits s2 = UM.permits s /\ UM.closed s2 = UM.closed s
    /\ UM.queue s2 = UM.remove_nat t (UM.queue s)
    /\ UM.spermits s2 = UM.spermits s /\ UM.sclosed s2 = UM.sclosed s /\ UM.squeue s2 = UM.squeue s
    /\ UM.vec s2 = UM.vec s /\ UM.size s2 = UM.size s /\ UM.avail s2 = UM.avail s + 1
    /\ UM.out s2 = UM.out s /\ UM.loose s2 = UM.loose s /\ UM.dead s2 = UM.dead s
    /\ UM.gone s2 = UM.gone s /\ UM.next_oid s2 = UM.next_oid s /\ UM.log s2 = UM.log s
    /\ (forall u, u <> t -> UM.pcof s2 u = UM.pcof s u).
Proof. exact UT.wait_deadline. Qed.

Theorem c10_u_wait_deadline_leaves_queue : forall s t,
  DP.Unmanaged.InvQ.GQ s -> ~ In t (UM.remove_nat t (UM.queue s)).
Proof. exact UT.wait_deadline_leaves_queue. Qed.

(* a permit assigned before the call is polled wins even after the deadline *)
Theorem c10_u_slot_before_deadline : forall c s t rm,
  UM.rt c = true -> In t (UM.timed s) -> UM.pcof s t = UM.GWait rm true -> UM.closed s = false ->
  UM.step c s (UM.Fire t) = Some (UM.setpc s t (UM.GPop true rm)).
Proof. exact UT.slot_before_deadline. Qed.

(* timers exist only for calls given a finite timeout on a pool with a runtime *)
Theorem c10_u_timers_need_runtime : forall c s t,
  UM.Reachable c s -> In t (UM.timed s) -> UM.rt c = true.
Proof. exact UT.reachable_timers_need_runtime. Qed.

(* Timeout is answered in no other situation: a call that does not wait finds nothing free
   (get family / try_add), or the deadline of a waiting timed call passes *)
Theorem c10_u_timeout_cause : forall c s l s' u,
  UM.step c s l = Some s' -> UT.ct (UM.pcof s u) = false -> UT.ct (UM.pcof s' u) = true ->
  (l = UM.Step u /\ UM.closed s = false /\ UM.permits s <= 0
     /\ exists rm, UM.pcof s u = UM.GStart UM.KTry rm \/ UM.pcof s u = UM.GAcq UM.TZero rm)
  \/ (l = UM.Step u /\ UM.sclosed s = false /\ UM.spermits s <= 0
      /\ exists o, UM.pcof s u = UM.AStart o false)
  \/ (l = UM.Fire u /\ UM.rt c = true /\ In u (UM.timed s) /\ UM.closed s = false
      /\ exists rm, UM.pcof s u = UM.GWait rm false).
Proof. exact UT.timeout_cause. Qed.

(* task-level (virtual clock) executions of the unmanaged model are thread-level executions *)
Theorem c10_u_macro_is_run : forall c s l s',
  DP.Unmanaged.Macro.macro c s l = Some s' -> exists tr, UM.run c s (l :: tr) = Some s'.
Proof. exact DP.Unmanaged.Macro.macro_is_run. Qed.

(* non-vacuity: from_config(max_size 1, runtime); timeout_get(finite) on the empty pool waits,
   the deadline passes: Timeout, available back to 0, queue empty *)
Definition ucfg := {| UM.how := UM.CConfig; UM.max0 := 1; UM.ptmo := UM.TNone; UM.rt := true |}.
Definition utr : list UM.label :=
  [UM.Start 0 (UM.OpGet (UM.STimeout UM.TFin) false); UM.Step 0; UM.Step 0; UM.Fire 0; UM.Step 0].
Example c10_u_nonvacuous :
  exists s, UM.run ucfg (UM.init ucfg) utr = Some s /\ UM.pcof s 0 = UM.PDone UM.RTimeout
            /\ UM.avail s = 0 /\ UM.queue s = [] /\ UM.timed s = [0%nat].
Proof. eexists. vm_compute. repeat split. Qed.

Check c10_wait_deadline : forall c s t g a,
  runtime c = true -> pcof s t = GWait g a -> gw g = TFin ->
  step c s (Fire t) = Some (tick (setpc (leave_wait s t a) t (UUsers RTimeoutWait))).
Print Assumptions c10_zero_wait.
Print Assumptions c10_slot_before_deadline.
Print Assumptions c10_wait_deadline.
Print Assumptions c10_wait_deadline_leaves_queue.
Print Assumptions c10_create_deadline.
Print Assumptions c10_recycle_deadline.
Print Assumptions c10_never_timeout_recycle.
Print Assumptions c10_no_runtime_no_timer.
Print Assumptions c10_no_runtime_recycle.
Print Assumptions c10_no_runtime_wait.
Print Assumptions c10_no_runtime_create.
Print Assumptions c10_build.
Print Assumptions c10_macro_is_run.
Print Assumptions c10_u_zero_wait.
Print Assumptions c10_u_try_get.
Print Assumptions c10_u_no_runtime.
Print Assumptions c10_u_no_runtime_no_timer.
Print Assumptions c10_u_timed_get_waits.
Print Assumptions c10_u_wait_deadline.
Print Assumptions c10_u_wait_deadline_leaves_queue.
Print Assumptions c10_u_slot_before_deadline.
Print Assumptions c10_u_timers_need_runtime.
Print Assumptions c10_u_timeout_cause.
Print Assumptions c10_u_macro_is_run.
