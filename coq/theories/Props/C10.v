(* C10 - Timeouts, non-blocking mode and missing runtimes behave as documented (managed pool;
   the unmanaged pool's single timeout is covered by the unmanaged engine). *)
From Coq Require Import List ZArith Bool.
From DP Require Import Common.Tab Managed.Model Managed.Contrib Managed.All Managed.InvQ Managed.Ops
  Managed.Ops2 Managed.Protocol Managed.Timeouts Managed.Macro.
Import ListNotations.
Open Scope Z_scope.

(* zero wait timeout: never waits; a permit, Timeout(Wait) iff none is free, Closed iff closed *)
Theorem c10_zero_wait : forall c s t g,
  gw g = TZero ->
  let p := pcof (acquire c s t g) t in
  (p = GSettle g /\ closed s = false /\ 0 < permits s)
  \/ (p = UUsers RTimeoutWait /\ closed s = false /\ permits s <= 0)
  \/ (p = UUsers RClosed /\ closed s = true).
Proof. exact zero_wait. Qed.

(* a waiter that is assigned a permit before its deadline is polled proceeds with it ... *)
Theorem c10_slot_before_deadline : forall c s t g, pcof s t = GWait g true -> closed s = false ->
  step c s (Step t) = Some (tick (setpc s t (GSettle g))).
Proof. exact woken_proceeds. Qed.

(* ... and once the deadline has passed without one the call fails with Timeout(Wait), leaving
   the queue (an assigned but unused permit is passed on) *)
Theorem c10_wait_deadline : forall c s t g a,
  runtime c = true -> pcof s t = GWait g a -> gw g = TFin ->
  step c s (Fire t) = Some (tick (setpc (leave_wait s t a) t (UUsers RTimeoutWait))).
Proof. exact wait_deadline. Qed.

Theorem c10_wait_deadline_leaves_queue : forall s t g a,
  GQ s -> pcof s t = GWait g a ->
  ~ In t (queue (setpc (leave_wait s t a) t (UUsers RTimeoutWait))).
Proof. exact wait_deadline_leaves_queue. Qed.

(* create timeout: Timeout(Create) and the slot is released by the undo chain *)
Theorem c10_create_deadline : forall c s t g,
  runtime c = true -> pcof s t = GCreate g -> timed (gc g) = true ->
  exists s1, step c s (Fire t) = Some s1 /\ pcof s1 t = UPermit RTimeoutCreate
    /\ unwind_len (pcof s1 t) = Some (2%nat, RTimeoutCreate)
    /\ vec s1 = vec s /\ size s1 = size s /\ out s1 = out s /\ log s1 = log s.
Proof. exact create_deadline. Qed.

(* recycle timeout: counts as a rejected object, the get moves on *)
Theorem c10_recycle_deadline : forall c s t g o,
  runtime c = true -> pcof s t = GRec g o SRecycle -> timed (gr g) = true ->
  step c s (Fire t) = Some (tick (setpc s t (UUnready g o CLoop))).
Proof. exact recycle_deadline. Qed.

(* Timeout(Recycle) is never returned *)
Theorem c10_never_timeout_recycle : forall c s t,
  Reachable c s -> carries (pcof s t) <> Some RTimeoutRecycle.
Proof. exact never_timeout_recycle. Qed.

(* without a runtime there are no timers; each kind of timeout yields NoRuntimeSpecified
   instead of hanging, panicking or silently discarding objects *)
Theorem c10_no_runtime_no_timer : forall c s t, runtime c = false -> step c s (Fire t) = None.
Proof. exact no_runtime_no_timer. Qed.

Theorem c10_no_runtime_recycle : forall c s t g,
  runtime c = false -> pcof s t = GStart g -> gr g <> TNone ->
  step c s (Step t) = Some (tick (setpc s t (PDone RNoRuntime))).
Proof. exact no_runtime_recycle. Qed.

Theorem c10_no_runtime_wait : forall c s t g,
  runtime c = false -> gw g = TFin -> acquire c s t g = setpc s t (UUsers RNoRuntime).
Proof. exact no_runtime_wait. Qed.

Theorem c10_no_runtime_create : forall c s t g,
  runtime c = false -> pcof s t = GPop g -> vec s = [] -> gc g <> TNone ->
  step c s (Step t) = Some (tick (setpc s t (UPermit RNoRuntime))).
Proof. exact no_runtime_create. Qed.

(* build(): an error exactly when a pool-level timeout is configured without a runtime *)
Theorem c10_build : forall tw tc tr rt,
  build_err tw tc tr rt = true <-> ((tw <> TNone \/ tc <> TNone \/ tr <> TNone) /\ rt = false).
Proof. exact build_rule. Qed.

(* the task-level (virtual clock) executions used to tie these to the code are executions of
   the thread-level model, so every invariant of C01 - C13 holds along them *)
Theorem c10_macro_is_run : forall c s l s',
  macro c s l = Some s' -> exists tr, run c s (l :: tr) = Some s'.
Proof. exact macro_is_run. Qed.

(* non-vacuity: max_size 1 with a runtime; object out; a second get with finite timeouts waits;
   its deadline passes: Timeout(Wait), users back to 1 *)
Definition g0 := {| gw := TNone; gc := TNone; gr := TNone |}.
Definition gf := {| gw := TFin; gc := TFin; gr := TFin |}.
Definition cfgr := {| max0 := 1; lifo := false; pre := []; post := []; pcr := []; runtime := true |}.
Definition tr10 : list label :=
  [Start 0 (OpGet g0); Step 0; Step 0; Step 0; Step 0; Env 0 OOk; Step 0;
   Start 1 (OpGet gf); Step 1; Step 1; Fire 1; Step 1].
Example c10_nonvacuous :
  exists s, run cfgr (init cfgr) tr10 = Some s /\ pcof s 1 = PDone RTimeoutWait /\ users s = 1
            /\ queue s = [] /\ permits s = 0.
Proof. eexists. vm_compute. repeat split. Qed.

Check c10_wait_deadline : forall c s t g a,
  runtime c = true -> pcof s t = GWait g a -> gw g = TFin ->
  step c s (Fire t) = Some (tick (setpc (leave_wait s t a) t (UUsers RTimeoutWait))).
Print Assumptions c10_zero_wait.
Print Assumptions c10_slot_before_deadline.
Print Assumptions c10_wait_deadline.
Print Assumptions c10_wait_deadline_leaves_queue.
Print Assumptions c10_create_deadline.
Print Assumptions c10_recycle_deadline.
Print Assumptions c10_never_timeout_recycle.
Print Assumptions c10_no_runtime_no_timer.
Print Assumptions c10_no_runtime_recycle.
Print Assumptions c10_no_runtime_wait.
Print Assumptions c10_no_runtime_create.
Print Assumptions c10_build.
Print Assumptions c10_macro_is_run.
