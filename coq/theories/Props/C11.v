(* C11 - status() is exact at rest and never nonsensical. *)
From Coq Require Import List ZArith Bool.
From DP Require Import Common.Tab Managed.Model Managed.Contrib Managed.All Managed.Ops Managed.Ops2
  Managed.Thms Managed.InvCore Managed.Reach Managed.StatusChain.
Import ListNotations.
Open Scope Z_scope.

(* whenever no pool operation is in progress (every task finished or blocked in get()):
   status() = (max_size, idle + checked out, idle, blocked callers) *)
Theorem c11_rest : forall c s, Reachable c s -> alive s = true -> quiescent s ->
  status_event s = EStatus (maxs s) (zlen (vec s) + zlen (out s)) (zlen (vec s)) (sum nwait (tasks s)).
Proof. exact t_status_at_rest. Qed.

(* at every schedule point: size counts exactly the idle, checked-out and in-recycling
   objects (never more than exist), available <= size, waiting <= callers inside get(),
   nothing is negative *)
Theorem c11_plausible : forall c s m z a w, Reachable c s -> alive s = true ->
  status_event s = EStatus m z a w ->
  m = maxs s /\ z = zlen (vec s) + zlen (out s) + sum cs (tasks s)
  /\ a = zlen (vec s) /\ 0 <= a <= z /\ 0 <= w <= sum inget (tasks s) /\ 0 <= m /\ 0 <= z.
Proof. exact t_status_plausible. Qed.

(* size exceeds max_size only as the residue of a shrink: without resize / close it never does *)
Theorem c11_size_le_max : forall c tr s,
  run c (init c) tr = Some s -> no_rc tr = true -> alive s = true -> size s <= Z.of_nat (max0 c).
Proof. exact c01_size. Qed.

(* without resize / close the whole chain holds at every schedule point of every history, in
   progress or at rest: max_size is the configured limit, 0 <= available <= size <= max_size,
   0 <= waiting <= callers inside get() *)
Theorem c11_chain : forall c tr s m z a w,
  run c (init c) tr = Some s -> no_rc tr = true -> alive s = true ->
  status_event s = EStatus m z a w ->
  m = Z.of_nat (max0 c) /\ 0 <= a /\ a <= z /\ z <= m /\ 0 <= w /\ w <= sum inget (tasks s).
Proof. exact status_chain. Qed.

Definition g0 := {| gw := TNone; gc := TNone; gr := TNone |}.
Definition cfg1 := {| max0 := 1; lifo := false; pre := []; post := []; pcr := []; runtime := false |}.
Definition tr_q : list label :=
  [Start 0 (OpGet g0); Step 0; Step 0; Step 0; Step 0; Env 0 OOk; Step 0;
   Start 1 (OpGet g0); Step 1; Step 1; Start 2 (OpGet g0); Step 2; Step 2].
Example c11_nonvacuous :
  exists s, run cfg1 (init cfg1) tr_q = Some s /\ quiescent s /\ status_event s = EStatus 1 1 0 2.
Proof. eexists. vm_compute. repeat split. Qed.

Example c11_chain_nonvacuous : no_rc tr_q = true /\
  exists s, run cfg1 (init cfg1) tr_q = Some s /\ alive s = true /\ status_event s = EStatus 1 1 0 2.
Proof. split; [vm_compute; reflexivity|]. eexists. vm_compute. repeat split. Qed.

Check c11_rest : forall c s, Reachable c s -> alive s = true -> quiescent s ->
  status_event s = EStatus (maxs s) (zlen (vec s) + zlen (out s)) (zlen (vec s)) (sum nwait (tasks s)).
Print Assumptions c11_rest.
Print Assumptions c11_plausible.
Print Assumptions c11_size_le_max.
Check c11_chain : forall c tr s m z a w,
  run c (init c) tr = Some s -> no_rc tr = true -> alive s = true ->
  status_event s = EStatus m z a w ->
  m = Z.of_nat (max0 c) /\ 0 <= a /\ a <= z /\ z <= m /\ 0 <= w /\ w <= sum inget (tasks s).
Print Assumptions c11_chain.
