(* C02 - No capacity is ever lost and no waiting caller is stranded. *)
From Coq Require Import List ZArith Bool.
From DP Require Import Common.Tab Managed.Model Managed.Contrib Managed.All Managed.Ops Managed.Ops2
  Managed.Thms Managed.Probe.
Import ListNotations.
Open Scope Z_scope.

(* conservation, at every reachable state, for every history (faults, cancellations, panics,
   resize, close): permits in the semaphore + permits held inside operations + objects out
   = max_size + debt;  size and users likewise *)
Theorem c02_conservation : forall c s, Reachable c s -> alive s = true ->
  permits s + sum hp (tasks s) + zlen (out s) = maxs s + debt s
  /\ size s = zlen (vec s) + zlen (out s) + sum cs (tasks s)
  /\ users s = sum up (tasks s) + zlen (out s).
Proof. exact t_conservation. Qed.

(* once no operation is in progress and every object is back, the usable capacity
   (free permits minus debt still to be settled) is exactly max_size *)
Theorem c02_rest_capacity : forall c s, Reachable c s -> alive s = true -> at_rest s -> out s = [] ->
  permits s - debt s = maxs s /\ users s = 0 /\ size s = zlen (vec s).
Proof. exact t_rest_capacity. Qed.

Theorem c02_no_underflow : forall c s, Reachable c s -> alive s = true ->
  0 <= permits s /\ 0 <= size s /\ 0 <= users s /\ 0 <= debt s /\ 0 <= maxs s /\ zlen (vec s) <= size s.
Proof. exact t_no_underflow. Qed.

(* a caller only waits while there is no free permit, and only on an open pool *)
Theorem c02_waiter_justified : forall c s t, Reachable c s -> In t (queue s) ->
  permits s = 0 /\ closed s = false /\ exists g, pcof s t = GWait g false.
Proof. exact t_waiter_justified. Qed.

(* every caller that waits without a permit is in the queue the semaphore serves *)
Theorem c02_waiter_queued : forall c s t g, Reachable c s -> closed s = false ->
  pcof s t = GWait g false -> In t (queue s).
Proof. exact t_waiter_queued. Qed.

(* as soon as a permit is released the oldest waiter owns it ... *)
Theorem c02_release_wakes : forall c s w q, Reachable c s -> queue s = w :: q ->
  exists g, pcof s w = GWait g false /\ pcof (sem_add s) w = GWait g true /\ queue (sem_add s) = q
            /\ permits (sem_add s) = permits s.
Proof. exact t_release_wakes. Qed.

(* ... and proceeds at its next poll *)
Theorem c02_woken_proceeds : forall c s t g, pcof s t = GWait g true -> closed s = false ->
  step c s (Step t) = Some (tick (setpc s t (GSettle g))).
Proof. exact woken_proceeds. Qed.

(* close completes every waiter with Closed *)
Theorem c02_close_wakes : forall c s t g a, pcof s t = GWait g a -> closed s = true ->
  exists s', step c s (Step t) = Some s' /\ pcof s' t = UUsers RClosed
             /\ unwind_len (pcof s' t) = Some (1%nat, RClosed).
Proof. exact waiter_closed. Qed.

(* no internal deadlock: whatever the other tasks do, a task that is not at a gate, not
   queued and not finished can always take its next step *)
Theorem c02_progress : forall c s t, runnable (pcof s t) = true -> exists s', step c s (Step t) = Some s'.
Proof. exact t_progress. Qed.

(* a gate always accepts the outcome of the manager / hook *)
Theorem c02_gate_accepts : forall c s t r, at_gate (pcof s t) = true -> exists s', step c s (Env t r) = Some s'.
Proof. exact gate_enabled. Qed.

(* every failure exit reaches its end with the announced result *)
Theorem c02_unwind_terminates : forall c n s t r, unwind_len (pcof s t) = Some (n, r) ->
  exists s', run c s (repeat (Step t) n) = Some s' /\ pcof s' t = PDone r.
Proof. exact t_unwind_terminates. Qed.

(* operational form of "no capacity is ever lost": a pool at rest to which every object has
   been returned or taken hands out max_size objects concurrently again - max_size further
   get() calls, the manager and the hooks answering Ok, all end with an object, whatever the
   history was (failed, timed-out, cancelled, panicking gets, resizes with outstanding debt,
   retains), for any number of hooks and either queue mode *)
Theorem c02_capacity_usable : forall c s,
  Reachable c s -> alive s = true -> closed s = false -> at_rest s -> out s = [] ->
  exists tr s', run c s tr = Some s' /\ Reachable c s'
    /\ zlen (out s') = maxs s /\ maxs s' = maxs s
    /\ (forall i, (i < Z.to_nat (maxs s))%nat -> pcof s' (length (tasks s) + i) = PDone ROk)
    /\ (forall u, (u < length (tasks s))%nat -> pcof s' u = pcof s u).
Proof. exact capacity_usable. Qed.

(* ... and one get() succeeds whenever the usable capacity permits - debt is positive *)
Theorem c02_one_get : forall c s,
  alive s = true -> closed s = false -> 0 <= debt s -> debt s < permits s ->
  exists tr s', run c s tr = Some s' /\ pcof s' (length (tasks s)) = PDone ROk
    /\ zlen (out s') = zlen (out s) + 1
    /\ permits s' = permits s - debt s - 1 /\ debt s' = 0
    /\ closed s' = false /\ alive s' = true /\ maxs s' = maxs s
    /\ (forall u, u <> length (tasks s) -> pcof s' u = pcof s u)
    /\ length (tasks s') = S (length (tasks s)).
Proof. exact one_get. Qed.

(* non-vacuity: the pool_drained scenario - max_size 1, the object is out, a second get waits;
   the return wakes it and it is handed the same object *)
Definition g0 := {| gw := TNone; gc := TNone; gr := TNone |}.
Definition cfg1 := {| max0 := 1; lifo := false; pre := []; post := []; pcr := []; runtime := false |}.
Definition tr_drained : list label :=
  [Start 0 (OpGet g0); Step 0; Step 0; Step 0; Step 0; Env 0 OOk; Step 0;
   Start 1 (OpGet g0); Step 1; Step 1;
   Start 2 (OpDrop 0); Step 2; Step 2; Step 2;
   Step 1; Step 1; Step 1; Env 1 OOk].
Example c02_nonvacuous_wake :
  exists s, run cfg1 (init cfg1) tr_drained = Some s /\ pcof s 1 = PDone ROk
            /\ zlen (out s) = 1 /\ permits s = 0 /\ users s = 1.
Proof. eexists. vm_compute. repeat split. Qed.

(* a failing create, a cancelled waiter and a panicking recycle: afterwards at rest with
   everything returned the capacity is max_size again *)
Definition tr_faults : list label :=
  [Start 0 (OpGet g0); Step 0; Step 0; Step 0; Step 0; Env 0 OErr; Step 0; Step 0;
   Start 1 (OpGet g0); Step 1; Step 1; Step 1; Step 1; Env 1 OOk; Step 1;
   Start 2 (OpGet g0); Step 2; Step 2; Cancel 2; Step 2;
   Start 3 (OpDrop 0); Step 3; Step 3; Step 3;
   Start 4 (OpGet g0); Step 4; Step 4; Step 4; Step 4; Env 4 OPanic; Step 4; Step 4; Step 4; Step 4].
Example c02_nonvacuous_faults :
  exists s, run cfg1 (init cfg1) tr_faults = Some s /\ at_rest s /\ out s = [] /\ alive s = true
            /\ permits s = 1 /\ debt s = 0 /\ users s = 0 /\ size s = 0.
Proof. eexists. vm_compute. repeat split. Qed.

Check c02_rest_capacity : forall c s, Reachable c s -> alive s = true -> at_rest s -> out s = [] ->
  permits s - debt s = maxs s /\ users s = 0 /\ size s = zlen (vec s).
Print Assumptions c02_conservation.
Print Assumptions c02_rest_capacity.
Print Assumptions c02_no_underflow.
Print Assumptions c02_waiter_justified.
Print Assumptions c02_waiter_queued.
Print Assumptions c02_release_wakes.
Print Assumptions c02_woken_proceeds.
Print Assumptions c02_close_wakes.
Print Assumptions c02_progress.
Print Assumptions c02_gate_accepts.
Print Assumptions c02_unwind_terminates.

(* non-vacuity of c02_capacity_usable: max_size 2, both objects out, resize(1) (one permit owed),
   both returned: at rest, nothing out, open - the premises hold with debt still to be settled *)
Definition cfg2 := {| max0 := 2; lifo := false; pre := []; post := []; pcr := []; runtime := false |}.
Definition tr_debt : list label :=
  [Start 0 (OpGet g0); Step 0; Step 0; Step 0; Step 0; Env 0 OOk; Step 0;
   Start 1 (OpGet g0); Step 1; Step 1; Step 1; Step 1; Env 1 OOk; Step 1;
   Start 2 (OpResize 1); Step 2; Step 2;
   Start 3 (OpDrop 0); Step 3; Step 3; Step 3; Step 3;
   Start 4 (OpDrop 1); Step 4; Step 4; Step 4].
Example c02_nonvacuous_rest :
  exists s, run cfg2 (init cfg2) tr_debt = Some s /\ alive s = true /\ closed s = false
            /\ at_rest s /\ out s = [] /\ maxs s = 1 /\ debt s = 1 /\ permits s = 2.
Proof. eexists. vm_compute. repeat split. Qed.
Print Assumptions c02_capacity_usable.
Print Assumptions c02_one_get.
