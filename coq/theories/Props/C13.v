(* C13 - Per-object metrics tell the truth. *)
From Coq Require Import List ZArith Bool.
From DP Require Import Common.Tab Managed.Model Managed.Contrib Managed.All Managed.Recs Managed.Metrics.
Import ListNotations.
Open Scope Z_scope.

(* For every record the pool knows, after one step (any label, any interleaving) there is a
   record of the same object before the step with the same creation instant, and
   - nothing changed, or
   - it is the first hand-out (only the hand-out count changes), or
   - it is handed out again: recycle_count + 1, recycled := now, which is not before the
     previous stamp;
   or the record is new: recycle_count 0, no recycled stamp. So the creation instant never
   changes, recycled is absent until the first reuse and never moves backwards, and
   recycle_count only grows by a re-hand-out (never by a rejected or cancelled recycle). *)
Theorem c13_metrics_evolve : forall c s l s' o',
  Reachable c s -> step c s l = Some s' -> In o' (recs s') ->
  (exists o, In o (recs s) /\ oid o' = oid o /\ created o' = created o
     /\ ((rcount o' = rcount o /\ recycled o' = recycled o /\ handed o' = handed o)
         \/ (rcount o' = rcount o /\ recycled o' = recycled o /\ handed o = 0%nat /\ handed o' = 1%nat
             /\ rcount o = 0%nat /\ In o' (out s'))
         \/ (rcount o' = S (rcount o) /\ recycled o' = Some (clock s) /\ handed o' = S (handed o)
             /\ (forall r, recycled o = Some r -> (r <= clock s)%nat) /\ In o' (out s'))))
  \/ (oid o' = next_oid s /\ rcount o' = 0%nat /\ recycled o' = None /\ created o' = clock s
      /\ handed o' = 0%nat).
Proof. exact metrics_evolve. Qed.

(* recycle_count = (number of times handed out) - 1 for every idle or checked-out object *)
Theorem c13_recycle_count : forall c s o,
  Reachable c s -> In o (vec s) \/ In o (out s) -> handed o = S (rcount o).
Proof. exact rcount_is_handouts_minus_one. Qed.

(* recycled is absent exactly while recycle_count is 0; stamps are ordered *)
Theorem c13_wellformed : forall c s o, Reachable c s -> In o (recs s) ->
  (recycled o = None <-> rcount o = 0%nat)
  /\ (created o <= clock s)%nat
  /\ (forall r, recycled o = Some r -> (created o <= r <= clock s)%nat).
Proof. exact metrics_wellformed. Qed.

(* hooks and the manager's recycle check see the metrics as they were before the current
   hand-out: across the stages of a recycle the record is the popped one; only the hand-out
   changes it *)
Theorem c13_hooks_see_before : forall c s t g o st s',
  pcof s t = GRec g o st -> step c s (Env t OOk) = Some s' ->
  (exists st', pcof s' t = GRec g o st' /\ out s' = out s)
  \/ (pcof s' t = PDone ROk /\ out s' = bump (recycled_obj s o) :: out s).
Proof. exact stage_record_const. Qed.

Theorem c13_call_carries_record : forall s t g o st,
  log (enter_stage s t g o st)
  = (match st with SPre k => EHookCall 0 k o | SRecycle => ERecycleCall o t | SPost k => EHookCall 2 k o end)
    :: log s.
Proof. exact enter_stage_event. Qed.

(* retain() is shown every idle record once, in queue order, as it is stored *)
Theorem c13_retain_sees : forall t ds v s,
  let '(s', kept, removed) := retain_loop t ds v s in
  sees (log s') = rev v ++ sees (log s).
Proof. exact retain_loop_sees. Qed.

(* non-vacuity: an object is created, returned, recycled (rejected once in between is not
   possible for the same object, so: recycled twice) - counts 0, 1, 2 *)
Definition g0 := {| gw := TNone; gc := TNone; gr := TNone |}.
Definition cfg1 := {| max0 := 1; lifo := false; pre := []; post := []; pcr := []; runtime := false |}.
Definition tr13 : list label :=
  [Start 0 (OpGet g0); Step 0; Step 0; Step 0; Step 0; Env 0 OOk; Step 0;
   Start 1 (OpDrop 0); Step 1; Step 1; Step 1;
   Start 2 (OpGet g0); Step 2; Step 2; Step 2; Step 2; Env 2 OOk;
   Start 3 (OpDrop 0); Step 3; Step 3; Step 3;
   Start 4 (OpGet g0); Step 4; Step 4; Step 4; Step 4; Env 4 OOk].
Example c13_nonvacuous :
  exists s o, run cfg1 (init cfg1) tr13 = Some s /\ out s = [o] /\ rcount o = 2%nat /\ handed o = 3%nat
              /\ recycled o = Some 26%nat /\ created o = 5%nat.
Proof. eexists. eexists. vm_compute. repeat split. Qed.

Check c13_recycle_count : forall c s o,
  Reachable c s -> In o (vec s) \/ In o (out s) -> handed o = S (rcount o).
Print Assumptions c13_metrics_evolve.
Print Assumptions c13_recycle_count.
Print Assumptions c13_wellformed.
Print Assumptions c13_hooks_see_before.
Print Assumptions c13_call_carries_record.
Print Assumptions c13_retain_sees.
