(* C18 - Postgres Config translation is total, complete and follows the override rules.
   This file only states the theorems (closed by [exact]) and prints their assumptions.
   [e : pg_env] holds the oracles of one call: what tokio_postgres::Config::new() and
   Config::from_str(url) returned (through the getters), env::var("USER"), cfg(unix) and the
   default max_size; the theorems hold for every value of them. *)
From Coq Require Import List ZArith Bool.
From DP Require Import Config.Base Config.PgConfig Config.PgLemmas.
Import ListNotations.
Open Scope Z_scope.

(* get_pg_config is a total function into {Ok, InvalidUrl, DbnameMissing, DbnameEmpty}
   (there is no fifth outcome, in particular no panic), ... *)
Theorem c18_total : forall e c,
  (exists r, get_pg_config e c = PgOk r) \/ get_pg_config e c = PgInvalidUrl
  \/ get_pg_config e c = PgDbnameMissing \/ get_pg_config e c = PgDbnameEmpty.
Proof. exact get_pg_config_total. Qed.

(* ... and each error has exactly its cause: the URL parser rejected a URL that is set;
   neither the Config (empty counts as unset) nor the URL names a database; the URL names
   the empty database and the Config none. *)
Theorem c18_invalid_url_iff : forall e c,
  get_pg_config e c = PgInvalidUrl <-> (c_url c <> None /\ e_url e = None).
Proof. exact invalid_url_iff. Qed.

Theorem c18_dbname_missing_iff : forall e c,
  get_pg_config e c = PgDbnameMissing <->
  exists base, base_of e c = Some base /\
               override_opt (filter_nonempty (c_dbname c)) (o_dbname base) = None.
Proof. exact dbname_missing_iff. Qed.

Theorem c18_dbname_empty_iff : forall e c,
  get_pg_config e c = PgDbnameEmpty <->
  exists base, base_of e c = Some base /\
               override_opt (filter_nonempty (c_dbname c)) (o_dbname base) = Some [].
Proof. exact dbname_empty_iff. Qed.

(* Every option set in the Config is in effect in the result, whatever the URL said
   (an empty user or dbname counts as unset). One conjunct per scalar option. *)
Theorem c18_every_option : forall e c r,
  get_pg_config e c = PgOk r ->
  (forall u, c_user c = Some u -> u <> [] -> o_user r = Some u) /\
  (forall p, c_password c = Some p -> o_password r = Some p) /\
  (forall d, c_dbname c = Some d -> d <> [] -> o_dbname r = Some d) /\
  (forall s, c_options c = Some s -> o_options r = Some s) /\
  (forall s, c_application_name c = Some s -> o_application_name r = Some s) /\
  (forall m, c_ssl_mode c = Some m -> o_ssl_mode r = ssl_into m) /\
  (forall d, c_connect_timeout c = Some d -> o_connect_timeout r = Some d) /\
  (forall b, c_keepalives c = Some b -> o_keepalives r = b) /\
  (forall d, c_keepalives_idle c = Some d -> o_keepalives_idle r = d) /\
  (forall m, c_target_session_attrs c = Some m -> o_target_session_attrs r = tsa_into m) /\
  (forall m, c_channel_binding c = Some m -> o_channel_binding r = cb_into m) /\
  (forall m, c_load_balance_hosts c = Some m -> o_load_balance_hosts r = lb_into m).
Proof. exact every_option. Qed.

(* What the Config leaves unset keeps the URL's value (Config::new()'s without a URL);
   the options only tokio_postgres knows are never touched. *)
Theorem c18_unset_keeps_url : forall e c r base,
  get_pg_config e c = PgOk r -> base_of e c = Some base -> unset_keeps_base e c base r.
Proof. exact unset_options. Qed.

(* $USER is used exactly when neither the Config nor the URL gives a non-empty user *)
Theorem c18_user_from_env : forall e c r base,
  get_pg_config e c = PgOk r -> base_of e c = Some base ->
  (filter_nonempty (c_user c) = None /\ filter_nonempty (o_user base) = None ->
     o_user r = override_opt (e_user e) (o_user base)) /\
  (filter_nonempty (c_user c) <> None \/ filter_nonempty (o_user base) <> None ->
     o_user r = override_opt (filter_nonempty (c_user c)) (o_user base)).
Proof. exact user_from_env. Qed.

(* hosts, host addresses and ports are the URL's, then the singular field, then the plural *)
Theorem c18_lists : forall e c r base,
  get_pg_config e c = PgOk r -> base_of e c = Some base ->
  o_hostaddrs r = o_hostaddrs base ++ opt_list (c_hostaddr c) ++ opt_lists (c_hostaddrs c) /\
  o_ports r = o_ports base ++ opt_list (c_port c) ++ opt_lists (c_ports c) /\
  (named_hosts (e_unix e) base c <> [] -> o_hosts r = named_hosts (e_unix e) base c) /\
  (named_hosts (e_unix e) base c = [] -> o_hosts r = default_hosts (e_unix e)).
Proof. exact lists. Qed.

(* the default socket directories (127.0.0.1 off unix) stand in iff no host is given by the
   URL, by host or by hosts *)
Theorem c18_default_host : forall e c r base,
  get_pg_config e c = PgOk r -> base_of e c = Some base ->
  (o_hosts r = default_hosts (e_unix e) /\ o_hosts r <> named_hosts (e_unix e) base c) <->
  (o_hosts base = [] /\ c_host c = None /\ (c_hosts c = None \/ c_hosts c = Some [])).
Proof. exact default_host_iff. Qed.

(* the pool and manager sections reach the builder and the built pool unchanged *)
Theorem c18_pool_passthrough : forall e rt c pg m p,
  create_pool e rt c = PpOk pg m p ->
  get_pg_config e c = PgOk pg /\
  m = match c_manager c with Some x => x | None => default_manager end /\
  p = match c_pool c with Some x => x | None => default_pool (e_dflt_max e) end.
Proof. exact create_pool_passthrough. Qed.

Theorem c18_builder_passthrough : forall e c pg m p,
  builder e c = PbOk pg m p ->
  get_pg_config e c = PgOk pg /\
  m = match c_manager c with Some x => x | None => default_manager end /\
  p = match c_pool c with Some x => x | None => default_pool (e_dflt_max e) end.
Proof. exact builder_passthrough. Qed.

(* create_pool reports timeouts without a runtime as a build error, and nothing else *)
Theorem c18_create_pool_build_error : forall e rt c b,
  create_pool e rt c = PpBuild b <->
  ((exists r, get_pg_config e c = PgOk r) /\
   has_timeouts (p_timeouts (get_pool_config e c)) = true /\ rt = false).
Proof. exact create_pool_build_error_iff. Qed.

Theorem c18_create_pool_config_error : forall e rt c err,
  create_pool e rt c = PpConfig err <-> (get_pg_config e c = err /\ forall r, err <> PgOk r).
Proof. exact create_pool_config_error_iff. Qed.

(* ---------------------------------------------------------------- non-vacuity *)
Definition obs0 : pg_obs :=
  {| o_user := None; o_password := None; o_dbname := None; o_options := None;
     o_application_name := None; o_ssl_mode := PgSslPrefer; o_hosts := []; o_hostaddrs := [];
     o_ports := []; o_connect_timeout := None; o_keepalives := true;
     o_keepalives_idle := {| secs := 7200; nanos := 0 |};
     o_target_session_attrs := PgTsaAny; o_channel_binding := PgCbPrefer;
     o_load_balance_hosts := PgLbDisable; o_ssl_negotiation := PgNegPostgres;
     o_tcp_user_timeout := None; o_keepalives_interval := None; o_keepalives_retries := None |}.
(* a URL that named host "h" (104), port 5433, dbname "d" (100), user "u" (117), read-only *)
Definition obs_url : pg_obs :=
  {| o_user := Some [117]; o_password := None; o_dbname := Some [100]; o_options := None;
     o_application_name := None; o_ssl_mode := PgSslDisable; o_hosts := [HTcp [104]];
     o_hostaddrs := []; o_ports := [5433]; o_connect_timeout := None; o_keepalives := true;
     o_keepalives_idle := {| secs := 7200; nanos := 0 |};
     o_target_session_attrs := PgTsaReadOnly; o_channel_binding := PgCbPrefer;
     o_load_balance_hosts := PgLbDisable; o_ssl_negotiation := PgNegPostgres;
     o_tcp_user_timeout := None; o_keepalives_interval := None; o_keepalives_retries := None |}.
Definition env0 : pg_env :=
  {| e_unix := true; e_new := obs0; e_url := Some obs_url; e_user := Some [101]; e_dflt_max := 8 |}.
Definition cfg0 : pg_cfg :=
  {| c_url := None; c_user := None; c_password := None; c_dbname := None; c_options := None;
     c_application_name := None; c_ssl_mode := None; c_host := None; c_hosts := None;
     c_hostaddr := None; c_hostaddrs := None; c_port := None; c_ports := None;
     c_connect_timeout := None; c_keepalives := None; c_keepalives_idle := None;
     c_target_session_attrs := None; c_channel_binding := None; c_load_balance_hosts := None;
     c_manager := None; c_pool := None |}.
Definition set_url (c : pg_cfg) : pg_cfg :=
  {| c_url := Some [120]; c_user := c_user c; c_password := c_password c; c_dbname := c_dbname c;
     c_options := c_options c; c_application_name := c_application_name c;
     c_ssl_mode := Some SslRequire; c_host := Some [47; 115]; c_hosts := Some [[105]];
     c_hostaddr := c_hostaddr c; c_hostaddrs := c_hostaddrs c; c_port := Some 1;
     c_ports := Some [2; 3]; c_connect_timeout := c_connect_timeout c;
     c_keepalives := c_keepalives c; c_keepalives_idle := c_keepalives_idle c;
     c_target_session_attrs := Some TsaReadWrite; c_channel_binding := Some CbRequire;
     c_load_balance_hosts := Some LbRandom; c_manager := c_manager c;
     c_pool := Some {| p_max_size := 3;
                       p_timeouts := {| t_wait := Some {| secs := 1; nanos := 0 |};
                                        t_create := None; t_recycle := None |};
                       p_queue_mode := Lifo |} |}.

(* all four outcomes occur *)
Example c18_nv_missing : get_pg_config env0 cfg0 = PgDbnameMissing.
Proof. vm_compute. reflexivity. Qed.
Example c18_nv_empty :
  get_pg_config {| e_unix := true; e_new := obs0;
                   e_url := Some {| o_user := None; o_password := None; o_dbname := Some [];
                     o_options := None; o_application_name := None; o_ssl_mode := PgSslPrefer;
                     o_hosts := []; o_hostaddrs := []; o_ports := []; o_connect_timeout := None;
                     o_keepalives := true; o_keepalives_idle := {| secs := 7200; nanos := 0 |};
                     o_target_session_attrs := PgTsaAny; o_channel_binding := PgCbPrefer;
                     o_load_balance_hosts := PgLbDisable; o_ssl_negotiation := PgNegPostgres;
                     o_tcp_user_timeout := None; o_keepalives_interval := None;
                     o_keepalives_retries := None |};
                   e_user := None; e_dflt_max := 8 |} (set_url cfg0) = PgDbnameEmpty.
Proof. vm_compute. reflexivity. Qed.
Example c18_nv_invalid :
  get_pg_config {| e_unix := true; e_new := obs0; e_url := None; e_user := None; e_dflt_max := 8 |}
                (set_url cfg0) = PgInvalidUrl.
Proof. vm_compute. reflexivity. Qed.
(* URL plus fields: the scalar options override, the lists are appended in order, a host
   starting with '/' is a socket directory, no default host; the three options of D9 are in
   effect *)
Example c18_nv_ok : exists r,
  get_pg_config env0 (set_url cfg0) = PgOk r /\
  o_ssl_mode r = PgSslRequire /\ o_target_session_attrs r = PgTsaReadWrite /\
  o_channel_binding r = PgCbRequire /\ o_load_balance_hosts r = PgLbRandom /\
  o_hosts r = [HTcp [104]; HUnix [47; 115]; HTcp [105]] /\ o_ports r = [5433; 1; 2; 3] /\
  o_user r = Some [117] /\ o_dbname r = Some [100].
Proof. eexists. vm_compute. repeat split. Qed.
(* no host anywhere: the default socket directories; $USER supplies the user *)
Example c18_nv_default_host : exists r,
  get_pg_config env0
    {| c_url := None; c_user := Some []; c_password := None; c_dbname := Some [100]; c_options := None;
       c_application_name := None; c_ssl_mode := None; c_host := None; c_hosts := Some [];
       c_hostaddr := None; c_hostaddrs := None; c_port := None; c_ports := None;
       c_connect_timeout := None; c_keepalives := None; c_keepalives_idle := None;
       c_target_session_attrs := None; c_channel_binding := None; c_load_balance_hosts := None;
       c_manager := None; c_pool := None |} = PgOk r /\
  o_hosts r = default_hosts true /\ length (o_hosts r) = 3%nat /\ o_user r = Some [101].
Proof. eexists. vm_compute. repeat split. Qed.
(* timeouts without a runtime: a build error; with one: the pool section unchanged *)
Example c18_nv_build_error : create_pool env0 false (set_url cfg0) = PpBuild NoRuntimeSpecified.
Proof. vm_compute. reflexivity. Qed.
Example c18_nv_pool : exists pg m, create_pool env0 true (set_url cfg0) = PpOk pg m
  {| p_max_size := 3;
     p_timeouts := {| t_wait := Some {| secs := 1; nanos := 0 |}; t_create := None; t_recycle := None |};
     p_queue_mode := Lifo |}.
Proof. eexists. eexists. vm_compute. reflexivity. Qed.

Check c18_every_option : forall e c r,
  get_pg_config e c = PgOk r ->
  (forall u, c_user c = Some u -> u <> [] -> o_user r = Some u) /\
  (forall p, c_password c = Some p -> o_password r = Some p) /\
  (forall d, c_dbname c = Some d -> d <> [] -> o_dbname r = Some d) /\
  (forall s, c_options c = Some s -> o_options r = Some s) /\
  (forall s, c_application_name c = Some s -> o_application_name r = Some s) /\
  (forall m, c_ssl_mode c = Some m -> o_ssl_mode r = ssl_into m) /\
  (forall d, c_connect_timeout c = Some d -> o_connect_timeout r = Some d) /\
  (forall b, c_keepalives c = Some b -> o_keepalives r = b) /\
  (forall d, c_keepalives_idle c = Some d -> o_keepalives_idle r = d) /\
  (forall m, c_target_session_attrs c = Some m -> o_target_session_attrs r = tsa_into m) /\
  (forall m, c_channel_binding c = Some m -> o_channel_binding r = cb_into m) /\
  (forall m, c_load_balance_hosts c = Some m -> o_load_balance_hosts r = lb_into m).
Print Assumptions c18_total.
Print Assumptions c18_invalid_url_iff.
Print Assumptions c18_dbname_missing_iff.
Print Assumptions c18_dbname_empty_iff.
Print Assumptions c18_every_option.
Print Assumptions c18_unset_keeps_url.
Print Assumptions c18_user_from_env.
Print Assumptions c18_lists.
Print Assumptions c18_default_host.
Print Assumptions c18_pool_passthrough.
Print Assumptions c18_builder_passthrough.
Print Assumptions c18_create_pool_build_error.
Print Assumptions c18_create_pool_config_error.
