(* C17 - Redis pool hands out only clean, synchronised connections.
   This file only states the theorems (closed by [exact]) and prints their assumptions.
   Model: Mgr/Redis.v (Manager::recycle of redis/src/lib.rs over a task-level managed pool; the
   answers of the server / redis-rs are inputs). [clog x (tl s)] is what the server received on
   connection x, newest first; [CMark w] is the hand-out of the connection with WATCH state w. *)
From Coq Require Import List ZArith Bool.
From DP Require Import Mgr.Redis Mgr.RedisInv.
Import ListNotations.
Open Scope Z_scope.

(* For every history: each hand-out of a connection is either the first thing that ever happened on
   it (a new connection) or is directly preceded on that very connection by UNWATCH and PING n
   answered with exactly n; and no WATCH is in effect at the hand-out. *)
Theorem c17_reuse_preceded_by_unwatch_ping : forall m tr s x,
  run (init m) tr = Some s -> marks_ok (clog x (tl s)).
Proof. exact c17_marks. Qed.

(* The PING numbers of the whole history are strictly increasing in time and below the manager's
   counter: no number is used twice on one pool. *)
Theorem c17_ping_numbers_fresh : forall m tr s,
  run (init m) tr = Some s ->
  desc_below (ping s) (pings (tl s)) /\ NoDup (pings (tl s))
  /\ (forall n, In n (pings (tl s)) -> n < ping s).
Proof. exact ping_numbers_fresh. Qed.

(* recycle accepts exactly when the connection is alive, no reply was an error and the value
   answered to PING n is n: an error, a missing reply (nil / hang-up) or any other value rejects. *)
Theorem c17_recycle_accepts_iff : forall n cn,
  snd (recycle n cn) = true <->
  alive cn = true /\ armu cn = false /\ answer_of (armp cn) n = Some n.
Proof. exact recycle_accepts_iff. Qed.

(* An idle connection that the pool still owns after a get() was either not touched, or received
   exactly UNWATCH, PING n with a number of this very get, answered n, and was handed out - so a
   connection whose check was answered badly is not owned any more: it is discarded. *)
Theorem c17_bad_answer_discarded : forall m tr s s' r x,
  run (init m) tr = Some s -> step s LGet = Some (s', r) -> In x (idle s) -> owned s' x ->
  (In x (idle s') /\ clog x (tl s') = clog x (tl s))
  \/ (In x (out s') /\ exists n,
        clog x (tl s') = CMark false :: CPing n (Some n) :: CUnwatch :: clog x (tl s)
        /\ ping s <= n < ping s').
Proof. exact c17_get_touched. Qed.

(* ... and is never owned (idle or handed out) again, whatever happens later *)
Theorem c17_discarded_never_again : forall m tr s tr' s' y,
  run (init m) tr = Some s -> run s tr' = Some s' ->
  (y < length (conns s))%nat -> ~ owned s y -> ~ owned s' y.
Proof. exact c17_never_again. Qed.

(* ... and is replaced: the get that rejected it ends with a connection in the caller's hands
   unless no permit was free or the one connect it attempted was refused. *)
Theorem c17_rejected_is_replaced : forall m tr s s' r,
  run (init m) tr = Some s -> step s LGet = Some (s', r) ->
  (r = [2; 1; 0] /\ permits s <= 0 /\ s' = s)
  \/ (r = [2; 2; 0] /\ armc s = true)
  \/ exists x, r = [1; n2z x; 0] /\ In x (out s').
Proof. exact c17_get_result. Qed.

(* Connection::take is Object::take: the connection leaves the pool for good (with
   c17_discarded_never_again), size - 1, one permit back, nothing else changes. *)
Theorem c17_take_is_object_take : forall m tr s s' r x,
  run (init m) tr = Some s -> step s (LTake x) = Some (s', r) ->
  In x (out s) /\ ~ owned s' x /\ In x (taken s')
  /\ size s' = size s - 1 /\ permits s' = permits s + 1
  /\ idle s' = idle s /\ tl s' = tl s /\ ping s' = ping s /\ conns s' = conns s.
Proof. exact c17_take_spec. Qed.

(* non-vacuity: max_size 1; get, WATCH, return; the reuse is answered with a stale number: the
   connection is dropped and replaced by connection 1; after its return the next reuse gets PING 1
   (number 0 was spent on the rejected check) and is handed out clean. *)
Definition tr_stale : list label :=
  [LGet; LUse 0 UWatch; LRet 0; LArmP 0 (RVal 7); LGet; LRet 1; LGet].
Example c17_nonvacuous_stale :
  exists s, run (init 1) tr_stale = Some s
            /\ clog 0 (tl s) = [CPing 0 (Some 7); CUnwatch; CWatch; CMark false]
            /\ clog 1 (tl s) = [CMark false; CPing 1 (Some 1); CUnwatch; CMark false]
            /\ idle s = [] /\ out s = [1%nat] /\ size s = 1 /\ ping s = 2.
Proof. eexists. vm_compute. repeat split. Qed.

(* error reply, hang-up and a failed UNWATCH all reject; take shrinks the pool *)
Definition tr_faults : list label :=
  [LGet; LGet; LRet 0; LRet 1; LArmP 0 RErr; LArmU 1; LGet; LTake 2; LGet].
Example c17_nonvacuous_faults :
  exists s, run (init 2) tr_faults = Some s
            /\ idle s = [] /\ out s = [3%nat] /\ taken s = [2%nat] /\ size s = 1 /\ permits s = 1
            /\ pings (tl s) = [1; 0].
Proof. eexists. vm_compute. repeat split. Qed.

Check c17_reuse_preceded_by_unwatch_ping : forall m tr s x,
  run (init m) tr = Some s -> marks_ok (clog x (tl s)).
Print Assumptions c17_reuse_preceded_by_unwatch_ping.
Print Assumptions c17_ping_numbers_fresh.
Print Assumptions c17_recycle_accepts_iff.
Print Assumptions c17_bad_answer_discarded.
Print Assumptions c17_discarded_never_again.
Print Assumptions c17_rejected_is_replaced.
Print Assumptions c17_take_is_object_take.
