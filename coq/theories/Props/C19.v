(* C19 - Redis configs are unambiguous; conversions and serialisation are lossless.
   This file only states the theorems (closed by [exact]) and prints their assumptions.
   [e : redis_env] holds the oracles of one builder() call: what the redis crate's URL
   parser returned and whether its client constructor accepted the servers. *)
From Coq Require Import List ZArith Bool.
From DP Require Import Config.Base Config.RedisConfig Config.RedisLemmas Config.Serde Config.SerdeLemmas.
Import ListNotations.
Open Scope Z_scope.

(* ---- builder(): both => UrlAndConnectionSpecified (and only then); neither => the default
   local server; otherwise exactly the named servers. One theorem per flavour. ---- *)
Theorem c19_builder_match_redis : forall e c,
  (both (rc_url c) (rc_connection c) <-> redis_builder_of e c = RbErr UrlAndConnectionSpecified) /\
  (rc_url c = None -> rc_connection c = None ->
     redis_builder_of e c = RbOk (plain_target [info_into default_info])
                                 (pool_or_default (re_dflt_max e) (rc_pool c))) /\
  (forall i, rc_url c = None -> rc_connection c = Some i ->
     redis_builder_of e c = RbOk (plain_target [info_into i])
                                 (pool_or_default (re_dflt_max e) (rc_pool c))) /\
  (forall u, rc_url c = Some u -> rc_connection c = None ->
     (forall l, re_parsed e = Some l ->
        redis_builder_of e c = RbOk (plain_target l) (pool_or_default (re_dflt_max e) (rc_pool c))) /\
     (re_parsed e = None -> redis_builder_of e c = RbErr Redis)).
Proof. exact redis_builder_match. Qed.

Theorem c19_builder_match_cluster : forall e c,
  (both (cc_urls c) (cc_connections c) <-> cluster_builder_of e c = RbErr UrlAndConnectionSpecified) /\
  (cc_urls c = None -> cc_connections c = None ->
     cluster_builder_of e c =
       finish (re_accept_default e) (cluster_target (cc_read_from_replicas c) [info_into default_info])
              (pool_or_default (re_dflt_max e) (cc_pool c))) /\
  (forall l, cc_urls c = None -> cc_connections c = Some l ->
     cluster_builder_of e c =
       finish (re_accept_connections e) (cluster_target (cc_read_from_replicas c) (map info_into l))
              (pool_or_default (re_dflt_max e) (cc_pool c))) /\
  (forall us, cc_urls c = Some us -> cc_connections c = None ->
     cluster_builder_of e c =
       finish (re_accept_urls e) (cluster_target (cc_read_from_replicas c) (servers_of_urls e))
              (pool_or_default (re_dflt_max e) (cc_pool c))).
Proof. exact cluster_builder_match. Qed.

Theorem c19_builder_match_sentinel : forall e c,
  (both (sc_urls c) (sc_connections c) <-> sentinel_builder_of e c = RbErr UrlAndConnectionSpecified) /\
  (sc_urls c = None -> sc_connections c = None ->
     sentinel_builder_of e c =
       finish (re_accept_default e) (sentinel_target c [info_into default_info])
              (pool_or_default (re_dflt_max e) (sc_pool c))) /\
  (forall l, sc_urls c = None -> sc_connections c = Some l ->
     sentinel_builder_of e c =
       finish (re_accept_connections e) (sentinel_target c (map info_into l))
              (pool_or_default (re_dflt_max e) (sc_pool c))) /\
  (forall us, sc_urls c = Some us -> sc_connections c = None ->
     sentinel_builder_of e c =
       finish (re_accept_urls e) (sentinel_target c (servers_of_urls e))
              (pool_or_default (re_dflt_max e) (sc_pool c))).
Proof. exact sentinel_builder_match. Qed.

(* the named connection structures reach the client constructor without loss *)
Theorem c19_named_lossless : forall l : list connection_info, map info_from (map info_into l) = l.
Proof. exact named_connections_lossless. Qed.

(* ---- conversions deadpool_redis -> redis -> deadpool_redis are the identity ---- *)
Theorem c19_roundtrip_addr : forall a, addr_from (addr_into a) = a.
Proof. exact addr_roundtrip. Qed.
Theorem c19_roundtrip_redis : forall i, redis_from (redis_into i) = i.
Proof. exact redis_roundtrip. Qed.
Theorem c19_roundtrip_info : forall i, info_from (info_into i) = i.
Proof. exact info_roundtrip. Qed.
Theorem c19_roundtrip_sentinel : forall n, node_from (node_into n) = n.
Proof. exact node_roundtrip. Qed.
Theorem c19_roundtrip_server_type : forall t, server_type_from (server_type_into t) = t.
Proof. exact server_type_roundtrip. Qed.

(* address, database, username, password and protocol arrive as written *)
Theorem c19_into_fields : forall i,
  r_db (r_redis_of (info_into i)) = d_db (d_redis i) /\
  r_username (r_redis_of (info_into i)) = d_username (d_redis i) /\
  r_password (r_redis_of (info_into i)) = d_password (d_redis i) /\
  proto_from (r_protocol_of (r_redis_of (info_into i))) = d_protocol (d_redis i) /\
  addr_from (r_addr_of (info_into i)) = d_addr i.
Proof. exact info_into_fields. Qed.

(* ---- redis -> deadpool_redis -> redis: the identity except for the opaque TLS material,
   which deadpool_redis::ConnectionAddr leaves out by design ---- *)
Theorem c19_roundtrip_rev_addr : forall a, addr_into (addr_from a) = strip_tls a.
Proof. exact addr_roundtrip_rev. Qed.
Theorem c19_roundtrip_rev_redis : forall i, redis_into (redis_from i) = i.
Proof. exact redis_roundtrip_rev. Qed.
Theorem c19_roundtrip_rev_info : forall i,
  info_into (info_from i) = {| r_addr_of := strip_tls (r_addr_of i); r_redis_of := r_redis_of i |}.
Proof. exact info_roundtrip_rev. Qed.
Theorem c19_roundtrip_rev_sentinel : forall n, node_into (node_from n) = n.
Proof. exact node_roundtrip_rev. Qed.

(* ---- serde: de (ser c) = Some c over the whole value range (any u64 seconds, any
   nanoseconds below 10^9, any u64 max_size), read by the typed and by the lenient reader ---- *)
Theorem c19_serde_roundtrip : forall m c, wf_pool c -> de_pool m (ser_pool c) = Some c.
Proof. exact pool_roundtrip. Qed.
Theorem c19_serde_roundtrip_timeouts : forall m t, wf_timeouts t -> de_timeouts m (ser_timeouts t) = Some t.
Proof. exact timeouts_roundtrip. Qed.
Theorem c19_serde_roundtrip_queue_mode : forall m q, de_queue_mode m (ser_queue_mode q) = Some q.
Proof. exact queue_mode_roundtrip. Qed.

(* string-typed (environment style) sources: every leaf a decimal string, absent Options and
   empty sections not written at all *)
Theorem c19_serde_roundtrip_env : forall c, wf_pool c -> de_pool Lenient (env_pool c) = Some c.
Proof. exact pool_roundtrip_env. Qed.
Theorem c19_serde_roundtrip_env_timeouts : forall t,
  wf_timeouts t -> de_timeouts Lenient (env_timeouts t) = Some t.
Proof. exact timeouts_roundtrip_env. Qed.

(* omitted sections take the documented defaults: no timeouts, Fifo; a Timeouts field that is
   left out is None; only max_size is required *)
Theorem c19_serde_omitted_defaults : forall m kv c,
  de_pool m (TMap kv) = Some c ->
  (lookup k_timeouts kv = None -> p_timeouts c = default_timeouts) /\
  (lookup k_queue_mode kv = None -> p_queue_mode c = Fifo).
Proof. exact pool_omitted_defaults. Qed.
Theorem c19_serde_only_max_size : forall m v,
  de_pool m (TMap [(k_max_size, v)]) =
  option_map (fun n => {| p_max_size := n; p_timeouts := default_timeouts; p_queue_mode := Fifo |})
             (de_uint m u64_max v).
Proof. exact pool_only_max_size. Qed.
Theorem c19_serde_omitted_timeout_fields : forall m kv t,
  de_timeouts m (TMap kv) = Some t ->
  (lookup k_wait kv = None -> t_wait t = None) /\
  (lookup k_create kv = None -> t_create t = None) /\
  (lookup k_recycle kv = None -> t_recycle t = None).
Proof. exact timeouts_omitted_field. Qed.

(* a duration read from any tree is a normalised Duration (nanos < 10^9, secs within u64) *)
Theorem c19_serde_duration_wf : forall m t d, de_dur m t = Some d -> wf_dur d.
Proof. exact de_dur_wf. Qed.

(* ---------------------------------------------------------------- non-vacuity *)
Definition big : pool_cfg :=
  {| p_max_size := u64_max;
     p_timeouts := {| t_wait := Some {| secs := u64_max; nanos := 999999999 |};
                      t_create := None; t_recycle := Some {| secs := 0; nanos := 0 |} |};
     p_queue_mode := Lifo |}.
Example c19_nv_big_typed : de_pool Typed (ser_pool big) = Some big.
Proof. vm_compute. reflexivity. Qed.
Example c19_nv_big_env : de_pool Lenient (env_pool big) = Some big.
Proof. vm_compute. reflexivity. Qed.
(* "18446744073709551615" *)
Example c19_nv_dec : dec u64_max = [49;56;52;52;54;55;52;52;48;55;51;55;48;57;53;53;49;54;49;53].
Proof. vm_compute. reflexivity. Qed.
(* the typed reader does not coerce strings; the lenient one does *)
Example c19_nv_typed_strict : de_pool Typed (env_pool big) = None.
Proof. vm_compute. reflexivity. Qed.
(* whole seconds in nanos are carried; an overflow of secs is an error *)
Example c19_nv_carry :
  de_dur Typed (TMap [(k_secs, TNum 5); (k_nanos, TNum 2500000000)]) = Some {| secs := 7; nanos := 500000000 |}
  /\ de_dur Typed (TMap [(k_secs, TNum u64_max); (k_nanos, TNum 1000000000)]) = None.
Proof. vm_compute. split; reflexivity. Qed.
(* an omitted section: defaults *)
Example c19_nv_defaults :
  de_pool Typed (TMap [(k_max_size, TNum 7)]) =
  Some {| p_max_size := 7; p_timeouts := default_timeouts; p_queue_mode := Fifo |}.
Proof. vm_compute. reflexivity. Qed.
(* the four arms of builder() occur; the password survives *)
Definition pw_info : connection_info :=
  {| d_addr := DTcpTls [104] 6380 true;
     d_redis := {| d_db := 3; d_username := Some [117]; d_password := Some [112]; d_protocol := DRESP3 |} |}.
Definition renv : redis_env :=
  {| re_parsed := Some [info_into pw_info]; re_accept_urls := true; re_accept_connections := true;
     re_accept_default := true; re_dflt_max := 8 |}.
Example c19_nv_both :
  redis_builder_of renv {| rc_url := Some [120]; rc_connection := Some pw_info; rc_pool := None |}
  = RbErr UrlAndConnectionSpecified.
Proof. vm_compute. reflexivity. Qed.
Example c19_nv_named : exists g p,
  redis_builder_of renv {| rc_url := None; rc_connection := Some pw_info; rc_pool := None |} = RbOk g p
  /\ map info_from (g_servers g) = [pw_info] /\ p_max_size p = 8.
Proof. eexists. eexists. vm_compute. repeat split. Qed.
Example c19_nv_neither : exists g p,
  sentinel_builder_of renv {| sc_urls := None; sc_server_type := DReplica; sc_master_name := [109];
                              sc_connections := None; sc_node_connection_info := None; sc_pool := None |}
  = RbOk g p /\ g_servers g = [info_into default_info] /\ g_server_type g = RReplica.
Proof. eexists. eexists. vm_compute. repeat split. Qed.

Check c19_serde_roundtrip : forall m c, wf_pool c -> de_pool m (ser_pool c) = Some c.
Check c19_roundtrip_info : forall i, info_from (info_into i) = i.
Print Assumptions c19_builder_match_redis.
Print Assumptions c19_builder_match_cluster.
Print Assumptions c19_builder_match_sentinel.
Print Assumptions c19_named_lossless.
Print Assumptions c19_roundtrip_addr.
Print Assumptions c19_roundtrip_redis.
Print Assumptions c19_roundtrip_info.
Print Assumptions c19_roundtrip_sentinel.
Print Assumptions c19_roundtrip_server_type.
Print Assumptions c19_into_fields.
Print Assumptions c19_roundtrip_rev_addr.
Print Assumptions c19_roundtrip_rev_redis.
Print Assumptions c19_roundtrip_rev_info.
Print Assumptions c19_roundtrip_rev_sentinel.
Print Assumptions c19_serde_roundtrip.
Print Assumptions c19_serde_roundtrip_timeouts.
Print Assumptions c19_serde_roundtrip_queue_mode.
Print Assumptions c19_serde_roundtrip_env.
Print Assumptions c19_serde_roundtrip_env_timeouts.
Print Assumptions c19_serde_omitted_defaults.
Print Assumptions c19_serde_only_max_size.
Print Assumptions c19_serde_omitted_timeout_fields.
Print Assumptions c19_serde_duration_wf.
