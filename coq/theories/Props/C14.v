(* C14 - SyncWrapper keeps blocking work and destruction off the async thread.
   Model: Sync/Model.v (actors: the async side and the jobs of the blocking pool; labels
   Spawn / CancelAwait / Deliver / BAcquire / BSkip / BFinish / DropWrapper / BStart).
   Every theorem quantifies over ALL label sequences, i.e. all histories of interactions
   (returning, panicking, cancelled before or while the closure runs or after it finished),
   all orders and overlaps in which the pool runs the jobs, and a drop of the wrapper at any
   point the borrow rules allow.  This file only states the theorems (closed by [exact]) and
   prints their assumptions. *)
From Coq Require Import List ZArith Bool Arith.
From DP Require Import Sync.Model Sync.Inv Sync.Facts.
Import ListNotations.

(* the destructor of the wrapped value runs at most once ... *)
Theorem c14_destroy_at_most_once : forall tr s,
  run init tr = Some s -> length (destroyed_by s) <= 1.
Proof. exact destroyed_le1. Qed.

(* ... exactly once as soon as the drop job has run, and never before the value is taken *)
Theorem c14_destroy_once_after_drop_job : forall tr s k j,
  run init tr = Some s -> nth_error (jobs s) k = Some j -> jkind j = KDrop -> jst j <> JQueued ->
  length (destroyed_by s) = 1 /\ val s = Taken.
Proof. exact destroyed_once_after_drop. Qed.

Theorem c14_not_destroyed_before : forall tr s,
  run init tr = Some s -> val s <> Taken -> destroyed_by s = [].
Proof. exact not_destroyed_before. Qed.

(* dropping the wrapper only queues the drop job on the blocking pool *)
Theorem c14_drop_spawns_job : forall s s',
  step s DropWrapper = Some s' ->
  wrapper_alive s = true /\ wrapper_alive s' = false /\
  nth_error (jobs s') (length (jobs s)) =
    Some {| jkind := KDrop; jst := JQueued; jaw := ABackground; jran := false |}
  /\ existsb waiting (jobs s) = false.
Proof. exact drop_wrapper_spawns. Qed.

(* placement: every closure body (creation, interaction) and the destruction are executed by
   a job of the blocking pool: each logged Begin/End names Blocking k with k a creation or
   interaction job, each destruction names Blocking k with k a drop job ... *)
Theorem c14_placement : forall tr s,
  run init tr = Some s ->
  (forall e, In e (log s) ->
     match e with
     | EBegin k a | EEnd k a =>
         a = Blocking k /\ exists j, nth_error (jobs s) k = Some j /\ is_drop (jkind j) = false
     | EDestroyBegin a | EDestroyEnd a =>
         exists k j, a = Blocking k /\ nth_error (jobs s) k = Some j /\ is_drop (jkind j) = true
     end) /\
  (forall a, In a (destroyed_by s) ->
     exists k j, a = Blocking k /\ nth_error (jobs s) k = Some j /\ jkind j = KDrop).
Proof. exact placement. Qed.

(* ... and no step of the async actor touches the value, the mutex, the poison flag, the
   destruction record or the log of executed bodies *)
Theorem c14_async_actor_never_touches_value : forall s l s',
  async_label l = true -> step s l = Some s' ->
  val s' = val s /\ lock s' = lock s /\ poisoned s' = poisoned s
  /\ destroyed_by s' = destroyed_by s /\ log s' = log s.
Proof. exact async_frame. Qed.

Theorem c14_bodies_are_blocking_steps : forall s l s' e,
  step s l = Some s' -> In e (log s') -> ~ In e (log s) ->
  exists k, (l = BAcquire k \/ l = BFinish k) /\
            (e = EBegin k (Blocking k) \/ e = EEnd k (Blocking k)
             \/ e = EDestroyBegin (Blocking k) \/ e = EDestroyEnd (Blocking k)).
Proof. exact blocking_actor. Qed.

(* the destruction step: it is the drop job winning the free mutex while no closure is
   inside the value (no job other than a creation is running) *)
Theorem c14_destruction_after_closures : forall s l s',
  Inv s -> step s l = Some s' -> destroyed_by s' <> destroyed_by s ->
  exists k j, l = BAcquire k /\ nth_error (jobs s) k = Some j /\ jkind j = KDrop
    /\ lock s = None /\ val s = Present /\ val s' = Taken
    /\ destroyed_by s' = Blocking k :: destroyed_by s
    /\ (forall k0 j0, nth_error (jobs s) k0 = Some j0 -> is_create (jkind j0) = false ->
                      running (jst j0) = false).
Proof. exact destruction_step. Qed.

Theorem c14_reachable_inv : forall s, Reachable s -> Inv s.
Proof. exact reachable_Inv. Qed.

(* closures and the destructor exclude each other *)
Theorem c14_mutual_exclusion : forall s k1 j1 k2 j2,
  Inv s -> nth_error (jobs s) k1 = Some j1 -> nth_error (jobs s) k2 = Some j2 ->
  running (jst j1) = true -> running (jst j2) = true ->
  is_create (jkind j1) = false -> is_create (jkind j2) = false -> k1 = k2.
Proof. exact mutex. Qed.

(* a cancelled await changes nothing on the blocking side: value, mutex, poison flag,
   destruction record, log, and kind / progress / "closure entered" of every job *)
Theorem c14_cancel_changes_nothing : forall s k s',
  step s (CancelAwait k) = Some s' ->
  val s' = val s /\ lock s' = lock s /\ poisoned s' = poisoned s
  /\ destroyed_by s' = destroyed_by s /\ log s' = log s /\ wrapper_alive s' = wrapper_alive s
  /\ forall k0 j0, nth_error (jobs s) k0 = Some j0 ->
       exists j0', nth_error (jobs s') k0 = Some j0' /\ jkind j0' = jkind j0
                   /\ jst j0' = jst j0 /\ jran j0' = jran j0.
Proof. exact cancel_frame. Qed.

(* a panicking closure: result Panic, and the wrapper is poisoned from then on *)
Theorem c14_panic_is_reported_and_poisons : forall s k j s',
  step s (BFinish k) = Some s' -> nth_error (jobs s) k = Some j -> jkind j = KInteract FPanic ->
  poisoned s' = true /\ nth_error (jobs s') k = Some (with_st j (JDone RPanic)).
Proof. exact panic_poisons. Qed.

Theorem c14_poisoned_forever : forall tr s s',
  run s tr = Some s' -> poisoned s = true -> poisoned s' = true.
Proof. exact poisoned_run. Qed.

Theorem c14_result_is_final : forall tr s s' k j r,
  run s tr = Some s' -> nth_error (jobs s) k = Some j -> jst j = JDone r ->
  exists j', nth_error (jobs s') k = Some j' /\ jst j' = JDone r /\ jkind j' = jkind j.
Proof. exact result_run. Qed.

Theorem c14_await_gets_the_jobs_result : forall s k s',
  step s (Deliver k) = Some s' ->
  exists j r, nth_error (jobs s) k = Some j /\ jst j = JDone r /\ jaw j = AWaiting
              /\ nth_error (jobs s') k = Some (with_aw j ADelivered).
Proof. exact deliver_reports. Qed.

(* once taken, always taken; and a queued interaction that finds the value gone (or the
   mutex poisoned) leaves the queue only through BSkip: result Aborted (Panic when poisoned),
   its closure is never entered, nothing is logged *)
Theorem c14_taken_forever : forall tr s s',
  Inv s -> run s tr = Some s' -> val s = Taken -> val s' = Taken.
Proof. exact taken_run. Qed.

Theorem c14_late_job_is_aborted_unrun : forall s l s' k j f,
  nth_error (jobs s) k = Some j -> jkind j = KInteract f -> jst j = JQueued ->
  (val s = Taken \/ poisoned s = true) ->
  step s l = Some s' ->
  exists j', nth_error (jobs s') k = Some j' /\ jran j' = jran j /\
    (jst j' = JQueued \/
     (l = BSkip k /\ log s' = log s /\ val s' = val s /\
      jst j' = JDone (if poisoned s then RPanic else RAborted))).
Proof. exact late_job_skips. Qed.

(* ------------------------------------------------------------------ non-vacuity *)
(* create; an interaction whose await is cancelled while its closure runs; the wrapper is
   dropped; a second (cancelled) interaction is still queued; the drop job has to wait for
   the closure; it then destroys the value on the blocking pool; the late interaction is
   aborted without running *)
Definition tr_cancel_drop : list label :=
  [Spawn 0 (KCreate CFOk); BAcquire 0; BFinish 0; Deliver 0;
   Spawn 1 (KInteract FRet); BAcquire 1; Spawn 2 (KInteract FRet); CancelAwait 1; CancelAwait 2;
   DropWrapper; BFinish 1; BAcquire 3; BFinish 3; BSkip 2].
Example c14_nonvacuous_cancel_drop :
  exists s, run init tr_cancel_drop = Some s /\ destroyed_by s = [Blocking 3] /\ val s = Taken
            /\ nth_error (jobs s) 2 =
               Some {| jkind := KInteract FRet; jst := JDone RAborted; jaw := ACancelled; jran := false |}.
Proof. eexists. vm_compute. repeat split. Qed.

(* the drop job cannot enter while the closure is inside *)
Example c14_nonvacuous_drop_waits :
  exists s, run init [Spawn 0 (KCreate CFOk); BAcquire 0; BFinish 0; Deliver 0;
                      Spawn 1 (KInteract FRet); BAcquire 1; CancelAwait 1; DropWrapper] = Some s
            /\ step s (BAcquire 2) = None /\ lock s = Some 1.
Proof. eexists. vm_compute. repeat split. Qed.

(* a panic poisons; the next interaction reports Panic without running *)
Example c14_nonvacuous_panic :
  exists s, run init [Spawn 0 (KCreate CFOk); BAcquire 0; BFinish 0; Deliver 0;
                      Spawn 1 (KInteract FPanic); BAcquire 1; BFinish 1; Deliver 1;
                      Spawn 2 (KInteract FRet); BSkip 2; Deliver 2; DropWrapper;
                      BAcquire 3; BFinish 3] = Some s
            /\ poisoned s = true /\ destroyed_by s = [Blocking 3]
            /\ nth_error (jobs s) 2 =
               Some {| jkind := KInteract FRet; jst := JDone RPanic; jaw := ADelivered; jran := false |}.
Proof. eexists. vm_compute. repeat split. Qed.

(* a creation whose await is dropped right after the closure finished: the wrapper is dropped
   unseen, the value is still destroyed by a blocking job *)
Example c14_nonvacuous_create_cancel :
  exists s, run init [Spawn 0 (KCreate CFOk); BAcquire 0; BFinish 0; CancelAwait 0;
                      BAcquire 1; BFinish 1] = Some s
            /\ destroyed_by s = [Blocking 1] /\ wrapper_alive s = false.
Proof. eexists. vm_compute. repeat split. Qed.

Check c14_placement : forall tr s,
  run init tr = Some s ->
  (forall e, In e (log s) ->
     match e with
     | EBegin k a | EEnd k a =>
         a = Blocking k /\ exists j, nth_error (jobs s) k = Some j /\ is_drop (jkind j) = false
     | EDestroyBegin a | EDestroyEnd a =>
         exists k j, a = Blocking k /\ nth_error (jobs s) k = Some j /\ is_drop (jkind j) = true
     end) /\
  (forall a, In a (destroyed_by s) ->
     exists k j, a = Blocking k /\ nth_error (jobs s) k = Some j /\ jkind j = KDrop).
Print Assumptions c14_destroy_at_most_once.
Print Assumptions c14_destroy_once_after_drop_job.
Print Assumptions c14_not_destroyed_before.
Print Assumptions c14_drop_spawns_job.
Print Assumptions c14_placement.
Print Assumptions c14_async_actor_never_touches_value.
Print Assumptions c14_bodies_are_blocking_steps.
Print Assumptions c14_destruction_after_closures.
Print Assumptions c14_reachable_inv.
Print Assumptions c14_mutual_exclusion.
Print Assumptions c14_cancel_changes_nothing.
Print Assumptions c14_panic_is_reported_and_poisons.
Print Assumptions c14_poisoned_forever.
Print Assumptions c14_result_is_final.
Print Assumptions c14_await_gets_the_jobs_result.
Print Assumptions c14_taken_forever.
Print Assumptions c14_late_job_is_aborted_unrun.
