(* C04 - Only freshly verified objects are handed out; errors surface exactly. *)
From Coq Require Import List ZArith Bool.
From DP Require Import Common.Tab Managed.Model Managed.Contrib Managed.All Managed.Count Managed.Retain
  Managed.Ops Managed.Abandon Managed.Others Managed.Protocol.
Import ListNotations.
Open Scope Z_scope.

(* the verification of an idle object visits every pre_recycle hook, Manager::recycle and every
   post_recycle hook exactly once, in registration order, and only then ends *)
Theorem c04_stage_chain : forall c,
  chain c (S (length (pre c) + length (post c))) (first_stage c) = stages c.
Proof. exact stage_chain. Qed.

(* one successful answer moves exactly one stage on (making exactly that call on exactly that
   object), or - after the last stage - hands the object out *)
Theorem c04_stage_progress : forall c s t g o st s',
  pcof s t = GRec g o st -> step c s (Env t OOk) = Some s' ->
  match succ_stage c st with
  | Some st' => pcof s' t = GRec g o st' /\ out s' = out s
                /\ log s' = (match st' with SPre k => EHookCall 0 k o | SRecycle => ERecycleCall o t
                                          | SPost k => EHookCall 2 k o end) :: log s
  | None => pcof s' t = PDone ROk /\ out s' = bump (recycled_obj s o) :: out s
            /\ log s' = EHandOut (bump (recycled_obj s o)) t :: log s
  end.
Proof. exact stage_progress. Qed.

(* a step that fails, panics, is cancelled or times out sends the object to the discard chain;
   HookVec::apply stops at the first failing hook (no further call is made) *)
Theorem c04_stage_failure : forall c s t g o st,
  pcof s t = GRec g o st ->
  step c s (Env t OErr) = Some (tick (setpc s t (UUnready g o CLoop)))
  /\ step c s (Env t OPanic) = Some (tick (setpc s t (UUnready g o (CRes RPanicked))))
  /\ (stage_async c st = true ->
      step c s (Cancel t) = Some (tick (setpc s t (UUnready g o (CRes RCancelled)))))
  /\ (runtime c = true -> st = SRecycle -> timed (gr g) = true ->
      step c s (Fire t) = Some (tick (setpc s t (UUnready g o CLoop)))).
Proof. exact stage_failure. Qed.

(* the rejected object is detached and destroyed exactly once and get() silently moves on -
   with the permit it holds - to the next idle object or a create *)
Theorem c04_moves_on : forall c s t g o,
  pcof s t = UUnready g o CLoop ->
  exists s1 s2, step c s (Step t) = Some s1 /\ step c s1 (Step t) = Some s2
    /\ pcof s2 t = GPop g /\ hp (pcof s2 t) = 1
    /\ log s2 = EDestroy (oid o) t :: EDetach (oid o) t :: log s
    /\ size s2 = size s - 1 /\ permits s2 = permits s /\ users s2 = users s.
Proof. exact moves_on. Qed.

(* and it is never handed out (or kept) again *)
Theorem c04_discarded_never_again : forall c s x, Reachable c s -> alive s = true ->
  dcount x (log s) = 1 ->
  zcount x (vec s) = 0 /\ zcount x (out s) = 0 /\ sum (pcnt x) (tasks s) = 0.
Proof. exact detached_is_gone. Qed.

(* creation: the object is counted, then every post_create hook in order, then handed out *)
Theorem c04_created_enters_hooks : forall c s t g o s',
  pcof s t = GCreated g o -> step c s (Step t) = Some s' ->
  size s' = size s + 1
  /\ match pcr c with
     | [] => pcof s' t = PDone ROk /\ out s' = bump o :: out s
     | _ => pcof s' t = GPostC g o 0 /\ out s' = out s /\ log s' = EHookCall 4 0 o :: log s
     end.
Proof. exact created_enters_hooks. Qed.

Theorem c04_postcreate_progress : forall c s t g o k s',
  pcof s t = GPostC g o k -> step c s (Env t OOk) = Some s' ->
  if Nat.ltb (S k) (length (pcr c))
  then pcof s' t = GPostC g o (S k) /\ out s' = out s /\ log s' = EHookCall 4 (S k) o :: log s
  else pcof s' t = PDone ROk /\ out s' = bump o :: out s /\ log s' = EHandOut (bump o) t :: log s.
Proof. exact postcreate_progress. Qed.

Theorem c04_postcreate_failure : forall c s t g o k,
  pcof s t = GPostC g o k ->
  step c s (Env t OErr) = Some (tick (setpc s t (UUnready g o (CRes RPostCreate))))
  /\ step c s (Env t OPanic) = Some (tick (setpc s t (UUnready g o (CRes RPanicked)))).
Proof. exact postcreate_failure. Qed.

(* the error table: every result has one of the documented causes (see [cause]): Ok after the
   last stage / hook; Backend only from a failing create; PostCreateHook only from a failing
   post_create hook; Timeout(Wait), Timeout(Create), Closed, NoRuntimeSpecified from exactly
   their conditions; nothing else *)
Theorem c04_error_table : forall c tr s t r,
  run c (init c) tr = Some s -> carries (pcof s t) = Some r ->
  exists s0 l, Reachable c s0 /\ label_task l = Some t /\ cause c s0 l t r.
Proof. exact results_have_causes. Qed.

(* Timeout(Recycle) - and any error of a recycle step - is never returned *)
Theorem c04_never_timeout_recycle : forall c s t,
  Reachable c s -> carries (pcof s t) <> Some RTimeoutRecycle.
Proof. exact never_timeout_recycle. Qed.

(* non-vacuity: one pre and one post hook; first recycle attempt rejected by the post hook, the
   get moves on, creates, and hands out the new object *)
Definition g0 := {| gw := TNone; gc := TNone; gr := TNone |}.
Definition cfgh := {| max0 := 1; lifo := false; pre := [false]; post := [true]; pcr := []; runtime := false |}.
Definition tr4 : list label :=
  [Start 0 (OpGet g0); Step 0; Step 0; Step 0; Step 0; Env 0 OOk; Step 0;
   Start 1 (OpDrop 0); Step 1; Step 1; Step 1;
   Start 2 (OpGet g0); Step 2; Step 2; Step 2; Step 2;
   Env 2 OOk; Env 2 OOk; Env 2 OErr; Step 2; Step 2; Step 2; Env 2 OOk; Step 2].
Example c04_nonvacuous :
  exists s, run cfgh (init cfgh) tr4 = Some s /\ pcof s 2 = PDone ROk /\ map oid (out s) = [1%nat]
            /\ dcount 0 (log s) = 1 /\ size s = 1 /\ stages cfgh = [SPre 0; SRecycle; SPost 0].
Proof. eexists. vm_compute. repeat split. Qed.

Check c04_error_table : forall c tr s t r,
  run c (init c) tr = Some s -> carries (pcof s t) = Some r ->
  exists s0 l, Reachable c s0 /\ label_task l = Some t /\ cause c s0 l t r.
Print Assumptions c04_stage_chain.
Print Assumptions c04_stage_progress.
Print Assumptions c04_stage_failure.
Print Assumptions c04_moves_on.
Print Assumptions c04_discarded_never_again.
Print Assumptions c04_created_enters_hooks.
Print Assumptions c04_postcreate_progress.
Print Assumptions c04_postcreate_failure.
Print Assumptions c04_error_table.
Print Assumptions c04_never_timeout_recycle.
