(* C01 - Managed pool never has more than max_size live objects.
   This file only states the theorems (closed by [exact]) and prints their assumptions. *)
From Coq Require Import List ZArith Bool.
From DP Require Import Common.Tab Managed.Model Managed.Contrib Managed.InvCore Managed.Reach.
Import ListNotations.
Open Scope Z_scope.

(* Every state reachable by a label sequence without resize / close: idle + checked out +
   in creation / recycling (live) <= max_size. Quantifies over every configuration (any
   max_size, both queue modes, any hooks), every interleaving at schedule-point granularity,
   every outcome (ok / error / panic), cancellation and timer label. *)
Theorem c01_live_le_max : forall c tr s,
  run c (init c) tr = Some s -> no_rc tr = true -> alive s = true ->
  live s <= Z.of_nat (max0 c).
Proof. exact c01_live. Qed.

Theorem c01_holders_le_max : forall c tr s,
  run c (init c) tr = Some s -> no_rc tr = true -> alive s = true ->
  zlen (out s) <= Z.of_nat (max0 c).
Proof. exact c01_holders. Qed.

Theorem c01_create_within_limit : forall c tr s t g,
  run c (init c) tr = Some s -> no_rc tr = true -> alive s = true -> pcof s t = GCreate g ->
  zlen (vec s) + zlen (out s) + (sum ell (tasks s) - ell (pcof s t)) + 1 <= Z.of_nat (max0 c).
Proof. exact c01_creating. Qed.

Theorem c01_size_le_max : forall c tr s,
  run c (init c) tr = Some s -> no_rc tr = true -> alive s = true -> size s <= Z.of_nat (max0 c).
Proof. exact c01_size. Qed.

(* non-vacuity: three tasks, max_size 2: two objects created and handed out, the third get
   waits; live = 2 = max_size *)
Definition g0 := {| gw := TNone; gc := TNone; gr := TNone |}.
Definition cfg2 := {| max0 := 2; lifo := false; pre := []; post := []; pcr := []; runtime := false |}.
Definition tr_full : list label :=
  [Start 0 (OpGet g0); Step 0; Step 0; Step 0; Step 0; Env 0 OOk; Step 0;
   Start 1 (OpGet g0); Step 1; Step 1; Step 1; Step 1; Env 1 OOk; Step 1;
   Start 2 (OpGet g0); Step 2; Step 2].
Example c01_nonvacuous :
  exists s, run cfg2 (init cfg2) tr_full = Some s /\ no_rc tr_full = true /\ alive s = true
            /\ live s = 2 /\ pcof s 2 = GWait g0 false.
Proof. eexists. vm_compute. repeat split. Qed.

(* a rejected recycle followed by a create stays within the limit; max_size 1 *)
Definition cfg1 := {| max0 := 1; lifo := false; pre := []; post := []; pcr := []; runtime := false |}.
Definition tr_reject : list label :=
  [Start 0 (OpGet g0); Step 0; Step 0; Step 0; Step 0; Env 0 OOk; Step 0;
   Start 1 (OpDrop 0); Step 1; Step 1; Step 1;
   Start 2 (OpGet g0); Step 2; Step 2; Step 2; Step 2; Env 2 OErr; Step 2; Step 2; Step 2; Env 2 OOk; Step 2].
Example c01_nonvacuous_reject :
  exists s, run cfg1 (init cfg1) tr_reject = Some s /\ live s = 1 /\ zlen (out s) = 1.
Proof. eexists. vm_compute. repeat split. Qed.

Check c01_live_le_max : forall c tr s,
  run c (init c) tr = Some s -> no_rc tr = true -> alive s = true -> live s <= Z.of_nat (max0 c).
Print Assumptions c01_live_le_max.
Print Assumptions c01_holders_le_max.
Print Assumptions c01_create_within_limit.
Print Assumptions c01_size_le_max.
