(* C05 - Unmanaged pool conserves its objects and respects max_size.
   This file only states the theorems (closed by [exact]) and prints their assumptions.
   Model: Unmanaged/Model.v (the code after the repairs of D7 and D8). Every theorem
   quantifies over every configuration (constructor new / from_config / From<iterator>, every
   max_size, every pool timeout), every label sequence [tr] (every interleaving of the atomic
   steps of get / try_get / timeout_get / remove* / add / try_add / take / Object::drop /
   close / status by any number of tasks, and every cancellation of a parked get or add). *)
From Coq Require Import List ZArith Bool Arith.
From DP Require Import Common.Tab Unmanaged.Model Unmanaged.Contrib Unmanaged.InvQ Unmanaged.InvStepQ
  Unmanaged.InvG Unmanaged.InvId Unmanaged.Reach.
Import ListNotations.
Open Scope Z_scope.

(* Identity: every object ever given to the pool occurs exactly once in
   queue + checked out + handed back + destroyed + dropped with a cancelled add + in the hands
   of an operation in flight; an object never given to the pool occurs nowhere. *)
Theorem c05_conservation : forall c tr s o,
  run c (init c) tr = Some s ->
  occ o (vec s) + occ o (out s) + occ o (loose s) + occ o (dead s) + occ o (gone s)
  + sum (holds o) (tasks s) = (if Nat.ltb o (next_oid s) then 1 else 0).
Proof. exact conservation. Qed.

(* ... and while the pool is open the pool destroys nothing *)
Theorem c05_not_destroyed_while_open : forall c tr s,
  run c (init c) tr = Some s -> closed s = false -> dead s = [].
Proof. exact not_destroyed_open. Qed.

(* size is exact and never exceeds max_size: the objects in the queue and checked out
   (plus those in the hands of an operation) are what [size] counts *)
Theorem c05_size_le_max : forall c tr s,
  run c (init c) tr = Some s ->
  size s <= zmax c /\ size s = zlen (vec s) + zlen (out s) + sum cs (tasks s)
  /\ zlen (vec s) + zlen (out s) <= zmax c.
Proof. exact size_le_max. Qed.

(* the size semaphore holds exactly the free slots: max_size - size - reserved *)
Theorem c05_free_slots : forall c tr s,
  run c (init c) tr = Some s -> closed s = false ->
  spermits s + sum hs (tasks s) + size s = zmax c /\ 0 <= spermits s.
Proof. exact slots_open. Qed.

(* the object semaphore holds one permit per queued object *)
Theorem c05_one_permit_per_object : forall c tr s,
  run c (init c) tr = Some s -> closed s = false ->
  permits s + sum hp (tasks s) + sum pp (tasks s) = zlen (vec s).
Proof. exact permits_open. Qed.

(* try_add reports Timeout exactly when no slot is free (and the pool is not closed), gives
   the object back and leaves the pool alone; "no slot free" is "size + reserved = max_size" *)
Theorem c05_try_add_full : forall c tr s t o,
  run c (init c) tr = Some s -> pcof s t = AStart o false ->
  exists s', step c s (Step t) = Some s'
    /\ (pcof s' t = PDone RTimeout <-> (sclosed s = false /\ spermits s = 0))
    /\ (pcof s' t = PDone RTimeout -> In o (loose s') /\ vec s' = vec s /\ size s' = size s)
    /\ (closed s = false -> (spermits s = 0 <-> size s + sum hs (tasks s) = zmax c)).
Proof. exact try_add_full. Qed.

(* add waits exactly when no slot is free, otherwise it goes on *)
Theorem c05_add_waits_iff_full : forall c tr s t o,
  run c (init c) tr = Some s -> pcof s t = AStart o true ->
  exists s', step c s (Step t) = Some s'
    /\ (pcof s' t = AWait o false <-> (sclosed s = false /\ spermits s = 0))
    /\ (sclosed s = false -> 0 < spermits s -> pcof s' t = APush o)
    /\ (closed s = false -> (spermits s = 0 <-> size s + sum hs (tasks s) = zmax c)).
Proof. exact add_waits_iff_full. Qed.

(* the step of take / remove that frees the slot hands it to the oldest parked adder ... *)
Theorem c05_slot_wakes_adder : forall c tr s t x r w q,
  run c (init c) tr = Some s -> pcof s t = TPermit x r -> squeue s = w :: q ->
  exists s' o, step c s (Step t) = Some s' /\ pcof s w = AWait o false /\ pcof s' w = AWait o true
               /\ squeue s' = q.
Proof. exact slot_wakes_adder. Qed.

(* ... whose next poll proceeds to the push *)
Theorem c05_assigned_adder_proceeds : forall c s w o,
  pcof s w = AWait o true -> sclosed s = false -> step c s (Step w) = Some (setpc s w (APush o)).
Proof. exact assigned_adder_proceeds. Qed.

(* likewise a returned or added object wakes the oldest parked getter *)
Theorem c05_object_wakes_getter : forall c tr s t w q,
  run c (init c) tr = Some s -> (pcof s t = DPermit \/ pcof s t = APermit) -> queue s = w :: q ->
  exists s' rm, step c s (Step t) = Some s' /\ pcof s w = GWait rm false /\ pcof s' w = GWait rm true
                /\ queue s' = q.
Proof. exact object_wakes_getter. Qed.

Theorem c05_assigned_getter_proceeds : forall c s w rm,
  pcof s w = GWait rm true -> closed s = false -> step c s (Step w) = Some (setpc s w (GPop true rm)).
Proof. exact assigned_getter_proceeds. Qed.

(* status() at rest (every task finished or parked without a permit) is exact:
   (max_size, objects in the pool or checked out, objects in the pool, parked getters) *)
Theorem c05_status_rest : forall c tr s,
  run c (init c) tr = Some s -> at_rest s ->
  status_event c s (size s)
  = EStatus (zmax c) (zlen (vec s) + zlen (out s)) (zlen (vec s)) (sum nw (tasks s)).
Proof. exact status_rest_run. Qed.

(* ... where [status_event c s (size s)] is what a status() call run from [s] reports *)
Theorem c05_status_op : forall c s t,
  t = length (tasks s) ->
  exists s', run c s [Start t OpStatus; Step t; Step t] = Some s'
    /\ log s' = status_event c s (size s) :: log s.
Proof. exact status_op. Qed.

(* dropping a parked get(): the pool is exactly as before, the waiting count goes back *)
Theorem c05_cancel_get_restores : forall c s t rm,
  pcof s t = GWait rm false ->
  exists s1 s2, step c s (Cancel t) = Some s1 /\ step c s1 (Step t) = Some s2
    /\ permits s2 = permits s /\ closed s2 = closed s /\ queue s2 = remove_nat t (queue s)
    /\ spermits s2 = spermits s /\ sclosed s2 = sclosed s /\ squeue s2 = squeue s
    /\ vec s2 = vec s /\ size s2 = size s /\ avail s2 = avail s + 1
    /\ out s2 = out s /\ loose s2 = loose s /\ dead s2 = dead s /\ gone s2 = gone s
    /\ next_oid s2 = next_oid s /\ log s2 = log s
    /\ pcof s2 t = PDone RCancelled /\ (forall t', t' <> t -> pcof s2 t' = pcof s t').
Proof. exact cancel_get_restores. Qed.

(* dropping a parked add(): only the wait queue changes *)
Theorem c05_cancel_add_restores : forall c s t o,
  pcof s t = AWait o false ->
  exists s1, step c s (Cancel t) = Some s1
    /\ permits s1 = permits s /\ closed s1 = closed s /\ queue s1 = queue s
    /\ spermits s1 = spermits s /\ sclosed s1 = sclosed s /\ squeue s1 = remove_nat t (squeue s)
    /\ vec s1 = vec s /\ size s1 = size s /\ avail s1 = avail s
    /\ out s1 = out s /\ loose s1 = loose s /\ dead s1 = dead s /\ gone s1 = o :: gone s
    /\ next_oid s1 = next_oid s
    /\ pcof s1 t = PDone RCancelled /\ (forall t', t' <> t -> pcof s1 t' = pcof s t').
Proof. exact cancel_add_restores. Qed.

(* the three constructors establish all invariants (for every max_size >= 0) *)
Theorem c05_constructors : forall c, All c (init c).
Proof. exact All_init. Qed.

(* ------------------------------------------------------------------ non-vacuity *)
Definition cfg_new1 := {| how := CNew; max0 := 1; ptmo := TNone; rt := false |}.
Definition cfg_iter2 := {| how := CIter; max0 := 2; ptmo := TNone; rt := false |}.

(* new(1): try_add(0) succeeds, add(1) parks on the full pool, try_add(2) reports Timeout and
   gets 2 back, try_remove frees the slot and serves the parked adder *)
Definition tr_full : list label :=
  [Start 0 (OpAdd 0 false); Step 0; Step 0; Step 0; Step 0;
   Start 1 (OpAdd 1 true); Step 1;
   Start 2 (OpAdd 2 false); Step 2;
   Start 3 (OpGet STry true); Step 3; Step 3; Step 3; Step 3; Step 3].
Example c05_nonvacuous_full :
  exists s, run cfg_new1 (init cfg_new1) tr_full = Some s
    /\ pcof s 0 = PDone ROk /\ pcof s 1 = AWait 1 true /\ pcof s 2 = PDone RTimeout
    /\ pcof s 3 = PDone ROk /\ loose s = [0%nat; 2%nat] /\ size s = 0 /\ vec s = [] /\ dead s = [].
Proof. eexists. vm_compute. repeat split. Qed.

(* From<iterator> of two objects: a get parks after both are out, status() shows waiting 1 *)
Definition tr_wait : list label :=
  [Start 0 (OpGet STry false); Step 0; Step 0; Step 0;
   Start 1 (OpGet SGet false); Step 1; Step 1; Step 1; Step 1;
   Start 2 (OpGet SGet false); Step 2; Step 2].
Example c05_nonvacuous_wait :
  exists s, run cfg_iter2 (init cfg_iter2) tr_wait = Some s
    /\ at_rest s /\ out s = [0%nat; 1%nat] /\ pcof s 2 = GWait false false
    /\ status_event cfg_iter2 s (size s) = EStatus 2 2 0 1.
Proof. eexists. vm_compute. repeat split. Qed.

Check c05_conservation : forall c tr s o,
  run c (init c) tr = Some s ->
  occ o (vec s) + occ o (out s) + occ o (loose s) + occ o (dead s) + occ o (gone s)
  + sum (holds o) (tasks s) = (if Nat.ltb o (next_oid s) then 1 else 0).
Print Assumptions c05_conservation.
Print Assumptions c05_not_destroyed_while_open.
Print Assumptions c05_size_le_max.
Print Assumptions c05_free_slots.
Print Assumptions c05_one_permit_per_object.
Print Assumptions c05_try_add_full.
Print Assumptions c05_add_waits_iff_full.
Print Assumptions c05_slot_wakes_adder.
Print Assumptions c05_assigned_adder_proceeds.
Print Assumptions c05_object_wakes_getter.
Print Assumptions c05_assigned_getter_proceeds.
Print Assumptions c05_status_rest.
Print Assumptions c05_status_op.
Print Assumptions c05_cancel_get_restores.
Print Assumptions c05_cancel_add_restores.
Print Assumptions c05_constructors.
