(* Small list facts shared by the manager models (lists of connection ids, pointwise update). *)
From Coq Require Import List ZArith Lia Bool Arith.
Import ListNotations.

Lemma nodup_app_iff {A : Type} (a b : list A) :
  NoDup (a ++ b) <-> NoDup a /\ NoDup b /\ (forall x, In x a -> ~ In x b).
Proof.
  induction a as [|y a IH]; cbn [app].
  - split.
    + intros H. repeat split; [constructor | assumption | intros x []].
    + intros (_ & H & _). assumption.
  - split.
    + intros H. inversion H as [|? ? Hn Hd]; subst. apply IH in Hd. destruct Hd as (Ha & Hb & Hab).
      repeat split.
      * constructor; [|assumption]. intros Hin. apply Hn. apply in_or_app. left. assumption.
      * assumption.
      * intros x [Hx|Hx] Hxb.
        -- subst. apply Hn. apply in_or_app. right. assumption.
        -- exact (Hab x Hx Hxb).
    + intros (Ha & Hb & Hab). inversion Ha as [|? ? Hn Hd]; subst. constructor.
      * intros Hin. apply in_app_or in Hin. destruct Hin as [Hin|Hin]; [exact (Hn Hin)|].
        exact (Hab y (or_introl eq_refl) Hin).
      * apply IH. repeat split; [assumption | assumption |].
        intros x Hx. apply Hab. right. assumption.
Qed.

Lemma existsb_eqb_In (x : nat) (l : list nat) : existsb (Nat.eqb x) l = true <-> In x l.
Proof.
  rewrite existsb_exists. split.
  - intros (y & Hy & He). apply Nat.eqb_eq in He. subst. assumption.
  - intros H. exists x. split; [assumption | apply Nat.eqb_refl].
Qed.

Lemma existsb_eqb_nIn (x : nat) (l : list nat) : existsb (Nat.eqb x) l = false <-> ~ In x l.
Proof.
  rewrite <- existsb_eqb_In. destruct (existsb (Nat.eqb x) l).
  - split; [discriminate | intros H; exfalso; apply H; reflexivity].
  - split; [intros _ H; discriminate | reflexivity].
Qed.

Section Upd.
  Context {A : Type}.

  Lemma nth_app_fresh (l : list A) (v d : A) : nth (length l) (l ++ [v]) d = v.
  Proof. rewrite app_nth2 by lia. rewrite Nat.sub_diag. reflexivity. Qed.

  Lemma nth_app_old (l : list A) (v d : A) (x : nat) : (x < length l)%nat -> nth x (l ++ [v]) d = nth x l d.
  Proof. intros H. apply app_nth1. assumption. Qed.
End Upd.

Lemma in_rev_map_pair {A B : Type} (y : A) (cs : list B) (p : A * B) :
  In p (rev (map (fun c => (y, c)) cs)) -> fst p = y /\ In (snd p) cs.
Proof.
  intros H. apply in_rev in H. apply in_map_iff in H. destruct H as (c & He & Hc). subst p.
  split; [reflexivity | assumption].
Qed.
