(* The StatementCaches registry against an abstract pool, with the pool's detach discipline as an
   explicit hypothesis.

   A history is a list of events of one pool and its manager (oldest first):
     PCreate x   Manager::create returned client x (its cache is attached); the pool owns x
     PLetGo x    the pool lets go of x: Object::take, removed by retain, rejected recycle, surplus
                 return, shrink, close
     PDetach x   Manager::detach is called for x
   The registry is computed by the code of StatementCaches (attach pushes, detach retains the
   others). The discipline - property C09 of the managed pool - is what [grun] checks: a client is
   created once, only an owned client is let go of, detach is called only for a client that was let
   go of and at most once; [gpend] are the clients for which that call is still to come. *)
From Coq Require Import List ZArith Lia Bool Arith.
From DP Require Import Mgr.ListAux Mgr.Postgres Mgr.PostgresInv.
Import ListNotations.

Inductive pev := PCreate (x : nat) | PLetGo (x : nat) | PDetach (x : nat).

Record gst := {
  greg : list nat;     (* StatementCaches.caches *)
  gown : list nat;     (* clients the pool owns: idle or checked out *)
  gpend : list nat;    (* let go of, Manager::detach not yet called *)
  gseen : list nat     (* every client ever created *)
}.

Definition ginit : gst := {| greg := []; gown := []; gpend := []; gseen := [] |}.

Definition gstep (g : gst) (e : pev) : option gst :=
  match e with
  | PCreate x =>
      if mem x (gseen g) then None
      else Some {| greg := greg g ++ [x]; gown := x :: gown g; gpend := gpend g; gseen := x :: gseen g |}
  | PLetGo x =>
      if mem x (gown g)
      then Some {| greg := greg g; gown := remove_nat x (gown g); gpend := x :: gpend g; gseen := gseen g |}
      else None
  | PDetach x =>
      if mem x (gpend g)
      then Some {| greg := filter (fun y => negb (Nat.eqb y x)) (greg g); gown := gown g;
                   gpend := remove_nat x (gpend g); gseen := gseen g |}
      else None
  end.

Fixpoint grun (g : gst) (h : list pev) : option gst :=
  match h with
  | [] => Some g
  | e :: h' => match gstep g e with Some g' => grun g' h' | None => None end
  end.

Record GInv (g : gst) : Prop := {
  gi_own : NoDup (gown g);
  gi_pend : NoDup (gpend g);
  gi_disj : forall x, In x (gown g) -> ~ In x (gpend g);
  gi_seen : forall x, In x (gown g) \/ In x (gpend g) -> In x (gseen g);
  gi_reg : forall x, In x (greg g) <-> In x (gown g) \/ In x (gpend g)
}.

Lemma ginv_init : GInv ginit.
Proof.
  constructor; cbn [ginit greg gown gpend gseen].
  - constructor.
  - constructor.
  - intros x [].
  - intros x [[]|[]].
  - intros x. split; [intros [] | intros [[]|[]]].
Qed.

Lemma ginv_step g e g' : GInv g -> gstep g e = Some g' -> GInv g'.
Proof.
  intros [Ho Hp Hd Hs Hr] Hst. destruct e as [x|x|x]; cbn [gstep] in Hst.
  - destruct (mem x (gseen g)) eqn:E; [discriminate|]. inversion Hst; subst. clear Hst.
    assert (Hn : ~ In x (gseen g)) by (apply existsb_eqb_nIn; exact E).
    constructor; cbn [greg gown gpend gseen].
    + constructor; [|assumption]. intros Hin. apply Hn. apply Hs. left. assumption.
    + assumption.
    + intros y [He|Hy] Hyp; [|exact (Hd y Hy Hyp)]. subst y. apply Hn. apply Hs. right. assumption.
    + intros y [[He|Hy]|Hy]; [left; assumption | right; apply Hs; left; assumption | right; apply Hs; right; assumption].
    + intros y. rewrite in_app_iff, Hr. cbn [In]. intuition.
  - destruct (mem x (gown g)) eqn:E; [|discriminate]. inversion Hst; subst. clear Hst.
    apply mem_In in E. destruct (remove_nat_NoDup x _ Ho) as (M1 & M2).
    constructor; cbn [greg gown gpend gseen].
    + assumption.
    + constructor; [|assumption]. exact (Hd x E).
    + intros y Hy [He|Hyp].
      * subst y. exact (M2 Hy).
      * apply (Hd y); [eapply remove_nat_In; eassumption | assumption].
    + intros y [Hy|[He|Hy]].
      * apply Hs. left. eapply remove_nat_In. eassumption.
      * subst y. apply Hs. left. assumption.
      * apply Hs. right. assumption.
    + intros y. rewrite Hr, (In_remove_nat x y _ Ho). cbn [In]. split.
      * intros [Hy|Hy]; [|right; right; assumption].
        destruct (Nat.eq_dec y x) as [He|Hne]; [subst; right; left; reflexivity | left; split; assumption].
      * intros [(Hy & _)|[He|Hy]]; [left; assumption | subst; left; assumption | right; assumption].
  - destruct (mem x (gpend g)) eqn:E; [|discriminate]. inversion Hst; subst. clear Hst.
    apply mem_In in E. destruct (remove_nat_NoDup x _ Hp) as (M1 & M2).
    constructor; cbn [greg gown gpend gseen].
    + assumption.
    + assumption.
    + intros y Hy Hyp. apply (Hd y Hy). eapply remove_nat_In. eassumption.
    + intros y [Hy|Hy]; apply Hs; [left; assumption | right; eapply remove_nat_In; eassumption].
    + intros y. rewrite In_filter_ne, Hr, (In_remove_nat x y _ Hp). split.
      * intros ([Hy|Hy] & Hne); [left; assumption | right; split; assumption].
      * intros [Hy|(Hy & Hne)]; [|split; [right; assumption | assumption]].
        split; [left; assumption|]. intros He. subst y. exact (Hd x Hy E).
Qed.

Lemma ginv_run h : forall g g', GInv g -> grun g h = Some g' -> GInv g'.
Proof.
  induction h as [|e h IH]; intros g g' HI Hr; cbn [grun] in Hr.
  - inversion Hr; subst. assumption.
  - destruct (gstep g e) as [g1|] eqn:E; [|discriminate].
    eapply IH; [|eassumption]. eapply ginv_step; eassumption.
Qed.

(* at every moment: registry = owned + those whose detach call is still to come *)
Lemma registry_owned_or_pending h g x :
  grun ginit h = Some g -> (In x (greg g) <-> In x (gown g) \/ In x (gpend g)).
Proof. intros Hr. apply (gi_reg _ (ginv_run h _ _ ginv_init Hr)). Qed.

(* with detach called exactly once for every client the pool let go of: registry = owned *)
Lemma registry_exact h g :
  grun ginit h = Some g -> gpend g = [] -> forall x, In x (greg g) <-> In x (gown g).
Proof.
  intros Hr Hp x. rewrite (registry_owned_or_pending h g x Hr), Hp. cbn [In]. intuition.
Qed.

(* a client that was let go of and detached is not reached by the registry any more, for ever *)
Lemma registry_never_again h g h' g' x :
  grun ginit h = Some g -> grun g h' = Some g' ->
  In x (gseen g) -> ~ In x (gown g) -> ~ In x (gpend g) -> ~ In x (greg g').
Proof.
  intros Hr Hr' Hs Ho Hp.
  assert (K : forall h' g g', GInv g -> grun g h' = Some g' -> In x (gseen g) ->
              ~ In x (gown g) -> ~ In x (gpend g) ->
              In x (gseen g') /\ ~ In x (gown g') /\ ~ In x (gpend g')).
  { clear. induction h' as [|e h' IH]; intros g g' HI Hr Hs Ho Hp; cbn [grun] in Hr.
    - inversion Hr; subst. auto.
    - destruct (gstep g e) as [g1|] eqn:E; [|discriminate].
      apply (IH g1 g' (ginv_step _ _ _ HI E) Hr); destruct e as [y|y|y]; cbn [gstep] in E.
      + destruct (mem y (gseen g)); inversion E; subst; cbn [gseen]. right. assumption.
      + destruct (mem y (gown g)); inversion E; subst; cbn [gseen]. assumption.
      + destruct (mem y (gpend g)); inversion E; subst; cbn [gseen]. assumption.
      + destruct (mem y (gseen g)) eqn:Em; inversion E; subst; cbn [gown].
        intros [He|Hin]; [|exact (Ho Hin)]. subst y.
        apply existsb_eqb_nIn in Em. exact (Em Hs).
      + destruct (mem y (gown g)); inversion E; subst; cbn [gown].
        intros Hin. apply Ho. eapply remove_nat_In. eassumption.
      + destruct (mem y (gpend g)); inversion E; subst; cbn [gown]. assumption.
      + destruct (mem y (gseen g)); inversion E; subst; cbn [gpend]. assumption.
      + destruct (mem y (gown g)) eqn:Em; inversion E; subst; cbn [gpend].
        intros [He|Hin]; [|exact (Hp Hin)]. subst y. apply mem_In in Em. exact (Ho Em).
      + destruct (mem y (gpend g)); inversion E; subst; cbn [gpend].
        intros Hin. apply Hp. eapply remove_nat_In. eassumption. }
  pose proof (ginv_run h _ _ ginv_init Hr) as HI.
  destruct (K h' g g' HI Hr' Hs Ho Hp) as (_ & Ho' & Hp').
  intros Hin. apply (gi_reg _ (ginv_run h' _ _ HI Hr')) in Hin. destruct Hin; contradiction.
Qed.
