(* Observation function of the redis model (the flat integer list the harness prints after every
   label) and the decoders of the harness' integer encoding. *)
From Coq Require Import List ZArith Lia Bool Arith.
From DP Require Import Mgr.Redis.
Import ListNotations.
Open Scope Z_scope.

Definition zlen {A : Type} (l : list A) : Z := Z.of_nat (length l).

Definition cmd_code (e : nat * cmd) : list Z :=
  let x := n2z (fst e) in
  match snd e with
  | CUnwatch => [2; x; 1]
  | CPing n a => [5; x; 2; n; match a with Some _ => 1 | None => 0 end;
                  match a with Some v => v | None => 0 end]
  | CWatch => [2; x; 3]
  | CGet => [2; x; 4]
  | CSet => [2; x; 5]
  | CMark w => [3; x; 6; b2z w]
  end.

Definition conn_code (cn : conn) : list Z := [b2z (negb (alive cn)); b2z (watch cn)].

Definition obs (prev : nat) (s : state) (res : list Z) : list Z :=
  let new := rev (firstn (length (tl s) - prev) (tl s)) in
  let users := zlen (out s) in
  res ++ [maxs s; size s; if Z.ltb users (size s) then size s - users else 0]
      ++ [zlen (conns s)] ++ flat_map conn_code (conns s)
      ++ [zlen new] ++ flat_map cmd_code new
      ++ [0].

Fixpoint run_obs (s : state) (tr : list label) : list Z :=
  match tr with
  | [] => []
  | l :: tr' =>
      match step s l with
      | Some (s', res) =>
          let o := obs (length (tl s)) s' res in
          zlen o :: o ++ run_obs s' tr'
      | None => [-1]
      end
  end.

Definition zn (z : Z) : nat := Z.to_nat z.
Definition nthz (l : list Z) (i : nat) : Z := nth i l 0.

Definition dec_reply (m v : Z) : reply :=
  if Z.eqb m 0 then REcho
  else if Z.leb m 3 then RVal v
  else if Z.eqb m 4 || Z.eqb m 9 then RNil     (* 9: no answer at all (response timeout) *)
  else if Z.eqb m 5 then RErr
  else if Z.eqb m 7 || Z.eqb m 8 || Z.eqb m 10 || Z.eqb m 11 then RVal (-7)   (* "PONG", "007", "+7": strings that are never the echo of a ping number *)
  else RDrop.

Definition dec_ucmd (k : Z) : ucmd :=
  let k := k mod 4 in
  if Z.eqb k 0 then UWatch else if Z.eqb k 1 then UGet else if Z.eqb k 2 then USet else UUnwatch.

Definition dec_label (l : list Z) : label :=
  let k := nthz l 0 in
  let x := zn (nthz l 1) in
  if Z.eqb k 0 then LGet
  else if Z.eqb k 1 then LRet x
  else if Z.eqb k 2 then LTake x
  else if Z.eqb k 3 then LUse x (dec_ucmd (nthz l 2))
  else if Z.eqb k 4 then LArmP x (dec_reply (nthz l 2) (nthz l 3))
  else if Z.eqb k 5 then LArmU x
  else if Z.eqb k 6 then LArmC
  else LKill x.

Definition run_case_z (x : list Z * list (list Z)) : list Z :=
  run_obs (init (zn (nthz (fst x) 0))) (map dec_label (snd x)).
