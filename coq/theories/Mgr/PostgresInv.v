(* Invariants of the postgres model: ownership and registry, well-formed caches, timeline. *)
From Coq Require Import List ZArith Lia Bool Arith.
From DP Require Import Mgr.ListAux Mgr.Postgres Mgr.PostgresCache.
Import ListNotations.
Open Scope Z_scope.

(* ------------------------------------------------------------------ what the theorems talk about *)
(* the timeline of client [x], newest first *)
Definition ctl (x : nat) (l : list (nat * tev)) : list tev :=
  map snd (filter (fun e => Nat.eqb (fst e) x) l).

(* the documented check of a recycling method *)
Definition check_msgs (m : method) : list msg :=
  match sql_of m with None => [] | Some q => [MQuery q] end.

(* every hand-out on a client's timeline: the client is not closed; a new client has no history;
   a reused client's history is: returned to the idle queue, then exactly the documented check *)
Fixpoint hand_ok (m : method) (l : list tev) : Prop :=
  match l with
  | [] => True
  | THand reused cl :: rest =>
      cl = false
      /\ (if reused then exists r, rest = map TMsg (rev (check_msgs m)) ++ TRet :: r else rest = [])
      /\ hand_ok m rest
  | _ :: rest => hand_ok m rest
  end.

Definition owned (s : state) (x : nat) : Prop := In x (idle s) \/ In x (out s).

Definition all_wf (l : list conn) : Prop := Forall (fun cn => cache_wf (cch cn)) l.

Record Inv (c : cfg) (s : state) : Prop := {
  inv_nodup : NoDup (idle s ++ out s);
  inv_taken : forall x, In x (taken s) -> ~ owned s x;
  inv_ids : forall x, owned s x \/ In x (taken s) -> (x < length (conns s))%nat;
  inv_reg_nodup : NoDup (registry s);
  inv_reg : forall x, In x (registry s) <-> owned s x;
  inv_wf : all_wf (conns s);
  inv_tl : forall x e, In (x, e) (tl s) -> (x < length (conns s))%nat;
  inv_hand : forall x, hand_ok (meth c) (ctl x (tl s));
  inv_idle_ret : forall x, In x (idle s) -> exists r, ctl x (tl s) = TRet :: r
}.

Ltac sp := cbn [conns idle out taken maxs size permits debt pclosed registry armc tl
                set_conns set_idle set_out set_taken set_maxs set_size set_permits set_debt
                set_pclosed set_registry set_armc set_tl logm logt setc letgo release hand] in *.

(* ------------------------------------------------------------------ basic facts *)
Lemma updl_length {A : Type} (n : nat) (v : A) (l : list A) : length (updl n v l) = length l.
Proof. revert n; induction l as [|y l IH]; intros [|n]; cbn [updl length]; auto. Qed.

Lemma nth_updl_same {A : Type} (n : nat) (v d : A) (l : list A) :
  (n < length l)%nat -> nth n (updl n v l) d = v.
Proof.
  revert n; induction l as [|y l IH]; intros [|n] H; cbn [updl nth length] in *; try lia; auto.
  apply IH. lia.
Qed.

Lemma nth_updl_other {A : Type} (n k : nat) (v d : A) (l : list A) :
  n <> k -> nth k (updl n v l) d = nth k l d.
Proof.
  revert n k; induction l as [|y l IH]; intros [|n] [|k] H; cbn [updl nth]; try congruence; auto.
Qed.

Lemma Forall_updl {A : Type} (P : A -> Prop) n v l : Forall P l -> P v -> Forall P (updl n v l).
Proof.
  revert n; induction l as [|y l IH]; intros [|n] Hl Hv; cbn [updl]; inversion Hl; subst; constructor; auto.
Qed.

Lemma Forall_nth_default {A : Type} (P : A -> Prop) n d l : Forall P l -> P d -> P (nth n l d).
Proof.
  revert n; induction l as [|y l IH]; intros [|n] Hl Hd; cbn [nth]; inversion Hl; subst; auto.
Qed.

Lemma mem_In x l : mem x l = true <-> In x l.
Proof. apply existsb_eqb_In. Qed.

Lemma remove_nat_In x y l : In y (remove_nat x l) -> In y l.
Proof.
  induction l as [|z l IH]; cbn [remove_nat]; [auto|].
  destruct (Nat.eqb x z); cbn [In]; intuition.
Qed.

Lemma remove_nat_NoDup x l : NoDup l -> NoDup (remove_nat x l) /\ ~ In x (remove_nat x l).
Proof.
  induction l as [|z l IH]; cbn [remove_nat]; intros H.
  - split; [constructor | intros []].
  - inversion H as [|? ? Hn Hd]; subst. destruct (Nat.eqb x z) eqn:E.
    + apply Nat.eqb_eq in E. subst. split; assumption.
    + apply Nat.eqb_neq in E. destruct (IH Hd) as (H1 & H2). split.
      * constructor; [|assumption]. intros Hin. apply Hn. eapply remove_nat_In. eassumption.
      * intros [Hx|Hx]; [congruence | exact (H2 Hx)].
Qed.

Lemma In_remove_nat x y l : NoDup l -> (In y (remove_nat x l) <-> In y l /\ y <> x).
Proof.
  intros Hd. split.
  - intros H. split; [eapply remove_nat_In; eassumption|].
    intros He. subst. destruct (remove_nat_NoDup x l Hd) as (_ & Hn). exact (Hn H).
  - intros (Hin & Hne). induction l as [|z l IH]; [destruct Hin|]. cbn [remove_nat].
    inversion Hd; subst. destruct (Nat.eqb x z) eqn:E.
    + apply Nat.eqb_eq in E. subst. destruct Hin as [He|Hin]; [congruence | assumption].
    + destruct Hin as [He|Hin]; [left; assumption | right; apply IH; assumption].
Qed.

Lemma In_filter_ne x y l : In y (filter (fun z => negb (Nat.eqb z x)) l) <-> In y l /\ y <> x.
Proof.
  rewrite filter_In. split; intros (H1 & H2); split; try assumption.
  - intros He. subst. rewrite Nat.eqb_refl in H2. discriminate.
  - apply negb_true_iff. apply Nat.eqb_neq. assumption.
Qed.

Lemma NoDup_filter_ne x l : NoDup l -> NoDup (filter (fun z => negb (Nat.eqb z x)) l).
Proof.
  induction l as [|z l IH]; cbn [filter]; intros H; [constructor|]. inversion H; subst.
  destruct (negb (Nat.eqb z x)); [|auto]. constructor; [|auto].
  intros Hin. apply filter_In in Hin. destruct Hin as (Hin & _). contradiction.
Qed.

Lemma ctl_app x l1 l2 : ctl x (l1 ++ l2) = ctl x l1 ++ ctl x l2.
Proof. unfold ctl. rewrite filter_app, map_app. reflexivity. Qed.

Lemma ctl_cons x y e l : ctl x ((y, e) :: l) = if Nat.eqb y x then e :: ctl x l else ctl x l.
Proof. unfold ctl. cbn [filter fst]. destruct (Nat.eqb y x); reflexivity. Qed.

Lemma ctl_msgs x y ms :
  ctl x (rev (map (fun m => (y, TMsg m)) ms)) = if Nat.eqb y x then map TMsg (rev ms) else [].
Proof.
  induction ms as [|m ms IH]; cbn [map rev].
  - destruct (Nat.eqb y x); reflexivity.
  - rewrite ctl_app, IH, ctl_cons. cbn [ctl filter map]. rewrite map_app. cbn [map].
    destruct (Nat.eqb y x); reflexivity.
Qed.

Lemma ctl_none x l : (forall y e, In (y, e) l -> y <> x) -> ctl x l = [].
Proof.
  induction l as [|[y e] l IH]; intros H; [reflexivity|].
  rewrite ctl_cons. destruct (Nat.eqb y x) eqn:E.
  - apply Nat.eqb_eq in E. exfalso. exact (H y e (or_introl eq_refl) E).
  - apply IH. intros y' e' Hin. apply (H y' e'). right. assumption.
Qed.

Lemma in_rev_msgs (x : nat) (ms : list msg) (p : nat * tev) :
  In p (rev (map (fun m => (x, TMsg m)) ms)) -> fst p = x.
Proof.
  intros H. apply in_rev in H. apply in_map_iff in H. destruct H as (m & He & _). subst p. reflexivity.
Qed.

Lemma hand_ok_msgs m ms r : hand_ok m r -> hand_ok m (map TMsg ms ++ r).
Proof. induction ms as [|x ms IH]; cbn [map app hand_ok]; auto. Qed.

Lemma inv_ext c s s' :
  conns s' = conns s -> idle s' = idle s -> out s' = out s -> taken s' = taken s ->
  registry s' = registry s -> tl s' = tl s -> Inv c s -> Inv c s'.
Proof.
  intros H1 H2 H3 H4 H5 H6 [A B C D E F G H I]. unfold owned in *.
  constructor; unfold owned; rewrite ?H1, ?H2, ?H3, ?H4, ?H5, ?H6; assumption.
Qed.

Lemma inv_init c : Inv c (init c).
Proof.
  constructor; unfold owned; cbn [init conns idle out taken registry tl app ctl filter map hand_ok].
  - constructor.
  - intros x [].
  - intros x [[[]|[]]|[]].
  - constructor.
  - intros x. split; [intros [] | intros [[]|[]]].
  - constructor.
  - intros x e [].
  - intros x. exact I.
  - intros x [].
Qed.

(* ------------------------------------------------------------------ recycle *)
Lemma recycle_spec m cn :
  let '(cn', ms, ok) := recycle m cn in
  cch cn' = cch cn
  /\ (closed cn = true -> ms = [] /\ ok = false)
  /\ (closed cn = false ->
      ms = check_msgs m
      /\ (ok = true <-> (sql_of m = None \/ armq cn = FNone))
      /\ (ok = true -> closed cn' = false)).
Proof.
  unfold recycle, check_msgs. destruct (closed cn) eqn:Ec.
  - split; [reflexivity|]. split; [auto | discriminate].
  - destruct (sql_of m) as [q|].
    + destruct (armq cn); (split; [reflexivity|]); (split; [discriminate|]); intros _;
        (split; [reflexivity|]); split; try (intros; assumption); try discriminate.
      * split; [auto | reflexivity].
      * split; [discriminate | intros [H|H]; discriminate].
      * split; [discriminate | intros [H|H]; discriminate].
    + split; [reflexivity|]. split; [discriminate|]. intros _. split; [reflexivity|].
      split; [|intros; assumption]. split; [auto | reflexivity].
Qed.

(* ------------------------------------------------------------------ the generic moves *)
(* an idle client leaves the pool, possibly after messages were exchanged with it *)
Lemma inv_release c s s1 x ms :
  Inv c s -> In x (idle s) ->
  length (conns s1) = length (conns s) -> all_wf (conns s1) ->
  idle s1 = idle s -> out s1 = out s -> taken s1 = taken s -> registry s1 = registry s ->
  tl s1 = rev (map (fun m => (x, TMsg m)) ms) ++ tl s ->
  Inv c (release x s1).
Proof.
  intros [Hnd Htk Hids Hrn Hreg Hwf Htl Hh Hir] Hx Hlen Hwf1 Hi Ho Ht Hr Htl1.
  unfold owned in *. apply nodup_app_iff in Hnd. destruct Hnd as (N1 & N2 & N3).
  assert (Hx' : (x < length (conns s))%nat) by (apply Hids; auto).
  constructor; unfold owned; sp; rewrite ?Hi, ?Ho, ?Ht, ?Hr, ?Hlen.
  - apply nodup_app_iff. destruct (remove_nat_NoDup x _ N1) as (M1 & M2). repeat split; try assumption.
    intros y Hy. apply N3. eapply remove_nat_In. eassumption.
  - intros y Hy [Hin|Hin]; apply (Htk y Hy); [left; eapply remove_nat_In; eassumption | right; assumption].
  - intros y [[Hy|Hy]|Hy]; apply Hids; [left; left; eapply remove_nat_In; eassumption | auto | auto].
  - apply NoDup_filter_ne. assumption.
  - intros y. rewrite In_filter_ne, Hreg, (In_remove_nat x y _ N1). split.
    + intros ([Hy|Hy] & Hne); [left; split; assumption | right; assumption].
    + intros [(Hy & Hne)|Hy]; [split; [left; assumption | assumption]|].
      split; [right; assumption|]. intros He. subst. exact (N3 x Hx Hy).
  - assumption.
  - rewrite Htl1. intros y e [He|Hin]; [inversion He; subst; assumption|].
    apply in_app_or in Hin. destruct Hin as [Hin|Hin]; [|eapply Htl; eassumption].
    apply in_rev_msgs in Hin. cbn [fst] in Hin. subst. assumption.
  - intros y. rewrite Htl1, ctl_cons, ctl_app, ctl_msgs. destruct (Nat.eqb x y); [|apply Hh].
    cbn [hand_ok]. apply hand_ok_msgs. apply Hh.
  - intros y Hy. apply (In_remove_nat x y _ N1) in Hy. destruct Hy as (Hy & Hne).
    rewrite Htl1, ctl_cons, ctl_app, ctl_msgs.
    assert (E : Nat.eqb x y = false) by (apply Nat.eqb_neq; congruence). rewrite E. apply Hir. assumption.
Qed.

(* an idle client passes the documented check and is handed out *)
Lemma inv_accept c s x cn :
  Inv c s -> In x (idle s) -> cache_wf (cch cn) -> closed cn = false ->
  Inv c (hand x true (set_idle (logm x (check_msgs (meth c)) (setc s x cn)) (remove_nat x (idle s)))).
Proof.
  intros [Hnd Htk Hids Hrn Hreg Hwf Htl Hh Hir] Hx Hwfc Hcl.
  unfold owned in *. apply nodup_app_iff in Hnd. destruct Hnd as (N1 & N2 & N3).
  assert (Hx' : (x < length (conns s))%nat) by (apply Hids; auto).
  destruct (remove_nat_NoDup x _ N1) as (M1 & M2).
  constructor; unfold owned; sp; rewrite ?updl_length.
  - apply nodup_app_iff. repeat split; [assumption | |].
    + apply nodup_app_iff. repeat split; [assumption | constructor; [intros []|constructor] |].
      intros y Hy [He|[]]. subst y. exact (N3 x Hx Hy).
    + intros y Hy Hin. apply in_app_or in Hin. destruct Hin as [Hin|[He|[]]].
      * apply (N3 y); [eapply remove_nat_In; eassumption | assumption].
      * subst y. exact (M2 Hy).
  - intros y Hy [Hin|Hin].
    + apply (Htk y Hy). left. eapply remove_nat_In. eassumption.
    + apply in_app_or in Hin. destruct Hin as [Hin|[He|[]]]; [apply (Htk y Hy); auto|].
      subst y. apply (Htk x Hy). auto.
  - intros y [[Hy|Hy]|Hy].
    + apply Hids. left. left. eapply remove_nat_In. eassumption.
    + apply in_app_or in Hy. destruct Hy as [Hy|[He|[]]]; [apply Hids; auto | subst y; assumption].
    + apply Hids. auto.
  - assumption.
  - intros y. rewrite Hreg, (In_remove_nat x y _ N1). split.
    + intros [Hy|Hy].
      * destruct (Nat.eq_dec y x) as [He|Hne]; [subst y; right; apply in_or_app; right; left; reflexivity|].
        left. split; assumption.
      * right. apply in_or_app. left. assumption.
    + intros [(Hy & _)|Hy]; [left; assumption|].
      apply in_app_or in Hy. destruct Hy as [Hy|[He|[]]]; [right; assumption | subst y; left; assumption].
  - apply Forall_updl; assumption.
  - intros y e [He|Hin]; [inversion He; subst; assumption|].
    apply in_app_or in Hin. destruct Hin as [Hin|Hin]; [|eapply Htl; eassumption].
    apply in_rev_msgs in Hin. cbn [fst] in Hin. subst y. assumption.
  - intros y. rewrite ctl_cons, ctl_app, ctl_msgs. destruct (Nat.eqb x y) eqn:E.
    + apply Nat.eqb_eq in E. subst y. cbn [hand_ok]. split; [|split].
      * unfold getc. sp. rewrite nth_updl_same by assumption. assumption.
      * destruct (Hir x Hx) as (r & Hr). exists r. rewrite Hr. reflexivity.
      * apply hand_ok_msgs. apply Hh.
    + apply Hh.
  - intros y Hy. apply (In_remove_nat x y _ N1) in Hy. destruct Hy as (Hy & Hne).
    rewrite ctl_cons, ctl_app, ctl_msgs.
    assert (E : Nat.eqb x y = false) by (apply Nat.eqb_neq; congruence). rewrite E. apply Hir. assumption.
Qed.

(* Manager::create succeeded: a new client, attached to the registry, handed out *)
Lemma inv_fresh c s z :
  Inv c s ->
  Inv c (hand (length (conns s)) false
          (set_registry (set_size (set_conns s (conns s ++ [fresh_conn])) z)
                        (registry s ++ [length (conns s)]))).
Proof.
  intros [Hnd Htk Hids Hrn Hreg Hwf Htl Hh Hir]. unfold owned in *.
  apply nodup_app_iff in Hnd. destruct Hnd as (N1 & N2 & N3).
  set (x := length (conns s)) in *.
  assert (Hfi : ~ In x (idle s)) by (intros H; assert (x < x)%nat by (apply Hids; auto); lia).
  assert (Hfo : ~ In x (out s)) by (intros H; assert (x < x)%nat by (apply Hids; auto); lia).
  assert (Hft : ~ In x (taken s)) by (intros H; assert (x < x)%nat by (apply Hids; auto); lia).
  assert (Hlog : ctl x (tl s) = []).
  { apply ctl_none. intros y e Hin He. subst y. specialize (Htl _ _ Hin). lia. }
  constructor; unfold owned; sp; rewrite ?app_length; cbn [length].
  - apply nodup_app_iff. repeat split; [assumption | |].
    + apply nodup_app_iff. repeat split; [assumption | constructor; [intros []|constructor] |].
      intros y Hy [He|[]]. subst y. exact (Hfo Hy).
    + intros y Hy Hin. apply in_app_or in Hin. destruct Hin as [Hin|[He|[]]]; [exact (N3 y Hy Hin)|].
      subst y. exact (Hfi Hy).
  - intros y Hy [Hin|Hin]; [apply (Htk y Hy); auto|].
    apply in_app_or in Hin. destruct Hin as [Hin|[He|[]]]; [apply (Htk y Hy); auto | subst y; exact (Hft Hy)].
  - intros y [[Hy|Hy]|Hy].
    + assert (y < x)%nat by (apply Hids; auto). lia.
    + apply in_app_or in Hy. destruct Hy as [Hy|[He|[]]]; [|subst y; lia].
      assert (y < x)%nat by (apply Hids; auto). lia.
    + assert (y < x)%nat by (apply Hids; auto). lia.
  - apply nodup_app_iff. repeat split; [assumption | constructor; [intros []|constructor] |].
    intros y Hy [He|[]]. subst y. apply Hreg in Hy. destruct Hy as [Hy|Hy]; [exact (Hfi Hy) | exact (Hfo Hy)].
  - intros y. split.
    + intros Hy. apply in_app_or in Hy. destruct Hy as [Hy|[He|[]]].
      * apply Hreg in Hy. destruct Hy as [Hy|Hy]; [left; assumption | right; apply in_or_app; left; assumption].
      * subst y. right. apply in_or_app. right. left. reflexivity.
    + intros [Hy|Hy]; [apply in_or_app; left; apply Hreg; auto|].
      apply in_app_or in Hy. destruct Hy as [Hy|[He|[]]].
      * apply in_or_app. left. apply Hreg. auto.
      * subst y. apply in_or_app. right. left. reflexivity.
  - apply Forall_app. split; [assumption|]. constructor; [apply wf_empty | constructor].
  - intros y e [He|Hin]; [inversion He; subst; lia|]. specialize (Htl _ _ Hin). fold x in Htl. lia.
  - intros y. rewrite ctl_cons. destruct (Nat.eqb x y) eqn:E; [|apply Hh].
    apply Nat.eqb_eq in E. subst y. rewrite Hlog. cbn [hand_ok]. split; [|auto].
    unfold getc. sp. subst x. rewrite nth_app_fresh. reflexivity.
  - intros y Hy. rewrite ctl_cons.
    assert (E : Nat.eqb x y = false) by (apply Nat.eqb_neq; intros He; subst y; exact (Hfi Hy)).
    rewrite E. apply Hir. assumption.
Qed.

(* a checked-out client leaves the pool: surplus return (gone) or take (kept by the caller) *)
Lemma inv_letgo_out c s x tk z p :
  Inv c s -> In x (out s) -> (forall y, In y tk -> In y (taken s) \/ y = x) ->
  Inv c (letgo x (set_permits (set_size (set_taken (set_out s (remove_nat x (out s))) tk) z) p)).
Proof.
  intros [Hnd Htk Hids Hrn Hreg Hwf Htl Hh Hir] Hx Htk'. unfold owned in *.
  apply nodup_app_iff in Hnd. destruct Hnd as (N1 & N2 & N3).
  destruct (remove_nat_NoDup x _ N2) as (M1 & M2).
  assert (Hx' : (x < length (conns s))%nat) by (apply Hids; auto).
  constructor; unfold owned; sp.
  - apply nodup_app_iff. repeat split; try assumption.
    intros y Hy Hin. apply (N3 y Hy). eapply remove_nat_In. eassumption.
  - intros y Hy [Hin|Hin]; destruct (Htk' y Hy) as [Hy'|He].
    + apply (Htk y Hy'). auto.
    + subst y. exact (N3 x Hin Hx).
    + apply (Htk y Hy'). right. eapply remove_nat_In. eassumption.
    + subst y. exact (M2 Hin).
  - intros y [[Hy|Hy]|Hy].
    + apply Hids. auto.
    + apply Hids. left. right. eapply remove_nat_In. eassumption.
    + destruct (Htk' y Hy) as [Hy'|He]; [apply Hids; auto | subst y; assumption].
  - apply NoDup_filter_ne. assumption.
  - intros y. rewrite In_filter_ne, Hreg, (In_remove_nat x y _ N2). split.
    + intros ([Hy|Hy] & Hne); [left; assumption | right; split; assumption].
    + intros [Hy|(Hy & Hne)]; [|split; [right; assumption | assumption]].
      split; [left; assumption|]. intros He. subst y. exact (N3 x Hy Hx).
  - assumption.
  - intros y e [He|Hin]; [inversion He; subst; assumption | eapply Htl; eassumption].
  - intros y. rewrite ctl_cons. destruct (Nat.eqb x y); [cbn [hand_ok]|]; apply Hh.
  - intros y Hy. rewrite ctl_cons.
    assert (E : Nat.eqb x y = false) by (apply Nat.eqb_neq; intros He; subst y; exact (N3 x Hy Hx)).
    rewrite E. apply Hir. assumption.
Qed.

(* a checked-out client goes back to the idle queue *)
Lemma inv_push c s x p :
  Inv c s -> In x (out s) ->
  Inv c (logt x TRet (set_permits (set_idle (set_out s (remove_nat x (out s))) (idle s ++ [x])) p)).
Proof.
  intros [Hnd Htk Hids Hrn Hreg Hwf Htl Hh Hir] Hx. unfold owned in *.
  apply nodup_app_iff in Hnd. destruct Hnd as (N1 & N2 & N3).
  destruct (remove_nat_NoDup x _ N2) as (M1 & M2).
  assert (Hx' : (x < length (conns s))%nat) by (apply Hids; auto).
  constructor; unfold owned; sp.
  - apply nodup_app_iff. repeat split; [|assumption|].
    + apply nodup_app_iff. repeat split; [assumption | constructor; [intros []|constructor] |].
      intros y Hy [He|[]]. subst y. exact (N3 x Hy Hx).
    + intros y Hy Hin. apply in_app_or in Hy. destruct Hy as [Hy|[He|[]]].
      * apply (N3 y Hy). eapply remove_nat_In. eassumption.
      * subst y. exact (M2 Hin).
  - intros y Hy [Hin|Hin].
    + apply in_app_or in Hin. destruct Hin as [Hin|[He|[]]]; [apply (Htk y Hy); auto|].
      subst y. apply (Htk x Hy). auto.
    + apply (Htk y Hy). right. eapply remove_nat_In. eassumption.
  - intros y [[Hy|Hy]|Hy].
    + apply in_app_or in Hy. destruct Hy as [Hy|[He|[]]]; [apply Hids; auto | subst y; assumption].
    + apply Hids. left. right. eapply remove_nat_In. eassumption.
    + apply Hids. auto.
  - assumption.
  - intros y. rewrite Hreg, (In_remove_nat x y _ N2). split.
    + intros [Hy|Hy]; [left; apply in_or_app; left; assumption|].
      destruct (Nat.eq_dec y x) as [He|Hne]; [subst y; left; apply in_or_app; right; left; reflexivity|].
      right. split; assumption.
    + intros [Hy|(Hy & _)]; [|right; assumption].
      apply in_app_or in Hy. destruct Hy as [Hy|[He|[]]]; [left; assumption | subst y; right; assumption].
  - assumption.
  - intros y e [He|Hin]; [inversion He; subst; assumption | eapply Htl; eassumption].
  - intros y. rewrite ctl_cons. destruct (Nat.eqb x y); [cbn [hand_ok]|]; apply Hh.
  - intros y Hy. rewrite ctl_cons. apply in_app_or in Hy. destruct Hy as [Hy|[He|[]]].
    + assert (E : Nat.eqb x y = false) by (apply Nat.eqb_neq; intros He; subst y; exact (N3 x Hy Hx)).
      rewrite E. apply Hir. assumption.
    + subst y. rewrite Nat.eqb_refl. eexists. reflexivity.
Qed.

(* the caller talks to a client it holds (checked out or taken) *)
Lemma inv_user c s x cn ms :
  Inv c s -> usable s x = true -> cache_wf (cch cn) ->
  Inv c (logm x ms (setc s x cn)).
Proof.
  intros [Hnd Htk Hids Hrn Hreg Hwf Htl Hh Hir] Hu Hwfc. unfold owned in *.
  assert (Hni : ~ In x (idle s) /\ (x < length (conns s))%nat).
  { unfold usable in Hu. apply orb_true_iff in Hu. destruct Hu as [Hu|Hu]; apply mem_In in Hu.
    - split; [|apply Hids; auto]. apply nodup_app_iff in Hnd. destruct Hnd as (_ & _ & N3).
      intros Hi. exact (N3 x Hi Hu).
    - split; [|apply Hids; auto]. intros Hi. apply (Htk x Hu). auto. }
  destruct Hni as (Hni & Hx).
  constructor; unfold owned; sp; rewrite ?updl_length; try assumption.
  - apply Forall_updl; assumption.
  - intros y e Hin. apply in_app_or in Hin. destruct Hin as [Hin|Hin]; [|eapply Htl; eassumption].
    apply in_rev_msgs in Hin. cbn [fst] in Hin. subst. assumption.
  - intros y. rewrite ctl_app, ctl_msgs. destruct (Nat.eqb x y); [|apply Hh].
    apply hand_ok_msgs. apply Hh.
  - intros y Hy. rewrite ctl_app, ctl_msgs.
    assert (E : Nat.eqb x y = false) by (apply Nat.eqb_neq; intros He; subst; exact (Hni Hy)).
    rewrite E. apply Hir. assumption.
Qed.

(* only the clients' private state changes (scripts, hang-ups, cache operations) *)
Lemma inv_conns c s l :
  Inv c s -> length l = length (conns s) -> all_wf l -> Inv c (set_conns s l).
Proof.
  intros [Hnd Htk Hids Hrn Hreg Hwf Htl Hh Hir] Hl Hw.
  constructor; unfold owned in *; sp; rewrite ?Hl; assumption.
Qed.

Lemma map_reg_length f reg i l : length (map_reg f reg i l) = length l.
Proof. revert i; induction l as [|cn l IH]; intros i; cbn [map_reg length]; auto. Qed.

Lemma map_reg_wf f reg i l :
  (forall cn, cache_wf (cch cn) -> cache_wf (cch (f cn))) -> all_wf l -> all_wf (map_reg f reg i l).
Proof.
  intros Hf. revert i; induction l as [|cn l IH]; intros i Hl; cbn [map_reg]; [constructor|].
  inversion Hl; subst. constructor; [|apply IH; assumption]. destruct (mem i reg); auto.
Qed.

Lemma nth_map_reg f reg d : forall l i x,
  (x < length l)%nat ->
  nth x (map_reg f reg i l) d = if mem (i + x) reg then f (nth x l d) else nth x l d.
Proof.
  induction l as [|cn l IH]; intros i x Hx; cbn [length] in Hx; [lia|]. cbn [map_reg].
  destruct x as [|x]; cbn [nth].
  - rewrite Nat.add_0_r. reflexivity.
  - rewrite IH by lia. replace (S i + x)%nat with (i + S x)%nat by lia. reflexivity.
Qed.

(* ------------------------------------------------------------------ the loops *)
Lemma inv_create c s : Inv c s -> Inv c (fst (create s)).
Proof.
  intros HI. unfold create. destruct (armc s); cbn [fst]; try apply inv_fresh; try assumption;
    (eapply inv_ext; [| | | | | |eassumption]; reflexivity).
Qed.

Lemma inv_get_loop c order : forall s,
  Inv c s -> NoDup order -> (forall x, In x order -> In x (idle s)) ->
  Inv c (fst (get_loop c order s)).
Proof.
  induction order as [|x rest IH]; intros s HI Hd Hsub; cbn [get_loop].
  - apply inv_create. assumption.
  - assert (Hx : In x (idle s)) by (apply Hsub; left; reflexivity).
    assert (Hx' : (x < length (conns s))%nat) by (apply (inv_ids _ _ HI); left; left; assumption).
    pose proof (recycle_spec (meth c) (getc s x)) as Hspec.
    destruct (recycle (meth c) (getc s x)) as [[cn ms] ok]. destruct Hspec as (Hcch & Hclosed & Hopen).
    assert (Hwfc : cache_wf (cch cn)).
    { rewrite Hcch. unfold getc. apply Forall_nth_default; [apply (inv_wf _ _ HI) | apply wf_empty]. }
    destruct ok.
    + cbn [fst].
      assert (Hop : closed (getc s x) = false).
      { destruct (closed (getc s x)); [|reflexivity]. destruct (Hclosed eq_refl) as (_ & H). discriminate. }
      destruct (Hopen Hop) as (Hms & _ & Hcl). subst ms.
      change (idle (logm x (check_msgs (meth c)) (setc s x cn))) with (idle s).
      apply inv_accept; auto.
    + inversion Hd as [|? ? Hn Hd']; subst.
      assert (HI2 : Inv c (release x (logm x ms (setc s x cn)))).
      { eapply inv_release with (s := s) (ms := ms); try eassumption; sp; try reflexivity.
        - apply updl_length.
        - apply Forall_updl; [apply (inv_wf _ _ HI) | assumption]. }
      apply IH; [assumption | assumption |].
      intros y Hy. sp. apply In_remove_nat.
      * pose proof (inv_nodup _ _ HI) as N. apply nodup_app_iff in N. apply N.
      * split; [apply Hsub; right; assumption | intros He; subst; exact (Hn Hy)].
Qed.

Lemma inv_shrink c order : forall s,
  Inv c s -> NoDup order -> (forall x, In x order -> In x (idle s)) -> Inv c (shrink order s).
Proof.
  induction order as [|x rest IH]; intros s HI Hd Hsub; cbn [shrink]; [assumption|].
  destruct (Z.ltb (maxs s) (size s)); [|assumption].
  inversion Hd as [|? ? Hn Hd']; subst.
  assert (Hx : In x (idle s)) by (apply Hsub; left; reflexivity).
  apply IH; [|assumption|].
  - eapply inv_release with (s := s) (ms := []); try eassumption; try reflexivity. apply (inv_wf _ _ HI).
  - intros y Hy. sp. apply In_remove_nat.
    + pose proof (inv_nodup _ _ HI) as N. apply nodup_app_iff in N. apply N.
    + split; [apply Hsub; right; assumption | intros He; subst; exact (Hn Hy)].
Qed.

Lemma inv_retain_loop c order : forall ds s,
  Inv c s -> NoDup order -> (forall x, In x order -> In x (idle s)) ->
  Inv c (fst (retain_loop ds order s)).
Proof.
  induction order as [|x rest IH]; intros ds s HI Hd Hsub; cbn [retain_loop]; [assumption|].
  inversion Hd as [|? ? Hn Hd']; subst.
  assert (Hx : In x (idle s)) by (apply Hsub; left; reflexivity).
  destruct (match ds with [] => true | d :: _ => d end).
  - apply IH; [assumption | assumption |]. intros y Hy. apply Hsub. right. assumption.
  - match goal with |- context [retain_loop ?d rest ?st] =>
      specialize (IH d st); destruct (retain_loop d rest st) as [s1 removed] end.
    cbn [fst] in *. apply IH; [|assumption|].
    + eapply inv_release with (s := s) (ms := []); try eassumption; try reflexivity. apply (inv_wf _ _ HI).
    + intros y Hy. sp. apply In_remove_nat.
      * pose proof (inv_nodup _ _ HI) as N. apply nodup_app_iff in N. apply N.
      * split; [apply Hsub; right; assumption | intros He; subst; exact (Hn Hy)].
Qed.

Lemma inv_resize_locked c n s : Inv c s -> Inv c (resize_locked n s).
Proof.
  intros HI. unfold resize_locked. destruct (Z.ltb n (maxs s)).
  - apply inv_shrink.
    + eapply inv_ext; [| | | | | |exact HI]; reflexivity.
    + sp. pose proof (inv_nodup _ _ HI) as N. apply nodup_app_iff in N. apply N.
    + sp. auto.
  - destruct (Z.ltb (maxs s) n); (eapply inv_ext; [| | | | | |exact HI]; reflexivity).
Qed.

Lemma idle_order_nodup c (s : state) (b : bool) :
  Inv c s -> NoDup (if b then rev (idle s) else idle s)
             /\ (forall x, In x (if b then rev (idle s) else idle s) -> In x (idle s)).
Proof.
  intros HI. pose proof (inv_nodup _ _ HI) as N. apply nodup_app_iff in N. destruct N as (N & _).
  destruct b; [|auto]. split; [apply NoDup_rev; assumption | intros x Hx; apply in_rev; assumption].
Qed.

(* ------------------------------------------------------------------ every label *)
Lemma usable_wf c s x : Inv c s -> cache_wf (cch (getc s x)).
Proof. intros HI. unfold getc. apply Forall_nth_default; [apply (inv_wf _ _ HI) | apply wf_empty]. Qed.

Lemma inv_step c s l s' r : Inv c s -> step c s l = Some (s', r) -> Inv c s'.
Proof.
  intros HI Hs. destruct l; cbn [step] in Hs.
  - (* get *)
    inversion Hs as [He]. unfold do_get in He. destruct (pclosed s); [inversion He; subst; assumption|].
    destruct (Z.ltb (debt s) (permits s)).
    + match type of He with get_loop c ?o ?st = _ =>
        assert (K : Inv c (fst (get_loop c o st))) end.
      { assert (HI' : Inv c (set_debt (set_permits s (permits s - debt s - 1)) 0))
          by (eapply inv_ext; [| | | | | |exact HI]; reflexivity).
        destruct (idle_order_nodup c s (lifo c) HI) as (Hd & Hsub).
        apply inv_get_loop; [assumption | exact Hd | exact Hsub]. }
      rewrite He in K. exact K.
    + inversion He; subst. eapply inv_ext; [| | | | | |exact HI]; reflexivity.
  - (* return *)
    destruct (mem x (out s)) eqn:E; [|discriminate]. inversion Hs; subst. apply mem_In in E.
    unfold do_return. sp. destruct (Z.leb (size s) (maxs s)).
    + apply inv_push; assumption.
    + apply (inv_letgo_out c s x (taken s)); [assumption | assumption | auto].
  - (* take *)
    destruct (mem x (out s)) eqn:E; [|discriminate]. inversion Hs; subst. apply mem_In in E.
    unfold do_take. sp. apply inv_letgo_out; [assumption | assumption |].
    intros y Hy. apply in_app_or in Hy. destruct Hy as [Hy|[Hy|[]]]; auto.
  - (* resize *)
    inversion Hs; subst. unfold do_resize. destruct (pclosed s); [assumption|].
    apply inv_resize_locked. assumption.
  - (* close *)
    inversion Hs; subst. unfold do_close. apply inv_resize_locked.
    eapply inv_ext; [| | | | | |exact HI]; reflexivity.
  - (* retain *)
    inversion Hs as [He]. unfold do_retain in He.
    pose proof (inv_retain_loop c (idle s) ds s HI) as K.
    destruct (retain_loop ds (idle s) s) as [s1 removed]. inversion He; subst. cbn [fst] in K.
    apply K; [|auto]. pose proof (inv_nodup _ _ HI) as N. apply nodup_app_iff in N. apply N.
  - (* prepare *)
    destruct (usable s x) eqn:E; [|discriminate].
    pose proof (prepare1_wf (getc s x) k (usable_wf c s x HI)) as Hw.
    destruct (prepare1 (getc s x) k) as [[cn ms] res]. inversion Hs; subst. cbn [fst] in Hw.
    apply inv_user; assumption.
  - (* two prepares *)
    destruct (usable s x) eqn:E; [|discriminate].
    pose proof (prepare2_wf (getc s x) k (usable_wf c s x HI)) as Hw.
    destruct (prepare2 (getc s x) k) as [[[cn ms] r1] r2]. inversion Hs; subst. cbn [fst] in Hw.
    apply inv_user; assumption.
  - (* prepare through a transaction wrapper *)
    destruct (usable s x) eqn:E; [|discriminate]. destruct (via_ready (getc s x)); cbn [andb] in Hs; [|discriminate].
    pose proof (prepare1_wf (getc s x) k (usable_wf c s x HI)) as Hw.
    destruct (prepare1 (getc s x) k) as [[cn ms] res]. inversion Hs; subst. cbn [fst] in Hw.
    apply inv_user; assumption.
  - (* cache clear *)
    destruct (usable s x) eqn:E; [|discriminate]. inversion Hs; subst.
    apply (inv_user c s x _ []); [assumption | assumption | apply wf_clear].
  - (* cache remove *)
    destruct (usable s x) eqn:E; [|discriminate]. inversion Hs; subst.
    apply (inv_user c s x _ []); [assumption | assumption | apply wf_remove; apply (usable_wf c s x HI)].
  - (* registry clear *)
    inversion Hs; subst. unfold reg_apply. apply inv_conns; [assumption | apply map_reg_length |].
    apply map_reg_wf; [|apply (inv_wf _ _ HI)]. intros cn _. apply wf_clear.
  - (* registry remove *)
    inversion Hs; subst. unfold reg_apply. apply inv_conns; [assumption | apply map_reg_length |].
    apply map_reg_wf; [|apply (inv_wf _ _ HI)]. intros cn Hw. apply wf_remove. assumption.
  - (* scripts and hang-ups *)
    destruct (known s x); [|discriminate]. inversion Hs; subst. unfold setc.
    apply inv_conns; [assumption | apply updl_length |].
    apply Forall_updl; [apply (inv_wf _ _ HI) | apply (usable_wf c s x HI)].
  - destruct (known s x); [|discriminate]. inversion Hs; subst. unfold setc.
    apply inv_conns; [assumption | apply updl_length |].
    apply Forall_updl; [apply (inv_wf _ _ HI) | apply (usable_wf c s x HI)].
  - inversion Hs; subst. eapply inv_ext; [| | | | | |exact HI]; reflexivity.
  - destruct (known s x); [|discriminate]. inversion Hs; subst. unfold setc.
    apply inv_conns; [assumption | apply updl_length |].
    apply Forall_updl; [apply (inv_wf _ _ HI) | apply (usable_wf c s x HI)].
Qed.

Lemma inv_run c tr : forall s s', Inv c s -> run c s tr = Some s' -> Inv c s'.
Proof.
  induction tr as [|l tr IH]; intros s s' HI Hr; cbn [run] in Hr.
  - inversion Hr; subst. assumption.
  - destruct (step c s l) as [[s1 r]|] eqn:E; [|discriminate].
    eapply IH; [|eassumption]. eapply inv_step; eassumption.
Qed.

Lemma inv_reachable c tr s : run c (init c) tr = Some s -> Inv c s.
Proof. apply inv_run. apply inv_init. Qed.
