(* Executable model of deadpool-redis' standalone manager (redis/src/lib.rs) on top of a task-level
   model of the managed pool (get with wait = 0, return, Connection::take = Object::take; one
   operation at a time).

   Manager::recycle  -> [recycle]: n := ping_number.fetch_add(1); pipeline UNWATCH, PING n; accepted
                        iff no reply is an error and the decoded PING reply is exactly n
   redis-rs / server -> ORACLE: what the scripted server answers to the next PING / UNWATCH / connect
                        and when it hangs up are inputs (labels); [reply] is the reply as redis-rs
                        decodes it into a String (bulk, simple string and integer replies carrying v
                        all decode to v).

   The timeline [tl] records, per connection, every command the server receives; after a successful
   get the harness sends CLIENT ID on the connection it was given, which the server logs together
   with its WATCH state for that connection: [CMark]. Nothing is proved in this file. *)
From Coq Require Import List ZArith Lia Bool Arith.
Import ListNotations.
Open Scope Z_scope.

Inductive reply := REcho | RVal (v : Z) | RNil | RErr | RDrop.

Inductive cmd :=
| CUnwatch
| CPing (n : Z) (answer : option Z)   (* the number sent and the value answered, if any *)
| CWatch | CGet | CSet
| CMark (watching : bool).            (* hand-out mark with the server's WATCH state *)

Record conn := {
  alive : bool;        (* the server has not hung up *)
  watch : bool;        (* server side: a WATCH is in effect *)
  armp : reply;        (* script for the next PING *)
  armu : bool          (* the next UNWATCH is answered with an error *)
}.

Definition fresh_conn : conn := {| alive := true; watch := false; armp := REcho; armu := false |}.
Definition dead_conn : conn := {| alive := false; watch := false; armp := REcho; armu := false |}.

Definition set_alive (cn : conn) (b : bool) : conn :=
  {| alive := b; watch := watch cn; armp := armp cn; armu := armu cn |}.
Definition set_watch (cn : conn) (b : bool) : conn :=
  {| alive := alive cn; watch := b; armp := armp cn; armu := armu cn |}.
Definition set_armp (cn : conn) (r : reply) : conn :=
  {| alive := alive cn; watch := watch cn; armp := r; armu := armu cn |}.
Definition set_armu (cn : conn) (b : bool) : conn :=
  {| alive := alive cn; watch := watch cn; armp := armp cn; armu := b |}.

(* the value redis-rs hands to recycle for a PING n answered per script *)
Definition answer_of (r : reply) (n : Z) : option Z :=
  match r with
  | REcho => Some n
  | RVal v => Some v
  | RNil | RErr | RDrop => None
  end.

Definition opt_eqb (o : option Z) (n : Z) : bool :=
  match o with Some v => Z.eqb v n | None => false end.

(* Manager::recycle on a connection, with ping number [n]: the connection afterwards, the commands
   the server received, the verdict *)
Definition recycle (n : Z) (cn : conn) : conn * list cmd * bool :=
  if alive cn then
    let a := answer_of (armp cn) n in
    let cn1 := set_armu (set_armp (set_watch cn false) REcho) false in
    let cn2 := match armp cn with RDrop => set_alive cn1 false | _ => cn1 end in
    (cn2, [CUnwatch; CPing n a], negb (armu cn) && opt_eqb a n)
  else (cn, [], false).

Record state := {
  ping : Z;                   (* Manager.ping_number *)
  conns : list conn;          (* index = the server's number of the connection (accept order) *)
  idle : list nat;
  out : list nat;
  taken : list nat;
  maxs : Z; size : Z; permits : Z;
  armc : bool;                (* the next connect is refused *)
  tl : list (nat * cmd)       (* newest first *)
}.

Definition init (m : nat) : state :=
  {| ping := 0; conns := []; idle := []; out := []; taken := [];
     maxs := Z.of_nat m; size := 0; permits := Z.of_nat m; armc := false; tl := [] |}.

Definition set_ping (s : state) (v : Z) : state :=
  {| ping := v; conns := conns s; idle := idle s; out := out s; taken := taken s; maxs := maxs s;
     size := size s; permits := permits s; armc := armc s; tl := tl s |}.
Definition set_conns (s : state) (v : list conn) : state :=
  {| ping := ping s; conns := v; idle := idle s; out := out s; taken := taken s; maxs := maxs s;
     size := size s; permits := permits s; armc := armc s; tl := tl s |}.
Definition set_idle (s : state) (v : list nat) : state :=
  {| ping := ping s; conns := conns s; idle := v; out := out s; taken := taken s; maxs := maxs s;
     size := size s; permits := permits s; armc := armc s; tl := tl s |}.
Definition set_out (s : state) (v : list nat) : state :=
  {| ping := ping s; conns := conns s; idle := idle s; out := v; taken := taken s; maxs := maxs s;
     size := size s; permits := permits s; armc := armc s; tl := tl s |}.
Definition set_taken (s : state) (v : list nat) : state :=
  {| ping := ping s; conns := conns s; idle := idle s; out := out s; taken := v; maxs := maxs s;
     size := size s; permits := permits s; armc := armc s; tl := tl s |}.
Definition set_size (s : state) (v : Z) : state :=
  {| ping := ping s; conns := conns s; idle := idle s; out := out s; taken := taken s; maxs := maxs s;
     size := v; permits := permits s; armc := armc s; tl := tl s |}.
Definition set_permits (s : state) (v : Z) : state :=
  {| ping := ping s; conns := conns s; idle := idle s; out := out s; taken := taken s; maxs := maxs s;
     size := size s; permits := v; armc := armc s; tl := tl s |}.
Definition set_armc (s : state) (v : bool) : state :=
  {| ping := ping s; conns := conns s; idle := idle s; out := out s; taken := taken s; maxs := maxs s;
     size := size s; permits := permits s; armc := v; tl := tl s |}.
Definition set_tl (s : state) (v : list (nat * cmd)) : state :=
  {| ping := ping s; conns := conns s; idle := idle s; out := out s; taken := taken s; maxs := maxs s;
     size := size s; permits := permits s; armc := armc s; tl := v |}.

Fixpoint updl {A : Type} (n : nat) (x : A) (l : list A) : list A :=
  match l, n with
  | [], _ => []
  | _ :: r, O => x :: r
  | y :: r, S n' => y :: updl n' x r
  end.

Definition getc (s : state) (x : nat) : conn := nth x (conns s) dead_conn.
Definition setc (s : state) (x : nat) (cn : conn) : state := set_conns s (updl x cn (conns s)).
Definition mem (x : nat) (l : list nat) : bool := existsb (Nat.eqb x) l.

Fixpoint remove_nat (x : nat) (l : list nat) : list nat :=
  match l with
  | [] => []
  | y :: l' => if Nat.eqb x y then l' else y :: remove_nat x l'
  end.

Definition logc (x : nat) (cs : list cmd) (s : state) : state :=
  set_tl s (rev (map (fun c => (x, c)) cs) ++ tl s).

Definition b2z (b : bool) : Z := if b then 1 else 0.
Definition n2z (n : nat) : Z := Z.of_nat n.

(* the object is ready: it goes to the caller, who asks the server for the connection's number *)
Definition hand (x : nat) (s : state) : state * list Z :=
  let w := watch (getc s x) in
  (logc x [CMark w] (set_out s (out s ++ [x])), [1; n2z x; b2z w]).

Definition create (s : state) : state * list Z :=
  let x := length (conns s) in
  if armc s then
    (set_permits (set_armc (set_conns s (conns s ++ [dead_conn])) false) (permits s + 1), [2; 2; 0])
  else hand x (set_size (set_conns s (conns s ++ [fresh_conn])) (size s + 1)).

(* the loop of timeout_get over the idle queue (front first) *)
Fixpoint get_loop (order : list nat) (s : state) : state * list Z :=
  match order with
  | [] => create s
  | x :: rest =>
      let n := ping s in
      let '(cn, cs, ok) := recycle n (getc s x) in
      let s1 := logc x cs (setc (set_ping (set_idle s rest) (n + 1)) x cn) in
      if ok then hand x s1
      else get_loop rest (set_size s1 (size s1 - 1))
  end.

Definition do_get (s : state) : state * list Z :=
  if Z.ltb 0 (permits s) then get_loop (idle s) (set_permits s (permits s - 1))
  else (s, [2; 1; 0]).

Definition do_return (x : nat) (s : state) : state :=
  set_permits (set_idle (set_out s (remove_nat x (out s))) (idle s ++ [x])) (permits s + 1).

(* Connection::take = Object::take *)
Definition do_take (x : nat) (s : state) : state :=
  set_permits (set_size (set_taken (set_out s (remove_nat x (out s))) (taken s ++ [x]))
                        (size s - 1)) (permits s + 1).

Inductive ucmd := UWatch | UGet | USet | UUnwatch.

Definition do_use (x : nat) (u : ucmd) (s : state) : state * list Z :=
  let cn := getc s x in
  if alive cn then
    let '(c, cn') := match u with
                     | UWatch => (CWatch, set_watch cn true)
                     | UGet => (CGet, cn)
                     | USet => (CSet, cn)
                     | UUnwatch => (CUnwatch, set_armu (set_watch cn false) false)
                     end in
    (logc x [c] (setc s x cn'),
     [3; match u with UUnwatch => b2z (negb (armu cn)) | _ => 1 end; 0])
  else (s, [3; 0; 0]).

Inductive label :=
| LGet | LRet (x : nat) | LTake (x : nat) | LUse (x : nat) (u : ucmd)
| LArmP (x : nat) (r : reply) | LArmU (x : nat) | LArmC | LKill (x : nat).

Definition usable (s : state) (x : nat) : bool := mem x (out s) || mem x (taken s).
Definition known (s : state) (x : nat) : bool := Nat.ltb x (length (conns s)).
Definition unit_res : list Z := [0; 0; 0].

Definition step (s : state) (l : label) : option (state * list Z) :=
  match l with
  | LGet => Some (do_get s)
  | LRet x => if mem x (out s) then Some (do_return x s, unit_res) else None
  | LTake x => if mem x (out s) then Some (do_take x s, unit_res) else None
  | LUse x u => if usable s x then Some (do_use x u s) else None
  | LArmP x r => if known s x then Some (setc s x (set_armp (getc s x) r), unit_res) else None
  | LArmU x => if known s x then Some (setc s x (set_armu (getc s x) true), unit_res) else None
  | LArmC => Some (set_armc s true, unit_res)
  | LKill x => if known s x then Some (setc s x (set_alive (getc s x) false), unit_res) else None
  end.

Fixpoint run (s : state) (tr : list label) : option state :=
  match tr with
  | [] => Some s
  | l :: tr' => match step s l with Some (s', _) => run s' tr' | None => None end
  end.

Definition Reachable (m : nat) (s : state) : Prop := exists tr, run (init m) tr = Some s.
