(* The statements of Props/C16.v, derived from the invariants of the postgres model. *)
From Coq Require Import List ZArith Lia Bool Arith.
From DP Require Import Mgr.ListAux Mgr.Postgres Mgr.PostgresCache Mgr.PostgresInv.
Import ListNotations.
Open Scope Z_scope.

(* ------------------------------------------------------------------ recycle *)
Lemma recycle_msgs_exact cn :
  closed cn = false ->
  snd (fst (recycle MFast cn)) = []
  /\ snd (fst (recycle MVerified cn)) = [MQuery 0]
  /\ snd (fst (recycle MClean cn)) = [MQuery 1]
  /\ forall k, snd (fst (recycle (MCustom k) cn)) = [MQuery (custom_sql k)].
Proof.
  intros H. unfold recycle. rewrite H. cbn [sql_of].
  repeat split; try intros k; destruct (armq cn); reflexivity.
Qed.

Lemma recycle_closed m cn : closed cn = true -> recycle m cn = (cn, [], false).
Proof. intros H. unfold recycle. rewrite H. reflexivity. Qed.

Lemma recycle_verdict m cn :
  snd (recycle m cn) = true <-> closed cn = false /\ (sql_of m = None \/ armq cn = FNone).
Proof.
  pose proof (recycle_spec m cn) as H. destruct (recycle m cn) as [[cn' ms] ok]. cbn [snd].
  destruct H as (_ & Hc & Ho). destruct (closed cn).
  - destruct (Hc eq_refl) as (_ & H). subst. split; [discriminate | intros (H & _); discriminate].
  - destruct (Ho eq_refl) as (_ & H & _). rewrite H. intuition.
Qed.

(* ------------------------------------------------------------------ histories *)
Lemma c16_timeline c tr s x : run c (init c) tr = Some s -> hand_ok (meth c) (ctl x (tl s)).
Proof. intros Hr. apply (inv_hand _ _ (inv_reachable _ _ _ Hr)). Qed.

Lemma c16_caches_wf c tr s cn :
  run c (init c) tr = Some s -> In cn (conns s) -> cache_wf (cch cn).
Proof.
  intros Hr Hin. pose proof (inv_wf _ _ (inv_reachable _ _ _ Hr)) as H.
  unfold all_wf in H. rewrite Forall_forall in H. apply H. assumption.
Qed.

Lemma registry_model_owned c tr s :
  run c (init c) tr = Some s ->
  NoDup (registry s) /\ forall x, In x (registry s) <-> owned s x.
Proof.
  intros Hr. pose proof (inv_reachable _ _ _ Hr) as HI.
  split; [apply (inv_reg_nodup _ _ HI) | apply (inv_reg _ _ HI)].
Qed.

(* StatementCaches::clear / remove reach exactly the caches of the clients the pool owns *)
Lemma reg_apply_reach c tr s f x :
  run c (init c) tr = Some s -> (x < length (conns s))%nat ->
  (owned s x -> cch (getc (reg_apply f s) x) = f (cch (getc s x)))
  /\ (~ owned s x -> getc (reg_apply f s) x = getc s x).
Proof.
  intros Hr Hx. pose proof (inv_reachable _ _ _ Hr) as HI. unfold reg_apply, getc. sp.
  rewrite nth_map_reg by assumption. cbn [Nat.add]. split; intros Ho.
  - apply (inv_reg _ _ HI) in Ho. apply mem_In in Ho. rewrite Ho. reflexivity.
  - destruct (mem x (registry s)) eqn:E; [|reflexivity].
    apply mem_In in E. apply (inv_reg _ _ HI) in E. contradiction.
Qed.

(* ------------------------------------------------------------------ never owned again *)
Lemma release_owned x s y : owned (release x s) y -> owned s y.
Proof.
  unfold owned. sp. intros [H|H]; [left; eapply remove_nat_In; eassumption | right; assumption].
Qed.

Lemma release_conns x s : conns (release x s) = conns s.
Proof. reflexivity. Qed.

Lemma create_owned s y : owned (fst (create s)) y -> owned s y \/ (length (conns s) <= y)%nat.
Proof.
  unfold create, owned. destruct (armc s); cbn [fst]; sp; try (intros H; left; exact H).
  intros [H|H]; [left; left; assumption|]. apply in_app_or in H.
  destruct H as [H|[H|[]]]; [left; right; assumption | subst; right; lia].
Qed.

Lemma get_loop_owned c order : forall s y,
  owned (fst (get_loop c order s)) y ->
  owned s y \/ In y order \/ (length (conns s) <= y)%nat.
Proof.
  induction order as [|x rest IH]; intros s y Ho; cbn [get_loop] in Ho.
  - apply create_owned in Ho. destruct Ho; auto.
  - destruct (recycle (meth c) (getc s x)) as [[cn ms] ok]. destruct ok.
    + cbn [fst] in Ho. unfold owned in *. sp. destruct Ho as [Ho|Ho].
      * left. left. eapply remove_nat_In. eassumption.
      * apply in_app_or in Ho. destruct Ho as [Ho|[Ho|[]]]; [left; right; assumption|].
        subst. right. left. left. reflexivity.
    + apply IH in Ho. rewrite release_conns in Ho. sp. rewrite updl_length in Ho.
      destruct Ho as [Ho|[Ho|Ho]]; [|right; left; right; assumption | right; right; assumption].
      apply release_owned in Ho. left. exact Ho.
Qed.

Lemma shrink_owned order : forall s y, owned (shrink order s) y -> owned s y.
Proof.
  induction order as [|x rest IH]; intros s y Ho; cbn [shrink] in Ho; [assumption|].
  destruct (Z.ltb (maxs s) (size s)); [|assumption]. apply IH in Ho. eapply release_owned. eassumption.
Qed.

Lemma shrink_conns order : forall s, conns (shrink order s) = conns s.
Proof.
  induction order as [|x rest IH]; intros s; cbn [shrink]; [reflexivity|].
  destruct (Z.ltb (maxs s) (size s)); [|reflexivity]. rewrite IH. reflexivity.
Qed.

Lemma retain_owned order : forall ds s y, owned (fst (retain_loop ds order s)) y -> owned s y.
Proof.
  induction order as [|x rest IH]; intros ds s y Ho; cbn [retain_loop] in Ho; [assumption|].
  destruct (match ds with [] => true | d :: _ => d end).
  - eapply IH. eassumption.
  - match type of Ho with context [retain_loop ?d rest ?st] =>
      specialize (IH d st y); destruct (retain_loop d rest st) as [s1 removed] end.
    cbn [fst] in *. eapply release_owned. apply IH. assumption.
Qed.

Lemma retain_conns order : forall ds s, conns (fst (retain_loop ds order s)) = conns s.
Proof.
  induction order as [|x rest IH]; intros ds s; cbn [retain_loop]; [reflexivity|].
  destruct (match ds with [] => true | d :: _ => d end); [apply IH|].
  match goal with |- context [retain_loop ?d rest ?st] =>
    specialize (IH d st); destruct (retain_loop d rest st) as [s1 removed] end.
  cbn [fst] in *. rewrite IH. reflexivity.
Qed.

Lemma resize_locked_owned n s y : owned (resize_locked n s) y -> owned s y.
Proof.
  unfold resize_locked. destruct (Z.ltb n (maxs s)).
  - intros Ho. apply shrink_owned in Ho. exact Ho.
  - destruct (Z.ltb (maxs s) n); intros Ho; exact Ho.
Qed.

Lemma resize_locked_conns n s : conns (resize_locked n s) = conns s.
Proof.
  unfold resize_locked. destruct (Z.ltb n (maxs s)); [rewrite shrink_conns; reflexivity|].
  destruct (Z.ltb (maxs s) n); reflexivity.
Qed.

Lemma get_loop_conns c order : forall s,
  (length (conns s) <= length (conns (fst (get_loop c order s))))%nat.
Proof.
  induction order as [|x rest IH]; intros s; cbn [get_loop].
  - unfold create. destruct (armc s); cbn [fst]; sp; rewrite ?app_length; lia.
  - destruct (recycle (meth c) (getc s x)) as [[cn ms] ok]. destruct ok.
    + cbn [fst]. sp. rewrite updl_length. lia.
    + eapply Nat.le_trans; [|apply IH]. rewrite release_conns. sp. rewrite updl_length. lia.
Qed.

(* one label: who is owned afterwards was owned before or is new; the table of clients only grows *)
Lemma step_owned c s l s' r y :
  step c s l = Some (s', r) ->
  (owned s' y -> owned s y \/ (length (conns s) <= y)%nat)
  /\ (length (conns s) <= length (conns s'))%nat.
Proof.
  intros Hs. destruct l; cbn [step] in Hs.
  - inversion Hs as [He]. unfold do_get in He. destruct (pclosed s); [inversion He; subst; auto|].
    destruct (Z.ltb (debt s) (permits s)); [|inversion He; subst; auto].
    match type of He with get_loop c ?o ?st = _ =>
      pose proof (get_loop_owned c o st y) as K; pose proof (get_loop_conns c o st) as L end.
    rewrite He in K, L. cbn [fst] in K, L. sp. split; [|exact L].
    intros Ho. destruct (K Ho) as [H|[H|H]]; [left; exact H | | right; exact H].
    left. left. destruct (lifo c); [apply in_rev; assumption | assumption].
  - destruct (mem x (out s)) eqn:E; [|discriminate]. inversion Hs; subst. apply mem_In in E.
    unfold do_return. sp. destruct (Z.leb (size s) (maxs s)); unfold owned; sp; (split; [|lia]).
    + intros [H|H].
      * apply in_app_or in H. destruct H as [H|[H|[]]]; [left; left; assumption | subst; left; right; assumption].
      * left. right. eapply remove_nat_In. eassumption.
    + intros [H|H]; [left; left; assumption | left; right; eapply remove_nat_In; eassumption].
  - destruct (mem x (out s)) eqn:E; [|discriminate]. inversion Hs; subst.
    unfold do_take, owned. sp. split; [|lia].
    intros [H|H]; [left; left; assumption | left; right; eapply remove_nat_In; eassumption].
  - inversion Hs; subst. unfold do_resize. destruct (pclosed s); [auto|].
    rewrite resize_locked_conns. split; [|lia]. intros Ho. left. eapply resize_locked_owned. eassumption.
  - inversion Hs; subst. unfold do_close. rewrite resize_locked_conns. sp. split; [|lia].
    intros Ho. left. apply resize_locked_owned in Ho. exact Ho.
  - inversion Hs as [He]. unfold do_retain in He.
    pose proof (retain_owned (idle s) ds s y) as K. pose proof (retain_conns (idle s) ds s) as L.
    destruct (retain_loop ds (idle s) s) as [s1 removed]. inversion He; subst. cbn [fst] in *.
    rewrite L. split; [auto | lia].
  - destruct (usable s x); [|discriminate]. destruct (prepare1 (getc s x) k) as [[cn ms] res].
    inversion Hs; subst. sp. rewrite updl_length. unfold owned. sp. split; [auto | lia].
  - destruct (usable s x); [|discriminate]. destruct (prepare2 (getc s x) k) as [[[cn ms] r1] r2].
    inversion Hs; subst. sp. rewrite updl_length. unfold owned. sp. split; [auto | lia].
  - destruct (usable s x); [|discriminate]. destruct (via_ready (getc s x)); cbn [andb] in Hs; [|discriminate].
    destruct (prepare1 (getc s x) k) as [[cn ms] res].
    inversion Hs; subst. sp. rewrite updl_length. unfold owned. sp. split; [auto | lia].
  - destruct (usable s x); inversion Hs; subst. sp. rewrite updl_length. unfold owned. sp. split; [auto | lia].
  - destruct (usable s x); inversion Hs; subst. sp. rewrite updl_length. unfold owned. sp. split; [auto | lia].
  - inversion Hs; subst. unfold reg_apply, owned. sp. rewrite map_reg_length. split; [auto | lia].
  - inversion Hs; subst. unfold reg_apply, owned. sp. rewrite map_reg_length. split; [auto | lia].
  - destruct (known s x); inversion Hs; subst. sp. rewrite updl_length. unfold owned. sp. split; [auto | lia].
  - destruct (known s x); inversion Hs; subst. sp. rewrite updl_length. unfold owned. sp. split; [auto | lia].
  - inversion Hs; subst. unfold owned. sp. split; [auto | lia].
  - destruct (known s x); inversion Hs; subst. sp. rewrite updl_length. unfold owned. sp. split; [auto | lia].
Qed.

Lemma notowned_run c tr : forall s s' y,
  run c s tr = Some s' -> (y < length (conns s))%nat -> ~ owned s y -> ~ owned s' y.
Proof.
  induction tr as [|l tr IH]; intros s s' y Hr Hy Hno; cbn [run] in Hr.
  - inversion Hr; subst. assumption.
  - destruct (step c s l) as [[s1 r]|] eqn:E; [|discriminate].
    destruct (step_owned c s l s1 r y E) as (K & L).
    assert (Hno1 : ~ owned s1 y). { intros Ho. destruct (K Ho) as [H|H]; [exact (Hno H) | lia]. }
    assert (Hy1 : (y < length (conns s1))%nat) by lia.
    exact (IH s1 s' y Hr Hy1 Hno1).
Qed.

Lemma c16_never_again c tr s tr' s' y :
  run c (init c) tr = Some s -> run c s tr' = Some s' ->
  (y < length (conns s))%nat -> ~ owned s y ->
  ~ owned s' y /\ ~ In y (registry s').
Proof.
  intros Hr Hr' Hy Hno.
  assert (Ho : ~ owned s' y) by exact (notowned_run c tr' s s' y Hr' Hy Hno).
  split; [assumption|]. intros Hin.
  assert (HI : Inv c s') by (eapply inv_run; [eapply inv_reachable; eassumption | eassumption]).
  apply (inv_reg _ _ HI) in Hin. contradiction.
Qed.

(* ------------------------------------------------------------------ cache statements *)
Lemma cache_types_distinct q t1 t2 v c :
  t1 <> t2 ->
  key_eqb (q, t1) (q, t2) = false /\ find (q, t2) (cinsert (q, t1) v c) = find (q, t2) c.
Proof.
  intros H. split; [apply key_types_distinct; assumption|].
  apply find_insert_other. intros He. inversion He. congruence.
Qed.

Lemma cache_clear_remove k k' c :
  find k' (cclear c) = None /\ ccnt (cclear c) = 0
  /\ find k (cremove k c) = None
  /\ (k' <> k -> find k' (cremove k c) = find k' c)
  /\ ccnt (cremove k c) = ccnt c - (match find k c with None => 0 | Some _ => 1 end).
Proof.
  split; [reflexivity|]. split; [reflexivity|]. split; [apply find_remove_same|].
  split; [apply find_remove_other | apply size_remove].
Qed.

Lemma caches_size_keys c tr s cn :
  run c (init c) tr = Some s -> In cn (conns s) ->
  NoDup (keys (cmap (cch cn))) /\ ccnt (cch cn) = Z.of_nat (length (keys (cmap (cch cn)))).
Proof. intros Hr Hin. exact (c16_caches_wf c tr s cn Hr Hin). Qed.

(* ------------------------------------------------------------------ a failed check discards *)
(* what a get did to a client that was idle and is still owned afterwards: nothing, or it passed
   its recycle (not closed, check not failed), received exactly the documented check, was handed out *)
Lemma get_loop_touched c order : forall s x,
  Inv c s -> NoDup order -> (forall y, In y order -> In y (idle s)) -> In x order ->
  owned (fst (get_loop c order s)) x ->
  (In x (idle (fst (get_loop c order s)))
   /\ ctl x (tl (fst (get_loop c order s))) = ctl x (tl s)
   /\ getc (fst (get_loop c order s)) x = getc s x)
  \/ (In x (out (fst (get_loop c order s)))
      /\ snd (recycle (meth c) (getc s x)) = true
      /\ ctl x (tl (fst (get_loop c order s)))
         = THand true false :: map TMsg (rev (check_msgs (meth c))) ++ ctl x (tl s)).
Proof.
  induction order as [|y rest IH]; intros s x HI Hd Hsub Hin; [destruct Hin|].
  cbn [get_loop].
  assert (Hy : In y (idle s)) by (apply Hsub; left; reflexivity).
  assert (Hy' : (y < length (conns s))%nat) by (apply (inv_ids _ _ HI); left; left; assumption).
  pose proof (inv_nodup _ _ HI) as N. apply nodup_app_iff in N. destruct N as (N1 & N2 & N3).
  inversion Hd as [|? ? Hn Hd']; subst.
  pose proof (recycle_spec (meth c) (getc s y)) as Hspec.
  destruct (recycle (meth c) (getc s y)) as [[cn ms] ok] eqn:Hrec. destruct Hspec as (Hcch & Hclosed & Hopen).
  assert (Hwfc : cache_wf (cch cn)).
  { rewrite Hcch. unfold getc. apply Forall_nth_default; [apply (inv_wf _ _ HI) | apply wf_empty]. }
  destruct ok.
  - cbn [fst]. intros Ho.
    assert (Hop : closed (getc s y) = false).
    { destruct (closed (getc s y)); [|reflexivity]. destruct (Hclosed eq_refl) as (_ & H). discriminate. }
    destruct (Hopen Hop) as (Hms & _ & Hcl). subst ms. sp.
    rewrite ctl_cons, ctl_app, ctl_msgs. destruct Hin as [He|Hr].
    + subst x. right. split; [apply in_or_app; right; left; reflexivity|]. split; [rewrite Hrec; reflexivity|].
      rewrite Nat.eqb_refl. unfold getc. sp. rewrite nth_updl_same by assumption.
      rewrite (Hcl eq_refl). reflexivity.
    + assert (Hne : y <> x) by (intros He; subst; exact (Hn Hr)).
      left. split; [apply In_remove_nat; [assumption | split; [apply Hsub; right; assumption | congruence]]|].
      assert (E : Nat.eqb y x = false) by (apply Nat.eqb_neq; assumption). rewrite E.
      split; [reflexivity|]. unfold getc. sp. apply nth_updl_other. assumption.
  - intros Ho.
    assert (HI2 : Inv c (release y (logm y ms (setc s y cn)))).
    { eapply inv_release with (s := s) (ms := ms); try eassumption; sp; try reflexivity.
      - apply updl_length.
      - apply Forall_updl; [apply (inv_wf _ _ HI) | assumption]. }
    assert (Hsub2 : forall z, In z rest -> In z (idle (release y (logm y ms (setc s y cn))))).
    { intros z Hz. sp. apply In_remove_nat; [assumption|].
      split; [apply Hsub; right; assumption | intros He; subst; exact (Hn Hz)]. }
    destruct Hin as [He|Hr].
    + subst x. exfalso. apply get_loop_owned in Ho. rewrite release_conns in Ho. sp.
      rewrite updl_length in Ho. destruct Ho as [Ho|[Ho|Ho]]; [|exact (Hn Ho) | lia].
      unfold owned in Ho. sp. destruct Ho as [Ho|Ho].
      * destruct (remove_nat_NoDup y _ N1) as (_ & M). exact (M Ho).
      * exact (N3 y Hy Ho).
    + assert (Hne : y <> x) by (intros He; subst; exact (Hn Hr)).
      assert (E : Nat.eqb y x = false) by (apply Nat.eqb_neq; assumption).
      specialize (IH _ x HI2 Hd' Hsub2 Hr Ho).
      assert (Hlog : ctl x (tl (release y (logm y ms (setc s y cn)))) = ctl x (tl s)).
      { sp. rewrite ctl_cons, ctl_app, ctl_msgs, E. reflexivity. }
      assert (Hget : getc (release y (logm y ms (setc s y cn))) x = getc s x).
      { unfold getc. sp. apply nth_updl_other. assumption. }
      rewrite Hlog, Hget in IH. exact IH.
Qed.

Lemma c16_get_touched c tr s s' r x :
  run c (init c) tr = Some s -> step c s LGet = Some (s', r) -> In x (idle s) -> owned s' x ->
  (In x (idle s') /\ ctl x (tl s') = ctl x (tl s) /\ getc s' x = getc s x)
  \/ (In x (out s')
      /\ closed (getc s x) = false /\ (sql_of (meth c) = None \/ armq (getc s x) = FNone)
      /\ ctl x (tl s') = THand true false :: map TMsg (rev (check_msgs (meth c))) ++ ctl x (tl s)).
Proof.
  intros Hr Hs Hin Ho. pose proof (inv_reachable _ _ _ Hr) as HI. cbn [step] in Hs.
  inversion Hs as [He]. unfold do_get in He. destruct (pclosed s).
  { inversion He; subst. left. auto. }
  destruct (Z.ltb (debt s) (permits s)).
  - match type of He with get_loop c ?o ?st = _ =>
      pose proof (get_loop_touched c o st x) as K end.
    rewrite He in K. cbn [fst] in K.
    assert (HI' : Inv c (set_debt (set_permits s (permits s - debt s - 1)) 0))
      by (eapply inv_ext; [| | | | | |exact HI]; reflexivity).
    destruct (idle_order_nodup c s (lifo c) HI) as (Hd & Hsub).
    assert (Hin' : In x (if lifo c then rev (idle s) else idle s))
      by (destruct (lifo c); [apply in_rev; rewrite rev_involutive; assumption | assumption]).
    destruct (K HI' Hd Hsub Hin' Ho) as [K1|(K1 & K2 & K3)]; [left; exact K1|].
    right. apply recycle_verdict in K2. destruct K2 as (K2 & K4). auto.
  - inversion He; subst. left. auto.
Qed.

(* ------------------------------------------------------------------ Transaction wrappers *)
(* prepare_cached / prepare_typed_cached through client.transaction(), a nested transaction, a
   savepoint or build_transaction().start() work on the client's own cache: the result, the cache
   and every client of the pool are exactly what the direct call gives; only the transaction's own
   START TRANSACTION / SAVEPOINT / RELEASE / COMMIT appear on the wire around it *)
Lemma via_is_direct c s w x k s' r :
  step c s (LPrepVia w x k) = Some (s', r) ->
  exists s0, step c s (LPrep x k) = Some (s0, r)
    /\ conns s' = conns s0 /\ out s' = out s0 /\ idle s' = idle s0 /\ taken s' = taken s0
    /\ registry s' = registry s0.
Proof.
  cbn [step]. destruct (usable s x); cbn [andb]; [|discriminate].
  destruct (via_ready (getc s x)); [|discriminate].
  destruct (prepare1 (getc s x) k) as [[cn ms] res]. intros H. inversion H; subst.
  eexists. split; [reflexivity|]. unfold logm. sp. repeat split; reflexivity.
Qed.
