(* Observation function of the postgres model (the flat integer list the harness prints after
   every label) and the decoders of the harness' integer encoding of configurations and labels. *)
From Coq Require Import List ZArith Lia Bool Arith.
From DP Require Import Mgr.Postgres.
Import ListNotations.
Open Scope Z_scope.

Definition zlen {A : Type} (l : list A) : Z := Z.of_nat (length l).

Definition msg_code (x : nat) (m : msg) : list Z :=
  match m with
  | MQuery q => [3; n2z x; 1; q]
  | MParse ser k => [5 + zlen (snd k); n2z x; 2; ser; fst k; zlen (snd k)] ++ snd k
  end.

Definition tev_code (e : nat * tev) : list Z :=
  match snd e with
  | TMsg m => msg_code (fst e) m
  | _ => []
  end.

Definition is_msg (e : nat * tev) : bool := match snd e with TMsg _ => true | _ => false end.

Fixpoint conn_codes (s : state) (i : nat) (l : list conn) : list Z :=
  match l with
  | [] => []
  | cn :: r =>
      (if mem i (idle s) || mem i (out s) || mem i (taken s) then b2z (closed cn) else 2)
        :: ccnt (cch cn) :: conn_codes s (S i) r
  end.

(* [prev] = length of the timeline before the label *)
Definition obs (prev : nat) (s : state) (res : list Z) : list Z :=
  let new := rev (firstn (length (tl s) - prev) (tl s)) in
  let users := zlen (out s) in
  res ++ [b2z (pclosed s); maxs s; size s; if Z.ltb users (size s) then size s - users else 0]
      ++ [zlen (idle s)] ++ map n2z (idle s)
      ++ [zlen (conns s)] ++ conn_codes s 0 (conns s)
      ++ [zlen (filter is_msg new)] ++ flat_map tev_code new
      ++ [0].

Fixpoint run_obs (c : cfg) (s : state) (tr : list label) : list Z :=
  match tr with
  | [] => []
  | l :: tr' =>
      match step c s l with
      | Some (s', res) =>
          let o := obs (length (tl s)) s' res in
          zlen o :: o ++ run_obs c s' tr'
      | None => [-1]
      end
  end.

(* ------------------------------------------------------------------ decoding *)
Definition zn (z : Z) : nat := Z.to_nat z.
Definition nthz (l : list Z) (i : nat) : Z := nth i l 0.

Fixpoint bits_of (b : Z) (n : nat) : list bool :=
  match n with
  | O => []
  | S n' => Z.odd b :: bits_of (Z.div2 b) n'
  end.

Definition dec_fault (z : Z) : fault :=
  if Z.eqb z 0 then FNone else if Z.eqb z 1 then FErr else FHang.

(* cfg = [max_size; method; custom sql index; lifo] *)
Definition dec_cfg (l : list Z) : cfg :=
  {| max0 := zn (nthz l 0);
     meth := (let m := nthz l 1 in
              if Z.eqb m 0 then MFast else if Z.eqb m 1 then MVerified
              else if Z.eqb m 2 then MClean else MCustom (nthz l 2));
     lifo := negb (Z.eqb (nthz l 3) 0) |}.

Definition dec_key (l : list Z) : key := (nthz l 3, skipn 4 l).

Definition dec_label (l : list Z) : label :=
  let k := nthz l 0 in
  let x := zn (nthz l 1) in
  if Z.eqb k 0 then LGet
  else if Z.eqb k 1 then LRet x
  else if Z.eqb k 2 then LTake x
  else if Z.eqb k 3 then LResize (nthz l 1)
  else if Z.eqb k 4 then LClose
  else if Z.eqb k 5 then LRetain (bits_of (nthz l 1) (zn (nthz l 2)))
  else if Z.eqb k 6 then LPrep x (dec_key l)
  else if Z.eqb k 7 then LPrep2 x (dec_key l)
  else if Z.eqb k 16 then LPrepVia (nthz l 2) x (dec_key l)
  else if Z.eqb k 8 then LCClear x
  else if Z.eqb k 9 then LCRemove x (dec_key l)
  else if Z.eqb k 10 then LRClear
  else if Z.eqb k 11 then LRRemove (dec_key l)
  else if Z.eqb k 12 then LArmQ x (dec_fault (nthz l 2))
  else if Z.eqb k 13 then LArmP x (dec_fault (nthz l 2))
  else if Z.eqb k 14 then LArmC (dec_fault (nthz l 1))
  else LKill x.

Definition run_case_z (x : list Z * list (list Z)) : list Z :=
  let c := dec_cfg (fst x) in run_obs c (init c) (map dec_label (snd x)).
