(* Invariants of the redis model and the lemmas behind the C17 theorems. *)
From Coq Require Import List ZArith Lia Bool Arith.
From DP Require Import Mgr.ListAux Mgr.Redis.
Import ListNotations.
Open Scope Z_scope.

(* ------------------------------------------------------------------ what the theorems talk about *)
(* the commands the server received on connection [x], newest first *)
Definition clog (x : nat) (l : list (nat * cmd)) : list cmd :=
  map snd (filter (fun e => Nat.eqb (fst e) x) l).

(* every hand-out mark on a connection is either the very first thing that happened on it (a new
   connection) or comes directly after UNWATCH, PING n answered with exactly n; and no WATCH is in
   effect at the mark *)
Fixpoint marks_ok (l : list cmd) : Prop :=
  match l with
  | [] => True
  | CMark w :: rest =>
      w = false
      /\ (rest = [] \/ exists n rest', rest = CPing n (Some n) :: CUnwatch :: rest')
      /\ marks_ok rest
  | _ :: rest => marks_ok rest
  end.

(* all PING numbers of the history, newest first *)
Fixpoint pings (l : list (nat * cmd)) : list Z :=
  match l with
  | [] => []
  | (_, CPing n _) :: r => n :: pings r
  | _ :: r => pings r
  end.

(* strictly decreasing and below [b] (newest first = strictly increasing in time) *)
Fixpoint desc_below (b : Z) (l : list Z) : Prop :=
  match l with
  | [] => True
  | n :: r => n < b /\ desc_below n r
  end.

Definition owned (s : state) (x : nat) : Prop := In x (idle s) \/ In x (out s).

Record Inv (s : state) : Prop := {
  inv_nodup : NoDup (idle s ++ out s);
  inv_ids : forall x, In x (idle s) \/ In x (out s) \/ In x (taken s) -> (x < length (conns s))%nat;
  inv_tl : forall x c, In (x, c) (tl s) -> (x < length (conns s))%nat;
  inv_marks : forall x, marks_ok (clog x (tl s));
  inv_pings : desc_below (ping s) (pings (tl s))
}.

Ltac sp := cbn [ping conns idle out taken maxs size permits armc tl
                set_ping set_conns set_idle set_out set_taken set_size set_permits set_armc set_tl
                logc setc] in *.

(* ------------------------------------------------------------------ basic facts *)
Lemma updl_length {A : Type} (n : nat) (v : A) (l : list A) : length (updl n v l) = length l.
Proof. revert n; induction l as [|y l IH]; intros [|n]; cbn [updl length]; auto. Qed.

Lemma nth_updl_same {A : Type} (n : nat) (v d : A) (l : list A) :
  (n < length l)%nat -> nth n (updl n v l) d = v.
Proof.
  revert n; induction l as [|y l IH]; intros [|n] H; cbn [updl nth length] in *; try lia; auto.
  apply IH. lia.
Qed.

Lemma mem_In x l : mem x l = true <-> In x l.
Proof. apply existsb_eqb_In. Qed.

Lemma remove_nat_In x y l : In y (remove_nat x l) -> In y l.
Proof.
  induction l as [|z l IH]; cbn [remove_nat]; [auto|].
  destruct (Nat.eqb x z); cbn [In]; intuition.
Qed.

Lemma remove_nat_NoDup x l : NoDup l -> NoDup (remove_nat x l) /\ ~ In x (remove_nat x l).
Proof.
  induction l as [|z l IH]; cbn [remove_nat]; intros H.
  - split; [constructor | intros []].
  - inversion H as [|? ? Hn Hd]; subst. destruct (Nat.eqb x z) eqn:E.
    + apply Nat.eqb_eq in E. subst. split; assumption.
    + apply Nat.eqb_neq in E. destruct (IH Hd) as (H1 & H2). split.
      * constructor; [|assumption]. intros Hin. apply Hn. eapply remove_nat_In. eassumption.
      * intros [Hx|Hx]; [congruence | exact (H2 Hx)].
Qed.

Lemma clog_app x l1 l2 : clog x (l1 ++ l2) = clog x l1 ++ clog x l2.
Proof. unfold clog. rewrite filter_app, map_app. reflexivity. Qed.

Lemma clog_cons x y c l : clog x ((y, c) :: l) = if Nat.eqb y x then c :: clog x l else clog x l.
Proof. unfold clog. cbn [filter fst]. destruct (Nat.eqb y x); reflexivity. Qed.

Lemma clog_rev_map x y cs :
  clog x (rev (map (fun c => (y, c)) cs)) = if Nat.eqb y x then rev cs else [].
Proof.
  induction cs as [|c cs IH]; cbn [map rev].
  - destruct (Nat.eqb y x); reflexivity.
  - rewrite clog_app, IH, clog_cons. cbn [clog filter map].
    destruct (Nat.eqb y x); reflexivity.
Qed.

Lemma clog_none x l : (forall y c, In (y, c) l -> y <> x) -> clog x l = [].
Proof.
  induction l as [|[y c] l IH]; intros H; [reflexivity|].
  rewrite clog_cons. destruct (Nat.eqb y x) eqn:E.
  - apply Nat.eqb_eq in E. exfalso. exact (H y c (or_introl eq_refl) E).
  - apply IH. intros y' c' Hin. apply (H y' c'). right. assumption.
Qed.

Lemma pings_app l1 l2 : pings (l1 ++ l2) = pings l1 ++ pings l2.
Proof.
  induction l1 as [|[y c] l1 IH]; cbn [app pings]; [reflexivity|].
  destruct c; cbn [app]; rewrite ?IH; reflexivity.
Qed.

Lemma desc_below_mono b b' l : desc_below b l -> b <= b' -> desc_below b' l.
Proof. destruct l as [|n r]; cbn [desc_below]; [auto|]. intros (H1 & H2) Hb. split; [lia | assumption]. Qed.

Lemma desc_below_nodup b l : desc_below b l -> NoDup l /\ (forall n, In n l -> n < b).
Proof.
  revert b; induction l as [|m r IH]; cbn [desc_below]; intros b H.
  - split; [constructor | intros n []].
  - destruct H as (H1 & H2). destruct (IH m H2) as (Hd & Hlt). split.
    + constructor; [|assumption]. intros Hin. specialize (Hlt m Hin). lia.
    + intros n [Hn|Hn]; [subst; assumption|]. specialize (Hlt n Hn). lia.
Qed.

Definition nomark (c : cmd) : Prop := match c with CMark _ => False | _ => True end.

Lemma marks_ok_app l1 l2 : Forall nomark l1 -> marks_ok l2 -> marks_ok (l1 ++ l2).
Proof.
  induction l1 as [|c l1 IH]; intros H H2; cbn [app]; [assumption|].
  inversion H as [|? ? Hc Hr]; subst. destruct c; cbn [marks_ok nomark] in *; auto. contradiction.
Qed.

(* ------------------------------------------------------------------ recycle *)
Lemma recycle_spec n cn :
  let '(cn', cs, ok) := recycle n cn in
  (alive cn = false -> cs = [] /\ ok = false /\ cn' = cn)
  /\ (alive cn = true ->
      cs = [CUnwatch; CPing n (answer_of (armp cn) n)]
      /\ watch cn' = false
      /\ (ok = true <-> armu cn = false /\ answer_of (armp cn) n = Some n)).
Proof.
  unfold recycle. destruct (alive cn) eqn:Ha.
  - split; [discriminate|]. intros _. split; [reflexivity|]. split.
    + destruct (armp cn); reflexivity.
    + unfold opt_eqb. destruct (armu cn); cbn [negb andb].
      * split; [discriminate | intros (H & _); discriminate].
      * destruct (answer_of (armp cn) n) as [v|].
        -- split.
           ++ intros H. apply Z.eqb_eq in H. subst. auto.
           ++ intros (_ & H). inversion H. apply Z.eqb_refl.
        -- split; [discriminate | intros (_ & H); discriminate].
  - split; [auto | discriminate].
Qed.

(* ------------------------------------------------------------------ preservation *)
Lemma inv_init m : Inv (init m).
Proof.
  constructor; cbn [init ping conns idle out taken tl app clog pings desc_below filter map marks_ok].
  - constructor.
  - intros x [[]|[[]|[]]].
  - intros x c [].
  - intros x. exact I.
  - exact I.
Qed.

(* states of one get(): like [Inv], the connection in hand being neither idle nor out *)
Lemma inv_hand x s :
  Inv s -> (x < length (conns s))%nat -> ~ In x (idle s) -> ~ In x (out s) ->
  watch (getc s x) = false ->
  (clog x (tl s) = [] \/ exists n r, clog x (tl s) = CPing n (Some n) :: CUnwatch :: r) ->
  Inv (fst (hand x s)).
Proof.
  intros [Hnd Hids Htl Hm Hp] Hx Hni Hno Hw Hlog. unfold hand. cbn [fst]. constructor; sp.
  - apply nodup_app_iff in Hnd. destruct Hnd as (H1 & H2 & H3). apply nodup_app_iff. repeat split.
    + assumption.
    + apply nodup_app_iff. repeat split; [assumption | constructor; [intros []|constructor] |].
      intros y Hy [Hy'|[]]. subst. exact (Hno Hy).
    + intros y Hy Hin. apply in_app_or in Hin. destruct Hin as [Hin|[Hin|[]]].
      * exact (H3 y Hy Hin).
      * subst. exact (Hni Hy).
  - intros y [Hy|[Hy|Hy]]; [apply Hids; auto | | apply Hids; auto].
    apply in_app_or in Hy. destruct Hy as [Hy|[Hy|[]]]; [apply Hids; auto | subst; assumption].
  - cbn [map rev app]. intros y c [He|Hin]; [inversion He; subst; assumption | eapply Htl; eassumption].
  - intros y. cbn [map rev app]. rewrite clog_cons. destruct (Nat.eqb x y) eqn:E; [|apply Hm].
    apply Nat.eqb_eq in E. subst y. cbn [marks_ok]. rewrite Hw. split; [reflexivity|]. split; [|apply Hm].
    destruct Hlog as [Hl|(n & r & Hl)]; [left; assumption | right; exists n, r; assumption].
  - cbn [map rev app pings]. assumption.
Qed.

Lemma getc_setc_same s x cn : (x < length (conns s))%nat -> getc (setc s x cn) x = cn.
Proof. intros H. unfold getc, setc. sp. apply nth_updl_same. assumption. Qed.

Lemma inv_create s :
  Inv s -> Inv (fst (create s)).
Proof.
  intros HI. pose proof HI as [Hnd Hids Htl Hm Hp]. unfold create. destruct (armc s).
  - cbn [fst]. constructor; sp; try assumption.
    + intros x Hx. rewrite app_length. cbn [length]. specialize (Hids x Hx). lia.
    + intros x c Hin. rewrite app_length. cbn [length]. specialize (Htl x c Hin). lia.
  - apply inv_hand.
    + constructor; sp; try assumption.
      * intros x Hx. rewrite app_length. cbn [length]. specialize (Hids x Hx). lia.
      * intros x c Hin. rewrite app_length. cbn [length]. specialize (Htl x c Hin). lia.
    + sp. rewrite app_length. cbn [length]. lia.
    + sp. intros Hin. specialize (Hids _ (or_introl Hin)). lia.
    + sp. intros Hin. specialize (Hids _ (or_intror (or_introl Hin))). lia.
    + unfold getc. sp. rewrite nth_app_fresh. reflexivity.
    + left. sp. apply clog_none. intros y c Hin He. subst. specialize (Htl _ _ Hin). lia.
Qed.

Lemma inv_get_loop order s :
  Inv s -> idle s = order -> Inv (fst (get_loop order s)).
Proof.
  revert s. induction order as [|x rest IH]; intros s HI Hidle; cbn [get_loop].
  - apply inv_create. assumption.
  - pose proof HI as [Hnd Hids Htl Hm Hp].
    assert (Hx : (x < length (conns s))%nat) by (apply Hids; left; rewrite Hidle; left; reflexivity).
    rewrite Hidle in Hnd. cbn [app] in Hnd. inversion Hnd as [|? ? Hxn Hnd']; subst.
    pose proof (recycle_spec (ping s) (getc s x)) as Hspec.
    destruct (recycle (ping s) (getc s x)) as [[cn cs] ok].
    destruct Hspec as (Hdead & Hlive).
    (* the state after the recycle attempt, before the verdict is acted upon *)
    set (s1 := logc x cs (setc (set_ping (set_idle s rest) (ping s + 1)) x cn)).
    assert (Hcs : cs = [] \/ cs = [CUnwatch; CPing (ping s) (answer_of (armp (getc s x)) (ping s))]).
    { destruct (alive (getc s x)); [right; apply Hlive; reflexivity | left; apply Hdead; reflexivity]. }
    assert (HI1 : Inv (set_size s1 (size s1 - 1)) /\ Inv s1).
    { assert (K : forall z, Inv (set_size s1 z)).
      { intros z. constructor; subst s1; sp.
        - assumption.
        - rewrite updl_length. intros y Hy. apply Hids. rewrite Hidle.
          destruct Hy as [Hy|Hy]; [left; right; assumption | right; assumption].
        - rewrite updl_length. intros y c Hin. apply in_app_or in Hin. destruct Hin as [Hin|Hin].
          + apply in_rev_map_pair in Hin. cbn [fst] in Hin. destruct Hin as (He & _). subst. assumption.
          + eapply Htl. eassumption.
        - intros y. rewrite clog_app, clog_rev_map. destruct (Nat.eqb x y); [|apply Hm].
          apply marks_ok_app; [|apply Hm].
          destruct Hcs as [Hc|Hc]; rewrite Hc; cbn [rev app]; repeat constructor.
        - rewrite pings_app. destruct Hcs as [Hc|Hc]; rewrite Hc; cbn [map rev app pings desc_below].
          + eapply desc_below_mono; [eassumption | lia].
          + split; [lia | assumption]. }
      split; [apply K|]. specialize (K (size s1)). destruct s1; exact K. }
    destruct HI1 as (HIrej & HIok).
    destruct ok.
    + (* accepted *)
      assert (Hal : alive (getc s x) = true).
      { destruct (alive (getc s x)); [reflexivity|]. destruct (Hdead eq_refl) as (_ & H & _). discriminate. }
      destruct (Hlive Hal) as (Hc & Hw & Hok). destruct (proj1 Hok eq_refl) as (Hau & Han).
      apply inv_hand; try assumption; subst s1; sp.
      * rewrite updl_length. assumption.
      * intros Hin. apply Hxn. apply in_or_app. left. assumption.
      * intros Hin. apply Hxn. apply in_or_app. right. assumption.
      * unfold getc. sp. rewrite nth_updl_same by assumption. assumption.
      * right. rewrite clog_app, clog_rev_map, Nat.eqb_refl, Hc, Han. cbn [rev app].
        exists (ping s), (clog x (tl s)). reflexivity.
    + (* rejected: the connection is dropped, the loop goes on *)
      apply IH; [assumption|]. subst s1. reflexivity.
Qed.

Lemma inv_step s l s' r : Inv s -> step s l = Some (s', r) -> Inv s'.
Proof.
  intros HI Hs. pose proof HI as [Hnd Hids Htl Hm Hp]. destruct l; cbn [step] in Hs.
  - (* get *)
    inversion Hs as [He]. unfold do_get in He. destruct (Z.ltb 0 (permits s)).
    + assert (K : Inv (fst (get_loop (idle s) (set_permits s (permits s - 1))))).
      { apply inv_get_loop; [|reflexivity]. constructor; sp; assumption. }
      rewrite He in K. exact K.
    + inversion He; subst. assumption.
  - (* return *)
    destruct (mem x (out s)) eqn:E; [|discriminate]. inversion Hs; subst. apply mem_In in E.
    unfold do_return. constructor; sp; try assumption.
    + apply nodup_app_iff in Hnd. destruct Hnd as (H1 & H2 & H3).
      destruct (remove_nat_NoDup x _ H2) as (H4 & H5). apply nodup_app_iff. repeat split.
      * apply nodup_app_iff. repeat split; [assumption | constructor; [intros []|constructor] |].
        intros y Hy [He|[]]. subst. exact (H3 y Hy E).
      * assumption.
      * intros y Hy Hin. apply in_app_or in Hy. destruct Hy as [Hy|[Hy|[]]].
        -- apply (H3 y Hy). eapply remove_nat_In. eassumption.
        -- subst. exact (H5 Hin).
    + intros y [Hy|[Hy|Hy]].
      * apply in_app_or in Hy. destruct Hy as [Hy|[Hy|[]]]; [apply Hids; auto | subst; apply Hids; auto].
      * apply Hids. right. left. eapply remove_nat_In. eassumption.
      * apply Hids. auto.
  - (* take *)
    destruct (mem x (out s)) eqn:E; [|discriminate]. inversion Hs; subst. apply mem_In in E.
    unfold do_take. constructor; sp; try assumption.
    + apply nodup_app_iff in Hnd. destruct Hnd as (H1 & H2 & H3).
      destruct (remove_nat_NoDup x _ H2) as (H4 & H5). apply nodup_app_iff. repeat split; try assumption.
      intros y Hy Hin. apply (H3 y Hy). eapply remove_nat_In. eassumption.
    + intros y [Hy|[Hy|Hy]].
      * apply Hids. auto.
      * apply Hids. right. left. eapply remove_nat_In. eassumption.
      * apply in_app_or in Hy. destruct Hy as [Hy|[Hy|[]]]; [apply Hids; auto | subst; apply Hids; auto].
  - (* use *)
    destruct (usable s x) eqn:E; [|discriminate]. inversion Hs as [He]. clear Hs.
    assert (Hx : (x < length (conns s))%nat).
    { unfold usable in E. apply orb_true_iff in E. destruct E as [E|E]; apply mem_In in E; apply Hids.
      - right. left. assumption.
      - right. right. assumption. }
    unfold do_use in He. destruct (alive (getc s x)); [|inversion He; subst; assumption].
    assert (K : forall c cn', match c with CMark _ | CPing _ _ => False | _ => True end ->
                              Inv (logc x [c] (setc s x cn'))).
    { intros c cn' Hc. constructor; sp; try assumption.
      - rewrite updl_length. assumption.
      - rewrite updl_length. cbn [map rev app]. intros y c' [Hin|Hin]; [inversion Hin; subst; assumption|].
        eapply Htl. eassumption.
      - intros y. cbn [map rev app]. rewrite clog_cons. destruct (Nat.eqb x y); [|apply Hm].
        destruct c; cbn [marks_ok] in *; try apply Hm. contradiction.
      - cbn [map rev app]. destruct c; cbn [pings] in *; try assumption. contradiction. }
    destruct u; inversion He; subst; apply K; exact I.
  - (* script PING *)
    destruct (known s x); [|discriminate]. inversion Hs; subst.
    constructor; sp; try assumption; rewrite updl_length; assumption.
  - destruct (known s x); [|discriminate]. inversion Hs; subst.
    constructor; sp; try assumption; rewrite updl_length; assumption.
  - inversion Hs; subst. constructor; sp; assumption.
  - destruct (known s x); [|discriminate]. inversion Hs; subst.
    constructor; sp; try assumption; rewrite updl_length; assumption.
Qed.

Lemma inv_run tr : forall s s', Inv s -> run s tr = Some s' -> Inv s'.
Proof.
  induction tr as [|l tr IH]; intros s s' HI Hr; cbn [run] in Hr.
  - inversion Hr; subst. assumption.
  - destruct (step s l) as [[s1 r]|] eqn:E; [|discriminate].
    eapply IH; [|eassumption]. eapply inv_step; eassumption.
Qed.

Lemma inv_reachable m tr s : run (init m) tr = Some s -> Inv s.
Proof. apply inv_run. apply inv_init. Qed.

(* ------------------------------------------------------------------ consequences used by C17 *)
Lemma ping_numbers_fresh m tr s :
  run (init m) tr = Some s ->
  desc_below (ping s) (pings (tl s)) /\ NoDup (pings (tl s)) /\ (forall n, In n (pings (tl s)) -> n < ping s).
Proof.
  intros Hr. pose proof (inv_reachable _ _ _ Hr) as [_ _ _ _ Hp].
  split; [assumption|]. apply desc_below_nodup. assumption.
Qed.

Lemma recycle_accepts_iff n cn :
  snd (recycle n cn) = true <->
  alive cn = true /\ armu cn = false /\ answer_of (armp cn) n = Some n.
Proof.
  pose proof (recycle_spec n cn) as H. destruct (recycle n cn) as [[cn' cs] ok]. cbn [snd].
  destruct H as (Hd & Hl). destruct (alive cn).
  - destruct (Hl eq_refl) as (_ & _ & Hok). rewrite Hok. intuition.
  - destruct (Hd eq_refl) as (_ & Hok & _). subst. split; [discriminate | intros (H & _); discriminate].
Qed.

(* who can be owned after the loop of a get *)
Lemma get_loop_owned order : forall s y,
  idle s = order ->
  owned (fst (get_loop order s)) y ->
  In y order \/ In y (out s) \/ (length (conns s) <= y)%nat.
Proof.
  induction order as [|x rest IH]; intros s y Hidle Ho; cbn [get_loop] in Ho.
  - unfold create in Ho. destruct (armc s); unfold owned, hand in Ho; cbn [fst] in Ho; sp.
    + rewrite Hidle in Ho. destruct Ho as [[]|Ho]. auto.
    + rewrite Hidle in Ho. destruct Ho as [[]|Ho]. apply in_app_or in Ho.
      destruct Ho as [Ho|[Ho|[]]]; [auto | subst; right; right; lia].
  - destruct (recycle (ping s) (getc s x)) as [[cn cs] ok]. destruct ok.
    + unfold owned, hand in Ho. cbn [fst] in Ho. sp. destruct Ho as [Ho|Ho].
      * left. right. assumption.
      * apply in_app_or in Ho. destruct Ho as [Ho|[Ho|[]]]; [auto | subst; left; left; reflexivity].
    + apply IH in Ho; [|reflexivity]. sp. rewrite updl_length in Ho.
      destruct Ho as [Ho|[Ho|Ho]]; [left; right; assumption | auto | auto].
Qed.

Lemma conns_length_get_loop order : forall s,
  (length (conns s) <= length (conns (fst (get_loop order s))))%nat.
Proof.
  induction order as [|x rest IH]; intros s; cbn [get_loop].
  - unfold create, hand. destruct (armc s); cbn [fst]; sp; rewrite app_length; lia.
  - destruct (recycle (ping s) (getc s x)) as [[cn cs] ok]. destruct ok.
    + unfold hand. cbn [fst]. sp. rewrite updl_length. lia.
    + eapply Nat.le_trans; [|apply IH]. sp. rewrite updl_length. lia.
Qed.

Lemma step_conns_length s l s' r : step s l = Some (s', r) -> (length (conns s) <= length (conns s'))%nat.
Proof.
  intros Hs. destruct l; cbn [step] in Hs.
  - inversion Hs as [He]. unfold do_get in He. destruct (Z.ltb 0 (permits s)).
    + pose proof (conns_length_get_loop (idle s) (set_permits s (permits s - 1))) as K.
      rewrite He in K. exact K.
    + inversion He; subst. lia.
  - destruct (mem x (out s)); inversion Hs; subst. unfold do_return. sp. lia.
  - destruct (mem x (out s)); inversion Hs; subst. unfold do_take. sp. lia.
  - destruct (usable s x); [|discriminate]. inversion Hs as [He]. unfold do_use in He.
    destruct (alive (getc s x)); [|inversion He; subst; lia].
    destruct u; inversion He; subst; sp; rewrite updl_length; lia.
  - destruct (known s x); inversion Hs; subst. sp. rewrite updl_length. lia.
  - destruct (known s x); inversion Hs; subst. sp. rewrite updl_length. lia.
  - inversion Hs; subst. sp. lia.
  - destruct (known s x); inversion Hs; subst. sp. rewrite updl_length. lia.
Qed.

(* a connection the pool has let go of (rejected, taken) is never owned again *)
Lemma notowned_step s l s' r y :
  Inv s -> step s l = Some (s', r) ->
  (y < length (conns s))%nat -> ~ owned s y -> ~ owned s' y.
Proof.
  intros HI Hs Hy Hno Ho. destruct l; cbn [step] in Hs.
  - inversion Hs as [He]. unfold do_get in He. destruct (Z.ltb 0 (permits s)).
    + assert (K : owned (fst (get_loop (idle s) (set_permits s (permits s - 1)))) y) by (rewrite He; exact Ho).
      apply get_loop_owned in K; [|reflexivity]. sp.
      destruct K as [K|[K|K]]; [apply Hno; left; assumption | apply Hno; right; assumption | lia].
    + inversion He; subst. exact (Hno Ho).
  - destruct (mem x (out s)) eqn:E; [|discriminate]. inversion Hs; subst. apply mem_In in E.
    unfold owned, do_return in Ho. sp. destruct Ho as [Ho|Ho].
    + apply in_app_or in Ho. destruct Ho as [Ho|[Ho|[]]]; [apply Hno; left; assumption|].
      subst. apply Hno. right. assumption.
    + apply Hno. right. eapply remove_nat_In. eassumption.
  - destruct (mem x (out s)) eqn:E; [|discriminate]. inversion Hs; subst.
    unfold owned, do_take in Ho. sp. destruct Ho as [Ho|Ho]; [apply Hno; left; assumption|].
    apply Hno. right. eapply remove_nat_In. eassumption.
  - destruct (usable s x); [|discriminate]. inversion Hs as [He]. unfold do_use in He.
    destruct (alive (getc s x)); [|inversion He; subst; exact (Hno Ho)].
    destruct u; inversion He; subst; exact (Hno Ho).
  - destruct (known s x); inversion Hs; subst. exact (Hno Ho).
  - destruct (known s x); inversion Hs; subst. exact (Hno Ho).
  - inversion Hs; subst. exact (Hno Ho).
  - destruct (known s x); inversion Hs; subst. exact (Hno Ho).
Qed.

Lemma notowned_run tr : forall s s' y,
  Inv s -> run s tr = Some s' -> (y < length (conns s))%nat -> ~ owned s y -> ~ owned s' y.
Proof.
  induction tr as [|l tr IH]; intros s s' y HI Hr Hy Hno; cbn [run] in Hr.
  - inversion Hr; subst. assumption.
  - destruct (step s l) as [[s1 r]|] eqn:E; [|discriminate].
    eapply (IH s1); [eapply inv_step; eassumption | eassumption | |].
    + pose proof (step_conns_length _ _ _ _ E). lia.
    + eapply notowned_step; eassumption.
Qed.

(* what a get did to a connection that was idle and is still owned afterwards: nothing, or the full
   check with the right answer followed by the hand-out *)
Lemma get_loop_touched order : forall s x,
  Inv s -> idle s = order -> In x order ->
  owned (fst (get_loop order s)) x ->
  (In x (idle (fst (get_loop order s))) /\ clog x (tl (fst (get_loop order s))) = clog x (tl s))
  \/ (In x (out (fst (get_loop order s))) /\ exists n,
        clog x (tl (fst (get_loop order s))) = CMark false :: CPing n (Some n) :: CUnwatch :: clog x (tl s)
        /\ ping s <= n < ping (fst (get_loop order s))).
Proof.
  induction order as [|y rest IH]; intros s x HI Hidle Hin; [destruct Hin|].
  cbn [get_loop]. pose proof HI as [Hnd Hids Htl Hm Hp].
  assert (Hy : (y < length (conns s))%nat) by (apply Hids; left; rewrite Hidle; left; reflexivity).
  pose proof Hnd as Hnd0. rewrite Hidle in Hnd. cbn [app] in Hnd. inversion Hnd as [|? ? Hyn Hnd']; subst.
  pose proof (recycle_spec (ping s) (getc s y)) as Hspec.
  pose proof (inv_get_loop (y :: rest) s HI Hidle) as HIfin. cbn [get_loop] in HIfin.
  destruct (recycle (ping s) (getc s y)) as [[cn cs] ok] eqn:Hrec.
  destruct Hspec as (Hdead & Hlive).
  set (s1 := logc y cs (setc (set_ping (set_idle s rest) (ping s + 1)) y cn)) in *.
  destruct ok.
  - (* accepted: y is handed out, the rest stays idle *)
    assert (Hal : alive (getc s y) = true).
    { destruct (alive (getc s y)); [reflexivity|]. destruct (Hdead eq_refl) as (_ & H & _). discriminate. }
    destruct (Hlive Hal) as (Hc & Hw & Hok). destruct (proj1 Hok eq_refl) as (Hau & Han).
    intros Ho. unfold hand in *. cbn [fst] in *. subst s1. sp. cbn [map rev app].
    rewrite clog_cons, clog_app, clog_rev_map.
    destruct Hin as [He|Hr].
    + subst x. right. split; [apply in_or_app; right; left; reflexivity|].
      rewrite Nat.eqb_refl. exists (ping s). split; [|lia].
      unfold getc. sp. rewrite nth_updl_same by assumption. rewrite Hw, Hc, Han. reflexivity.
    + left. split; [assumption|].
      assert (Hne : Nat.eqb y x = false).
      { apply Nat.eqb_neq. intros He. subst. apply Hyn. apply in_or_app. left. assumption. }
      rewrite Hne. reflexivity.
  - (* rejected *)
    intros Ho.
    assert (HI2 : Inv (set_size s1 (size s1 - 1))).
    { pose proof (inv_get_loop (y :: rest) s HI Hidle) as K. clear K.
      (* the same state as in [inv_get_loop]; rebuild its invariant from a one-element loop *)
      assert (Hcs : cs = [] \/ cs = [CUnwatch; CPing (ping s) (answer_of (armp (getc s y)) (ping s))]).
      { destruct (alive (getc s y)); [right; apply Hlive; reflexivity | left; apply Hdead; reflexivity]. }
      constructor; subst s1; sp.
      - assumption.
      - rewrite updl_length. intros z Hz. apply Hids. rewrite Hidle.
        destruct Hz as [Hz|Hz]; [left; right; assumption | right; assumption].
      - rewrite updl_length. intros z c Hz. apply in_app_or in Hz. destruct Hz as [Hz|Hz].
        + apply in_rev_map_pair in Hz. cbn [fst] in Hz. destruct Hz as (He & _). subst. assumption.
        + eapply Htl. eassumption.
      - intros z. rewrite clog_app, clog_rev_map. destruct (Nat.eqb y z); [|apply Hm].
        apply marks_ok_app; [|apply Hm].
        destruct Hcs as [Hc|Hc]; rewrite Hc; cbn [rev app]; repeat constructor.
      - rewrite pings_app. destruct Hcs as [Hc|Hc]; rewrite Hc; cbn [map rev app pings desc_below].
        + eapply desc_below_mono; [eassumption | lia].
        + split; [lia | assumption]. }
    destruct Hin as [He|Hr].
    + (* the rejected connection itself cannot be owned afterwards *)
      subst x. exfalso. apply get_loop_owned in Ho; [|reflexivity]. subst s1. sp.
      rewrite updl_length in Ho. destruct Ho as [Ho|[Ho|Ho]].
      * apply Hyn. apply in_or_app. left. assumption.
      * apply Hyn. apply in_or_app. right. assumption.
      * lia.
    + assert (Hne : Nat.eqb y x = false).
      { apply Nat.eqb_neq. intros He. subst. apply Hyn. apply in_or_app. left. assumption. }
      specialize (IH (set_size s1 (size s1 - 1)) x HI2 eq_refl Hr Ho).
      assert (Hlog : clog x (tl (set_size s1 (size s1 - 1))) = clog x (tl s)).
      { subst s1. sp. rewrite clog_app, clog_rev_map, Hne. reflexivity. }
      rewrite Hlog in IH. destruct IH as [IH|(Hout & n & Hn1 & Hn2)]; [left; assumption|].
      right. split; [assumption|]. exists n. split; [assumption|]. subst s1. sp. lia.
Qed.

(* a get ends with a connection in the caller's hands unless there is no permit or the one
   connect it attempted was refused *)
Lemma get_loop_result order : forall s,
  (forall x, In x order -> (x < length (conns s))%nat) ->
  let '(s', r) := get_loop order s in
  (r = [2; 2; 0] /\ armc s = true)
  \/ exists x, r = [1; n2z x; 0] /\ In x (out s').
Proof.
  induction order as [|y rest IH]; intros s Hb; cbn [get_loop].
  - unfold create. destruct (armc s) eqn:Ea; [left; auto|]. right. unfold hand.
    exists (length (conns s)). sp. split.
    + unfold getc. sp. rewrite nth_app_fresh. reflexivity.
    + apply in_or_app. right. left. reflexivity.
  - pose proof (recycle_spec (ping s) (getc s y)) as Hspec.
    destruct (recycle (ping s) (getc s y)) as [[cn cs] ok]. destruct Hspec as (Hdead & Hlive). destruct ok.
    + right. exists y. unfold hand. sp. split.
      * assert (Hal : alive (getc s y) = true).
        { destruct (alive (getc s y)); [reflexivity|]. destruct (Hdead eq_refl) as (_ & H & _). discriminate. }
        destruct (Hlive Hal) as (_ & Hw & _).
        unfold getc. sp. rewrite nth_updl_same by (apply Hb; left; reflexivity). rewrite Hw. reflexivity.
      * apply in_or_app. right. left. reflexivity.
    + match goal with |- context [get_loop rest ?st] => specialize (IH st) end.
      destruct (get_loop rest _) as [s' r]. apply IH. sp. rewrite updl_length.
      intros x Hx. apply Hb. right. assumption.
Qed.

(* ------------------------------------------------------------------ the statements of Props/C17.v *)
Lemma c17_marks m tr s x : run (init m) tr = Some s -> marks_ok (clog x (tl s)).
Proof. intros Hr. apply (inv_marks _ (inv_reachable _ _ _ Hr)). Qed.

Lemma c17_get_touched m tr s s' r x :
  run (init m) tr = Some s -> step s LGet = Some (s', r) -> In x (idle s) -> owned s' x ->
  (In x (idle s') /\ clog x (tl s') = clog x (tl s))
  \/ (In x (out s') /\ exists n,
        clog x (tl s') = CMark false :: CPing n (Some n) :: CUnwatch :: clog x (tl s)
        /\ ping s <= n < ping s').
Proof.
  intros Hr Hs Hin Ho. pose proof (inv_reachable _ _ _ Hr) as HI. cbn [step] in Hs.
  inversion Hs as [He]. unfold do_get in He. destruct (Z.ltb 0 (permits s)).
  - assert (HI' : Inv (set_permits s (permits s - 1))) by (destruct HI; constructor; sp; assumption).
    pose proof (get_loop_touched (idle s) (set_permits s (permits s - 1)) x HI' eq_refl Hin) as K.
    rewrite He in K. cbn [fst] in K. sp. apply K. assumption.
  - inversion He; subst. left. split; [assumption | reflexivity].
Qed.

Lemma c17_never_again m tr s tr' s' y :
  run (init m) tr = Some s -> run s tr' = Some s' ->
  (y < length (conns s))%nat -> ~ owned s y -> ~ owned s' y.
Proof. intros Hr. apply notowned_run. eapply inv_reachable. eassumption. Qed.

Lemma c17_get_result m tr s s' r :
  run (init m) tr = Some s -> step s LGet = Some (s', r) ->
  (r = [2; 1; 0] /\ permits s <= 0 /\ s' = s)
  \/ (r = [2; 2; 0] /\ armc s = true)
  \/ exists x, r = [1; n2z x; 0] /\ In x (out s').
Proof.
  intros Hr Hs. pose proof (inv_reachable _ _ _ Hr) as HI. cbn [step] in Hs.
  inversion Hs as [He]. unfold do_get in He. destruct (Z.ltb 0 (permits s)) eqn:Ep.
  - right. pose proof (get_loop_result (idle s) (set_permits s (permits s - 1))) as K.
    rewrite He in K. apply K. sp. intros x Hx. apply (inv_ids _ HI). left. assumption.
  - inversion He; subst. left. apply Z.ltb_ge in Ep. auto.
Qed.

Lemma c17_take_spec m tr s s' r x :
  run (init m) tr = Some s -> step s (LTake x) = Some (s', r) ->
  In x (out s) /\ ~ owned s' x /\ In x (taken s')
  /\ size s' = size s - 1 /\ permits s' = permits s + 1
  /\ idle s' = idle s /\ tl s' = tl s /\ ping s' = ping s /\ conns s' = conns s.
Proof.
  intros Hr Hs. pose proof (inv_reachable _ _ _ Hr) as HI. cbn [step] in Hs.
  destruct (mem x (out s)) eqn:E; [|discriminate]. inversion Hs; subst. apply mem_In in E.
  unfold do_take, owned. sp. split; [assumption|]. split; [|split].
  - pose proof (inv_nodup _ HI) as Hnd. apply nodup_app_iff in Hnd. destruct Hnd as (H1 & H2 & H3).
    intros [Ho|Ho]; [exact (H3 x Ho E)|]. destruct (remove_nat_NoDup x _ H2) as (_ & H5). exact (H5 Ho).
  - apply in_or_app. right. left. reflexivity.
  - repeat split; reflexivity.
Qed.
