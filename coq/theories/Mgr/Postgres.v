(* Executable model of deadpool-postgres (postgres/src/lib.rs, postgres/src/config.rs) on top of a
   task-level model of the managed pool (src/managed/mod.rs: get with wait = 0, return, take,
   resize, close, retain - one operation at a time).

   Manager::recycle        -> [recycle]       (is_closed, then simple_query(method.query()))
   StatementCache          -> [cache] with [lookup] / [cinsert] / [cremove] / [cclear]; the map and
                              the separately kept atomic size counter are both modelled
   StatementCaches         -> [registry]: pushed to by create, filtered by Manager::detach ([letgo])
   tokio-postgres / server -> ORACLE: what the scripted server does with the next Query / Parse /
                              connect ([fault]) and whether it hung up ([closed]) are inputs (labels).

   All nondeterminism is in the labels, so [step] is a function. Nothing is proved here. *)
From Coq Require Import List ZArith Lia Bool Arith.
Import ListNotations.
Open Scope Z_scope.

(* ------------------------------------------------------------------ data *)
Inductive fault := FNone | FErr | FHang.
Inductive method := MFast | MVerified | MClean | MCustom (k : Z).

(* cache key: query text (an index into the harness' table) and the list of type OIDs *)
Definition key := (Z * list Z)%type.

(* frontend messages that matter: simple Query (0 = "", 1 = the documented clean-up script,
   10+k = custom text k) and Parse (numbered per connection by the server) *)
Inductive msg := MQuery (sql : Z) | MParse (serial : Z) (k : key).

(* per-connection timeline: wire messages plus ghost marks for hand-out, return to the idle
   queue and the pool letting go of the client *)
Inductive tev := TMsg (m : msg) | THand (reused wasclosed : bool) | TRet | TGone.

Fixpoint zlist_eqb (a b : list Z) : bool :=
  match a, b with
  | [], [] => true
  | x :: a', y :: b' => Z.eqb x y && zlist_eqb a' b'
  | _, _ => false
  end.

Definition key_eqb (a b : key) : bool := Z.eqb (fst a) (fst b) && zlist_eqb (snd a) (snd b).

(* ------------------------------------------------------------------ StatementCache *)
Record cache := { cmap : list (key * Z); ccnt : Z }.

Fixpoint lookup (k : key) (m : list (key * Z)) : option Z :=
  match m with
  | [] => None
  | (k', v) :: r => if key_eqb k k' then Some v else lookup k r
  end.

Fixpoint mremove (k : key) (m : list (key * Z)) : list (key * Z) :=
  match m with
  | [] => []
  | (k', v) :: r => if key_eqb k k' then mremove k r else (k', v) :: mremove k r
  end.

(* StatementCache::insert: the counter moves only when the key was absent *)
Definition cinsert (k : key) (v : Z) (c : cache) : cache :=
  match lookup k (cmap c) with
  | None => {| cmap := (k, v) :: cmap c; ccnt := ccnt c + 1 |}
  | Some _ => {| cmap := (k, v) :: mremove k (cmap c); ccnt := ccnt c |}
  end.

(* StatementCache::remove *)
Definition cremove (k : key) (c : cache) : cache :=
  match lookup k (cmap c) with
  | Some _ => {| cmap := mremove k (cmap c); ccnt := ccnt c - 1 |}
  | None => c
  end.

Definition cclear (c : cache) : cache := {| cmap := []; ccnt := 0 |}.
Definition cempty : cache := {| cmap := []; ccnt := 0 |}.

(* ------------------------------------------------------------------ one client *)
Record conn := {
  closed : bool;        (* Client::is_closed() *)
  cch : cache;
  nparse : Z;           (* server side: number of Parse messages received *)
  armq : fault;         (* script for the next Query on this connection *)
  armp : fault          (* script for the next Parse on this connection *)
}.

Definition fresh_conn : conn :=
  {| closed := false; cch := cempty; nparse := 0; armq := FNone; armp := FNone |}.

Definition set_closed (cn : conn) (b : bool) : conn :=
  {| closed := b; cch := cch cn; nparse := nparse cn; armq := armq cn; armp := armp cn |}.
Definition set_cch (cn : conn) (c : cache) : conn :=
  {| closed := closed cn; cch := c; nparse := nparse cn; armq := armq cn; armp := armp cn |}.
Definition set_nparse (cn : conn) (n : Z) : conn :=
  {| closed := closed cn; cch := cch cn; nparse := n; armq := armq cn; armp := armp cn |}.
Definition set_armq (cn : conn) (f : fault) : conn :=
  {| closed := closed cn; cch := cch cn; nparse := nparse cn; armq := f; armp := armp cn |}.
Definition set_armp (cn : conn) (f : fault) : conn :=
  {| closed := closed cn; cch := cch cn; nparse := nparse cn; armq := armq cn; armp := f |}.

(* the custom texts of the harness: text k has sql id 10 + k, except text 2, the empty string, which
   is on the wire what Verified sends (sql id 0); RecyclingMethod::Custom("") still is a round trip *)
Definition custom_sql (k : Z) : Z := if Z.eqb k 2 then 0 else 10 + k.

(* RecyclingMethod::query *)
Definition sql_of (m : method) : option Z :=
  match m with
  | MFast => None
  | MVerified => Some 0
  | MClean => Some 1
  | MCustom k => Some (custom_sql k)
  end.

(* Manager::recycle: the messages sent and the verdict *)
Definition recycle (m : method) (cn : conn) : conn * list msg * bool :=
  if closed cn then (cn, [], false)
  else
    match sql_of m with
    | None => (cn, [], true)
    | Some q =>
        match armq cn with
        | FNone => (cn, [MQuery q], true)
        | FErr => (set_armq cn FNone, [MQuery q], false)
        | FHang => (set_closed (set_armq cn FNone) true, [MQuery q], false)
        end
    end.

(* StatementCache::prepare_typed through ClientWrapper::prepare_typed_cached *)
Definition prepare1 (cn : conn) (k : key) : conn * list msg * option Z :=
  match lookup k (cmap (cch cn)) with
  | Some v => (cn, [], Some v)
  | None =>
      if closed cn then (cn, [], None)
      else
        let ser := nparse cn in
        let cn1 := set_nparse cn (ser + 1) in
        match armp cn with
        | FNone => (set_cch cn1 (cinsert k ser (cch cn1)), [MParse ser k], Some ser)
        | FErr => (set_armp cn1 FNone, [MParse ser k], None)
        | FHang => (set_closed (set_armp cn1 FNone) true, [MParse ser k], None)
        end
  end.

(* two prepare_typed_cached calls for one key in flight at the same time on one client:
   both miss, both Parse, the later insert replaces the earlier one *)
Definition prepare2 (cn : conn) (k : key) : conn * list msg * option Z * option Z :=
  match lookup k (cmap (cch cn)) with
  | Some v => (cn, [], Some v, Some v)
  | None =>
      if closed cn then (cn, [], None, None)
      else
        let ser := nparse cn in
        match armp cn with
        | FNone =>
            let cn1 := set_nparse cn (ser + 2) in
            (set_cch cn1 (cinsert k (ser + 1) (cinsert k ser (cch cn1))),
             [MParse ser k; MParse (ser + 1) k], Some ser, Some (ser + 1))
        | FErr =>
            let cn1 := set_armp (set_nparse cn (ser + 2)) FNone in
            (set_cch cn1 (cinsert k (ser + 1) (cch cn1)),
             [MParse ser k; MParse (ser + 1) k], None, Some (ser + 1))
        | FHang =>
            (set_closed (set_armp (set_nparse cn (ser + 1)) FNone) true, [MParse ser k], None, None)
        end
  end.

(* ------------------------------------------------------------------ pool + manager state *)
Record cfg := { max0 : nat; meth : method; lifo : bool }.

Record state := {
  conns : list conn;          (* index = connection id, in order of creation *)
  idle : list nat;            (* Slots.vec, front first *)
  out : list nat;             (* clients in callers' hands *)
  taken : list nat;           (* clients removed with Object::take, still used by the caller *)
  maxs : Z; size : Z; permits : Z; debt : Z; pclosed : bool;
  registry : list nat;        (* StatementCaches.caches *)
  armc : fault;               (* script for the next connect *)
  tl : list (nat * tev)       (* ghost timeline, newest first *)
}.

Definition init (c : cfg) : state :=
  {| conns := []; idle := []; out := []; taken := [];
     maxs := Z.of_nat (max0 c); size := 0; permits := Z.of_nat (max0 c); debt := 0;
     pclosed := false; registry := []; armc := FNone; tl := [] |}.

Definition set_conns (s : state) (v : list conn) : state :=
  {| conns := v; idle := idle s; out := out s; taken := taken s; maxs := maxs s; size := size s;
     permits := permits s; debt := debt s; pclosed := pclosed s; registry := registry s;
     armc := armc s; tl := tl s |}.
Definition set_idle (s : state) (v : list nat) : state :=
  {| conns := conns s; idle := v; out := out s; taken := taken s; maxs := maxs s; size := size s;
     permits := permits s; debt := debt s; pclosed := pclosed s; registry := registry s;
     armc := armc s; tl := tl s |}.
Definition set_out (s : state) (v : list nat) : state :=
  {| conns := conns s; idle := idle s; out := v; taken := taken s; maxs := maxs s; size := size s;
     permits := permits s; debt := debt s; pclosed := pclosed s; registry := registry s;
     armc := armc s; tl := tl s |}.
Definition set_taken (s : state) (v : list nat) : state :=
  {| conns := conns s; idle := idle s; out := out s; taken := v; maxs := maxs s; size := size s;
     permits := permits s; debt := debt s; pclosed := pclosed s; registry := registry s;
     armc := armc s; tl := tl s |}.
Definition set_maxs (s : state) (v : Z) : state :=
  {| conns := conns s; idle := idle s; out := out s; taken := taken s; maxs := v; size := size s;
     permits := permits s; debt := debt s; pclosed := pclosed s; registry := registry s;
     armc := armc s; tl := tl s |}.
Definition set_size (s : state) (v : Z) : state :=
  {| conns := conns s; idle := idle s; out := out s; taken := taken s; maxs := maxs s; size := v;
     permits := permits s; debt := debt s; pclosed := pclosed s; registry := registry s;
     armc := armc s; tl := tl s |}.
Definition set_permits (s : state) (v : Z) : state :=
  {| conns := conns s; idle := idle s; out := out s; taken := taken s; maxs := maxs s; size := size s;
     permits := v; debt := debt s; pclosed := pclosed s; registry := registry s;
     armc := armc s; tl := tl s |}.
Definition set_debt (s : state) (v : Z) : state :=
  {| conns := conns s; idle := idle s; out := out s; taken := taken s; maxs := maxs s; size := size s;
     permits := permits s; debt := v; pclosed := pclosed s; registry := registry s;
     armc := armc s; tl := tl s |}.
Definition set_pclosed (s : state) (v : bool) : state :=
  {| conns := conns s; idle := idle s; out := out s; taken := taken s; maxs := maxs s; size := size s;
     permits := permits s; debt := debt s; pclosed := v; registry := registry s;
     armc := armc s; tl := tl s |}.
Definition set_registry (s : state) (v : list nat) : state :=
  {| conns := conns s; idle := idle s; out := out s; taken := taken s; maxs := maxs s; size := size s;
     permits := permits s; debt := debt s; pclosed := pclosed s; registry := v;
     armc := armc s; tl := tl s |}.
Definition set_armc (s : state) (v : fault) : state :=
  {| conns := conns s; idle := idle s; out := out s; taken := taken s; maxs := maxs s; size := size s;
     permits := permits s; debt := debt s; pclosed := pclosed s; registry := registry s;
     armc := v; tl := tl s |}.
Definition set_tl (s : state) (v : list (nat * tev)) : state :=
  {| conns := conns s; idle := idle s; out := out s; taken := taken s; maxs := maxs s; size := size s;
     permits := permits s; debt := debt s; pclosed := pclosed s; registry := registry s;
     armc := armc s; tl := v |}.

Fixpoint updl {A : Type} (n : nat) (x : A) (l : list A) : list A :=
  match l, n with
  | [], _ => []
  | _ :: r, O => x :: r
  | y :: r, S n' => y :: updl n' x r
  end.

Definition getc (s : state) (x : nat) : conn := nth x (conns s) fresh_conn.
Definition setc (s : state) (x : nat) (cn : conn) : state := set_conns s (updl x cn (conns s)).

Definition mem (x : nat) (l : list nat) : bool := existsb (Nat.eqb x) l.

Fixpoint remove_nat (x : nat) (l : list nat) : list nat :=
  match l with
  | [] => []
  | y :: l' => if Nat.eqb x y then l' else y :: remove_nat x l'
  end.

Definition logm (x : nat) (ms : list msg) (s : state) : state :=
  set_tl s (rev (map (fun m => (x, TMsg m)) ms) ++ tl s).

Definition logt (x : nat) (e : tev) (s : state) : state := set_tl s ((x, e) :: tl s).

(* ------------------------------------------------------------------ the pool's primitives *)
(* Manager::detach: the cache leaves the registry (and the pool no longer owns the client) *)
Definition letgo (x : nat) (s : state) : state :=
  logt x TGone (set_registry s (filter (fun y => negb (Nat.eqb y x)) (registry s))).

(* an idle object leaves the pool: rejected recycle (UnreadyObject::drop), shrink, close, retain *)
Definition release (x : nat) (s : state) : state :=
  letgo x (set_size (set_idle s (remove_nat x (idle s))) (size s - 1)).

Definition hand (x : nat) (reused : bool) (s : state) : state :=
  logt x (THand reused (closed (getc s x))) (set_out s (out s ++ [x])).

Definition b2z (b : bool) : Z := if b then 1 else 0.
Definition n2z (n : nat) : Z := Z.of_nat n.

(* Manager::create + the bookkeeping of try_create *)
Definition create (s : state) : state * list Z :=
  match armc s with
  | FNone =>
      let x := length (conns s) in
      let s1 := set_registry (set_size (set_conns s (conns s ++ [fresh_conn])) (size s + 1))
                             (registry s ++ [x]) in
      (hand x false s1, [1; n2z x; 0])
  | _ => (set_permits (set_armc s FNone) (permits s + 1), [2; 2; 0])
  end.

(* the loop of timeout_get: [order] = the idle objects in pop order *)
Fixpoint get_loop (c : cfg) (order : list nat) (s : state) : state * list Z :=
  match order with
  | [] => create s
  | x :: rest =>
      let '(cn, ms, ok) := recycle (meth c) (getc s x) in
      let s1 := logm x ms (setc s x cn) in
      if ok then (hand x true (set_idle s1 (remove_nat x (idle s1))), [1; n2z x; b2z (closed cn)])
      else get_loop c rest (release x s1)
  end.

(* timeout_get with wait = 0: permits owed to an earlier shrink are retired first *)
Definition do_get (c : cfg) (s : state) : state * list Z :=
  if pclosed s then (s, [2; 3; 0])
  else if Z.ltb (debt s) (permits s) then
    get_loop c (if lifo c then rev (idle s) else idle s)
             (set_debt (set_permits s (permits s - debt s - 1)) 0)
  else (set_debt (set_permits s 0) (debt s - permits s), [2; 1; 0]).

(* return_object *)
Definition do_return (x : nat) (s : state) : state :=
  let s0 := set_out s (remove_nat x (out s)) in
  if Z.leb (size s0) (maxs s0)
  then logt x TRet (set_permits (set_idle s0 (idle s0 ++ [x])) (permits s0 + 1))
  else letgo x (set_permits (set_size s0 (size s0 - 1)) (permits s0 + 1)).

(* Object::take -> detach_object *)
Definition do_take (x : nat) (s : state) : state :=
  let s0 := set_taken (set_out s (remove_nat x (out s))) (taken s ++ [x]) in
  letgo x (set_permits (set_size s0 (size s0 - 1)) (permits s0 + 1)).

(* resize_locked: release surplus idle objects from the front *)
Fixpoint shrink (order : list nat) (s : state) : state :=
  match order with
  | [] => s
  | x :: rest => if Z.ltb (maxs s) (size s) then shrink rest (release x s) else s
  end.

Definition resize_locked (n : Z) (s : state) : state :=
  let old := maxs s in
  let s1 := set_maxs s n in
  if Z.ltb n old then
    let want := old - n in
    let free := if pclosed s1 then 0 else Z.min (permits s1) want in
    let s2 := set_debt (set_permits s1 (permits s1 - free)) (debt s1 + (want - free)) in
    shrink (idle s2) s2
  else if Z.ltb old n then
    let add := n - old in
    let cancelled := Z.min add (debt s1) in
    set_permits (set_debt s1 (debt s1 - cancelled)) (permits s1 + (add - cancelled))
  else s1.

Definition do_resize (n : Z) (s : state) : state := if pclosed s then s else resize_locked n s.
Definition do_close (s : state) : state := resize_locked 0 (set_pclosed s true).

(* retain: [ds] = the predicate's answers in queue order (true once exhausted) *)
Fixpoint retain_loop (ds : list bool) (order : list nat) (s : state) : state * Z :=
  match order with
  | [] => (s, 0)
  | x :: rest =>
      let keep := match ds with [] => true | d :: _ => d end in
      let ds' := match ds with [] => [] | _ :: r => r end in
      if keep then retain_loop ds' rest s
      else let '(s1, removed) := retain_loop ds' rest (release x s) in (s1, removed + 1)
  end.

Definition do_retain (ds : list bool) (s : state) : state * list Z :=
  let '(s1, removed) := retain_loop ds (idle s) s in
  (s1, [7; n2z (length (idle s1)); removed]).

(* StatementCaches::clear / remove: every cache in the registry *)
Fixpoint map_reg (f : conn -> conn) (reg : list nat) (i : nat) (l : list conn) : list conn :=
  match l with
  | [] => []
  | cn :: r => (if mem i reg then f cn else cn) :: map_reg f reg (S i) r
  end.

Definition reg_apply (f : cache -> cache) (s : state) : state :=
  set_conns s (map_reg (fun cn => set_cch cn (f (cch cn))) (registry s) 0 (conns s)).

(* ------------------------------------------------------------------ labels and step *)
Inductive label :=
| LGet | LRet (x : nat) | LTake (x : nat) | LResize (n : Z) | LClose | LRetain (ds : list bool)
| LPrep (x : nat) (k : key) | LPrep2 (x : nat) (k : key) | LPrepVia (w : Z) (x : nat) (k : key)
| LCClear (x : nat) | LCRemove (x : nat) (k : key) | LRClear | LRRemove (k : key)
| LArmQ (x : nat) (f : fault) | LArmP (x : nat) (f : fault) | LArmC (f : fault) | LKill (x : nat).

(* prepare_cached / prepare_typed_cached through the wrappers that share the client's cache:
   w = 3 client.transaction(); 4 a nested transaction(); 5 transaction().savepoint(name);
   6 build_transaction().start(); 7 / 8 prepare_typed_cached / prepare_cached of the GenericClient
   trait implemented for Transaction. Everything is committed afterwards. The simple queries the server
   sees: 24 START TRANSACTION (tokio-postgres starts every transaction that way), 21 COMMIT,
   22 SAVEPOINT _, 23 RELEASE _ *)
Definition via_nested (w : Z) : bool := Z.eqb w 4 || Z.eqb w 5.
Definition via_pre (w : Z) : list msg :=
  if via_nested w then [MQuery 24; MQuery 22] else [MQuery 24].
Definition via_post (w : Z) : list msg :=
  if via_nested w then [MQuery 23; MQuery 21] else [MQuery 21].
Definition fault_none (f : fault) : bool := match f with FNone => true | _ => false end.
Definition via_ready (cn : conn) : bool :=
  negb (closed cn) && fault_none (armq cn) && fault_none (armp cn).

Definition usable (s : state) (x : nat) : bool := mem x (out s) || mem x (taken s).
Definition known (s : state) (x : nat) : bool := Nat.ltb x (length (conns s)).

Definition oz (o : option Z) : Z := match o with Some v => v | None => -1 end.

Definition unit_res : list Z := [0; 0; 0].

Definition step (c : cfg) (s : state) (l : label) : option (state * list Z) :=
  match l with
  | LGet => Some (do_get c s)
  | LRet x => if mem x (out s) then Some (do_return x s, unit_res) else None
  | LTake x => if mem x (out s) then Some (do_take x s, unit_res) else None
  | LResize n => Some (do_resize n s, unit_res)
  | LClose => Some (do_close s, unit_res)
  | LRetain ds => Some (do_retain ds s)
  | LPrep x k =>
      if usable s x then
        let '(cn, ms, r) := prepare1 (getc s x) k in
        Some (logm x ms (setc s x cn),
              match r with Some v => [3; n2z x; v] | None => [4; 0; 0] end)
      else None
  | LPrep2 x k =>
      if usable s x then
        let '(cn, ms, r1, r2) := prepare2 (getc s x) k in
        Some (logm x ms (setc s x cn), [5; oz r1; oz r2])
      else None
  | LPrepVia w x k =>
      (* the same prepare through a Transaction wrapper; only on a connection without a scripted fault *)
      if usable s x && via_ready (getc s x) then
        let '(cn, ms, r) := prepare1 (getc s x) k in
        Some (logm x (via_pre w ++ ms ++ via_post w) (setc s x cn),
              match r with Some v => [3; n2z x; v] | None => [4; 0; 0] end)
      else None
  | LCClear x =>
      if usable s x then Some (setc s x (set_cch (getc s x) (cclear (cch (getc s x)))), unit_res)
      else None
  | LCRemove x k =>
      if usable s x then
        Some (setc s x (set_cch (getc s x) (cremove k (cch (getc s x)))),
              [6; match lookup k (cmap (cch (getc s x))) with Some _ => 1 | None => 0 end; 0])
      else None
  | LRClear => Some (reg_apply cclear s, unit_res)
  | LRRemove k => Some (reg_apply (cremove k) s, unit_res)
  | LArmQ x f => if known s x then Some (setc s x (set_armq (getc s x) f), unit_res) else None
  | LArmP x f => if known s x then Some (setc s x (set_armp (getc s x) f), unit_res) else None
  | LArmC f => Some (set_armc s f, unit_res)
  | LKill x => if known s x then Some (setc s x (set_closed (getc s x) true), unit_res) else None
  end.

Fixpoint run (c : cfg) (s : state) (tr : list label) : option state :=
  match tr with
  | [] => Some s
  | l :: tr' => match step c s l with Some (s', _) => run c s' tr' | None => None end
  end.

Definition Reachable (c : cfg) (s : state) : Prop := exists tr, run c (init c) tr = Some s.
