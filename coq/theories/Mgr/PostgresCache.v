(* The statement cache of the postgres model refines a finite map keyed by (query, types). *)
From Coq Require Import List ZArith Lia Bool Arith.
From DP Require Import Mgr.ListAux Mgr.Postgres.
Import ListNotations.
Open Scope Z_scope.

Lemma zlist_eqb_eq a b : zlist_eqb a b = true <-> a = b.
Proof.
  revert b; induction a as [|x a IH]; intros [|y b]; cbn [zlist_eqb]; split; intros H;
    try reflexivity; try discriminate.
  - apply andb_true_iff in H. destruct H as (H1 & H2). apply Z.eqb_eq in H1. apply IH in H2. congruence.
  - inversion H; subst. apply andb_true_iff. split; [apply Z.eqb_refl | apply IH; reflexivity].
Qed.

Lemma key_eqb_eq (a b : key) : key_eqb a b = true <-> a = b.
Proof.
  unfold key_eqb. destruct a as [qa ta], b as [qb tb]. cbn [fst snd]. split; intros H.
  - apply andb_true_iff in H. destruct H as (H1 & H2). apply Z.eqb_eq in H1. apply zlist_eqb_eq in H2. congruence.
  - inversion H; subst. apply andb_true_iff. split; [apply Z.eqb_refl | apply zlist_eqb_eq; reflexivity].
Qed.

Lemma key_eqb_refl k : key_eqb k k = true.
Proof. apply key_eqb_eq. reflexivity. Qed.

Lemma key_eqb_neq (a b : key) : key_eqb a b = false <-> a <> b.
Proof.
  split; intros H.
  - intros He. apply key_eqb_eq in He. congruence.
  - destruct (key_eqb a b) eqn:E; [|reflexivity]. apply key_eqb_eq in E. contradiction.
Qed.

(* keys differing only in their type lists are different keys *)
Lemma key_types_distinct q t1 t2 : t1 <> t2 -> key_eqb (q, t1) (q, t2) = false.
Proof. intros H. apply key_eqb_neq. intros He. inversion He. contradiction. Qed.

Definition keys (m : list (key * Z)) : list key := map fst m.

Lemma lookup_None k m : lookup k m = None <-> ~ In k (keys m).
Proof.
  induction m as [|[k' v] m IH]; cbn [lookup keys map fst In].
  - split; [intros _ [] | reflexivity].
  - destruct (key_eqb k k') eqn:E.
    + apply key_eqb_eq in E. subst. split; [discriminate | intros H; exfalso; apply H; left; reflexivity].
    + apply key_eqb_neq in E. rewrite IH. unfold keys. split.
      * intros H [He|Hin]; [congruence | exact (H Hin)].
      * intros H Hin. apply H. right. assumption.
Qed.

Lemma lookup_Some_In k v m : lookup k m = Some v -> In k (keys m).
Proof.
  intros H. destruct (in_dec (fun a b => match bool_dec (key_eqb a b) true with
                                      | left e => left (proj1 (key_eqb_eq a b) e)
                                      | right n => right (fun e => n (proj2 (key_eqb_eq a b) e))
                                      end) k (keys m)) as [Hin|Hn]; [assumption|].
  apply lookup_None in Hn. congruence.
Qed.

Lemma mremove_notin k m : ~ In k (keys m) -> mremove k m = m.
Proof.
  induction m as [|[k' v] m IH]; cbn [mremove keys map fst In]; intros H; [reflexivity|].
  destruct (key_eqb k k') eqn:E.
  - apply key_eqb_eq in E. subst. exfalso. apply H. left. reflexivity.
  - rewrite IH; [reflexivity|]. intros Hin. apply H. right. assumption.
Qed.

Lemma keys_mremove k k' m : In k' (keys (mremove k m)) <-> In k' (keys m) /\ k' <> k.
Proof.
  induction m as [|[k2 v] m IH]; cbn [mremove keys map fst In].
  - split; [intros [] | intros ([] & _)].
  - destruct (key_eqb k k2) eqn:E.
    + apply key_eqb_eq in E. subst k2. rewrite IH. unfold keys. split.
      * intros (H1 & H2). split; [right; assumption | assumption].
      * intros ([H1|H1] & H2); [congruence | split; assumption].
    + apply key_eqb_neq in E. cbn [keys map fst In]. rewrite IH. unfold keys. split.
      * intros [H|(H1 & H2)]; [subst; split; [left; reflexivity | congruence] | split; [right; assumption | assumption]].
      * intros ([H1|H1] & H2); [left; assumption | right; split; assumption].
Qed.

Lemma NoDup_keys_mremove k m : NoDup (keys m) -> NoDup (keys (mremove k m)).
Proof.
  induction m as [|[k2 v] m IH]; cbn [mremove keys map fst]; intros H; [constructor|].
  inversion H as [|? ? Hn Hd]; subst. destruct (key_eqb k k2).
  - apply IH. assumption.
  - cbn [keys map fst]. constructor; [|apply IH; assumption].
    intros Hin. apply keys_mremove in Hin. apply Hn. apply Hin.
Qed.

Lemma lookup_mremove_same k m : lookup k (mremove k m) = None.
Proof. apply lookup_None. intros H. apply keys_mremove in H. destruct H as (_ & H). congruence. Qed.

Lemma lookup_mremove_other k k' m : k' <> k -> lookup k' (mremove k m) = lookup k' m.
Proof.
  intros Hne. induction m as [|[k2 v] m IH]; cbn [mremove lookup]; [reflexivity|].
  destruct (key_eqb k k2) eqn:E.
  - apply key_eqb_eq in E. subst k2. rewrite IH.
    destruct (key_eqb k' k) eqn:E2; [apply key_eqb_eq in E2; congruence | reflexivity].
  - cbn [lookup]. rewrite IH. reflexivity.
Qed.

Lemma length_mremove_present k v m :
  NoDup (keys m) -> lookup k m = Some v -> S (length (mremove k m)) = length m.
Proof.
  induction m as [|[k2 v2] m IH]; cbn [mremove lookup keys map fst length]; intros Hd Hl; [discriminate|].
  inversion Hd as [|? ? Hn Hd']; subst. destruct (key_eqb k k2) eqn:E.
  - apply key_eqb_eq in E. subst k2. rewrite mremove_notin by assumption. reflexivity.
  - cbn [length]. rewrite IH by assumption. reflexivity.
Qed.

(* ------------------------------------------------------------------ well-formed caches *)
(* the map has one entry per key, and the separately kept counter is the number of keys *)
Definition cache_wf (c : cache) : Prop :=
  NoDup (keys (cmap c)) /\ ccnt c = Z.of_nat (length (keys (cmap c))).

Lemma wf_empty : cache_wf cempty.
Proof. split; [constructor | reflexivity]. Qed.

Lemma wf_clear c : cache_wf (cclear c).
Proof. split; [constructor | reflexivity]. Qed.

Lemma wf_insert k v c : cache_wf c -> cache_wf (cinsert k v c).
Proof.
  intros (Hd & Hc). unfold cinsert. destruct (lookup k (cmap c)) as [v0|] eqn:E.
  - split; cbn [cmap ccnt keys map fst].
    + constructor; [|apply NoDup_keys_mremove; assumption].
      intros Hin. apply keys_mremove in Hin. destruct Hin as (_ & Hin). congruence.
    + cbn [length]. rewrite Hc. unfold keys. rewrite !map_length.
      pose proof (length_mremove_present k v0 _ Hd E) as L. lia.
  - split; cbn [cmap ccnt keys map fst].
    + constructor; [|assumption]. apply lookup_None. assumption.
    + cbn [length]. rewrite Hc. unfold keys. rewrite !map_length. lia.
Qed.

Lemma wf_remove k c : cache_wf c -> cache_wf (cremove k c).
Proof.
  intros (Hd & Hc). unfold cremove. destruct (lookup k (cmap c)) as [v0|] eqn:E; [|split; assumption].
  split; cbn [cmap ccnt].
  - apply NoDup_keys_mremove. assumption.
  - rewrite Hc. unfold keys. rewrite !map_length. pose proof (length_mremove_present k v0 _ Hd E) as L. lia.
Qed.

(* ------------------------------------------------------------------ the finite-map view *)
Definition find (k : key) (c : cache) : option Z := lookup k (cmap c).

Lemma find_insert_same k v c : find k (cinsert k v c) = Some v.
Proof.
  unfold find, cinsert. destruct (lookup k (cmap c)); cbn [cmap lookup]; rewrite key_eqb_refl; reflexivity.
Qed.

Lemma find_insert_other k k' v c : k' <> k -> find k' (cinsert k v c) = find k' c.
Proof.
  intros Hne. unfold find, cinsert. apply key_eqb_neq in Hne.
  destruct (lookup k (cmap c)); cbn [cmap lookup]; rewrite Hne; [|reflexivity].
  apply lookup_mremove_other. apply key_eqb_neq. assumption.
Qed.

Lemma find_remove_same k c : find k (cremove k c) = None.
Proof.
  unfold find, cremove. destruct (lookup k (cmap c)) eqn:E; cbn [cmap]; [apply lookup_mremove_same | assumption].
Qed.

Lemma find_remove_other k k' c : k' <> k -> find k' (cremove k c) = find k' c.
Proof.
  intros Hne. unfold find, cremove. destruct (lookup k (cmap c)); cbn [cmap]; [|reflexivity].
  apply lookup_mremove_other. assumption.
Qed.

Lemma find_clear k c : find k (cclear c) = None.
Proof. reflexivity. Qed.

Lemma size_insert k v c :
  ccnt (cinsert k v c) = ccnt c + (match find k c with None => 1 | Some _ => 0 end).
Proof. unfold find, cinsert. destruct (lookup k (cmap c)); cbn [ccnt]; lia. Qed.

Lemma size_remove k c :
  ccnt (cremove k c) = ccnt c - (match find k c with None => 0 | Some _ => 1 end).
Proof. unfold find, cremove. destruct (lookup k (cmap c)); cbn [ccnt]; lia. Qed.

(* ------------------------------------------------------------------ prepare_typed_cached *)
Lemma prepare1_hit cn k v :
  find k (cch cn) = Some v -> prepare1 cn k = (cn, [], Some v).
Proof. unfold find, prepare1. intros H. rewrite H. reflexivity. Qed.

Lemma prepare1_miss cn k :
  find k (cch cn) = None -> closed cn = false ->
  let '(cn', ms, r) := prepare1 cn k in
  ms = [MParse (nparse cn) k]
  /\ (armp cn = FNone ->
      r = Some (nparse cn) /\ find k (cch cn') = Some (nparse cn)
      /\ (forall k', k' <> k -> find k' (cch cn') = find k' (cch cn))
      /\ ccnt (cch cn') = ccnt (cch cn) + 1 /\ closed cn' = false)
  /\ (armp cn <> FNone -> r = None /\ cch cn' = cch cn).
Proof.
  unfold find, prepare1. intros H Hc. rewrite H, Hc. destruct (armp cn) eqn:Ea; cbn [cch set_cch set_nparse set_armp set_closed closed].
  - split; [reflexivity|]. split; [|intros K; congruence]. intros _.
    split; [reflexivity|]. split; [apply find_insert_same|]. split; [intros k' Hk; apply find_insert_other; assumption|].
    split; [|assumption]. rewrite size_insert. unfold find. rewrite H. reflexivity.
  - split; [reflexivity|]. split; [discriminate|]. intros _. split; reflexivity.
  - split; [reflexivity|]. split; [discriminate|]. intros _. split; reflexivity.
Qed.

Lemma prepare1_closed cn k :
  find k (cch cn) = None -> closed cn = true -> prepare1 cn k = (cn, [], None).
Proof. unfold find, prepare1. intros H Hc. rewrite H, Hc. reflexivity. Qed.

Lemma prepare1_wf cn k : cache_wf (cch cn) -> cache_wf (cch (fst (fst (prepare1 cn k)))).
Proof.
  intros Hw. unfold prepare1. destruct (lookup k (cmap (cch cn))); [assumption|].
  destruct (closed cn); [assumption|].
  destruct (armp cn); cbn [fst cch set_cch set_nparse set_armp set_closed]; try assumption.
  apply wf_insert. assumption.
Qed.

Lemma prepare2_wf cn k : cache_wf (cch cn) -> cache_wf (cch (fst (fst (fst (prepare2 cn k))))).
Proof.
  intros Hw. unfold prepare2. destruct (lookup k (cmap (cch cn))); [assumption|].
  destruct (closed cn); [assumption|].
  destruct (armp cn); cbn [fst cch set_cch set_nparse set_armp set_closed]; try assumption.
  - apply wf_insert. apply wf_insert. assumption.
  - apply wf_insert. assumption.
Qed.

(* two prepares in flight for one absent key: two Parse, one entry *)
Lemma prepare2_miss cn k :
  find k (cch cn) = None -> closed cn = false -> armp cn = FNone ->
  let '(cn', ms, r1, r2) := prepare2 cn k in
  ms = [MParse (nparse cn) k; MParse (nparse cn + 1) k]
  /\ r1 = Some (nparse cn) /\ r2 = Some (nparse cn + 1)
  /\ find k (cch cn') = Some (nparse cn + 1)
  /\ ccnt (cch cn') = ccnt (cch cn) + 1.
Proof.
  unfold find, prepare2. intros H Hc Ha. rewrite H, Hc, Ha. cbn [cch set_cch set_nparse].
  repeat split; try reflexivity.
  - apply find_insert_same.
  - rewrite !size_insert. rewrite find_insert_same. unfold find. rewrite H. lia.
Qed.
