(* What the composite helpers (sem_add, ssem_add, clear, emit_destroyed) do to each field of
   the state and to the sums over the task table. Later proofs only use these lemmas. *)
From Coq Require Import List ZArith Lia Bool Arith.
From DP Require Import Common.Tab Unmanaged.Model Unmanaged.Contrib Unmanaged.Simp Unmanaged.InvQ.
Import ListNotations.
Open Scope Z_scope.

(* ---------- fields sem_add never touches *)
Ltac sem_add_field :=
  intros; unfold sem_add;
  match goal with |- context [queue ?s] => destruct (queue s) as [|? ?]; [reflexivity|] end;
  match goal with |- context [pcof ?s ?w] => destruct (pcof s w); reflexivity end.

Lemma sem_add_closed s : closed (sem_add s) = closed s. Proof. sem_add_field. Qed.
Lemma sem_add_spermits s : spermits (sem_add s) = spermits s. Proof. sem_add_field. Qed.
Lemma sem_add_sclosed s : sclosed (sem_add s) = sclosed s. Proof. sem_add_field. Qed.
Lemma sem_add_squeue s : squeue (sem_add s) = squeue s. Proof. sem_add_field. Qed.
Lemma sem_add_vec s : vec (sem_add s) = vec s. Proof. sem_add_field. Qed.
Lemma sem_add_size s : size (sem_add s) = size s. Proof. sem_add_field. Qed.
Lemma sem_add_avail s : avail (sem_add s) = avail s. Proof. sem_add_field. Qed.
Lemma sem_add_out s : out (sem_add s) = out s. Proof. sem_add_field. Qed.
Lemma sem_add_loose s : loose (sem_add s) = loose s. Proof. sem_add_field. Qed.
Lemma sem_add_dead s : dead (sem_add s) = dead s. Proof. sem_add_field. Qed.
Lemma sem_add_gone s : gone (sem_add s) = gone s. Proof. sem_add_field. Qed.
Lemma sem_add_next_oid s : next_oid (sem_add s) = next_oid s. Proof. sem_add_field. Qed.
Lemma sem_add_log s : log (sem_add s) = log s. Proof. sem_add_field. Qed.

Ltac ssem_add_field :=
  intros; unfold ssem_add;
  match goal with |- context [squeue ?s] => destruct (squeue s) as [|? ?]; [reflexivity|] end;
  match goal with |- context [pcof ?s ?w] => destruct (pcof s w); reflexivity end.

Lemma ssem_add_permits s : permits (ssem_add s) = permits s. Proof. ssem_add_field. Qed.
Lemma ssem_add_closed s : closed (ssem_add s) = closed s. Proof. ssem_add_field. Qed.
Lemma ssem_add_queue s : queue (ssem_add s) = queue s. Proof. ssem_add_field. Qed.
Lemma ssem_add_sclosed s : sclosed (ssem_add s) = sclosed s. Proof. ssem_add_field. Qed.
Lemma ssem_add_vec s : vec (ssem_add s) = vec s. Proof. ssem_add_field. Qed.
Lemma ssem_add_size s : size (ssem_add s) = size s. Proof. ssem_add_field. Qed.
Lemma ssem_add_avail s : avail (ssem_add s) = avail s. Proof. ssem_add_field. Qed.
Lemma ssem_add_out s : out (ssem_add s) = out s. Proof. ssem_add_field. Qed.
Lemma ssem_add_loose s : loose (ssem_add s) = loose s. Proof. ssem_add_field. Qed.
Lemma ssem_add_dead s : dead (ssem_add s) = dead s. Proof. ssem_add_field. Qed.
Lemma ssem_add_gone s : gone (ssem_add s) = gone s. Proof. ssem_add_field. Qed.
Lemma ssem_add_next_oid s : next_oid (ssem_add s) = next_oid s. Proof. ssem_add_field. Qed.
Lemma ssem_add_log s : log (ssem_add s) = log s. Proof. ssem_add_field. Qed.

#[export] Hint Rewrite sem_add_closed sem_add_spermits sem_add_sclosed sem_add_squeue sem_add_vec
  sem_add_size sem_add_avail sem_add_out sem_add_loose sem_add_dead sem_add_gone sem_add_next_oid
  sem_add_log
  ssem_add_permits ssem_add_closed ssem_add_queue ssem_add_sclosed ssem_add_vec ssem_add_size
  ssem_add_avail ssem_add_out ssem_add_loose ssem_add_dead ssem_add_gone ssem_add_next_oid
  ssem_add_log : fld.

(* ---------- the arithmetic effect of the two add_permits *)
Lemma sem_add_hp s :
  GQ s -> permits (sem_add s) + sum hp (tasks (sem_add s)) = permits s + sum hp (tasks s) + 1.
Proof.
  intros G. destruct (sem_add_cases s G) as [[Eq ->]|(w & q & x & Eq & Hw & Hp & Hc & ->)].
  - sp. lia.
  - rewrite sum_setpc by reflexivity. sp. unfold pcof in *. sp. rewrite Hw. cbn [hp]. lia.
Qed.

Lemma sem_add_permits_nonneg s : GQ s -> 0 <= permits (sem_add s).
Proof. intros G. apply (q_pnn _ (GQ_sem_add s G)). Qed.

Lemma ssem_add_hs s :
  SQ s -> spermits (ssem_add s) + sum hs (tasks (ssem_add s)) = spermits s + sum hs (tasks s) + 1.
Proof.
  intros G. destruct (ssem_add_cases s G) as [[Eq ->]|(w & q & x & Eq & Hw & Hp & Hc & ->)].
  - sp. lia.
  - rewrite sum_setpc by reflexivity. sp. unfold pcof in *. sp. rewrite Hw. cbn [hs]. lia.
Qed.

(* every other contribution is blind to the served waiter *)
Record sem_blind (f : pc -> Z) : Prop := {
  sb_none : f PNone = 0;
  sb_g : forall x, f (GWait x true) = f (GWait x false)
}.
Record ssem_blind (f : pc -> Z) : Prop := {
  ssb_none : f PNone = 0;
  ssb_a : forall x, f (AWait x true) = f (AWait x false)
}.

Lemma sem_add_blind f s : sem_blind f -> GQ s -> sum f (tasks (sem_add s)) = sum f (tasks s).
Proof. intros [H0 H1] G. apply sem_add_sum; assumption. Qed.
Lemma ssem_add_blind f s : ssem_blind f -> SQ s -> sum f (tasks (ssem_add s)) = sum f (tasks s).
Proof. intros [H0 H1] G. apply ssem_add_sum; assumption. Qed.

Lemma blind_pp : sem_blind pp. Proof. split; reflexivity. Qed.
Lemma blind_hs : sem_blind hs. Proof. split; reflexivity. Qed.
Lemma blind_cs : sem_blind cs. Proof. split; reflexivity. Qed.
Lemma blind_pinc : sem_blind pinc. Proof. split; reflexivity. Qed.
Lemma blind_pdec : sem_blind pdec. Proof. split; reflexivity. Qed.
Lemma blind_wg : sem_blind wg. Proof. split; reflexivity. Qed.
Lemma blind_cl : sem_blind cl. Proof. split; reflexivity. Qed.
Lemma blind_holds o : sem_blind (holds o). Proof. split; reflexivity. Qed.
Lemma sblind_hp : ssem_blind hp. Proof. split; reflexivity. Qed.
Lemma sblind_pp : ssem_blind pp. Proof. split; reflexivity. Qed.
Lemma sblind_cs : ssem_blind cs. Proof. split; reflexivity. Qed.
Lemma sblind_pinc : ssem_blind pinc. Proof. split; reflexivity. Qed.
Lemma sblind_pdec : ssem_blind pdec. Proof. split; reflexivity. Qed.
Lemma sblind_wg : ssem_blind wg. Proof. split; reflexivity. Qed.
Lemma sblind_cl : ssem_blind cl. Proof. split; reflexivity. Qed.
Lemma sblind_nw : ssem_blind nw. Proof. split; reflexivity. Qed.
Lemma sblind_holds o : ssem_blind (holds o). Proof. split; reflexivity. Qed.

(* ---------- emit_destroyed only writes the log *)
Lemma emit_destroyed_fields t l s :
  let s' := emit_destroyed t l s in
  permits s' = permits s /\ closed s' = closed s /\ queue s' = queue s /\ spermits s' = spermits s
  /\ sclosed s' = sclosed s /\ squeue s' = squeue s /\ vec s' = vec s /\ size s' = size s
  /\ avail s' = avail s /\ tasks s' = tasks s /\ out s' = out s /\ loose s' = loose s
  /\ dead s' = dead s /\ gone s' = gone s /\ next_oid s' = next_oid s.
Proof.
  revert s; induction l as [|o r IH]; intros s; cbn [emit_destroyed]; [repeat split|].
  specialize (IH (emit s (EDestroy o t))). cbv zeta in *. sp. exact IH.
Qed.

Lemma emit_destroyed_log t l s e :
  In e (log (emit_destroyed t l s)) -> In e (log s) \/ exists o, e = EDestroy o t.
Proof.
  revert s; induction l as [|o r IH]; intros s; cbn [emit_destroyed]; [tauto|].
  intros H. apply IH in H. sp. destruct H as [[H|H]|H]; [right; eauto|tauto|tauto].
Qed.

(* ---------- clear *)
Lemma clear_fields s t :
  let s' := clear s t in
  permits s' = permits s /\ closed s' = closed s /\ queue s' = queue s /\ spermits s' = spermits s
  /\ sclosed s' = sclosed s /\ squeue s' = squeue s /\ vec s' = [] /\ size s' = size s - zlen (vec s)
  /\ avail s' = avail s - zlen (vec s) /\ tasks s' = tasks s /\ out s' = out s /\ loose s' = loose s
  /\ dead s' = vec s ++ dead s /\ gone s' = gone s /\ next_oid s' = next_oid s.
Proof.
  unfold clear. cbv zeta.
  match goal with |- context [emit_destroyed t ?l ?x] =>
    pose proof (emit_destroyed_fields t l x) as F; cbv zeta in F end.
  sp. exact F.
Qed.

Lemma clear_log s t e :
  In e (log (clear s t)) -> In e (log s) \/ exists o, e = EDestroy o t.
Proof. unfold clear. cbv zeta. intros H. apply emit_destroyed_log in H. sp. exact H. Qed.
