(* Lifting the one-step invariants to every run (every reachable state), and the facts the
   property theorems are made of. *)
From Coq Require Import List ZArith Lia Bool Arith.
From DP Require Import Common.Tab Unmanaged.Model Unmanaged.Contrib Unmanaged.Simp Unmanaged.InvQ
  Unmanaged.Effects Unmanaged.InvStepQ Unmanaged.InvG Unmanaged.InvId.
Import ListNotations.
Open Scope Z_scope.

Record All (c : cfg) (s : state) : Prop := {
  all_g : GQ s; all_s : SQ s; all_i : Inv c s; all_d : ID s
}.

Lemma All_init c : All c (init c).
Proof. constructor; [apply GQ_init|apply SQ_init|apply Inv_init|apply ID_init]. Qed.

Lemma All_step c s l s' : All c s -> step c s l = Some s' -> All c s'.
Proof.
  intros [G S I D] H. destruct (QQ_step c s l s' (conj G S) H) as [G' S'].
  constructor; [exact G'|exact S'|exact (Inv_step c s l s' G S I H)|exact (ID_step c s l s' G S D H)].
Qed.

Lemma All_run c tr : forall s s', All c s -> run c s tr = Some s' -> All c s'.
Proof.
  induction tr as [|l tr IH]; intros s s' A H; cbn [run] in H.
  - inversion H; subst. exact A.
  - destruct (step c s l) as [s1|] eqn:E; [|discriminate].
    apply (IH s1 s'); [eapply All_step; eassumption|exact H].
Qed.

Theorem reachable_all c s : Reachable c s -> All c s.
Proof. intros [tr H]. eapply All_run; [apply All_init|exact H]. Qed.

Lemma run_all c tr s : run c (init c) tr = Some s -> All c s.
Proof. intros H. apply reachable_all. exists tr. exact H. Qed.

(* ------------------------------------------------------------------ rest *)
(* no operation is in progress: every task is finished or parked without a permit *)
Definition at_rest (s : state) : Prop := sum busy (tasks s) = 0.

Lemma sum_zero_le (f g : pc -> Z) l : (forall x, 0 <= f x) -> (forall x, f x <= g x) -> sum g l = 0 -> sum f l = 0.
Proof.
  intros Hf Hfg Hg. pose proof (sum_le f g l Hfg). pose proof (sum_nonneg f l Hf). lia.
Qed.

Lemma sum_pos_exists (f : pc -> Z) l : 0 < sum f l -> exists t, 0 < f (get PNone t l).
Proof.
  induction l as [|x l IH]; cbn [sum]; [lia|]. intros H.
  destruct (Z.ltb 0 (f x)) eqn:E.
  - apply Z.ltb_lt in E. exists O. exact E.
  - apply Z.ltb_ge in E. destruct IH as [t Ht]; [lia|]. exists (S t). exact Ht.
Qed.

Lemma hp_le_busy p : hp p <= busy p. Proof. pc_cases p. Qed.
Lemma pp_le_busy p : pp p <= busy p. Proof. pc_cases p. Qed.
Lemma hs_le_busy p : hs p <= busy p. Proof. pc_cases p. Qed.
Lemma cs_le_busy p : cs p <= busy p. Proof. pc_cases p. Qed.
Lemma pinc_le_busy p : pinc p <= busy p. Proof. pc_cases p. Qed.
Lemma pdec_le_busy p : pdec p <= busy p. Proof. pc_cases p. Qed.
Lemma pinc_nonneg p : 0 <= pinc p. Proof. pc_cases p. Qed.
Lemma pdec_nonneg p : 0 <= pdec p. Proof. pc_cases p. Qed.
Lemma wg_le p : wg p <= nw p + busy p. Proof. pc_cases p. Qed.
Lemma nw_le_wg p : nw p <= wg p. Proof. pc_cases p. Qed.

Lemma rest_wg s : at_rest s -> sum wg (tasks s) = sum nw (tasks s).
Proof.
  intros R. unfold at_rest in R.
  pose proof (sum_le wg (fun p => nw p + busy p) (tasks s) wg_le) as H1.
  rewrite sum_plus in H1. pose proof (sum_le nw wg (tasks s) nw_le_wg). lia.
Qed.

(* status() issued at rest reports (max_size, objects in the pool or checked out, objects in
   the pool, parked getters) *)
Lemma status_rest c s :
  All c s -> at_rest s ->
  status_event c s (size s)
  = EStatus (zmax c) (zlen (vec s) + zlen (out s)) (zlen (vec s)) (sum nw (tasks s)).
Proof.
  intros [G S I D] R. pose proof R as R0. unfold at_rest in R0.
  pose proof (sum_zero_le cs busy _ cs_nonneg cs_le_busy R0) as Zcs.
  pose proof (sum_zero_le pinc busy _ pinc_nonneg pinc_le_busy R0) as Zpi.
  pose proof (sum_zero_le pdec busy _ pdec_nonneg pdec_le_busy R0) as Zpd.
  pose proof (sum_zero_le hp busy _ hp_nonneg hp_le_busy R0) as Zhp.
  pose proof (sum_zero_le pp busy _ pp_nonneg pp_le_busy R0) as Zpp.
  pose proof (sum_zero_le cl busy _ cl_nonneg cl_le_busy R0) as Zcl.
  pose proof (rest_wg s R) as Zwg.
  pose proof (i_size _ _ I) as Hs. pose proof (i_avail _ _ I) as Ha.
  pose proof (sum_nonneg nw (tasks s) nw_nonneg) as Hn. pose proof (zlen_nonneg (vec s)) as Hv.
  assert (Hex : sum nw (tasks s) = 0 \/ zlen (vec s) = 0).
  { destruct (closed s) eqn:Ec.
    - right. pose proof (i_clear _ _ I Ec). lia.
    - destruct (Z.ltb 0 (sum nw (tasks s))) eqn:E; [|apply Z.ltb_ge in E; left; lia].
      apply Z.ltb_lt in E. right. destruct (sum_pos_exists nw _ E) as [t Ht].
      assert (Hw : waiting_pc (pcof s t) = true).
      { unfold pcof. destruct (get PNone t (tasks s)) as [| | |rm []| | | | | | | | | | | | | | | | | | | | | | ];
          cbn [nw] in Ht; try lia. reflexivity. }
      pose proof (q_conv _ G t Hw Ec) as Hin.
      assert (Hq : queue s <> []) by (intros E0; rewrite E0 in Hin; destruct Hin).
      pose proof (q_perm _ G Hq). pose proof (i_perm _ _ I Ec). lia. }
  unfold status_event, zmax. f_equal; try lia.
  - destruct (Z.ltb 0 (avail s)) eqn:E; [apply Z.ltb_lt in E|apply Z.ltb_ge in E]; lia.
  - destruct (Z.ltb (avail s) 0) eqn:E; [apply Z.ltb_lt in E|apply Z.ltb_ge in E]; lia.
Qed.

(* ------------------------------------------------------------------ C05 facts *)
Lemma conservation c tr s o : run c (init c) tr = Some s -> cnt o s = born o s.
Proof. intros H. apply (all_d _ _ (run_all _ _ _ H)). Qed.

Lemma not_destroyed_open c tr s : run c (init c) tr = Some s -> closed s = false -> dead s = [].
Proof. intros H. apply (i_dead _ _ (all_i _ _ (run_all _ _ _ H))). Qed.

Lemma size_le_max c tr s :
  run c (init c) tr = Some s ->
  size s <= zmax c /\ size s = zlen (vec s) + zlen (out s) + sum cs (tasks s)
  /\ zlen (vec s) + zlen (out s) <= zmax c.
Proof.
  intros H. destruct (run_all _ _ _ H) as [G S I D].
  pose proof (i_max _ _ I). pose proof (i_size _ _ I).
  pose proof (sum_nonneg cs (tasks s) cs_nonneg). lia.
Qed.

Lemma slots_open c tr s :
  run c (init c) tr = Some s -> closed s = false ->
  spermits s + sum hs (tasks s) + size s = zmax c /\ 0 <= spermits s.
Proof.
  intros H Hc. destruct (run_all _ _ _ H) as [G S I D]. split; [apply (i_slot _ _ I Hc)|apply (sq_pnn _ S)].
Qed.

Lemma permits_open c tr s :
  run c (init c) tr = Some s -> closed s = false ->
  permits s + sum hp (tasks s) + sum pp (tasks s) = zlen (vec s).
Proof. intros H Hc. apply (i_perm _ _ (all_i _ _ (run_all _ _ _ H)) Hc). Qed.

Lemma try_add_full c tr s t o :
  run c (init c) tr = Some s -> pcof s t = AStart o false ->
  exists s', step c s (Step t) = Some s'
    /\ (pcof s' t = PDone RTimeout <-> (sclosed s = false /\ spermits s = 0))
    /\ (pcof s' t = PDone RTimeout -> In o (loose s') /\ vec s' = vec s /\ size s' = size s)
    /\ (closed s = false -> (spermits s = 0 <-> size s + sum hs (tasks s) = zmax c)).
Proof.
  intros H Hpc. destruct (run_all _ _ _ H) as [G S I D]. pose proof (sq_pnn _ S) as Hn.
  cbn [step]. unfold step_task. rewrite Hpc. unfold hand_back.
  assert (Hslot : closed s = false -> (spermits s = 0 <-> size s + sum hs (tasks s) = zmax c)).
  { intros Hc. pose proof (i_slot _ _ I Hc). lia. }
  destruct (sclosed s) eqn:Ec; [|destruct (Z.ltb 0 (spermits s)) eqn:Ep];
    eexists; (split; [reflexivity|]); rewrite pcof_setpc_same; (split; [|split; [|exact Hslot]]).
  - split; [discriminate|intros [K _]; discriminate].
  - discriminate.
  - apply Z.ltb_lt in Ep. split; [discriminate|intros [_ K]; lia].
  - discriminate.
  - apply Z.ltb_ge in Ep. split; [intros _; split; [reflexivity|lia]|reflexivity].
  - intros _. sp. split; [left; reflexivity|split; reflexivity].
Qed.

Lemma add_waits_iff_full c tr s t o :
  run c (init c) tr = Some s -> pcof s t = AStart o true ->
  exists s', step c s (Step t) = Some s'
    /\ (pcof s' t = AWait o false <-> (sclosed s = false /\ spermits s = 0))
    /\ (sclosed s = false -> 0 < spermits s -> pcof s' t = APush o)
    /\ (closed s = false -> (spermits s = 0 <-> size s + sum hs (tasks s) = zmax c)).
Proof.
  intros H Hpc. destruct (run_all _ _ _ H) as [G S I D]. pose proof (sq_pnn _ S) as Hn.
  cbn [step]. unfold step_task. rewrite Hpc. unfold hand_back.
  assert (Hslot : closed s = false -> (spermits s = 0 <-> size s + sum hs (tasks s) = zmax c)).
  { intros Hc. pose proof (i_slot _ _ I Hc). lia. }
  destruct (sclosed s) eqn:Ec; [|destruct (Z.ltb 0 (spermits s)) eqn:Ep];
    eexists; (split; [reflexivity|]); rewrite pcof_setpc_same; (split; [|split; [|exact Hslot]]).
  - split; [discriminate|intros [K _]; discriminate].
  - discriminate.
  - apply Z.ltb_lt in Ep. split; [discriminate|intros [_ K]; lia].
  - reflexivity.
  - apply Z.ltb_ge in Ep. split; [intros _; split; [reflexivity|lia]|reflexivity].
  - apply Z.ltb_ge in Ep. intros _ K. lia.
Qed.

(* take / remove frees a slot: the oldest parked adder is served *)
Lemma slot_wakes_adder c tr s t x r w q :
  run c (init c) tr = Some s -> pcof s t = TPermit x r -> squeue s = w :: q ->
  exists s' o, step c s (Step t) = Some s' /\ pcof s w = AWait o false /\ pcof s' w = AWait o true
               /\ squeue s' = q.
Proof.
  intros H Hpc Hq. destruct (run_all _ _ _ H) as [G S I D].
  cbn [step]. unfold step_task. rewrite Hpc. cbv zeta.
  destruct (ssem_add_cases s S) as [[Eq _]|(w' & q' & o & Eq & Hw & Hp & Hc & E)]; [congruence|].
  rewrite Hq in Eq. inversion Eq; subst w' q'.
  eexists. exists o. split; [reflexivity|]. split; [exact Hw|].
  assert (Hne : t <> w) by (intros ->; rewrite Hw in Hpc; discriminate).
  rewrite pcof_setpc_other by exact Hne. unfold pcof. sp. fold (pcof (ssem_add s) w).
  rewrite E. rewrite pcof_setpc_same. split; [reflexivity|]. sp. reflexivity.
Qed.

Lemma assigned_adder_proceeds c s w o :
  pcof s w = AWait o true -> sclosed s = false -> step c s (Step w) = Some (setpc s w (APush o)).
Proof. intros Hpc Hc. cbn [step]. unfold step_task. rewrite Hpc, Hc. reflexivity. Qed.

(* a returned or added object wakes the oldest parked getter *)
Lemma object_wakes_getter c tr s t w q :
  run c (init c) tr = Some s -> (pcof s t = DPermit \/ pcof s t = APermit) -> queue s = w :: q ->
  exists s' rm, step c s (Step t) = Some s' /\ pcof s w = GWait rm false /\ pcof s' w = GWait rm true
                /\ queue s' = q.
Proof.
  intros H Hpc Hq. destruct (run_all _ _ _ H) as [G S I D].
  destruct (sem_add_cases s G) as [[Eq _]|(w' & q' & rm & Eq & Hw & Hp & Hc & E)]; [congruence|].
  rewrite Hq in Eq. inversion Eq; subst w' q'.
  assert (Hne : t <> w) by (intros ->; rewrite Hw in Hpc; destruct Hpc; discriminate).
  cbn [step]. unfold step_task.
  destruct Hpc as [Hpc|Hpc]; rewrite Hpc; eexists; exists rm; (split; [reflexivity|]);
    (split; [exact Hw|]); rewrite pcof_setpc_other by exact Hne; rewrite E; rewrite pcof_setpc_same;
    (split; [reflexivity|]); sp; reflexivity.
Qed.

Lemma assigned_getter_proceeds c s w rm :
  pcof s w = GWait rm true -> closed s = false -> step c s (Step w) = Some (setpc s w (GPop true rm)).
Proof. intros Hpc Hc. cbn [step]. unfold step_task. rewrite Hpc, Hc. reflexivity. Qed.

(* cancelling a parked get: the pool is as before, the reservation in [avail] is returned *)
Lemma cancel_get_restores c s t rm :
  pcof s t = GWait rm false ->
  exists s1 s2, step c s (Cancel t) = Some s1 /\ step c s1 (Step t) = Some s2
    /\ permits s2 = permits s /\ closed s2 = closed s /\ queue s2 = remove_nat t (queue s)
    /\ spermits s2 = spermits s /\ sclosed s2 = sclosed s /\ squeue s2 = squeue s
    /\ vec s2 = vec s /\ size s2 = size s /\ avail s2 = avail s + 1
    /\ out s2 = out s /\ loose s2 = loose s /\ dead s2 = dead s /\ gone s2 = gone s
    /\ next_oid s2 = next_oid s /\ log s2 = log s
    /\ pcof s2 t = PDone RCancelled /\ (forall t', t' <> t -> pcof s2 t' = pcof s t').
Proof.
  intros Hpc. cbn [step]. unfold cancel_task. rewrite Hpc.
  eexists. eexists. split; [reflexivity|]. unfold step_task. rewrite pcof_setpc_same.
  split; [reflexivity|]. sp. splits; try reflexivity.
  - apply pcof_setpc_same.
  - intros t' Hne. unfold pcof. sp. rewrite !(get_upd_other PNone) by congruence. reflexivity.
Qed.

(* cancelling a parked add: only the wait queue changes; the object was the caller's *)
Lemma cancel_add_restores c s t o :
  pcof s t = AWait o false ->
  exists s1, step c s (Cancel t) = Some s1
    /\ permits s1 = permits s /\ closed s1 = closed s /\ queue s1 = queue s
    /\ spermits s1 = spermits s /\ sclosed s1 = sclosed s /\ squeue s1 = remove_nat t (squeue s)
    /\ vec s1 = vec s /\ size s1 = size s /\ avail s1 = avail s
    /\ out s1 = out s /\ loose s1 = loose s /\ dead s1 = dead s /\ gone s1 = o :: gone s
    /\ next_oid s1 = next_oid s
    /\ pcof s1 t = PDone RCancelled /\ (forall t', t' <> t -> pcof s1 t' = pcof s t').
Proof.
  intros Hpc. cbn [step]. unfold cancel_task. rewrite Hpc.
  eexists. split; [reflexivity|]. sp. splits; try reflexivity.
  - apply pcof_setpc_same.
  - intros t' Hne. unfold pcof. sp. rewrite !(get_upd_other PNone) by congruence. reflexivity.
Qed.

(* ------------------------------------------------------------------ C12 facts *)
(* the pop after a permit finds an object unless the pool was closed *)
Lemma pop_safe c tr s t w rm :
  run c (init c) tr = Some s -> closed s = false -> pcof s t = GPop w rm -> vec s <> [].
Proof.
  intros H Hc Hpc. destruct (run_all _ _ _ H) as [G S I D].
  pose proof (i_perm _ _ I Hc) as P. pose proof (q_pnn _ G).
  pose proof (sum_ge_one hp (tasks s) t hp_nonneg eq_refl) as K. unfold pcof in Hpc.
  rewrite Hpc in K. cbn [hp] in K. pose proof (sum_nonneg pp (tasks s) pp_nonneg).
  intros E. rewrite E in P. cbn in P. lia.
Qed.

Lemma closed_truthful c tr s t :
  run c (init c) tr = Some s ->
  (exists w rm, pcof s t = GPopped w rm None) \/ pcof s t = PDone RClosed \/ pcof s t = UAvail RClosed ->
  closed s = true.
Proof.
  intros H Hpc. pose proof (i_pcs _ _ (all_i _ _ (run_all _ _ _ H)) t) as K.
  destruct Hpc as [(w & rm & E)|[E|E]]; rewrite E in K; exact K.
Qed.

Lemma no_underflow c tr s :
  run c (init c) tr = Some s -> 0 <= permits s /\ 0 <= spermits s /\ 0 <= size s.
Proof.
  intros H. destruct (run_all _ _ _ H) as [G S I D].
  pose proof (i_size _ _ I). pose proof (sum_nonneg cs (tasks s) cs_nonneg).
  pose proof (zlen_nonneg (vec s)). pose proof (zlen_nonneg (out s)).
  pose proof (q_pnn _ G). pose proof (sq_pnn _ S). lia.
Qed.

(* every operation in progress can take its next step: the model has no stuck state, in
   particular no step at which the code would have to panic *)
Lemma progress c s t :
  pcof s t <> PNone -> (forall r, pcof s t <> PDone r) -> exists s', step c s (Step t) = Some s'.
Proof.
  intros H1 H2. cbn [step]. unfold step_task.
  destruct (pcof s t) as [|k rm|e rm|rm a|w rm|w rm o|r|o|o r|o r|o| | | | |o b|o a|o| | | | | | |sz|r];
    try (eexists; reflexivity).
  - congruence.
  - destruct k; eexists; reflexivity.
  - destruct e; [| |destruct (rt c)]; eexists; reflexivity.
  - destruct (closed s); [|destruct a]; eexists; reflexivity.
  - destruct (vec s); eexists; reflexivity.
  - destruct o; eexists; reflexivity.
  - destruct (closed s); eexists; reflexivity.
  - destruct (closed s); eexists; reflexivity.
  - destruct (sclosed s); [|destruct (Z.ltb 0 (spermits s)); [|destruct b]]; eexists; reflexivity.
  - destruct (sclosed s); [|destruct a]; eexists; reflexivity.
  - destruct (closed s); eexists; reflexivity.
  - exfalso. apply (H2 r). reflexivity.
Qed.

(* closing is final *)
Lemma closed_sticky_task c s t s' :
  step_task c s t = Some s' -> (closed s = true -> closed s' = true) /\ (sclosed s = true -> sclosed s' = true).
Proof.
  intros H.
  unfold step_task, acquire, fail_get, finish_get, hand_back in H.
    destruct (clear_fields s t) as (F1&F2&F3&F4&F5&F6&F7&F8&F9&F10&F11&F12&F13&F14&F15).
    destruct (pcof s t) as [|k rm|e rm|rm a|w rm|w rm o|r|o|o r|o r|o| | | | |o b|o a|o| | | | | | |sz|r];
      try discriminate H;
      repeat match type of H with
             | context [match ?b with _ => _ end] => destruct b eqn:?
             end;
      inversion H; subst; sp; autorewrite with fld; rewrite ?F2, ?F5;
      clear F1 F3 F4 F6 F7 F8 F9 F10 F11 F12 F13 F14 F15;
      split; intros K; try exact K; try discriminate K; try assumption; try reflexivity.
Qed.

Lemma closed_sticky c s l s' :
  step c s l = Some s' -> (closed s = true -> closed s' = true) /\ (sclosed s = true -> sclosed s' = true).
Proof.
  intros H. destruct l as [t o|t|t|t|n]; cbn [step] in H.
  - unfold start in H. destruct (negb (Nat.eqb t (length (tasks s)))); [discriminate|].
    destruct o as [k rm|x b|x|x| | ];
      repeat match type of H with context [if ?b then _ else _] => destruct b end;
      inversion H; subst; sp; auto.
  - eapply closed_sticky_task; exact H.
  - unfold cancel_task in H.
    destruct (pcof s t) as [|k rm|e rm|rm a|w rm|w rm o|r|o|o r|o r|o| | | | |o b|o a|o| | | | | | |sz|r];
      try discriminate H; destruct a; inversion H; subst; sp; autorewrite with fld; auto.
  - unfold fire_task in H. destruct (negb (rt c && mem_nat t (timed s))); [discriminate|].
    destruct (pcof s t) as [|k rm|e rm|rm a|w rm|w rm o|r|o|o r|o r|o| | | | |o b|o a|o| | | | | | |sz|r];
      try discriminate H.
    destruct (closed s || a); [eapply closed_sticky_task; exact H|].
    inversion H; subst; sp; auto.
  - inversion H; subst. auto.
Qed.

(* on a closed pool every acquire attempt answers Closed and every add hands its object back *)
Lemma after_close_get c s t :
  closed s = true ->
  (forall rm, pcof s t = GStart KTry rm -> step c s (Step t) = Some (setpc s t (PDone RClosed)))
  /\ (forall rm, pcof s t = GAcq TNone rm -> step c s (Step t) = Some (setpc s t (UAvail RClosed)))
  /\ (forall rm, pcof s t = GAcq TZero rm -> step c s (Step t) = Some (setpc s t (UAvail RClosed)))
  /\ (forall rm a, pcof s t = GWait rm a ->
        exists s', step c s (Step t) = Some s' /\ pcof s' t = UAvail RClosed)
  /\ (forall r, pcof s t = UAvail r ->
        exists s', step c s (Step t) = Some s' /\ pcof s' t = PDone r).
Proof.
  intros Hc. cbn [step]. unfold step_task, acquire, fail_get. splits; intros.
  - rewrite H, Hc. reflexivity.
  - rewrite H, Hc. reflexivity.
  - rewrite H, Hc. reflexivity.
  - rewrite H, Hc. eexists. split; [reflexivity|apply pcof_setpc_same].
  - rewrite H. eexists. split; [reflexivity|apply pcof_setpc_same].
Qed.

Lemma after_close_add c s t o :
  (forall b, sclosed s = true -> pcof s t = AStart o b ->
     exists s', step c s (Step t) = Some s' /\ pcof s' t = PDone RClosed /\ In o (loose s') /\ vec s' = vec s)
  /\ (forall a, sclosed s = true -> pcof s t = AWait o a ->
     exists s', step c s (Step t) = Some s' /\ pcof s' t = PDone RClosed /\ In o (loose s') /\ vec s' = vec s)
  /\ (closed s = true -> pcof s t = APush o ->
     exists s', step c s (Step t) = Some s' /\ pcof s' t = PDone RClosed /\ In o (loose s') /\ vec s' = vec s).
Proof.
  cbn [step]. unfold step_task, hand_back. splits; intros.
  - rewrite H0, H. eexists. split; [reflexivity|]. split; [apply pcof_setpc_same|]. sp. split; [left|]; reflexivity.
  - rewrite H0, H. eexists. split; [reflexivity|]. split; [apply pcof_setpc_same|]. destruct a; sp; split; try (left; reflexivity); reflexivity.
  - rewrite H0, H. eexists. split; [reflexivity|]. split; [apply pcof_setpc_same|]. sp. split; [left|]; reflexivity.
Qed.

Lemma close_done c tr s t :
  run c (init c) tr = Some s -> In (ECloseDone t) (log s) -> closed s = true /\ sclosed s = true.
Proof. intros H. apply (i_log _ _ (all_i _ _ (run_all _ _ _ H))). Qed.

(* a closed pool in which nobody is on the way to clear the queue holds no objects *)
Lemma closed_empty c tr s :
  run c (init c) tr = Some s -> closed s = true -> sum cl (tasks s) = 0 -> vec s = [].
Proof.
  intros H Hc Hz. pose proof (i_clear _ _ (all_i _ _ (run_all _ _ _ H)) Hc).
  apply zlen_zero. pose proof (zlen_nonneg (vec s)). lia.
Qed.

Lemma closed_rest_empty c tr s :
  run c (init c) tr = Some s -> closed s = true -> at_rest s -> vec s = [].
Proof.
  intros H Hc R. apply (closed_empty c tr s H Hc).
  apply (sum_zero_le cl busy _ cl_nonneg cl_le_busy R).
Qed.

(* an object returned to a closed pool is destroyed by the returning thread in the one lock region of
   Object::drop: nothing is queued, whatever the other threads do before or after *)
Lemma returned_destroyed c s t o :
  closed s = true -> pcof s t = DStart o ->
  exists s', step c s (Step t) = Some s'
    /\ In o (dead s') /\ vec s' = vec s /\ size s' = size s - 1 /\ pcof s' t = PDone RUnit.
Proof.
  intros Hc Hpc. eexists. split.
  - cbn [step]. unfold step_task. rewrite Hpc, Hc. reflexivity.
  - cbn [emit_destroyed]. split; [|split; [|split; [|apply pcof_setpc_same]]]; sp.
    + left. reflexivity.
    + reflexivity.
    + reflexivity.
Qed.

(* ------------------------------------------------------------------ run-level corollaries *)
Lemma status_rest_run c tr s :
  run c (init c) tr = Some s -> at_rest s ->
  status_event c s (size s)
  = EStatus (zmax c) (zlen (vec s) + zlen (out s)) (zlen (vec s)) (sum nw (tasks s)).
Proof. intros H. apply status_rest. apply (run_all _ _ _ H). Qed.

(* status() run without interference reads [size] and then [avail] of the same state *)
Lemma status_op c s t :
  t = length (tasks s) ->
  exists s', run c s [Start t OpStatus; Step t; Step t] = Some s'
    /\ log s' = status_event c s (size s) :: log s.
Proof.
  intros ->.
  assert (E1 : step c s (Start (length (tasks s)) OpStatus) = Some (setpc s (length (tasks s)) SStart)).
  { cbn [step]. unfold start. rewrite Nat.eqb_refl. reflexivity. }
  remember (setpc s (length (tasks s)) SStart) as s1 eqn:D1.
  assert (P1 : pcof s1 (length (tasks s)) = SStart) by (subst s1; apply pcof_setpc_same).
  assert (V1 : size s1 = size s /\ avail s1 = avail s /\ log s1 = log s) by (subst s1; sp; repeat split).
  clear D1.
  assert (E2 : step c s1 (Step (length (tasks s))) = Some (setpc s1 (length (tasks s)) (SAvail (size s1)))).
  { cbn [step]. unfold step_task. rewrite P1. reflexivity. }
  remember (setpc s1 (length (tasks s)) (SAvail (size s1))) as s2 eqn:D2.
  assert (P2 : pcof s2 (length (tasks s)) = SAvail (size s1)) by (subst s2; apply pcof_setpc_same).
  assert (V2 : avail s2 = avail s /\ log s2 = log s) by (subst s2; sp; split; apply V1).
  clear D2.
  assert (E3 : step c s2 (Step (length (tasks s)))
               = Some (setpc (emit s2 (status_event c s2 (size s1))) (length (tasks s)) (PDone RUnit))).
  { cbn [step]. unfold step_task. rewrite P2. reflexivity. }
  eexists. split; [cbn [run]; rewrite E1, E2, E3; reflexivity|].
  sp. destruct V1 as (Vs & _ & _). destruct V2 as (Va & Vl). rewrite Vl, Vs.
  unfold status_event. rewrite Va. reflexivity.
Qed.
