(* Conservation of identity: every object that was ever given to the pool (initial objects
   and the arguments of add / try_add) is in exactly one place - the queue, a caller's
   Object wrapper, a caller's own hands (handed back), the hands of one operation in flight,
   destroyed by the pool, or dropped by a caller together with a pending add() future.
   Stated with occurrence counts, so "exactly one" and "never duplicated" are one equation. *)
From Coq Require Import List ZArith Lia Bool Arith.
From DP Require Import Common.Tab Unmanaged.Model Unmanaged.Contrib Unmanaged.Simp Unmanaged.InvQ
  Unmanaged.Effects Unmanaged.InvStepQ.
Import ListNotations.
Open Scope Z_scope.

Definition cnt (o : nat) (s : state) : Z :=
  occ o (vec s) + occ o (out s) + occ o (loose s) + occ o (dead s) + occ o (gone s)
  + sum (holds o) (tasks s).

Definition born (o : nat) (s : state) : Z := if Nat.ltb o (next_oid s) then 1 else 0.

Definition ID (s : state) : Prop := forall o, cnt o s = born o s.

Ltac nat_bools :=
  repeat match goal with
         | H : Nat.eqb _ _ = true |- _ => apply Nat.eqb_eq in H
         | H : Nat.eqb _ _ = false |- _ => apply Nat.eqb_neq in H
         | H : Nat.leb _ _ = true |- _ => apply Nat.leb_le in H
         | H : Nat.leb _ _ = false |- _ => apply Nat.leb_gt in H
         | H : Nat.ltb _ _ = true |- _ => apply Nat.ltb_lt in H
         | H : Nat.ltb _ _ = false |- _ => apply Nat.ltb_ge in H
         end.

(* case analysis on the comparisons in the goal only *)
Ltac bool_cases :=
  repeat match goal with
         | |- context [Nat.eqb ?a ?b] => destruct (Nat.eqb a b) eqn:?
         | |- context [Nat.ltb ?a ?b] => destruct (Nat.ltb a b) eqn:?
         end; intros; nat_bools; try lia.

Lemma ID_init c : ID (init c).
Proof.
  intros o. unfold cnt, born, init. destruct (how c); cbn [vec out loose dead gone tasks next_oid occ sum];
    rewrite ?occ_rev, ?occ_seq; cbn [Nat.leb andb Nat.add]; bool_cases.
Qed.

(* goal: ID (setpc X t p), X = s changed by plain setters *)
Ltac id_plain s t D Hpc :=
  let o0 := fresh "o0" in let Hg := fresh "Hg" in
  pose proof Hpc as Hg; unfold pcof in Hg;
  intros o0; specialize (D o0); unfold cnt, born in *; sp;
  rewrite ?(sum_upd PNone) by reflexivity; rewrite ?Hg; cbn [holds occ] in *;
  revert D; bool_cases.

Ltac id_sem s t G D Hpc :=
  let o0 := fresh "o0" in let Hg := fresh "Hg" in let Hg' := fresh "Hg'" in
  assert (Hg' : pcof (sem_add s) t = pcof s t)
    by (apply pcof_sem_add; [exact G|rewrite Hpc; reflexivity]);
  rewrite Hpc in Hg'; unfold pcof in Hg';
  pose proof Hpc as Hg; unfold pcof in Hg;
  intros o0; specialize (D o0); unfold cnt, born in *; sp; autorewrite with fld;
  rewrite ?(sum_upd PNone) by reflexivity; rewrite ?Hg';
  rewrite (sem_add_blind (holds o0) s (blind_holds o0) G); cbn [holds occ] in *;
  revert D; bool_cases.

Ltac id_ssem s t S D Hpc :=
  let o0 := fresh "o0" in let Hg := fresh "Hg" in let Hg' := fresh "Hg'" in
  assert (Hg' : pcof (ssem_add s) t = pcof s t)
    by (apply pcof_ssem_add; [exact S|rewrite Hpc; reflexivity]);
  rewrite Hpc in Hg'; unfold pcof in Hg';
  pose proof Hpc as Hg; unfold pcof in Hg;
  intros o0; specialize (D o0); unfold cnt, born in *; sp; autorewrite with fld;
  rewrite ?(sum_upd PNone) by reflexivity; rewrite ?Hg';
  rewrite (ssem_add_blind (holds o0) s (sblind_holds o0) S); cbn [holds occ] in *;
  revert D; bool_cases.

Ltac id_clear s t D Hpc :=
  let o0 := fresh "o0" in let Hg := fresh "Hg" in
  let F1 := fresh "F1" in let F2 := fresh "F2" in let F3 := fresh "F3" in let F4 := fresh "F4" in
  let F5 := fresh "F5" in let F6 := fresh "F6" in let F7 := fresh "F7" in let F8 := fresh "F8" in
  let F9 := fresh "F9" in let F10 := fresh "F10" in let F11 := fresh "F11" in let F12 := fresh "F12" in
  let F13 := fresh "F13" in let F14 := fresh "F14" in let F15 := fresh "F15" in
  pose proof Hpc as Hg; unfold pcof in Hg;
  destruct (clear_fields s t) as (F1&F2&F3&F4&F5&F6&F7&F8&F9&F10&F11&F12&F13&F14&F15);
  intros o0; specialize (D o0); unfold cnt, born in *; sp;
  rewrite ?F7, ?F10, ?F11, ?F12, ?F13, ?F14, ?F15;
  rewrite ?(sum_upd PNone) by reflexivity; rewrite ?Hg; rewrite ?occ_app; cbn [holds occ] in *;
  revert D; bool_cases.

Lemma ID_step_task c s t s' : GQ s -> SQ s -> ID s -> step_task c s t = Some s' -> ID s'.
Proof.
  intros G S D H.
    unfold step_task in H.
    destruct (pcof s t) as [|k rm|e rm|rm a|w rm|w rm o|r|o|o r|o r|o| | | | |o b|o a|o| | | | | | |sz|r] eqn:Hpc;
      try discriminate H.
    + destruct k as [|e]; inversion H; subst.
      * unfold acquire, fail_get. destruct (closed s); [|destruct (Z.ltb 0 (permits s))]; id_plain s t D Hpc.
      * id_plain s t D Hpc.
    + destruct e; [| |destruct (rt c)]; inversion H; subst; unfold acquire, fail_get; sp;
        [destruct (closed s); [|destruct (Z.ltb 0 (permits s))]..|]; id_plain s t D Hpc.
    + destruct (closed s).
      * inversion H; subst. destruct a; id_plain s t D Hpc.
      * destruct a; inversion H; subst; [id_plain s t D Hpc|exact D].
    + destruct (vec s) as [|o l] eqn:Ev; inversion H; subst.
      * id_plain s t D Hpc.
      * pose proof Hpc as Hg; unfold pcof in Hg.
        intros o0. specialize (D o0). unfold cnt, born in *. rewrite Ev in D. sp.
        rewrite ?(sum_upd PNone) by reflexivity. rewrite ?Hg. cbn [holds occ] in *. lia.
    + destruct o as [o|]; inversion H; subst.
      * unfold finish_get. destruct w, rm; id_plain s t D Hpc.
      * unfold fail_get. destruct w; id_sem s t G D Hpc.
    + inversion H; subst. id_plain s t D Hpc.
    + inversion H; subst. id_plain s t D Hpc.
    + inversion H; subst. id_plain s t D Hpc.
    + inversion H; subst. id_ssem s t S D Hpc.
    + destruct (closed s); inversion H; subst; cbn [emit_destroyed]; id_plain s t D Hpc.
    + inversion H; subst. id_plain s t D Hpc.
    + inversion H; subst. id_sem s t G D Hpc.
    + destruct (closed s); inversion H; subst; id_plain s t D Hpc.
    + inversion H; subst. id_clear s t D Hpc.
    + unfold hand_back in H. destruct (sclosed s); [|destruct (Z.ltb 0 (spermits s)); [|destruct b]];
        inversion H; subst; id_plain s t D Hpc.
    + unfold hand_back in H. destruct (sclosed s).
      * inversion H; subst. destruct a; id_plain s t D Hpc.
      * destruct a; inversion H; subst; [id_plain s t D Hpc|exact D].
    + unfold hand_back in H. destruct (closed s); inversion H; subst; id_plain s t D Hpc.
    + inversion H; subst. id_plain s t D Hpc.
    + inversion H; subst. id_sem s t G D Hpc.
    + inversion H; subst. id_plain s t D Hpc.
    + inversion H; subst. id_plain s t D Hpc.
    + inversion H; subst. id_clear s t D Hpc.
    + inversion H; subst. id_plain s t D Hpc.
    + inversion H; subst. id_plain s t D Hpc.
Qed.

Theorem ID_step c s l s' : GQ s -> SQ s -> ID s -> step c s l = Some s' -> ID s'.
Proof.
  intros G S D H. destruct l as [t o|t|t|t|n]; cbn [step] in H.
  - (* Start *)
    unfold start in H. destruct (Nat.eqb t (length (tasks s))) eqn:Et; cbn [negb] in H; [|discriminate].
    pose proof (pcof_fresh s t Et) as Hpc.
    destruct o as [k rm|x b|x|x| | ].
    + inversion H; subst. id_plain s t D Hpc.
    + destruct (mem_nat x (loose s)) eqn:Em; [|destruct (Nat.eqb x (next_oid s)) eqn:En]; inversion H; subst.
      * pose proof Hpc as Hg; unfold pcof in Hg.
        intros o0. specialize (D o0). unfold cnt, born in *. sp.
        rewrite (occ_remove_nat o0 x _ Em). rewrite ?(sum_upd PNone) by reflexivity. rewrite ?Hg.
        cbn [holds]. lia.
      * apply Nat.eqb_eq in En. subst x. id_plain s t D Hpc.
    + destruct (mem_nat x (out s)) eqn:Em; inversion H; subst.
      pose proof Hpc as Hg; unfold pcof in Hg.
      intros o0. specialize (D o0). unfold cnt, born in *. sp.
      rewrite (occ_remove_nat o0 x _ Em). rewrite ?(sum_upd PNone) by reflexivity. rewrite ?Hg.
      cbn [holds]. lia.
    + destruct (mem_nat x (out s)) eqn:Em; inversion H; subst.
      pose proof Hpc as Hg; unfold pcof in Hg.
      intros o0. specialize (D o0). unfold cnt, born in *. sp.
      rewrite (occ_remove_nat o0 x _ Em). rewrite ?(sum_upd PNone) by reflexivity. rewrite ?Hg.
      cbn [holds]. lia.
    + inversion H; subst. id_plain s t D Hpc.
    + inversion H; subst. id_plain s t D Hpc.
  - (* Step *) eapply ID_step_task; eassumption.
  - (* Cancel *)
    unfold cancel_task in H.
    destruct (pcof s t) as [|k rm|e rm|rm a|w rm|w rm o|r|o|o r|o r|o| | | | |o b|o a|o| | | | | | |sz|r] eqn:Hpc;
      try discriminate H.
    + inversion H; subst. destruct a; [id_sem s t G D Hpc|id_plain s t D Hpc].
    + inversion H; subst. destruct a; [id_ssem s t S D Hpc|id_plain s t D Hpc].
  - (* Fire *)
    unfold fire_task in H. destruct (negb (rt c && mem_nat t (timed s))); [discriminate|].
    destruct (pcof s t) as [|k rm|e rm|rm a|w rm|w rm o|r|o|o r|o r|o| | | | |o b|o a|o| | | | | | |sz|r] eqn:Hpc;
      try discriminate H.
    destruct (closed s || a) eqn:Eca.
    + eapply ID_step_task; eassumption.
    + apply orb_false_elim in Eca. destruct Eca as [_ ->]. inversion H; subst. id_plain s t D Hpc.
  - inversion H; subst. exact D.
Qed.
