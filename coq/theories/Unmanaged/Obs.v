(* Observation function: what the correspondence check compares with the implementation
   after every label. The encoding (flat integer lists) is the one the harness prints. *)
From Coq Require Import List ZArith Lia Bool Arith.
From DP Require Import Common.Tab Unmanaged.Model.
Import ListNotations.
Open Scope Z_scope.

Definition b2z (b : bool) : Z := if b then 1 else 0.
Definition n2z (n : nat) : Z := Z.of_nat n.

(* [cl] / [scl]: a parked task whose semaphore was closed has been woken *)
Definition pc_code (cl scl : bool) (p : pc) : Z :=
  match p with
  | PNone => 0
  | GStart _ _ | TStart _ | DStart _ | AStart _ _ | CStart | SStart => 1
  | GAcq _ _ => 2
  | GWait _ a => 3 + b2z (a || cl)
  | GPop _ _ => 5
  | GPopped _ _ _ => 6
  | UAvail _ => 7
  | AWait _ a => 13 + b2z (a || scl)
  | APush _ => 15
  | AAvail => 16
  | APermit => 17
  | TSize _ _ => 20
  | TPermit _ _ => 21
  | DAvail => 30
  | DPermit => 31
  | DCheck => 32
  | DClear => 33
  | CSize => 40
  | CClear => 41
  | SAvail _ => 50
  | PDone r => 100 + res_code r
  end.

Definition ev_code (e : event) : list Z :=
  match e with
  | EDestroy o t => [5; n2z o; n2z t; 0; 0]
  | EHandOut o t => [6; n2z o; n2z t; 0; 0]
  | ECloseDone t => [7; n2z t; 0; 0; 0]
  | EHandBack o t r => [8; n2z o; n2z t; res_code r; 0]
  | ERemoved o t => [9; n2z o; n2z t; 0; 0]
  | EStatus m s a w => [10; m; s; a; w]
  end.

Definition nlist (l : list nat) : list Z := n2z (length l) :: map n2z l.

(* [prev] = length of the log before the label: only the events of this label are shown *)
Definition obs (c : cfg) (prev : nat) (s : state) : list Z :=
  let evs := rev (firstn (length (log s) - prev) (log s)) in
  [permits s; b2z (closed s); spermits s; b2z (sclosed s); size s; avail s; n2z (max0 c)]
  ++ nlist (vec s) ++ nlist (out s) ++ nlist (loose s)
  ++ [n2z (length (tasks s))] ++ map (pc_code (closed s) (sclosed s)) (tasks s)
  ++ [n2z (length evs)] ++ flat_map ev_code evs.

(* all observations of a run, each prefixed by its length; -1 where the label was not
   enabled in the model (the run stops there) *)
Fixpoint run_obs (c : cfg) (s : state) (tr : list label) : list Z :=
  match tr with
  | [] => []
  | l :: tr' =>
      match step c s l with
      | Some s' =>
          let o := obs c (length (log s)) s' in
          n2z (length o) :: o ++ run_obs c s' tr'
      | None => [-1]
      end
  end.

Definition run_case (x : cfg * list label) : list Z := run_obs (fst x) (init (fst x)) (snd x).
