(* The single timeout of the unmanaged pool (C10): zero never waits, finite without a runtime
   answers NoRuntimeSpecified with the books restored, finite with a runtime waits until the
   deadline and then answers Timeout leaving the queue, a permit assigned before the poll still
   wins, and Timeout is answered in no other situation. *)
From Coq Require Import List ZArith Lia Bool Arith.
From DP Require Import Common.Tab Unmanaged.Model Unmanaged.Contrib Unmanaged.Simp Unmanaged.InvQ
  Unmanaged.Effects Unmanaged.InvStepQ Unmanaged.Reach.
Import ListNotations.
Open Scope Z_scope.

(* everything but the task table, the timer ghost and the log is the same *)
Definition same_pool (s s' : state) : Prop :=
  permits s' = permits s /\ closed s' = closed s /\ queue s' = queue s
  /\ spermits s' = spermits s /\ sclosed s' = sclosed s /\ squeue s' = squeue s
  /\ vec s' = vec s /\ size s' = size s /\ avail s' = avail s
  /\ out s' = out s /\ loose s' = loose s /\ dead s' = dead s /\ gone s' = gone s
  /\ next_oid s' = next_oid s /\ log s' = log s.

(* ------------------------------------------------------------------ zero timeout, try_get *)
Lemma zero_wait c s t rm :
  pcof s t = GAcq TZero rm ->
  exists s', step c s (Step t) = Some s' /\ queue s' = queue s /\
    ((closed s = true /\ pcof s' t = UAvail RClosed /\ permits s' = permits s)
     \/ (closed s = false /\ 0 < permits s /\ pcof s' t = GPop true rm /\ permits s' = permits s - 1)
     \/ (closed s = false /\ permits s <= 0 /\ pcof s' t = UAvail RTimeout /\ permits s' = permits s)).
Proof.
  intros Hpc. cbn [step]. unfold step_task. rewrite Hpc. unfold acquire, fail_get.
  destruct (closed s) eqn:Ec.
  - eexists. split; [reflexivity|]. sp. split; [reflexivity|]. left.
    split; [reflexivity|]. split; [apply pcof_setpc_same|reflexivity].
  - destruct (Z.ltb 0 (permits s)) eqn:Ep.
    + apply Z.ltb_lt in Ep. eexists. split; [reflexivity|]. sp. split; [reflexivity|]. right. left.
      split; [reflexivity|]. split; [exact Ep|]. split; [apply pcof_setpc_same|reflexivity].
    + apply Z.ltb_ge in Ep. eexists. split; [reflexivity|]. sp. split; [reflexivity|]. right. right.
      split; [reflexivity|]. split; [exact Ep|]. split; [apply pcof_setpc_same|reflexivity].
Qed.

Lemma try_get_decides c s t rm :
  pcof s t = GStart KTry rm ->
  exists s', step c s (Step t) = Some s' /\ queue s' = queue s /\
    ((closed s = true /\ pcof s' t = PDone RClosed)
     \/ (closed s = false /\ 0 < permits s /\ pcof s' t = GPop false rm)
     \/ (closed s = false /\ permits s <= 0 /\ pcof s' t = PDone RTimeout)).
Proof.
  intros Hpc. cbn [step]. unfold step_task. rewrite Hpc. unfold acquire, fail_get.
  destruct (closed s) eqn:Ec.
  - eexists. split; [reflexivity|]. sp. split; [reflexivity|]. left.
    split; [reflexivity|apply pcof_setpc_same].
  - destruct (Z.ltb 0 (permits s)) eqn:Ep.
    + apply Z.ltb_lt in Ep. eexists. split; [reflexivity|]. sp. split; [reflexivity|]. right. left.
      split; [reflexivity|]. split; [exact Ep|apply pcof_setpc_same].
    + apply Z.ltb_ge in Ep. eexists. split; [reflexivity|]. sp. split; [reflexivity|]. right. right.
      split; [reflexivity|]. split; [exact Ep|apply pcof_setpc_same].
Qed.

(* ------------------------------------------------------------------ no runtime *)
Lemma no_runtime_no_timer c s t : rt c = false -> step c s (Fire t) = None.
Proof. intros H. cbn [step]. unfold fire_task. rewrite H. reflexivity. Qed.

(* a finite timeout without a runtime: three steps of the call itself, NoRuntimeSpecified, and the
   pool is exactly as before (the reservation in [available] is returned) *)
Lemma no_runtime_get c s t rm :
  rt c = false -> pcof s t = GStart (KTimed TFin) rm ->
  exists s3, run c s [Step t; Step t; Step t] = Some s3 /\ pcof s3 t = PDone RNoRuntime
    /\ same_pool s s3 /\ (forall u, u <> t -> pcof s3 u = pcof s u).
Proof.
  intros Hr Hpc. cbn [run step]. unfold step_task at 1. rewrite Hpc.
  unfold step_task at 1. rewrite pcof_setpc_same, Hr.
  unfold step_task at 1. rewrite pcof_setpc_same.
  eexists. split; [reflexivity|]. split; [apply pcof_setpc_same|]. split.
  - unfold same_pool. sp. splits; try reflexivity. lia.
  - intros u Hu. unfold pcof. sp. rewrite !(get_upd_other PNone) by congruence. reflexivity.
Qed.

(* ------------------------------------------------------------------ with a runtime *)
(* the call waits exactly like a get() without timeout, and is registered with the timer *)
Lemma timed_get_waits c s t rm :
  rt c = true -> pcof s t = GAcq TFin rm ->
  step c s (Step t) = Some (acquire (set_timed s (t :: timed s)) t true rm true).
Proof. intros Hr Hpc. cbn [step]. unfold step_task. rewrite Hpc, Hr. reflexivity. Qed.

(* the deadline passes while the call is still waiting: Timeout, the call leaves the queue and
   returns its reservation; nothing else changes *)
Lemma wait_deadline c s t rm :
  rt c = true -> In t (timed s) -> pcof s t = GWait rm false -> closed s = false ->
  exists s1 s2, step c s (Fire t) = Some s1 /\ step c s1 (Step t) = Some s2
    /\ pcof s2 t = PDone RTimeout
    /\ permits s2 = permits s /\ closed s2 = closed s /\ queue s2 = remove_nat t (queue s)
    /\ spermits s2 = spermits s /\ sclosed s2 = sclosed s /\ squeue s2 = squeue s
    /\ vec s2 = vec s /\ size s2 = size s /\ avail s2 = avail s + 1
    /\ out s2 = out s /\ loose s2 = loose s /\ dead s2 = dead s /\ gone s2 = gone s
    /\ next_oid s2 = next_oid s /\ log s2 = log s
    /\ (forall u, u <> t -> pcof s2 u = pcof s u).
Proof.
  intros Hr Ht Hpc Hc. cbn [step]. unfold fire_task. rewrite Hr.
  apply mem_nat_in in Ht. rewrite Ht, Hpc, Hc. cbn [andb negb orb].
  eexists. eexists. split; [reflexivity|]. unfold step_task. rewrite pcof_setpc_same.
  split; [reflexivity|]. sp. splits; try reflexivity; try exact Hc.
  - apply pcof_setpc_same.
  - intros u Hu. unfold pcof. sp. rewrite !(get_upd_other PNone) by congruence. reflexivity.
Qed.

Lemma wait_deadline_leaves_queue s t : GQ s -> ~ In t (remove_nat t (queue s)).
Proof. intros G. apply not_in_remove_nat, (q_nodup _ G). Qed.

(* Timeout::poll polls the acquire() first: a permit assigned before the call is polled wins
   even when the deadline has passed, and so does a close *)
Lemma slot_before_deadline c s t rm :
  rt c = true -> In t (timed s) -> pcof s t = GWait rm true -> closed s = false ->
  step c s (Fire t) = Some (setpc s t (GPop true rm)).
Proof.
  intros Hr Ht Hpc Hc. cbn [step]. unfold fire_task. rewrite Hr.
  apply mem_nat_in in Ht. rewrite Ht, Hpc, Hc. cbn [andb negb orb].
  unfold step_task. rewrite Hpc, Hc. reflexivity.
Qed.

Lemma close_before_deadline c s t rm a :
  rt c = true -> In t (timed s) -> pcof s t = GWait rm a -> closed s = true ->
  exists s', step c s (Fire t) = Some s' /\ pcof s' t = UAvail RClosed.
Proof.
  intros Hr Ht Hpc Hc. cbn [step]. unfold fire_task. rewrite Hr.
  apply mem_nat_in in Ht. rewrite Ht, Hpc, Hc. cbn [andb negb orb].
  unfold step_task. rewrite Hpc, Hc. eexists. split; [reflexivity|apply pcof_setpc_same].
Qed.

(* ------------------------------------------------------------------ who is under a timer *)
Lemma emit_destroyed_timed t l : forall s, timed (emit_destroyed t l s) = timed s.
Proof. induction l as [|o l IH]; intros s; cbn [emit_destroyed]; [reflexivity|]. rewrite IH. reflexivity. Qed.

Lemma clear_timed s t : timed (clear s t) = timed s.
Proof. unfold clear. cbv zeta. rewrite emit_destroyed_timed. reflexivity. Qed.

Lemma sem_add_timed s : timed (sem_add s) = timed s. Proof. sem_add_field. Qed.
Lemma ssem_add_timed s : timed (ssem_add s) = timed s. Proof. ssem_add_field. Qed.

Ltac split_ifs H :=
  repeat match type of H with
         | context [match ?b with _ => _ end] => destruct b eqn:?
         end.

Lemma timed_step_task c s t s' :
  step_task c s t = Some s' ->
  timed s' = timed s \/ (rt c = true /\ (exists rm, pcof s t = GAcq TFin rm) /\ timed s' = t :: timed s).
Proof.
  intros H. unfold step_task, acquire, fail_get, finish_get, hand_back in H.
  destruct (pcof s t) as [|k rm|e rm|rm a|w rm|w rm o|r|o|o r|o r|o| | | | |o b|o a|o| | | | | | |sz|r] eqn:Hpc;
    try discriminate H; split_ifs H; inversion H; subst; sp;
    rewrite ?clear_timed, ?sem_add_timed, ?ssem_add_timed; sp;
    rewrite ?clear_timed, ?sem_add_timed, ?ssem_add_timed;
    try (left; reflexivity);
    right; (split; [reflexivity|]); (split; [eexists; reflexivity|reflexivity]).
Qed.

Lemma timed_step c s l s' :
  step c s l = Some s' ->
  timed s' = timed s \/ (rt c = true /\ exists t rm, pcof s t = GAcq TFin rm /\ timed s' = t :: timed s).
Proof.
  intros H. destruct l as [t o|t|t|t|n]; cbn [step] in H.
  - unfold start in H. destruct (negb (Nat.eqb t (length (tasks s)))); [discriminate|].
    destruct o as [k rm|x b|x|x| | ]; split_ifs H; inversion H; subst; sp; left; reflexivity.
  - destruct (timed_step_task _ _ _ _ H) as [E|(Hr & [rm Hpc] & E)]; [left; exact E|].
    right. split; [exact Hr|]. exists t, rm. split; assumption.
  - unfold cancel_task in H.
    destruct (pcof s t) as [|k rm|e rm|rm a|w rm|w rm o|r|o|o r|o r|o| | | | |o b|o a|o| | | | | | |sz|r];
      try discriminate H; destruct a; inversion H; subst; sp; rewrite ?sem_add_timed, ?ssem_add_timed;
      left; reflexivity.
  - unfold fire_task in H. destruct (negb (rt c && mem_nat t (timed s))); [discriminate|].
    destruct (pcof s t) as [|k rm|e rm|rm a|w rm|w rm o|r|o|o r|o r|o| | | | |o b|o a|o| | | | | | |sz|r] eqn:Hpc;
      try discriminate H.
    destruct (closed s || a).
    + destruct (timed_step_task _ _ _ _ H) as [E|(_ & [rm' Hpc'] & _)]; [left; exact E|congruence].
    + inversion H; subst; sp. left; reflexivity.
  - inversion H; subst. left; reflexivity.
Qed.

(* timers exist only in pools with a runtime *)
Lemma timers_need_runtime c : forall tr s s',
  (timed s <> [] -> rt c = true) -> run c s tr = Some s' -> timed s' <> [] -> rt c = true.
Proof.
  induction tr as [|l tr IH]; intros s s' Hs H; cbn [run] in H.
  - inversion H; subst. exact Hs.
  - destruct (step c s l) as [s1|] eqn:E; [|discriminate]. apply (IH s1 s'); [|exact H].
    destruct (timed_step _ _ _ _ E) as [Et|(Hr & _)]; [rewrite Et; exact Hs|intros _; exact Hr].
Qed.

Lemma reachable_timers_need_runtime c s t : Reachable c s -> In t (timed s) -> rt c = true.
Proof.
  intros [tr H] Hin. apply (timers_need_runtime c tr (init c) s); [|exact H|].
  - intros K. exfalso. apply K. unfold init. destruct (how c); reflexivity.
  - intros K. rewrite K in Hin. exact Hin.
Qed.

(* ------------------------------------------------------------------ Timeout only when documented *)
(* the call is about to answer Timeout / has answered it *)
Definition ct (p : pc) : bool :=
  match p with
  | UAvail RTimeout | PDone RTimeout | TSize _ RTimeout | TPermit _ RTimeout => true
  | _ => false
  end.

(* what another thread can do to a task: nothing, or hand it a permit *)
Definition wake_rel (p p' : pc) : Prop :=
  p' = p \/ (exists rm a, p = GWait rm a /\ p' = GWait rm true) \/ (exists o a, p = AWait o a /\ p' = AWait o true).

Lemma wake_rel_ct p p' : wake_rel p p' -> ct p' = ct p.
Proof. intros [->|[(rm & a & -> & ->)|(o & a & -> & ->)]]; reflexivity. Qed.

Lemma sem_add_pc s u : wake_rel (pcof s u) (pcof (sem_add s) u).
Proof.
  unfold sem_add. destruct (queue s) as [|w q]; [left; reflexivity|].
  destruct (pcof s w) as [|k rm|e rm|rm a|w0 rm|w0 rm o|r|o|o r|o r|o| | | | |o b|o a|o| | | | | | |sz|r] eqn:E;
    try (left; reflexivity).
  destruct (Nat.eq_dec u w) as [->|Hne].
  - right. left. exists rm, a. split; [exact E|apply pcof_setpc_same].
  - left. rewrite pcof_setpc_other by congruence. reflexivity.
Qed.

Lemma ssem_add_pc s u : wake_rel (pcof s u) (pcof (ssem_add s) u).
Proof.
  unfold ssem_add. destruct (squeue s) as [|w q]; [left; reflexivity|].
  destruct (pcof s w) as [|k rm|e rm|rm a|w0 rm|w0 rm o|r|o|o r|o r|o| | | | |o b|o a|o| | | | | | |sz|r] eqn:E;
    try (left; reflexivity).
  destruct (Nat.eq_dec u w) as [->|Hne].
  - right. right. exists o, a. split; [exact E|apply pcof_setpc_same].
  - left. rewrite pcof_setpc_other by congruence. reflexivity.
Qed.

Lemma clear_pc s t u : pcof (clear s t) u = pcof s u.
Proof. unfold pcof. destruct (clear_fields s t) as (_&_&_&_&_&_&_&_&_&F&_). rewrite F. reflexivity. Qed.

(* pcof through the plain setters *)
Ltac pc_plain := unfold pcof; sp; rewrite ?(get_upd_other PNone) by congruence; try reflexivity.

Lemma step_task_other c s t s' u :
  u <> t -> step_task c s t = Some s' -> wake_rel (pcof s u) (pcof s' u).
Proof.
  intros Hne H. unfold step_task, acquire, fail_get, finish_get, hand_back in H.
  destruct (pcof s t) as [|k rm|e rm|rm a|w rm|w rm o|r|o|o r|o r|o| | | | |o b|o a|o| | | | | | |sz|r] eqn:Hpc;
    try discriminate H; split_ifs H; inversion H; subst;
    rewrite ?pcof_setpc_other by congruence;
    try (left; pc_plain; fail);
    try (apply sem_add_pc);
    try (apply ssem_add_pc).
  - left. apply clear_pc.
  - left. change (pcof (emit (clear s t) (ECloseDone t)) u) with (pcof (clear s t) u). apply clear_pc.
Qed.

Lemma option_eq_dec_nat (o : option nat) (u : nat) : {o = Some u} + {o <> Some u}.
Proof. destruct o as [t|]; [destruct (Nat.eq_dec t u) as [->|N]; [left; reflexivity|right; congruence]|right; discriminate]. Qed.

Definition label_task (l : label) : option nat :=
  match l with Start t _ | Step t | Cancel t | Fire t => Some t | Mark _ => None end.

Lemma step_other c s l s' u :
  step c s l = Some s' -> label_task l <> Some u -> wake_rel (pcof s u) (pcof s' u).
Proof.
  intros H Hl. destruct l as [t o|t|t|t|n]; cbn [step label_task] in *.
  - assert (Hne : u <> t) by congruence.
    unfold start in H. destruct (negb (Nat.eqb t (length (tasks s)))); [discriminate|].
    destruct o as [k rm|x b|x|x| | ]; split_ifs H; inversion H; subst;
      rewrite ?pcof_setpc_other by congruence; left; pc_plain.
  - apply step_task_other with (c := c) (t := t); [congruence|exact H].
  - assert (Hne : u <> t) by congruence. unfold cancel_task in H.
    destruct (pcof s t) as [|k rm|e rm|rm a|w rm|w rm o|r|o|o r|o r|o| | | | |o b|o a|o| | | | | | |sz|r];
      try discriminate H; destruct a; inversion H; subst; rewrite ?pcof_setpc_other by congruence.
    + apply sem_add_pc.
    + left. pc_plain.
    + match goal with |- wake_rel _ (pcof (emit (set_gone (ssem_add ?x) _) _) _) =>
        change (wake_rel (pcof x u) (pcof (ssem_add x) u)) end. apply ssem_add_pc.
    + left. pc_plain.
  - assert (Hne : u <> t) by congruence. unfold fire_task in H.
    destruct (negb (rt c && mem_nat t (timed s))); [discriminate|].
    destruct (pcof s t) as [|k rm|e rm|rm a|w rm|w rm o|r|o|o r|o r|o| | | | |o b|o a|o| | | | | | |sz|r];
      try discriminate H.
    destruct (closed s || a).
    + apply step_task_other with (c := c) (t := t); [exact Hne|exact H].
    + inversion H; subst. rewrite pcof_setpc_other by congruence. left. pc_plain.
  - inversion H; subst. left. reflexivity.
Qed.

(* the call's own step turns into a Timeout only when it asked not to wait and nothing was free *)
Lemma step_task_timeout c s t s' :
  step_task c s t = Some s' -> ct (pcof s t) = false -> ct (pcof s' t) = true ->
  (closed s = false /\ permits s <= 0 /\ exists rm, pcof s t = GStart KTry rm \/ pcof s t = GAcq TZero rm)
  \/ (sclosed s = false /\ spermits s <= 0 /\ exists o, pcof s t = AStart o false).
Proof.
  intros H Hct Hct'. unfold step_task, acquire, fail_get, finish_get, hand_back in H.
  destruct (pcof s t) as [|k rm|e rm|rm a|w rm|w rm o|r|o|o r|o r|o| | | | |o b|o a|o| | | | | | |sz|r] eqn:Hpc;
    try discriminate H; cbv beta iota in H; split_ifs H; inversion H; subst;
    try (rewrite Hpc in Hct'; discriminate Hct');
    rewrite ?pcof_setpc_same in Hct'; cbn [ct] in Hct'; try discriminate Hct';
    repeat match goal with K : Z.ltb _ _ = false |- _ => apply Z.ltb_ge in K end.
  all: try (destruct r; cbn [ct] in *; congruence).
  all: try (left; split; [assumption|]; split; [assumption|]; eexists; (left; reflexivity) || (right; reflexivity)).
  all: try (right; split; [assumption|]; split; [assumption|]; eexists; reflexivity).
Qed.

Theorem timeout_cause c s l s' u :
  step c s l = Some s' -> ct (pcof s u) = false -> ct (pcof s' u) = true ->
  (l = Step u /\ closed s = false /\ permits s <= 0
     /\ exists rm, pcof s u = GStart KTry rm \/ pcof s u = GAcq TZero rm)
  \/ (l = Step u /\ sclosed s = false /\ spermits s <= 0 /\ exists o, pcof s u = AStart o false)
  \/ (l = Fire u /\ rt c = true /\ In u (timed s) /\ closed s = false /\ exists rm, pcof s u = GWait rm false).
Proof.
  intros H Hct Hct'.
  destruct (option_eq_dec_nat (label_task l) u) as [El|Nl].
  2:{ pose proof (wake_rel_ct _ _ (step_other _ _ _ _ _ H Nl)) as E. congruence. }
  destruct l as [t o|t|t|t|n]; cbn [label_task] in El; inversion El; subst t; cbn [step] in H.
  - exfalso. unfold start in H. destruct (negb (Nat.eqb u (length (tasks s)))); [discriminate|].
    destruct o as [k rm|x b|x|x| | ]; split_ifs H; inversion H; subst;
      rewrite pcof_setpc_same in Hct'; discriminate Hct'.
  - destruct (step_task_timeout _ _ _ _ H Hct Hct') as [(A & B & C)|(A & B & C)].
    + left. auto.
    + right. left. auto.
  - exfalso. unfold cancel_task in H.
    destruct (pcof s u) as [|k rm|e rm|rm a|w rm|w rm o|r|o|o r|o r|o| | | | |o b|o a|o| | | | | | |sz|r];
      try discriminate H; inversion H; subst; rewrite pcof_setpc_same in Hct'; discriminate Hct'.
  - unfold fire_task in H. destruct (rt c && mem_nat u (timed s)) eqn:Eg; cbn [negb] in H; [|discriminate].
    apply andb_prop in Eg. destruct Eg as [Hr Hm]. apply mem_nat_in in Hm.
    destruct (pcof s u) as [|k rm|e rm|rm a|w rm|w rm o|r|o|o r|o r|o| | | | |o b|o a|o| | | | | | |sz|r] eqn:Hpc;
      try discriminate H.
    destruct (closed s || a) eqn:Eca.
    + exfalso. assert (Hct0 : ct (pcof s u) = false) by (rewrite Hpc; reflexivity).
      destruct (step_task_timeout _ _ _ _ H Hct0 Hct') as [(_ & _ & rm' & [K|K])|(_ & _ & o & K)]; congruence.
    + apply orb_false_elim in Eca. destruct Eca as [Ec ->].
      right. right. split; [reflexivity|]. split; [exact Hr|]. split; [exact Hm|]. split; [exact Ec|].
      exists rm. reflexivity.
Qed.
