(* The general invariant of the unmanaged pool model, for every label:
     - size and available are exactly accounted for by the queue, the objects that are out and
       the operations in flight (hence no counter underflow);
     - while the pool is open every queued object is backed by a permit, and the free slots
       are max_size - size - reserved (hence size <= max_size and the pop after a permit finds
       an object);
     - closing is sticky, a closed pool that still holds objects has somebody on the way to
       clear it, nothing is destroyed while the pool is open.                              *)
From Coq Require Import List ZArith Lia Bool Arith.
From DP Require Import Common.Tab Unmanaged.Model Unmanaged.Contrib Unmanaged.Simp Unmanaged.InvQ
  Unmanaged.Effects Unmanaged.InvStepQ.
Import ListNotations.
Open Scope Z_scope.

(* facts a program counter implies about the two closed flags *)
Definition pc_ok (cl scl : bool) (p : pc) : bool :=
  match p with
  | CSize | DClear => cl
  | CClear => cl && scl
  | GPopped _ _ None => cl
  | PDone r | UAvail r | TSize _ r | TPermit _ r => match r with RClosed => cl | _ => true end
  | _ => true
  end.

Definition zmax (c : cfg) : Z := Z.of_nat (max0 c).

Record Inv (c : cfg) (s : state) : Prop := {
  i_pcs : forall t, pc_ok (closed s) (sclosed s) (pcof s t) = true;
  i_scl : sclosed s = true -> closed s = true;
  i_size : size s = zlen (vec s) + zlen (out s) + sum cs (tasks s);
  i_avail : avail s = zlen (vec s) - sum pinc (tasks s) + sum pdec (tasks s) - sum wg (tasks s);
  i_max : size s <= zmax c;
  i_perm : closed s = false -> permits s + sum hp (tasks s) + sum pp (tasks s) = zlen (vec s);
  i_slot : closed s = false -> spermits s + sum hs (tasks s) + size s = zmax c;
  i_clear : closed s = true -> 0 < zlen (vec s) -> 1 <= sum cl (tasks s);
  i_dead : closed s = false -> dead s = [];
  i_log : forall t, In (ECloseDone t) (log s) -> closed s = true /\ sclosed s = true
}.

Lemma zlen_rev_seq n : zlen (rev (seq 0 n)) = Z.of_nat n.
Proof. unfold zlen. rewrite rev_length, seq_length. reflexivity. Qed.

Lemma Inv_init c : Inv c (init c).
Proof.
  assert (Hpc : forall t, pcof (init c) t = PNone).
  { intros t. unfold pcof, init. destruct (how c); cbn; destruct t; reflexivity. }
  constructor; try (intros t; rewrite Hpc; reflexivity);
    unfold init, zmax; destruct (how c); cbn [closed sclosed size vec out tasks avail permits spermits dead log sum];
    rewrite ?zlen_rev_seq; try discriminate; try reflexivity; try (intros; reflexivity);
    try (cbn; lia); try (intros; cbn in *; lia); try (intros t []).
Qed.

(* ---------- the pc facts *)
Lemma pc_ok_mono cl scl cl' scl' p :
  (cl = true -> cl' = true) -> (scl = true -> scl' = true) ->
  pc_ok cl scl p = true -> pc_ok cl' scl' p = true.
Proof.
  intros H1 H2. destruct p as [|k rm|e rm|rm a|w rm|w rm [o|]|r|o|o r|o r|o| | | | |o b|o a|o| | | | | | |sz|r];
    cbn [pc_ok]; auto; try (destruct r; auto).
  intros H. apply andb_prop in H. destruct H as [Ha Hb]. rewrite (H1 Ha), (H2 Hb). reflexivity.
Qed.

Lemma pcs_setpc cl scl cl' scl' s X t p :
  (forall t0, pc_ok cl scl (pcof s t0) = true) -> tasks X = tasks s ->
  (cl = true -> cl' = true) -> (scl = true -> scl' = true) -> pc_ok cl' scl' p = true ->
  forall t0, pc_ok cl' scl' (pcof (setpc X t p) t0) = true.
Proof.
  intros H Ht H1 H2 Hp t0. destruct (Nat.eq_dec t t0) as [->|Hne].
  - rewrite pcof_setpc_same. exact Hp.
  - rewrite pcof_setpc_other by exact Hne. unfold pcof in *. rewrite Ht.
    apply pc_ok_mono with (cl := cl) (scl := scl); auto.
Qed.

Lemma pcs_sem_add cl scl s :
  GQ s -> (forall t0, pc_ok cl scl (pcof s t0) = true) ->
  forall t0, pc_ok cl scl (pcof (sem_add s) t0) = true.
Proof.
  intros G H. destruct (sem_add_cases s G) as [[Eq ->]|(w & q & x & Eq & Hw & Hp & Hc & ->)].
  - exact H.
  - apply pcs_setpc with (cl := cl) (scl := scl) (s := s); auto.
Qed.

Lemma pcs_ssem_add cl scl s :
  SQ s -> (forall t0, pc_ok cl scl (pcof s t0) = true) ->
  forall t0, pc_ok cl scl (pcof (ssem_add s) t0) = true.
Proof.
  intros G H. destruct (ssem_add_cases s G) as [[Eq ->]|(w & q & x & Eq & Hw & Hp & Hc & ->)].
  - exact H.
  - apply pcs_setpc with (cl := cl) (scl := scl) (s := s); auto.
Qed.

(* ---------- tactics *)
Ltac rw_flags :=
  repeat match goal with
         | H : closed ?s = _ |- context [closed ?s] => rewrite H
         | H : sclosed ?s = _ |- context [sclosed ?s] => rewrite H
         end.

Ltac sum_facts s t :=
  pose proof (sum_ge_one hp (tasks s) t hp_nonneg eq_refl);
  pose proof (sum_ge_one pp (tasks s) t pp_nonneg eq_refl);
  pose proof (sum_ge_one hs (tasks s) t hs_nonneg eq_refl);
  pose proof (sum_ge_one cl (tasks s) t cl_nonneg eq_refl);
  pose proof (sum_nonneg cs (tasks s) cs_nonneg);
  pose proof (zlen_nonneg (vec s)); pose proof (zlen_nonneg (out s)).

Ltac flag_goal :=
  intros; cbn [pc_ok andb] in *; rw_flags; cbn [andb];
  first [reflexivity | assumption | discriminate | congruence | solve [auto] | idtac].

Ltac log_goal I10 :=
  let t0 := fresh "t0" in let Hin := fresh "Hin" in
  intros t0 Hin; cbn [In] in Hin;
  repeat (destruct Hin as [Hin|Hin]; [try discriminate Hin|]);
  try (destruct (I10 _ Hin)); split; flag_goal.

Ltac arith Hg :=
  rewrite ?(sum_upd PNone) by reflexivity; rewrite ?Hg;
  cbn [hp pp hs cs pinc pdec wg cl]; rewrite ?zlen_cons, ?zlen_nil in *; try lia.

(* goal: Inv c (setpc X t p) where X is s changed by plain setters.
   G S : queue invariants, I : Inv c s (consumed), Hpc : pcof s t = ... *)
Ltac inv_plain c s t G S I Hpc :=
  let Hok := fresh "Hok" in let Hg := fresh "Hg" in
  let I1 := fresh "I1" in let I2 := fresh "I2" in let I3 := fresh "I3" in let I4 := fresh "I4" in
  let I5 := fresh "I5" in let I6 := fresh "I6" in let I7 := fresh "I7" in let I8 := fresh "I8" in
  let I9 := fresh "I9" in let I10 := fresh "I10" in let Hc := fresh "Hc" in let Hv := fresh "Hv" in
  pose proof (i_pcs _ _ I t) as Hok; rewrite Hpc in Hok; cbn [pc_ok] in Hok;
  pose proof Hpc as Hg; unfold pcof in Hg;
  sum_facts s t; rewrite Hg in *; cbn [hp pp hs cl] in *;
  pose proof (q_pnn _ G); pose proof (sq_pnn _ S);
  destruct I as [I1 I2 I3 I4 I5 I6 I7 I8 I9 I10];
  constructor; sp;
  [ apply pcs_setpc with (cl := closed s) (scl := sclosed s) (s := s);
      [exact I1|sp; reflexivity|flag_goal|flag_goal|flag_goal]
  | first [exact I2 | intros; first [reflexivity | assumption]]
  | arith Hg
  | arith Hg
  | try (match goal with Hx : closed s = false |- _ => specialize (I7 Hx) end); arith Hg
  | intros Hc; try discriminate Hc; try congruence; specialize (I6 Hc); try specialize (I7 Hc); arith Hg
  | intros Hc; try discriminate Hc; try congruence; specialize (I7 Hc); try specialize (I6 Hc); arith Hg
  | intros Hc Hv; try congruence; try (specialize (I8 Hc)); arith Hg
  | intros Hc; try discriminate Hc; try congruence; try (apply I9; exact Hc)
  | log_goal I10 ].

(* goal: Inv c (setpc (Y (sem_add s)) t p), Y plain setters *)
Ltac inv_sem c s t G S I Hpc :=
  let Hok := fresh "Hok" in let Hg := fresh "Hg" in let Hg' := fresh "Hg'" in let Hpc' := fresh "Hpc'" in
  let S1 := fresh "S1" in let S2 := fresh "S2" in let S3 := fresh "S3" in let S4 := fresh "S4" in
  let S5 := fresh "S5" in let S6 := fresh "S6" in let S7 := fresh "S7" in let S8 := fresh "S8" in
  let I1 := fresh "I1" in let I2 := fresh "I2" in let I3 := fresh "I3" in let I4 := fresh "I4" in
  let I5 := fresh "I5" in let I6 := fresh "I6" in let I7 := fresh "I7" in let I8 := fresh "I8" in
  let I9 := fresh "I9" in let I10 := fresh "I10" in let Hc := fresh "Hc" in let Hv := fresh "Hv" in
  pose proof (sem_add_hp s G) as S1;
  pose proof (sem_add_blind pp s blind_pp G) as S2;
  pose proof (sem_add_blind hs s blind_hs G) as S3;
  pose proof (sem_add_blind cs s blind_cs G) as S4;
  pose proof (sem_add_blind pinc s blind_pinc G) as S5;
  pose proof (sem_add_blind pdec s blind_pdec G) as S6;
  pose proof (sem_add_blind wg s blind_wg G) as S7;
  pose proof (sem_add_blind cl s blind_cl G) as S8;
  assert (Hpc' : pcof (sem_add s) t = pcof s t)
    by (apply pcof_sem_add; [exact G|rewrite Hpc; reflexivity]);
  pose proof (sem_add_permits_nonneg s G);
  pose proof (i_pcs _ _ I t) as Hok; rewrite Hpc in Hok; cbn [pc_ok] in Hok;
  pose proof Hpc as Hg; unfold pcof in Hg;
  pose proof Hpc' as Hg'; rewrite Hpc in Hg'; unfold pcof in Hg';
  sum_facts s t; rewrite Hg in *; cbn [hp pp hs cl] in *;
  pose proof (sum_ge_one hp (tasks (sem_add s)) t hp_nonneg eq_refl); rewrite Hg' in *; cbn [hp] in *;
  pose proof (q_pnn _ G); pose proof (sq_pnn _ S);
  destruct I as [I1 I2 I3 I4 I5 I6 I7 I8 I9 I10];
  constructor; sp; autorewrite with fld;
  [ apply pcs_setpc with (cl := closed s) (scl := sclosed s) (s := sem_add s);
      [apply pcs_sem_add; assumption|sp; reflexivity|flag_goal|flag_goal|flag_goal]
  | first [exact I2 | intros; first [reflexivity | assumption]]
  | rewrite ?(sum_upd PNone) by reflexivity; rewrite ?Hg', ?S2, ?S3, ?S4, ?S5, ?S6, ?S7, ?S8; arith Hg
  | rewrite ?(sum_upd PNone) by reflexivity; rewrite ?Hg', ?S2, ?S3, ?S4, ?S5, ?S6, ?S7, ?S8; arith Hg
  | arith Hg
  | intros Hc; try discriminate Hc; try congruence; specialize (I6 Hc); try specialize (I7 Hc);
    rewrite ?(sum_upd PNone) by reflexivity; rewrite ?Hg', ?S2, ?S3, ?S4, ?S5, ?S6, ?S7, ?S8; arith Hg
  | intros Hc; try discriminate Hc; try congruence; specialize (I7 Hc); try specialize (I6 Hc);
    rewrite ?(sum_upd PNone) by reflexivity; rewrite ?Hg', ?S2, ?S3, ?S4, ?S5, ?S6, ?S7, ?S8; arith Hg
  | intros Hc Hv; try congruence; try (specialize (I8 Hc));
    rewrite ?(sum_upd PNone) by reflexivity; rewrite ?Hg', ?S2, ?S3, ?S4, ?S5, ?S6, ?S7, ?S8; arith Hg
  | intros Hc; try discriminate Hc; try congruence; try (apply I9; exact Hc)
  | log_goal I10 ].

(* goal: Inv c (setpc (Y (ssem_add s)) t p), Y plain setters *)
Ltac inv_ssem c s t G S I Hpc :=
  let Hok := fresh "Hok" in let Hg := fresh "Hg" in let Hg' := fresh "Hg'" in let Hpc' := fresh "Hpc'" in
  let S1 := fresh "S1" in let S2 := fresh "S2" in let S3 := fresh "S3" in let S4 := fresh "S4" in
  let S5 := fresh "S5" in let S6 := fresh "S6" in let S7 := fresh "S7" in let S8 := fresh "S8" in
  let I1 := fresh "I1" in let I2 := fresh "I2" in let I3 := fresh "I3" in let I4 := fresh "I4" in
  let I5 := fresh "I5" in let I6 := fresh "I6" in let I7 := fresh "I7" in let I8 := fresh "I8" in
  let I9 := fresh "I9" in let I10 := fresh "I10" in let Hc := fresh "Hc" in let Hv := fresh "Hv" in
  pose proof (ssem_add_hs s S) as S1;
  pose proof (ssem_add_blind pp s sblind_pp S) as S2;
  pose proof (ssem_add_blind hp s sblind_hp S) as S3;
  pose proof (ssem_add_blind cs s sblind_cs S) as S4;
  pose proof (ssem_add_blind pinc s sblind_pinc S) as S5;
  pose proof (ssem_add_blind pdec s sblind_pdec S) as S6;
  pose proof (ssem_add_blind wg s sblind_wg S) as S7;
  pose proof (ssem_add_blind cl s sblind_cl S) as S8;
  assert (Hpc' : pcof (ssem_add s) t = pcof s t)
    by (apply pcof_ssem_add; [exact S|rewrite Hpc; reflexivity]);
  pose proof (sq_pnn _ (SQ_ssem_add s S));
  pose proof (i_pcs _ _ I t) as Hok; rewrite Hpc in Hok; cbn [pc_ok] in Hok;
  pose proof Hpc as Hg; unfold pcof in Hg;
  pose proof Hpc' as Hg'; rewrite Hpc in Hg'; unfold pcof in Hg';
  sum_facts s t; rewrite Hg in *; cbn [hp pp hs cl] in *;
  pose proof (sum_ge_one hs (tasks (ssem_add s)) t hs_nonneg eq_refl); rewrite Hg' in *; cbn [hs] in *;
  pose proof (q_pnn _ G); pose proof (sq_pnn _ S);
  destruct I as [I1 I2 I3 I4 I5 I6 I7 I8 I9 I10];
  constructor; sp; autorewrite with fld;
  [ apply pcs_setpc with (cl := closed s) (scl := sclosed s) (s := ssem_add s);
      [apply pcs_ssem_add; assumption|sp; reflexivity|flag_goal|flag_goal|flag_goal]
  | first [exact I2 | intros; first [reflexivity | assumption]]
  | rewrite ?(sum_upd PNone) by reflexivity; rewrite ?Hg', ?S2, ?S3, ?S4, ?S5, ?S6, ?S7, ?S8; arith Hg
  | rewrite ?(sum_upd PNone) by reflexivity; rewrite ?Hg', ?S2, ?S3, ?S4, ?S5, ?S6, ?S7, ?S8; arith Hg
  | arith Hg
  | intros Hc; try discriminate Hc; try congruence; specialize (I6 Hc); try specialize (I7 Hc);
    rewrite ?(sum_upd PNone) by reflexivity; rewrite ?Hg', ?S2, ?S3, ?S4, ?S5, ?S6, ?S7, ?S8; arith Hg
  | intros Hc; try discriminate Hc; try congruence; specialize (I7 Hc); try specialize (I6 Hc);
    rewrite ?(sum_upd PNone) by reflexivity; rewrite ?Hg', ?S2, ?S3, ?S4, ?S5, ?S6, ?S7, ?S8; arith Hg
  | intros Hc Hv; try congruence; try (specialize (I8 Hc));
    rewrite ?(sum_upd PNone) by reflexivity; rewrite ?Hg', ?S2, ?S3, ?S4, ?S5, ?S6, ?S7, ?S8; arith Hg
  | intros Hc; try discriminate Hc; try congruence; try (apply I9; exact Hc)
  | log_goal I10 ].

(* goal: Inv c (setpc (Y (clear s t)) t p), Y only writes the log; the pool is closed *)
Ltac inv_clear c s t G S I Hpc :=
  let Hok := fresh "Hok" in let Hg := fresh "Hg" in
  let I1 := fresh "I1" in let I2 := fresh "I2" in let I3 := fresh "I3" in let I4 := fresh "I4" in
  let I5 := fresh "I5" in let I6 := fresh "I6" in let I7 := fresh "I7" in let I8 := fresh "I8" in
  let I9 := fresh "I9" in let I10 := fresh "I10" in let Hc := fresh "Hc" in let Hv := fresh "Hv" in
  let F1 := fresh "F1" in let F2 := fresh "F2" in let F3 := fresh "F3" in let F4 := fresh "F4" in
  let F5 := fresh "F5" in let F6 := fresh "F6" in let F7 := fresh "F7" in let F8 := fresh "F8" in
  let F9 := fresh "F9" in let F10 := fresh "F10" in let F11 := fresh "F11" in let F12 := fresh "F12" in
  let F13 := fresh "F13" in let F14 := fresh "F14" in let F15 := fresh "F15" in
  let t0 := fresh "t0" in let Hin := fresh "Hin" in
  pose proof (i_pcs _ _ I t) as Hok; rewrite Hpc in Hok; cbn [pc_ok] in Hok;
  try (apply andb_prop in Hok; destruct Hok as [Hok ?]);
  pose proof Hpc as Hg; unfold pcof in Hg;
  sum_facts s t; rewrite Hg in *; cbn [hp pp hs cl] in *;
  destruct (clear_fields s t) as (F1&F2&F3&F4&F5&F6&F7&F8&F9&F10&F11&F12&F13&F14&F15);
  destruct I as [I1 I2 I3 I4 I5 I6 I7 I8 I9 I10];
  constructor; sp; rewrite ?F1, ?F2, ?F3, ?F4, ?F5, ?F6, ?F7, ?F8, ?F9, ?F10, ?F11, ?F12, ?F13, ?F14, ?F15;
  [ apply pcs_setpc with (cl := closed s) (scl := sclosed s) (s := s);
      [exact I1|sp; exact F10|flag_goal|flag_goal|flag_goal]
  | exact I2
  | arith Hg
  | arith Hg
  | arith Hg
  | intros Hc; congruence
  | intros Hc; congruence
  | intros Hc Hv; try rewrite zlen_nil in Hv; cbn in Hv; lia
  | intros Hc; congruence
  | intros t0 Hin; cbn [In] in Hin;
    try (destruct Hin as [Hin|Hin]; [split; assumption|]);
    apply clear_log in Hin; destruct Hin as [Hin|[? Hin]]; [exact (I10 _ Hin)|discriminate Hin] ].

(* ---------- preservation *)
Lemma Inv_start c s t o s' : GQ s -> SQ s -> Inv c s -> start c s t o = Some s' -> Inv c s'.
Proof.
  intros G S IV H.
  unfold start in H. destruct (Nat.eqb t (length (tasks s))) eqn:Et; cbn [negb] in H; [|discriminate].
  pose proof (pcof_fresh s t Et) as Hpc.
  destruct o as [k rm|x b|x|x| | ].
  + inversion H; subst. inv_plain c s t G S IV Hpc.
  + destruct (mem_nat x (loose s)); [|destruct (Nat.eqb x (next_oid s))]; inversion H; subst;
      inv_plain c s t G S IV Hpc.
  + destruct (mem_nat x (out s)) eqn:Em; inversion H; subst.
    pose proof (zlen_remove_nat _ _ Em). inv_plain c s t G S IV Hpc.
  + destruct (mem_nat x (out s)) eqn:Em; inversion H; subst.
    pose proof (zlen_remove_nat _ _ Em). inv_plain c s t G S IV Hpc.
  + inversion H; subst. inv_plain c s t G S IV Hpc.
  + inversion H; subst. inv_plain c s t G S IV Hpc.
Qed.

Lemma Inv_timed c s v : Inv c s -> Inv c (set_timed s v).
Proof. intros [I1 I2 I3 I4 I5 I6 I7 I8 I9 I10]. constructor; unfold pcof in *; sp; assumption. Qed.

Lemma Inv_acquire c s t w rm wait :
  GQ s -> SQ s -> Inv c s ->
  (pcof s t = GStart KTry rm /\ w = false /\ wait = false \/ (exists e, pcof s t = GAcq e rm) /\ w = true) ->
  Inv c (acquire s t w rm wait).
Proof.
  intros G S IV Hcase. unfold acquire, fail_get.
  destruct Hcase as [(Hpc & -> & ->)|[[e Hpc] ->]].
  - destruct (closed s) eqn:Ec; [inv_plain c s t G S IV Hpc|].
    destruct (Z.ltb 0 (permits s)) eqn:Ep; [apply Z.ltb_lt in Ep; inv_plain c s t G S IV Hpc|].
    apply Z.ltb_ge in Ep. inv_plain c s t G S IV Hpc.
  - destruct (closed s) eqn:Ec; [inv_plain c s t G S IV Hpc|].
    destruct (Z.ltb 0 (permits s)) eqn:Ep; [apply Z.ltb_lt in Ep; inv_plain c s t G S IV Hpc|].
    apply Z.ltb_ge in Ep. destruct wait; inv_plain c s t G S IV Hpc.
Qed.

Lemma Inv_step_task c s t s' : GQ s -> SQ s -> Inv c s -> step_task c s t = Some s' -> Inv c s'.
Proof.
  intros G S IV H. unfold step_task in H.
  destruct (pcof s t) as [|k rm|e rm|rm a|w rm|w rm o|r|o|o r|o r|o| | | | |o b|o a|o| | | | | | |sz|r] eqn:Hpc;
    try discriminate H.
  + (* GStart *)
    destruct k as [|e]; inversion H; subst.
    * apply Inv_acquire; try assumption. left. repeat split. exact Hpc.
    * inv_plain c s t G S IV Hpc.
  + (* GAcq *)
    destruct e; [| |destruct (rt c)]; inversion H; subst;
      [apply Inv_acquire; try assumption; right; split; [eexists; exact Hpc|reflexivity]..| |inv_plain c s t G S IV Hpc].
    apply Inv_acquire; [apply GQ_same with s|apply SQ_same with s|apply Inv_timed|]; try assumption; try reflexivity.
    right. split; [eexists; change (pcof (set_timed s (t :: timed s)) t) with (pcof s t); exact Hpc|reflexivity].
  + (* GWait *)
    destruct (closed s) eqn:Ec.
    * inversion H; subst. destruct a; inv_plain c s t G S IV Hpc.
    * destruct a; inversion H; subst; [inv_plain c s t G S IV Hpc|exact IV].
  + (* GPop *)
    destruct (vec s) as [|o l] eqn:Ev; inversion H; subst.
    * assert (Hz : zlen (vec s) = 0) by (rewrite Ev; reflexivity).
      assert (Ec : closed s = true).
      { destruct (closed s) eqn:Ec; [reflexivity|]. exfalso.
        pose proof (i_perm _ _ IV Ec) as P. pose proof (q_pnn _ G).
        pose proof (sum_ge_one hp (tasks s) t hp_nonneg eq_refl) as K. unfold pcof in Hpc.
        rewrite Hpc in K. cbn [hp] in K. pose proof (sum_nonneg pp (tasks s) pp_nonneg). lia. }
      destruct w; inv_plain c s t G S IV Hpc.
    * assert (Hz : zlen (vec s) = zlen l + 1) by (rewrite Ev; apply zlen_cons).
      destruct w; inv_plain c s t G S IV Hpc.
  + (* GPopped *)
    destruct o as [o|]; inversion H; subst.
    * unfold finish_get. destruct w, rm; inv_plain c s t G S IV Hpc.
    * unfold fail_get. destruct w; inv_sem c s t G S IV Hpc.
  + (* UAvail *) inversion H; subst. inv_plain c s t G S IV Hpc.
  + (* TStart *) inversion H; subst. inv_plain c s t G S IV Hpc.
  + (* TSize *) inversion H; subst. inv_plain c s t G S IV Hpc.
  + (* TPermit *) inversion H; subst. inv_ssem c s t G S IV Hpc.
  + (* DStart *) destruct (closed s) eqn:Ecl; inversion H; subst; cbn [emit_destroyed]; inv_plain c s t G S IV Hpc.
  + (* DAvail *) inversion H; subst. inv_plain c s t G S IV Hpc.
  + (* DPermit *) inversion H; subst. inv_sem c s t G S IV Hpc.
  + (* DCheck *) destruct (closed s) eqn:Ec; inversion H; subst; inv_plain c s t G S IV Hpc.
  + (* DClear *) inversion H; subst. inv_clear c s t G S IV Hpc.
  + (* AStart *)
    unfold hand_back in H. destruct (sclosed s) eqn:Ec; [inversion H; subst; inv_plain c s t G S IV Hpc|].
    destruct (Z.ltb 0 (spermits s)) eqn:Ep.
    * apply Z.ltb_lt in Ep. inversion H; subst. inv_plain c s t G S IV Hpc.
    * apply Z.ltb_ge in Ep. destruct b; inversion H; subst; inv_plain c s t G S IV Hpc.
  + (* AWait *)
    unfold hand_back in H. destruct (sclosed s) eqn:Ec.
    * inversion H; subst. destruct a; inv_plain c s t G S IV Hpc.
    * destruct a; inversion H; subst; [inv_plain c s t G S IV Hpc|exact IV].
  + (* APush *)
    unfold hand_back in H. destruct (closed s) eqn:Ec; inversion H; subst; inv_plain c s t G S IV Hpc.
  + (* AAvail *) inversion H; subst. inv_plain c s t G S IV Hpc.
  + (* APermit *) inversion H; subst. inv_sem c s t G S IV Hpc.
  + (* CStart *) inversion H; subst. inv_plain c s t G S IV Hpc.
  + (* CSize *) inversion H; subst. inv_plain c s t G S IV Hpc.
  + (* CClear *) inversion H; subst. inv_clear c s t G S IV Hpc.
  + (* SStart *) inversion H; subst. inv_plain c s t G S IV Hpc.
  + (* SAvail *) inversion H; subst. inv_plain c s t G S IV Hpc.
Qed.

Lemma Inv_cancel c s t s' : GQ s -> SQ s -> Inv c s -> cancel_task c s t = Some s' -> Inv c s'.
Proof.
  intros G S IV H. unfold cancel_task in H.
  destruct (pcof s t) as [|k rm|e rm|rm a|w rm|w rm o|r|o|o r|o r|o| | | | |o b|o a|o| | | | | | |sz|r] eqn:Hpc;
    try discriminate H.
  - inversion H; subst. destruct a; [inv_sem c s t G S IV Hpc|inv_plain c s t G S IV Hpc].
  - inversion H; subst. destruct a; [inv_ssem c s t G S IV Hpc|inv_plain c s t G S IV Hpc].
Qed.

Lemma Inv_fire c s t s' : GQ s -> SQ s -> Inv c s -> fire_task c s t = Some s' -> Inv c s'.
Proof.
  intros G S IV H. unfold fire_task in H. destruct (negb (rt c && mem_nat t (timed s))); [discriminate|].
  destruct (pcof s t) as [|k rm|e rm|rm a|w rm|w rm o|r|o|o r|o r|o| | | | |o b|o a|o| | | | | | |sz|r] eqn:Hpc;
    try discriminate H.
  destruct (closed s || a) eqn:Eca.
  - eapply Inv_step_task; eassumption.
  - apply orb_false_elim in Eca. destruct Eca as [_ ->]. inversion H; subst. inv_plain c s t G S IV Hpc.
Qed.

Theorem Inv_step c s l s' : GQ s -> SQ s -> Inv c s -> step c s l = Some s' -> Inv c s'.
Proof.
  intros G S IV H. destruct l as [t o|t|t|t|n]; cbn [step] in H.
  - eapply Inv_start; eassumption.
  - eapply Inv_step_task; eassumption.
  - eapply Inv_cancel; eassumption.
  - eapply Inv_fire; eassumption.
  - inversion H; subst. exact IV.
Qed.
