(* close() is final for the queue as well: a closed pool takes no object in, and once close() has
   returned the queue is empty for good - so no caller, not even one that obtained its permit before
   the close and has not popped yet, is handed an object afterwards. *)
From Coq Require Import List ZArith Lia Bool Arith.
From DP Require Import Common.Tab Unmanaged.Model Unmanaged.Contrib Unmanaged.Simp Unmanaged.InvQ
  Unmanaged.Effects Unmanaged.InvStepQ Unmanaged.InvId Unmanaged.InvG Unmanaged.Reach.
Import ListNotations.
Open Scope Z_scope.

Definition shrinks {A} (v' v : list A) : Prop := v' = v \/ v' = tl v \/ v' = [].

(* every step of every operation on a closed pool leaves the queue as it is, pops its head or clears it *)
Lemma closed_vec_task c s t s' :
  closed s = true -> step_task c s t = Some s' -> shrinks (vec s') (vec s).
Proof.
  intros Hc H. unfold shrinks.
  unfold step_task, acquire, fail_get, finish_get, hand_back in H.
  destruct (clear_fields s t) as (F1&F2&F3&F4&F5&F6&F7&F8&F9&F10&F11&F12&F13&F14&F15).
  rewrite ?Hc in H.
  destruct (pcof s t) as [|k rm|e rm|rm a|w rm|w rm o|r|o|o r|o r|o| | | | |o b|o a|o| | | | | | |sz|r];
    try discriminate H;
    repeat match type of H with
           | context [match ?b with _ => _ end] => destruct b eqn:?
           end;
    inversion H; subst; cbn [emit_destroyed]; sp; autorewrite with fld; rewrite ?F7;
    try (left; reflexivity);
    try (right; right; reflexivity);
    try (right; left; reflexivity);
    try (right; left; match goal with E : vec s = _ |- _ => rewrite E; reflexivity end).
Qed.

Lemma closed_vec c s l s' :
  closed s = true -> step c s l = Some s' -> shrinks (vec s') (vec s).
Proof.
  intros Hc H. destruct l as [t o|t|t|t|n]; cbn [step] in H.
  - unfold start in H. destruct (negb (Nat.eqb t (length (tasks s)))); [discriminate|].
    destruct o as [k rm|x b|x|x| | ];
      repeat match type of H with context [if ?b then _ else _] => destruct b end;
      inversion H; subst; sp; left; reflexivity.
  - eapply closed_vec_task; eassumption.
  - unfold cancel_task in H.
    destruct (pcof s t) as [|k rm|e rm|rm a|w rm|w rm o|r|o|o r|o r|o| | | | |o b|o a|o| | | | | | |sz|r];
      try discriminate H; destruct a; inversion H; subst; sp; autorewrite with fld; left; reflexivity.
  - unfold fire_task in H. destruct (negb (rt c && mem_nat t (timed s))); [discriminate|].
    destruct (pcof s t) as [|k rm|e rm|rm a|w rm|w rm o|r|o|o r|o r|o| | | | |o b|o a|o| | | | | | |sz|r] eqn:Hpc;
      try discriminate H.
    destruct (closed s || a) eqn:E.
    + eapply closed_vec_task; eassumption.
    + inversion H; subst. sp. left. reflexivity.
  - inversion H; subst. left. reflexivity.
Qed.

(* ------------------------------------------------------------------ once close() has returned *)
Lemma clear_log_done s t u : In (ECloseDone u) (log (clear s t)) -> In (ECloseDone u) (log s).
Proof.
  unfold clear. intros H. apply emit_destroyed_log in H. destruct H as [H|[o E]]; [|discriminate E].
  sp. exact H.
Qed.

Ltac done_old Hin :=
  repeat match type of Hin with
         | In _ (_ :: _) => destruct Hin as [Hin|Hin]; [try discriminate Hin|]
         end;
  first [left; exact Hin | left; apply clear_log_done in Hin; exact Hin].

(* the record "close() returned" is written by the last step of close() only, which leaves the queue empty *)
Lemma done_step_task c s t s' u :
  step_task c s t = Some s' -> In (ECloseDone u) (log s') -> In (ECloseDone u) (log s) \/ vec s' = [].
Proof.
  intros H Hin.
  unfold step_task, acquire, fail_get, finish_get, hand_back in H.
  destruct (clear_fields s t) as (F1&F2&F3&F4&F5&F6&F7&F8&F9&F10&F11&F12&F13&F14&F15).
  destruct (pcof s t) as [|k rm|e rm|rm a|w rm|w rm o|r|o|o r|o r|o| | | | |o b|o a|o| | | | | | |sz|r];
    try discriminate H;
    repeat match type of H with
           | context [match ?b with _ => _ end] => destruct b eqn:?
           end;
    inversion H; subst; cbn [emit_destroyed] in Hin; sp; autorewrite with fld in Hin;
    try (right; exact F7);
    done_old Hin.
Qed.

Lemma done_step c s l s' u :
  step c s l = Some s' -> In (ECloseDone u) (log s') -> In (ECloseDone u) (log s) \/ vec s' = [].
Proof.
  intros H Hin. destruct l as [t o|t|t|t|n]; cbn [step] in H.
  - unfold start in H. destruct (negb (Nat.eqb t (length (tasks s)))); [discriminate|].
    destruct o as [k rm|x b|x|x| | ];
      repeat match type of H with context [if ?b then _ else _] => destruct b end;
      inversion H; subst; sp; left; exact Hin.
  - eapply done_step_task; eassumption.
  - unfold cancel_task in H.
    destruct (pcof s t) as [|k rm|e rm|rm a|w rm|w rm o|r|o|o r|o r|o| | | | |o b|o a|o| | | | | | |sz|r];
      try discriminate H; destruct a; inversion H; subst; sp; autorewrite with fld in Hin; done_old Hin.
  - unfold fire_task in H. destruct (negb (rt c && mem_nat t (timed s))); [discriminate|].
    destruct (pcof s t) as [|k rm|e rm|rm a|w rm|w rm o|r|o|o r|o r|o| | | | |o b|o a|o| | | | | | |sz|r] eqn:Hpc;
      try discriminate H.
    destruct (closed s || a) eqn:E.
    + eapply done_step_task; eassumption.
    + inversion H; subst. sp. left. exact Hin.
  - inversion H; subst. left. exact Hin.
Qed.

(* the invariant: after close() has returned the queue is empty - in every later state, whatever is
   returned, added or popped afterwards and however the threads interleave *)
Lemma done_empty_run c tr : forall s s',
  All c s -> (forall u, In (ECloseDone u) (log s) -> vec s = []) ->
  run c s tr = Some s' -> forall u, In (ECloseDone u) (log s') -> vec s' = [].
Proof.
  induction tr as [|l tr IH]; intros s s' A J H; cbn [run] in H.
  - inversion H; subst. exact J.
  - destruct (step c s l) as [s1|] eqn:E; [|discriminate].
    apply (IH s1 s'); [eapply All_step; eassumption| |exact H].
    intros u Hin. destruct (done_step c s l s1 u E Hin) as [Hold|Hnew]; [|exact Hnew].
    pose proof (J u Hold) as Hv.
    pose proof (i_log _ _ (all_i _ _ A) u Hold) as [Hc _].
    destruct (closed_vec c s l s1 Hc E) as [K|[K|K]]; rewrite K, ?Hv; reflexivity.
Qed.

Theorem after_close_empty c tr s u :
  run c (init c) tr = Some s -> In (ECloseDone u) (log s) -> vec s = [].
Proof.
  intros H. eapply done_empty_run; [apply All_init| |exact H].
  intros v Hin. exfalso. revert Hin. unfold init. destruct (how c); cbn; tauto.
Qed.

(* hence a getter that holds a permit from before the close and pops after close() has returned finds
   nothing and answers Closed *)
Theorem late_pop_closed c tr s t w rm u :
  run c (init c) tr = Some s -> In (ECloseDone u) (log s) -> pcof s t = GPop w rm ->
  step c s (Step t) = Some (setpc s t (GPopped w rm None)).
Proof.
  intros H Hin Hpc. pose proof (after_close_empty c tr s u H Hin) as Hv.
  cbn [step]. unfold step_task. rewrite Hpc, Hv. reflexivity.
Qed.
