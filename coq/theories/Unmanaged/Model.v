(* Executable model of deadpool::unmanaged::Pool (src/unmanaged/mod.rs) at thread level.

   One step of the model is what one thread does between two schedule points of the code:
   exactly one lock region, one atomic read-modify-write or one semaphore operation.
   All nondeterminism (scheduler, cancellation) is in the labels, so [step] is a function and
   "for all schedules" is "for all label lists". Nothing in this file is proved; see Inv*.v.

   The pool: [vec] is the queue of objects (a Vec used as a stack; the head of the list is the
   object that is popped next), [permits/closed/queue] the semaphore that carries one permit
   per queued object (its wait queue holds the parked getters), [spermits/sclosed/squeue] the
   size semaphore with max_size - size permits (its wait queue holds the parked adders),
   [size] and [avail] the two status counters. Ghost state: [out] objects held by callers
   through an Object wrapper, [loose] objects handed back to callers (remove, take, refused
   add), [dead] objects destroyed by the pool, [gone] objects that were inside an add() future
   which its caller dropped. *)
From Coq Require Import List ZArith Lia Bool Arith.
From DP Require Import Common.Tab.
Import ListNotations.
Open Scope Z_scope.

(* ------------------------------------------------------------------ basic data *)
(* result of an operation; the numbering is the one the harness prints *)
Inductive res := ROk | RTimeout | RClosed | RNoRuntime | RCancelled | RUnit.

Definition res_code (r : res) : Z :=
  match r with
  | ROk => 0 | RTimeout => 1 | RClosed => 2 | RNoRuntime => 3 | RCancelled => 9 | RUnit => 10
  end.

(* a timeout argument: absent, zero, or a positive duration *)
Inductive tmo := TNone | TZero | TFin.

(* how the pool was built *)
Inductive ctor := CNew | CConfig | CIter.

Record cfg := {
  how : ctor;
  max0 : nat;            (* max_size; for CIter the number of initial objects *)
  ptmo : tmo;            (* PoolConfig::timeout *)
  rt : bool              (* PoolConfig::runtime is Some(_) *)
}.

(* which entry point of the get family *)
Inductive gkind := KTry | KTimed (e : tmo).

(* program counter of one operation: one constructor per schedule point *)
Inductive pc :=
| PNone
(* try_get / timeout_get (get, remove, try_remove, timeout_remove go through these) *)
| GStart (k : gkind) (rm : bool)
| GAcq (e : tmo) (rm : bool)                   (* timeout_get after available -= 1 *)
| GWait (rm : bool) (a : bool)                 (* parked on the semaphore; a = permit assigned *)
| GPop (w : bool) (rm : bool)                  (* holds a permit; w = timeout_get (reservation) *)
| GPopped (w : bool) (rm : bool) (o : option nat)
| UAvail (r : res)                             (* timeout_get gives its reservation back *)
(* Object::take, also the second half of remove *)
| TStart (o : nat)
| TSize (o : nat) (r : res)
| TPermit (o : nat) (r : res)
(* Object::drop *)
| DStart (o : nat)
| DAvail
| DPermit
| DCheck
| DClear
(* add / try_add *)
| AStart (o : nat) (b : bool)                  (* b = blocking add *)
| AWait (o : nat) (a : bool)
| APush (o : nat)
| AAvail
| APermit
(* close *)
| CStart
| CSize
| CClear
(* status *)
| SStart
| SAvail (sz : Z)
| PDone (r : res).

Inductive gsel := SGet | STry | STimeout (e : tmo).

Inductive op :=
| OpGet (k : gsel) (rm : bool) | OpAdd (o : nat) (b : bool) | OpDrop (o : nat) | OpTake (o : nat)
| OpClose | OpStatus.

Inductive label :=
| Start (t : nat) (o : op)
| Step (t : nat)
| Cancel (t : nat)
| Fire (t : nat)                               (* task t is polled after its deadline has passed *)
| Mark (n : nat).

(* ghost events; the harness logs the same events on the implementation side *)
Inductive event :=
| EDestroy (o : nat) (t : nat)
| EHandOut (o : nat) (t : nat)
| ECloseDone (t : nat)
| EHandBack (o : nat) (t : nat) (r : res)
| ERemoved (o : nat) (t : nat)
| EStatus (m s a w : Z).

Record state := {
  permits : Z;
  closed : bool;
  queue : list nat;
  spermits : Z;
  sclosed : bool;
  squeue : list nat;
  vec : list nat;
  size : Z;
  avail : Z;
  tasks : list pc;
  out : list nat;
  loose : list nat;
  dead : list nat;
  gone : list nat;
  next_oid : nat;
  log : list event;
  timed : list nat       (* ghost: the calls that run under a timer (finite timeout, runtime present) *)
}.

(* ------------------------------------------------------------------ setters *)
Definition set_permits (s : state) (v : Z) : state :=
  {| permits := v; closed := closed s; queue := queue s; spermits := spermits s; sclosed := sclosed s; squeue := squeue s; vec := vec s; size := size s; avail := avail s; tasks := tasks s; out := out s; loose := loose s; dead := dead s; gone := gone s; next_oid := next_oid s; log := log s; timed := timed s |}.
Definition set_closed (s : state) (v : bool) : state :=
  {| permits := permits s; closed := v; queue := queue s; spermits := spermits s; sclosed := sclosed s; squeue := squeue s; vec := vec s; size := size s; avail := avail s; tasks := tasks s; out := out s; loose := loose s; dead := dead s; gone := gone s; next_oid := next_oid s; log := log s; timed := timed s |}.
Definition set_queue (s : state) (v : list nat) : state :=
  {| permits := permits s; closed := closed s; queue := v; spermits := spermits s; sclosed := sclosed s; squeue := squeue s; vec := vec s; size := size s; avail := avail s; tasks := tasks s; out := out s; loose := loose s; dead := dead s; gone := gone s; next_oid := next_oid s; log := log s; timed := timed s |}.
Definition set_spermits (s : state) (v : Z) : state :=
  {| permits := permits s; closed := closed s; queue := queue s; spermits := v; sclosed := sclosed s; squeue := squeue s; vec := vec s; size := size s; avail := avail s; tasks := tasks s; out := out s; loose := loose s; dead := dead s; gone := gone s; next_oid := next_oid s; log := log s; timed := timed s |}.
Definition set_sclosed (s : state) (v : bool) : state :=
  {| permits := permits s; closed := closed s; queue := queue s; spermits := spermits s; sclosed := v; squeue := squeue s; vec := vec s; size := size s; avail := avail s; tasks := tasks s; out := out s; loose := loose s; dead := dead s; gone := gone s; next_oid := next_oid s; log := log s; timed := timed s |}.
Definition set_squeue (s : state) (v : list nat) : state :=
  {| permits := permits s; closed := closed s; queue := queue s; spermits := spermits s; sclosed := sclosed s; squeue := v; vec := vec s; size := size s; avail := avail s; tasks := tasks s; out := out s; loose := loose s; dead := dead s; gone := gone s; next_oid := next_oid s; log := log s; timed := timed s |}.
Definition set_vec (s : state) (v : list nat) : state :=
  {| permits := permits s; closed := closed s; queue := queue s; spermits := spermits s; sclosed := sclosed s; squeue := squeue s; vec := v; size := size s; avail := avail s; tasks := tasks s; out := out s; loose := loose s; dead := dead s; gone := gone s; next_oid := next_oid s; log := log s; timed := timed s |}.
Definition set_size (s : state) (v : Z) : state :=
  {| permits := permits s; closed := closed s; queue := queue s; spermits := spermits s; sclosed := sclosed s; squeue := squeue s; vec := vec s; size := v; avail := avail s; tasks := tasks s; out := out s; loose := loose s; dead := dead s; gone := gone s; next_oid := next_oid s; log := log s; timed := timed s |}.
Definition set_avail (s : state) (v : Z) : state :=
  {| permits := permits s; closed := closed s; queue := queue s; spermits := spermits s; sclosed := sclosed s; squeue := squeue s; vec := vec s; size := size s; avail := v; tasks := tasks s; out := out s; loose := loose s; dead := dead s; gone := gone s; next_oid := next_oid s; log := log s; timed := timed s |}.
Definition set_tasks (s : state) (v : list pc) : state :=
  {| permits := permits s; closed := closed s; queue := queue s; spermits := spermits s; sclosed := sclosed s; squeue := squeue s; vec := vec s; size := size s; avail := avail s; tasks := v; out := out s; loose := loose s; dead := dead s; gone := gone s; next_oid := next_oid s; log := log s; timed := timed s |}.
Definition set_out (s : state) (v : list nat) : state :=
  {| permits := permits s; closed := closed s; queue := queue s; spermits := spermits s; sclosed := sclosed s; squeue := squeue s; vec := vec s; size := size s; avail := avail s; tasks := tasks s; out := v; loose := loose s; dead := dead s; gone := gone s; next_oid := next_oid s; log := log s; timed := timed s |}.
Definition set_loose (s : state) (v : list nat) : state :=
  {| permits := permits s; closed := closed s; queue := queue s; spermits := spermits s; sclosed := sclosed s; squeue := squeue s; vec := vec s; size := size s; avail := avail s; tasks := tasks s; out := out s; loose := v; dead := dead s; gone := gone s; next_oid := next_oid s; log := log s; timed := timed s |}.
Definition set_dead (s : state) (v : list nat) : state :=
  {| permits := permits s; closed := closed s; queue := queue s; spermits := spermits s; sclosed := sclosed s; squeue := squeue s; vec := vec s; size := size s; avail := avail s; tasks := tasks s; out := out s; loose := loose s; dead := v; gone := gone s; next_oid := next_oid s; log := log s; timed := timed s |}.
Definition set_gone (s : state) (v : list nat) : state :=
  {| permits := permits s; closed := closed s; queue := queue s; spermits := spermits s; sclosed := sclosed s; squeue := squeue s; vec := vec s; size := size s; avail := avail s; tasks := tasks s; out := out s; loose := loose s; dead := dead s; gone := v; next_oid := next_oid s; log := log s; timed := timed s |}.
Definition set_next_oid (s : state) (v : nat) : state :=
  {| permits := permits s; closed := closed s; queue := queue s; spermits := spermits s; sclosed := sclosed s; squeue := squeue s; vec := vec s; size := size s; avail := avail s; tasks := tasks s; out := out s; loose := loose s; dead := dead s; gone := gone s; next_oid := v; log := log s; timed := timed s |}.
Definition set_log (s : state) (v : list event) : state :=
  {| permits := permits s; closed := closed s; queue := queue s; spermits := spermits s; sclosed := sclosed s; squeue := squeue s; vec := vec s; size := size s; avail := avail s; tasks := tasks s; out := out s; loose := loose s; dead := dead s; gone := gone s; next_oid := next_oid s; log := v; timed := timed s |}.
Definition set_timed (s : state) (v : list nat) : state :=
  {| permits := permits s; closed := closed s; queue := queue s; spermits := spermits s; sclosed := sclosed s; squeue := squeue s; vec := vec s; size := size s; avail := avail s; tasks := tasks s; out := out s; loose := loose s; dead := dead s; gone := gone s; next_oid := next_oid s; log := log s; timed := v |}.

Definition pcof (s : state) (t : nat) : pc := get PNone t (tasks s).
Definition setpc (s : state) (t : nat) (p : pc) : state := set_tasks s (upd PNone t p (tasks s)).
Definition emit (s : state) (e : event) : state := set_log s (e :: log s).
Definition zlen {A} (l : list A) : Z := Z.of_nat (length l).

Fixpoint remove_nat (x : nat) (l : list nat) : list nat :=
  match l with
  | [] => []
  | y :: l' => if Nat.eqb x y then l' else y :: remove_nat x l'
  end.

Fixpoint mem_nat (x : nat) (l : list nat) : bool :=
  match l with
  | [] => false
  | y :: l' => if Nat.eqb x y then true else mem_nat x l'
  end.

Definition init (c : cfg) : state :=
  match how c with
  | CIter =>
      {| permits := Z.of_nat (max0 c); closed := false; queue := [];
         spermits := 0; sclosed := false; squeue := [];
         vec := rev (seq 0 (max0 c)); size := Z.of_nat (max0 c); avail := Z.of_nat (max0 c);
         tasks := []; out := []; loose := []; dead := []; gone := [];
         next_oid := max0 c; log := []; timed := [] |}
  | _ =>
      {| permits := 0; closed := false; queue := [];
         spermits := Z.of_nat (max0 c); sclosed := false; squeue := [];
         vec := []; size := 0; avail := 0;
         tasks := []; out := []; loose := []; dead := []; gone := [];
         next_oid := 0; log := []; timed := [] |}
  end.

(* ------------------------------------------------------------------ the semaphores *)
(* Semaphore::add_permits(1): the oldest waiter is served before the counter *)
Definition sem_add (s : state) : state :=
  match queue s with
  | [] => set_permits s (permits s + 1)
  | w :: q =>
      match pcof s w with
      | GWait rm _ => setpc (set_queue s q) w (GWait rm true)
      | _ => set_queue s q   (* unreachable: see the queue invariant *)
      end
  end.

Definition ssem_add (s : state) : state :=
  match squeue s with
  | [] => set_spermits s (spermits s + 1)
  | w :: q =>
      match pcof s w with
      | AWait o _ => setpc (set_squeue s q) w (AWait o true)
      | _ => set_squeue s q
      end
  end.

(* ------------------------------------------------------------------ helpers *)
Fixpoint emit_destroyed (t : nat) (l : list nat) (s : state) : state :=
  match l with
  | [] => s
  | o :: r => emit_destroyed t r (emit s (EDestroy o t))
  end.

(* PoolInner::clear: one lock region; the objects are destroyed oldest first *)
Definition clear (s : state) (t : nat) : state :=
  let v := vec s in
  emit_destroyed t (rev v)
    (set_dead (set_vec (set_avail (set_size s (size s - zlen v)) (avail s - zlen v)) [])
              (v ++ dead s)).

(* add / try_add answer Err((object, r)) *)
Definition hand_back (s : state) (t : nat) (o : nat) (r : res) : state :=
  setpc (emit (set_loose s (o :: loose s)) (EHandBack o t r)) t (PDone r).

(* the get family obtained object [o] *)
Definition finish_get (s : state) (t : nat) (rm : bool) (o : nat) : state :=
  if rm then setpc s t (TSize o ROk)
  else setpc (emit (set_out s (o :: out s)) (EHandOut o t)) t (PDone ROk).

(* a timeout_get fails with [r]: the reservation in [avail] is given back in the next step;
   try_get just returns *)
Definition fail_get (s : state) (t : nat) (w : bool) (r : res) : state :=
  if w then setpc s t (UAvail r) else setpc s t (PDone r).

Definition sel_kind (c : cfg) (k : gsel) : gkind :=
  match k with
  | SGet => KTimed (ptmo c)
  | STry => KTry
  | STimeout e => KTimed e
  end.

(* ------------------------------------------------------------------ Start *)
Definition start (c : cfg) (s : state) (t : nat) (o : op) : option state :=
  if negb (Nat.eqb t (length (tasks s))) then None else
  match o with
  | OpGet k rm => Some (setpc s t (GStart (sel_kind c k) rm))
  | OpAdd x b =>
      if mem_nat x (loose s) then Some (setpc (set_loose s (remove_nat x (loose s))) t (AStart x b))
      else if Nat.eqb x (next_oid s) then Some (setpc (set_next_oid s (S (next_oid s))) t (AStart x b))
      else None
  | OpDrop x =>
      if mem_nat x (out s) then Some (setpc (set_out s (remove_nat x (out s))) t (DStart x)) else None
  | OpTake x =>
      if mem_nat x (out s) then Some (setpc (set_out s (remove_nat x (out s))) t (TStart x)) else None
  | OpClose => Some (setpc s t CStart)
  | OpStatus => Some (setpc s t SStart)
  end.

(* ------------------------------------------------------------------ Step *)
(* Semaphore::try_acquire / first poll of acquire on the object semaphore *)
Definition acquire (s : state) (t : nat) (w : bool) (rm : bool) (wait : bool) : state :=
  if closed s then fail_get s t w RClosed
  else if Z.ltb 0 (permits s) then setpc (set_permits s (permits s - 1)) t (GPop w rm)
  else if wait then setpc (set_queue s (queue s ++ [t])) t (GWait rm false)
  else fail_get s t w RTimeout.

Definition status_event (c : cfg) (s : state) (sz : Z) : event :=
  EStatus (Z.of_nat (max0 c)) sz
          (if Z.ltb 0 (avail s) then avail s else 0)
          (if Z.ltb (avail s) 0 then - avail s else 0).

Definition step_task (c : cfg) (s : state) (t : nat) : option state :=
  match pcof s t with
  | GStart KTry rm => Some (acquire s t false rm false)
  | GStart (KTimed e) rm => Some (setpc (set_avail s (avail s - 1)) t (GAcq e rm))
  | GAcq TNone rm => Some (acquire s t true rm true)
  | GAcq TZero rm => Some (acquire s t true rm false)
  | GAcq TFin rm =>
      (* runtime.timeout(d, semaphore.acquire()): the first poll is the one of acquire() *)
      if rt c then Some (acquire (set_timed s (t :: timed s)) t true rm true)
      else Some (setpc s t (UAvail RNoRuntime))
  | GWait rm a =>
      if closed s then
        (* a closed semaphore fails the poll; an assigned permit goes back to the counter *)
        Some (setpc (if a then set_permits s (permits s + 1) else s) t (UAvail RClosed))
      else if a then Some (setpc s t (GPop true rm))
      else Some s
  | GPop w rm =>
      match vec s with
      | [] => Some (setpc s t (GPopped w rm None))
      | o :: v => Some (setpc (set_vec s v) t (GPopped w rm (Some o)))
      end
  | GPopped w rm None => Some (fail_get (sem_add s) t w RClosed)   (* the permit is dropped *)
  | GPopped w rm (Some o) =>
      Some (finish_get (if w then s else set_avail s (avail s - 1)) t rm o)
  | UAvail r => Some (setpc (set_avail s (avail s + 1)) t (PDone r))
  | TStart o => Some (setpc s t (TSize o RUnit))
  | TSize o r => Some (setpc (set_size s (size s - 1)) t (TPermit o r))
  | TPermit o r =>
      let s1 := ssem_add s in
      Some (setpc (emit (set_loose s1 (o :: loose s1)) (ERemoved o t)) t (PDone r))
  | DStart o =>
      (* Object::drop, one lock region: a closed pool takes nothing back - the object is destroyed by the
         returning thread; an open pool queues it *)
      if closed s then
        Some (setpc (emit_destroyed t [o] (set_dead (set_size s (size s - 1)) (o :: dead s))) t (PDone RUnit))
      else Some (setpc (set_vec s (o :: vec s)) t DAvail)
  | DAvail => Some (setpc (set_avail s (avail s + 1)) t DPermit)
  | DPermit => Some (setpc (sem_add s) t DCheck)
  | DCheck => if closed s then Some (setpc s t DClear) else Some (setpc s t (PDone RUnit))
  | DClear => Some (setpc (clear s t) t (PDone RUnit))
  | AStart o b =>
      if sclosed s then Some (hand_back s t o RClosed)
      else if Z.ltb 0 (spermits s) then Some (setpc (set_spermits s (spermits s - 1)) t (APush o))
      else if b then Some (setpc (set_squeue s (squeue s ++ [t])) t (AWait o false))
      else Some (hand_back s t o RTimeout)
  | AWait o a =>
      if sclosed s then
        Some (hand_back (if a then set_spermits s (spermits s + 1) else s) t o RClosed)
      else if a then Some (setpc s t (APush o))
      else Some s
  | APush o =>
      if closed s then Some (hand_back s t o RClosed)
      else Some (setpc (set_size (set_vec s (o :: vec s)) (size s + 1)) t AAvail)
  | AAvail => Some (setpc (set_avail s (avail s + 1)) t APermit)
  | APermit => Some (setpc (sem_add s) t (PDone ROk))
  | CStart => Some (setpc (set_queue (set_closed s true) []) t CSize)
  | CSize => Some (setpc (set_squeue (set_sclosed s true) []) t CClear)
  | CClear => Some (setpc (emit (clear s t) (ECloseDone t)) t (PDone RUnit))
  | SStart => Some (setpc s t (SAvail (size s)))
  | SAvail sz => Some (setpc (emit s (status_event c s sz)) t (PDone RUnit))
  | PNone | PDone _ => None
  end.

(* ------------------------------------------------------------------ Cancel *)
(* the caller drops the future of a parked get / add (Acquire::drop): an unassigned waiter
   leaves the queue, an assigned permit is passed on *)
Definition cancel_task (c : cfg) (s : state) (t : nat) : option state :=
  match pcof s t with
  | GWait rm a =>
      Some (setpc (if a then sem_add s else set_queue s (remove_nat t (queue s))) t (UAvail RCancelled))
  | AWait o a =>
      let s1 := if a then ssem_add s else set_squeue s (remove_nat t (squeue s)) in
      (* the object was owned by the future: its caller destroyed it *)
      Some (setpc (emit (set_gone s1 (o :: gone s1)) (EDestroy o t)) t (PDone RCancelled))
  | _ => None
  end.

(* ------------------------------------------------------------------ Fire *)
(* the deadline of a timed call has passed and the call is polled: Timeout::poll polls the
   acquire() first, so a permit that was assigned (or a close) in the meantime still wins; a
   call that is still waiting leaves the queue (Acquire::drop) and answers Timeout *)
Definition fire_task (c : cfg) (s : state) (t : nat) : option state :=
  if negb (rt c && mem_nat t (timed s)) then None else
  match pcof s t with
  | GWait rm a =>
      if closed s || a then step_task c s t
      else Some (setpc (set_queue s (remove_nat t (queue s))) t (UAvail RTimeout))
  | _ => None
  end.

Definition step (c : cfg) (s : state) (l : label) : option state :=
  match l with
  | Start t o => start c s t o
  | Step t => step_task c s t
  | Cancel t => cancel_task c s t
  | Fire t => fire_task c s t
  | Mark _ => Some s
  end.

Fixpoint run (c : cfg) (s : state) (tr : list label) : option state :=
  match tr with
  | [] => Some s
  | l :: tr' => match step c s l with Some s' => run c s' tr' | None => None end
  end.

Definition Reachable (c : cfg) (s : state) : Prop := exists tr, run c (init c) tr = Some s.
