(* Both wait queue invariants are preserved by every label. *)
From Coq Require Import List ZArith Lia Bool Arith.
From DP Require Import Common.Tab Unmanaged.Model Unmanaged.Contrib Unmanaged.Simp Unmanaged.InvQ
  Unmanaged.Effects.
Import ListNotations.
Open Scope Z_scope.

Lemma GQ_plain s X t p :
  GQ s -> queue X = queue s -> permits X = permits s -> closed X = closed s -> tasks X = tasks s ->
  waiting_pc (pcof s t) = false -> waiting_pc p = false -> GQ (setpc X t p).
Proof.
  intros G H1 H2 H3 H4 Hw Hp. apply GQ_setpc with (s := s); try assumption.
  apply GQ_same with s; assumption.
Qed.

Lemma SQ_plain s X t p :
  SQ s -> squeue X = squeue s -> spermits X = spermits s -> sclosed X = sclosed s -> tasks X = tasks s ->
  swaiting_pc (pcof s t) = false -> swaiting_pc p = false -> SQ (setpc X t p).
Proof.
  intros G H1 H2 H3 H4 Hw Hp. apply SQ_setpc with (s := s); try assumption.
  apply SQ_same with s; assumption.
Qed.

Definition QQ (s : state) : Prop := GQ s /\ SQ s.

Lemma QQ_init c : QQ (init c).
Proof. split; [apply GQ_init|apply SQ_init]. Qed.

(* goal: QQ (setpc X t p), X = s changed in fields the queue invariants do not read *)
Ltac qq_plain s G S Hpc :=
  split;
  [ apply GQ_plain with (s := s); sp; try reflexivity; try exact G; try (rewrite Hpc; reflexivity)
  | apply SQ_plain with (s := s); sp; try reflexivity; try exact S; try (rewrite Hpc; reflexivity) ].

(* goal: QQ (setpc (Y (sem_add s)) t p) *)
Ltac qq_sem s G S Hpc :=
  split;
  [ apply GQ_plain with (s := sem_add s); sp; try reflexivity;
    [ apply GQ_sem_add; exact G
    | rewrite pcof_sem_add; [rewrite Hpc; reflexivity|exact G|rewrite Hpc; reflexivity] ]
  | apply SQ_plain with (s := sem_add s); sp; try reflexivity;
    [ apply SQ_sem_add; assumption
    | rewrite pcof_sem_add; [rewrite Hpc; reflexivity|exact G|rewrite Hpc; reflexivity] ] ].

Ltac qq_ssem s G S Hpc :=
  split;
  [ apply GQ_plain with (s := ssem_add s); sp; try reflexivity;
    [ apply GQ_ssem_add; assumption
    | rewrite pcof_ssem_add; [rewrite Hpc; reflexivity|exact S|rewrite Hpc; reflexivity] ]
  | apply SQ_plain with (s := ssem_add s); sp; try reflexivity;
    [ apply SQ_ssem_add; exact S
    | rewrite pcof_ssem_add; [rewrite Hpc; reflexivity|exact S|rewrite Hpc; reflexivity] ] ].

Lemma QQ_clear s t t' p X :
  GQ s -> SQ s -> waiting_pc (pcof s t') = false -> swaiting_pc (pcof s t') = false ->
  waiting_pc p = false -> swaiting_pc p = false ->
  queue X = queue (clear s t) -> permits X = permits (clear s t) -> closed X = closed (clear s t) ->
  squeue X = squeue (clear s t) -> spermits X = spermits (clear s t) -> sclosed X = sclosed (clear s t) ->
  tasks X = tasks (clear s t) ->
  QQ (setpc X t' p).
Proof.
  intros G S Hw Hsw Hp Hsp E1 E2 E3 E4 E5 E6 E7.
  destruct (clear_fields s t) as (F1&F2&F3&F4&F5&F6&F7&F8&F9&F10&_).
  split.
  - apply GQ_plain with (s := s); try assumption; congruence.
  - apply SQ_plain with (s := s); try assumption; congruence.
Qed.

Lemma QQ_acquire s t w rm wait :
  GQ s -> SQ s -> waiting_pc (pcof s t) = false -> swaiting_pc (pcof s t) = false ->
  QQ (acquire s t w rm wait).
Proof.
  intros G S Hw Hsw. unfold acquire, fail_get.
  assert (Hplain : forall p, waiting_pc p = false -> swaiting_pc p = false -> QQ (setpc s t p)).
  { intros p H1 H2. split; [apply GQ_plain with (s := s)|apply SQ_plain with (s := s)]; auto. }
  destruct (closed s) eqn:Ec; [destruct w; apply Hplain; reflexivity|].
  destruct (Z.ltb 0 (permits s)) eqn:Ep.
  - apply Z.ltb_lt in Ep. split.
    + apply GQ_setpc with (s := s); [apply GQ_take; assumption|reflexivity|exact Hw|reflexivity].
    + apply SQ_plain with (s := s); auto.
  - apply Z.ltb_ge in Ep. destruct wait; [|destruct w; apply Hplain; reflexivity]. split.
    + apply GQ_enqueue; assumption.
    + apply SQ_plain with (s := s); auto.
Qed.

Lemma QQ_step_task c s t s' : QQ s -> step_task c s t = Some s' -> QQ s'.
Proof.
  intros [G S] H.
    unfold step_task in H.
    destruct (pcof s t) as [|k rm|e rm|rm a|w rm|w rm o|r|o|o r|o r|o| | | | |o b|o a|o| | | | | | |sz|r] eqn:Hpc;
      try discriminate H.
    + (* GStart *)
      destruct k as [|e]; inversion H; subst.
      * apply QQ_acquire; try assumption; rewrite Hpc; reflexivity.
      * qq_plain s G S Hpc.
    + (* GAcq *)
      destruct e; [| |destruct (rt c)]; inversion H; subst;
        [apply QQ_acquire; try assumption; rewrite Hpc; reflexivity..| |qq_plain s G S Hpc].
      apply QQ_acquire; [apply GQ_same with s|apply SQ_same with s|..]; try assumption; try reflexivity;
        change (pcof (set_timed s (t :: timed s)) t) with (pcof s t); rewrite Hpc; reflexivity.
    + (* GWait *)
      destruct (closed s) eqn:Ec.
      * inversion H; subst. split.
        -- apply GQ_setpc_closed; [|destruct a; sp; exact Ec|reflexivity].
           destruct a; [|exact G]. apply GQ_permits_closed; [exact G|exact Ec|]. pose proof (q_pnn _ G). lia.
        -- apply SQ_plain with (s := s); destruct a; sp; try reflexivity; try exact S; rewrite Hpc; reflexivity.
      * destruct a; inversion H; subst; [qq_plain s G S Hpc|split; assumption].
    + (* GPop *) destruct (vec s); inversion H; subst; qq_plain s G S Hpc.
    + (* GPopped *)
      destruct o as [o|]; inversion H; subst.
      * unfold finish_get. destruct w, rm; qq_plain s G S Hpc.
      * unfold fail_get. destruct w; qq_sem s G S Hpc.
    + (* UAvail *) inversion H; subst. qq_plain s G S Hpc.
    + (* TStart *) inversion H; subst. qq_plain s G S Hpc.
    + (* TSize *) inversion H; subst. qq_plain s G S Hpc.
    + (* TPermit *) inversion H; subst. qq_ssem s G S Hpc.
    + (* DStart *) destruct (closed s); inversion H; subst; cbn [emit_destroyed]; qq_plain s G S Hpc.
    + (* DAvail *) inversion H; subst. qq_plain s G S Hpc.
    + (* DPermit *) inversion H; subst. qq_sem s G S Hpc.
    + (* DCheck *) destruct (closed s); inversion H; subst; qq_plain s G S Hpc.
    + (* DClear *)
      inversion H; subst. apply QQ_clear with (s := s) (t := t); try assumption; try reflexivity;
        rewrite Hpc; reflexivity.
    + (* AStart *)
      unfold hand_back in H. destruct (sclosed s) eqn:Ec; [inversion H; subst; qq_plain s G S Hpc|].
      destruct (Z.ltb 0 (spermits s)) eqn:Ep.
      * apply Z.ltb_lt in Ep. inversion H; subst. split.
        -- apply GQ_plain with (s := s); sp; try reflexivity; try exact G; rewrite Hpc; reflexivity.
        -- apply SQ_setpc with (s := s); [apply SQ_take; assumption|reflexivity|rewrite Hpc; reflexivity|reflexivity].
      * apply Z.ltb_ge in Ep. destruct b; inversion H; subst; [|qq_plain s G S Hpc]. split.
        -- apply GQ_plain with (s := s); sp; try reflexivity; try exact G; rewrite Hpc; reflexivity.
        -- apply SQ_enqueue; try assumption. rewrite Hpc. reflexivity.
    + (* AWait *)
      unfold hand_back in H. destruct (sclosed s) eqn:Ec.
      * inversion H; subst. split.
        -- apply GQ_plain with (s := s); destruct a; sp; try reflexivity; try exact G; rewrite Hpc; reflexivity.
        -- apply SQ_setpc_closed; [|destruct a; sp; exact Ec|reflexivity].
           apply SQ_same with (if a then set_spermits s (spermits s + 1) else s); destruct a; sp; try reflexivity; try exact S.
           apply SQ_permits_closed; [exact S|exact Ec|]. pose proof (sq_pnn _ S). lia.
      * destruct a; inversion H; subst; [qq_plain s G S Hpc|split; assumption].
    + (* APush *)
      unfold hand_back in H. destruct (closed s); inversion H; subst; qq_plain s G S Hpc.
    + (* AAvail *) inversion H; subst. qq_plain s G S Hpc.
    + (* APermit *) inversion H; subst. qq_sem s G S Hpc.
    + (* CStart *)
      inversion H; subst. split.
      * apply GQ_setpc with (s := s); [apply GQ_close; exact G|reflexivity|rewrite Hpc; reflexivity|reflexivity].
      * apply SQ_plain with (s := s); sp; try reflexivity; try exact S; rewrite Hpc; reflexivity.
    + (* CSize *)
      inversion H; subst. split.
      * apply GQ_plain with (s := s); sp; try reflexivity; try exact G; rewrite Hpc; reflexivity.
      * apply SQ_setpc with (s := s); [apply SQ_close; exact S|reflexivity|rewrite Hpc; reflexivity|reflexivity].
    + (* CClear *)
      inversion H; subst. apply QQ_clear with (s := s) (t := t); try assumption; try reflexivity;
        rewrite Hpc; reflexivity.
    + (* SStart *) inversion H; subst. qq_plain s G S Hpc.
    + (* SAvail *) inversion H; subst. qq_plain s G S Hpc.
Qed.

Theorem QQ_step c s l s' : QQ s -> step c s l = Some s' -> QQ s'.
Proof.
  intros [G S] H. destruct l as [t o|t|t|t|n]; cbn [step] in H.
  - (* Start *)
    unfold start in H. destruct (Nat.eqb t (length (tasks s))) eqn:Et; cbn [negb] in H; [|discriminate].
    pose proof (pcof_fresh s t Et) as Hpc.
    destruct o as [k rm|x b|x|x| | ].
    + inversion H; subst. qq_plain s G S Hpc.
    + destruct (mem_nat x (loose s)); [|destruct (Nat.eqb x (next_oid s))]; inversion H; subst;
        qq_plain s G S Hpc.
    + destruct (mem_nat x (out s)); inversion H; subst. qq_plain s G S Hpc.
    + destruct (mem_nat x (out s)); inversion H; subst. qq_plain s G S Hpc.
    + inversion H; subst. qq_plain s G S Hpc.
    + inversion H; subst. qq_plain s G S Hpc.
  - (* Step *) eapply QQ_step_task; [split; eassumption|exact H].
  - (* Cancel *)
    unfold cancel_task in H.
    destruct (pcof s t) as [|k rm|e rm|rm a|w rm|w rm o|r|o|o r|o r|o| | | | |o b|o a|o| | | | | | |sz|r] eqn:Hpc;
      try discriminate H.
    + (* GWait *)
      inversion H; subst. destruct a.
      * qq_sem s G S Hpc.
      * split; [apply GQ_leave; [exact G|reflexivity]|].
        apply SQ_plain with (s := s); sp; try reflexivity; try exact S; rewrite Hpc; reflexivity.
    + (* AWait *)
      inversion H; subst. destruct a.
      * qq_ssem s G S Hpc.
      * split.
        -- apply GQ_plain with (s := s); sp; try reflexivity; try exact G; rewrite Hpc; reflexivity.
        -- apply SQ_same with (setpc (set_squeue s (remove_nat t (squeue s))) t (PDone RCancelled));
             sp; try reflexivity. apply SQ_leave; [exact S|reflexivity].
  - (* Fire *)
    unfold fire_task in H. destruct (negb (rt c && mem_nat t (timed s))); [discriminate|].
    destruct (pcof s t) as [|k rm|e rm|rm a|w rm|w rm o|r|o|o r|o r|o| | | | |o b|o a|o| | | | | | |sz|r] eqn:Hpc;
      try discriminate H.
    destruct (closed s || a) eqn:Eca.
    + eapply QQ_step_task; [split; eassumption|exact H].
    + apply orb_false_elim in Eca. destruct Eca as [_ ->]. inversion H; subst.
      split; [apply GQ_leave; [exact G|reflexivity]|].
      apply SQ_plain with (s := s); sp; try reflexivity; try exact S; rewrite Hpc; reflexivity.
  - inversion H; subst. split; assumption.
Qed.
