(* Simplification support: projections of the setters, pcof/setpc, sums over the task table,
   lengths and occurrence counts. *)
From Coq Require Import List ZArith Lia Bool Arith.
From DP Require Import Common.Tab Unmanaged.Model Unmanaged.Contrib.
Import ListNotations.
Open Scope Z_scope.

Ltac sp :=
  cbn [permits closed queue spermits sclosed squeue vec size avail tasks out loose dead gone
       next_oid log timed
       set_permits set_closed set_queue set_spermits set_sclosed set_squeue set_vec set_size
       set_avail set_tasks set_out set_loose set_dead set_gone set_next_oid set_log set_timed
       setpc emit] in *.

Ltac splits := repeat match goal with |- _ /\ _ => split end.

Lemma pcof_setpc_same s t p : pcof (setpc s t p) t = p.
Proof. unfold pcof, setpc. sp. apply get_upd_same. Qed.

Lemma pcof_setpc_other s t t' p : t <> t' -> pcof (setpc s t p) t' = pcof s t'.
Proof. intros H. unfold pcof, setpc. sp. apply get_upd_other. exact H. Qed.

Lemma sum_setpc f s t p : f PNone = 0 ->
  sum f (tasks (setpc s t p)) = sum f (tasks s) - f (pcof s t) + f p.
Proof. intros H. unfold setpc, pcof. sp. apply sum_upd. exact H. Qed.

Lemma pcof_fresh s t : Nat.eqb t (length (tasks s)) = true -> pcof s t = PNone.
Proof. intros H. apply Nat.eqb_eq in H. unfold pcof. apply get_beyond. lia. Qed.

(* a task's own contribution is part of the sum *)
Lemma sum_ge_one f l t : (forall x, 0 <= f x) -> f PNone = 0 -> f (get PNone t l) <= sum f l.
Proof.
  intros Hn H0. pose proof (sum_upd PNone f t PNone l H0) as E.
  pose proof (sum_nonneg f (upd PNone t PNone l) Hn). lia.
Qed.

Lemma zlen_cons {A} (x : A) l : zlen (x :: l) = zlen l + 1.
Proof. unfold zlen. cbn [length]. lia. Qed.
Lemma zlen_nil {A} : zlen (@nil A) = 0. Proof. reflexivity. Qed.
Lemma zlen_app {A} (l1 l2 : list A) : zlen (l1 ++ l2) = zlen l1 + zlen l2.
Proof. unfold zlen. rewrite app_length. lia. Qed.
Lemma zlen_nonneg {A} (l : list A) : 0 <= zlen l. Proof. unfold zlen. lia. Qed.
Lemma zlen_zero {A} (l : list A) : zlen l = 0 -> l = [].
Proof. destruct l; [reflexivity|]. rewrite zlen_cons. pose proof (zlen_nonneg l). lia. Qed.

(* ---------- membership, removal, occurrences *)
Lemma mem_nat_in x l : mem_nat x l = true <-> In x l.
Proof.
  induction l as [|y l IH]; cbn [mem_nat In]; [split; [discriminate|tauto]|].
  destruct (Nat.eqb x y) eqn:E.
  - apply Nat.eqb_eq in E. subst. tauto.
  - apply Nat.eqb_neq in E. rewrite IH. split; [tauto|]. intros [H|H]; [congruence|exact H].
Qed.

Lemma zlen_remove_nat x l : mem_nat x l = true -> zlen (remove_nat x l) = zlen l - 1.
Proof.
  induction l as [|y l IH]; cbn [mem_nat remove_nat]; [discriminate|].
  destruct (Nat.eqb x y); intros H.
  - rewrite zlen_cons. lia.
  - rewrite !zlen_cons, IH by exact H. lia.
Qed.

Lemma occ_remove_nat o x l : mem_nat x l = true ->
  occ o (remove_nat x l) = occ o l - (if Nat.eqb x o then 1 else 0).
Proof.
  induction l as [|y l IH]; cbn [mem_nat remove_nat occ]; [discriminate|].
  destruct (Nat.eqb x y) eqn:E; intros H.
  - apply Nat.eqb_eq in E. subst. lia.
  - cbn [occ]. rewrite IH by exact H. lia.
Qed.

Lemma occ_app o l1 l2 : occ o (l1 ++ l2) = occ o l1 + occ o l2.
Proof. induction l1 as [|x l IH]; cbn [occ app]; lia. Qed.

Lemma occ_rev o l : occ o (rev l) = occ o l.
Proof. induction l as [|x l IH]; cbn [occ rev]; [reflexivity|]. rewrite occ_app, IH. cbn [occ]. lia. Qed.

Lemma occ_seq o a n : occ o (seq a n) = if (Nat.leb a o && Nat.ltb o (a + n))%bool then 1 else 0.
Proof.
  revert a; induction n as [|n IH]; intros a; cbn [seq occ].
  - destruct (Nat.leb a o) eqn:E1; destruct (Nat.ltb o (a + 0)) eqn:E2; cbn; try reflexivity.
    apply Nat.leb_le in E1. apply Nat.ltb_lt in E2. lia.
  - rewrite IH.
    destruct (Nat.eqb a o) eqn:E0; destruct (Nat.leb (S a) o) eqn:E1; destruct (Nat.ltb o (S a + n)) eqn:E2;
      destruct (Nat.leb a o) eqn:E3; destruct (Nat.ltb o (a + S n)) eqn:E4; cbn; try reflexivity;
      repeat match goal with
             | H : Nat.eqb _ _ = true |- _ => apply Nat.eqb_eq in H
             | H : Nat.eqb _ _ = false |- _ => apply Nat.eqb_neq in H
             | H : Nat.leb _ _ = true |- _ => apply Nat.leb_le in H
             | H : Nat.leb _ _ = false |- _ => apply Nat.leb_gt in H
             | H : Nat.ltb _ _ = true |- _ => apply Nat.ltb_lt in H
             | H : Nat.ltb _ _ = false |- _ => apply Nat.ltb_ge in H
             end; lia.
Qed.

Lemma occ_zero_not_in o l : occ o l = 0 -> ~ In o l.
Proof.
  induction l as [|x l IH]; cbn [occ In]; [tauto|].
  destruct (Nat.eqb x o) eqn:E; intros H.
  - pose proof (occ_nonneg o l). lia.
  - apply Nat.eqb_neq in E. intros [K|K]; [congruence|]. apply IH; [lia|exact K].
Qed.

Lemma occ_in_pos o l : In o l -> 1 <= occ o l.
Proof.
  induction l as [|x l IH]; cbn [occ In]; [tauto|]. pose proof (occ_nonneg o l).
  intros [->|K]; [rewrite Nat.eqb_refl; lia|]. specialize (IH K). destruct (Nat.eqb x o); lia.
Qed.

(* every element at most once = no duplicates *)
Lemma occ_le_one_nodup l : (forall o, occ o l <= 1) -> NoDup l.
Proof.
  induction l as [|x l IH]; intros H; [constructor|]. constructor.
  - intros Hin. pose proof (occ_in_pos _ _ Hin). specialize (H x). cbn [occ] in H.
    rewrite Nat.eqb_refl in H. lia.
  - apply IH. intros o. specialize (H o). cbn [occ] in H. destruct (Nat.eqb x o); lia.
Qed.
