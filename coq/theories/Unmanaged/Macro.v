(* Task-level execution of the unmanaged pool: a label is applied and then every task that can
   run without outside help is run until all are parked on a semaphore or finished. This is
   what an async runtime does between two external events; it is by definition a sequence of
   thread-level steps, so every invariant holds along it. Used by the virtual-clock harness
   (h2_unmanaged), which is what ties the runtime-timer arm of timeout_get to the code. *)
From Coq Require Import List ZArith Lia Bool Arith.
From DP Require Import Common.Tab Unmanaged.Model Unmanaged.Obs Unmanaged.Decode.
Import ListNotations.
Open Scope Z_scope.

(* can task t run by itself? *)
Definition auto_of (s : state) (p : pc) : bool :=
  match p with
  | PNone | PDone _ => false
  | GWait _ a => a || closed s
  | AWait _ a => a || sclosed s
  | _ => true
  end.

Fixpoint first_auto (s : state) (l : list pc) (i : nat) : option nat :=
  match l with
  | [] => None
  | p :: r => if auto_of s p then Some i else first_auto s r (S i)
  end.

(* the task the label is about is being polled right now: it runs until it blocks before any
   task it woke gets its turn; the others run in index order *)
Definition next_auto (s : state) (pri : nat) : option nat :=
  if auto_of s (pcof s pri) then Some pri else first_auto s (tasks s) 0.

Fixpoint settle (c : cfg) (fuel : nat) (pri : nat) (s : state) : option state :=
  match fuel with
  | O => None                                      (* out of fuel: reported as divergence *)
  | S f =>
      match next_auto s pri with
      | None => Some s
      | Some t => match step c s (Step t) with Some s' => settle c f pri s' | None => None end
      end
  end.

Definition macro_fuel : nat := 400.

Definition label_pri (l : label) : nat :=
  match l with Start t _ | Step t | Cancel t | Fire t => t | Mark _ => 0 end.

Definition macro (c : cfg) (s : state) (l : label) : option state :=
  match step c s l with
  | Some s' => settle c macro_fuel (label_pri l) s'
  | None => None
  end.

Fixpoint run_obs_macro (c : cfg) (s : state) (tr : list label) : list Z :=
  match tr with
  | [] => []
  | l :: tr' =>
      match macro c s l with
      | Some s' =>
          let o := obs c (length (log s)) s' in
          n2z (length o) :: o ++ run_obs_macro c s' tr'
      | None => [-1]
      end
  end.

Definition run_case_macro_z (x : list Z * list (list Z)) : list Z :=
  let c := dec_cfg (fst x) in run_obs_macro c (init c) (map dec_label (snd x)).

(* a macro run is a thread-level run *)
Fixpoint settle_trace (c : cfg) (fuel : nat) (pri : nat) (s : state) : list label :=
  match fuel with
  | O => []
  | S f =>
      match next_auto s pri with
      | None => []
      | Some t => Step t :: match step c s (Step t) with Some s' => settle_trace c f pri s' | None => [] end
      end
  end.

Lemma settle_is_run c pri : forall fuel s s',
  settle c fuel pri s = Some s' -> run c s (settle_trace c fuel pri s) = Some s'.
Proof.
  induction fuel as [|f IH]; intros s s' H; cbn [settle settle_trace] in *; [discriminate|].
  destruct (next_auto s pri) as [t|]; [|inversion H; reflexivity].
  destruct (step c s (Step t)) as [s1|] eqn:E; [|discriminate]. cbn [run]. rewrite E. apply IH, H.
Qed.

Theorem macro_is_run c s l s' :
  macro c s l = Some s' -> exists tr, run c s (l :: tr) = Some s'.
Proof.
  unfold macro. generalize macro_fuel. intros fuel.
  destruct (step c s l) as [s1|] eqn:E; [|discriminate]. intros H.
  exists (settle_trace c fuel (label_pri l) s1). cbn [run]. rewrite E. apply settle_is_run, H.
Qed.

Lemma run_app c : forall tr1 s s1 tr2,
  run c s tr1 = Some s1 -> run c s (tr1 ++ tr2) = run c s1 tr2.
Proof.
  induction tr1 as [|l tr1 IH]; intros s s1 tr2 H; cbn [run app] in *.
  - inversion H; reflexivity.
  - destruct (step c s l) as [s'|]; [|discriminate]. apply IH, H.
Qed.

(* whatever is reached by task-level labels is reachable in the thread-level model *)
Fixpoint run_macro (c : cfg) (s : state) (tr : list label) : option state :=
  match tr with
  | [] => Some s
  | l :: tr' => match macro c s l with Some s' => run_macro c s' tr' | None => None end
  end.

Theorem run_macro_reachable c : forall tr s s',
  Reachable c s -> run_macro c s tr = Some s' -> Reachable c s'.
Proof.
  induction tr as [|l tr IH]; intros s s' R H; cbn [run_macro] in H.
  - inversion H; subst. exact R.
  - destruct (macro c s l) as [s1|] eqn:E; [|discriminate].
    apply (IH s1 s'); [|exact H].
    destruct R as [tr0 R]. destruct (macro_is_run _ _ _ _ E) as [tr1 R1].
    exists (tr0 ++ l :: tr1). rewrite (run_app c tr0 _ s _ R). exact R1.
Qed.
