(* Per-task contributions to the pool's counters. Each function says what a task that sits
   at a given program counter holds or still owes. *)
From Coq Require Import List ZArith Lia Bool Arith.
From DP Require Import Common.Tab Unmanaged.Model.
Import ListNotations.
Open Scope Z_scope.

(* holds a permit of the object semaphore and has not popped yet *)
Definition hp (p : pc) : Z :=
  match p with GWait _ true | GPop _ _ => 1 | _ => 0 end.

(* has pushed an object and not yet released its permit *)
Definition pp (p : pc) : Z :=
  match p with DAvail | DPermit | AAvail | APermit => 1 | _ => 0 end.

(* holds (or owes) a slot of the size semaphore that [size] does not show *)
Definition hs (p : pc) : Z :=
  match p with AWait _ true | APush _ | TPermit _ _ => 1 | _ => 0 end.

(* holds an object that is counted in [size] *)
Definition cs (p : pc) : Z :=
  match p with GPopped _ _ (Some _) | TStart _ | TSize _ _ | DStart _ => 1 | _ => 0 end.

(* has pushed an object and not yet incremented [avail] *)
Definition pinc (p : pc) : Z :=
  match p with DAvail | AAvail => 1 | _ => 0 end.

(* try_get: has popped an object and not yet decremented [avail] *)
Definition pdec (p : pc) : Z :=
  match p with GPopped false _ (Some _) => 1 | _ => 0 end.

(* timeout_get: its reservation in [avail] is in force *)
Definition wg (p : pc) : Z :=
  match p with
  | GAcq _ _ | GWait _ _ | GPop true _ | GPopped true _ None | UAvail _ => 1
  | _ => 0
  end.

(* will still clear the queue if the pool is closed *)
Definition cl (p : pc) : Z :=
  match p with CSize | CClear | DAvail | DPermit | DCheck | DClear => 1 | _ => 0 end.

(* a getter parked on the object semaphore without a permit *)
Definition nw (p : pc) : Z :=
  match p with GWait _ false => 1 | _ => 0 end.

(* is in progress: neither finished nor parked without a permit *)
Definition busy (p : pc) : Z :=
  match p with PNone | PDone _ | GWait _ false | AWait _ false => 0 | _ => 1 end.

(* has object [o] in its hands *)
Definition holds (o : nat) (p : pc) : Z :=
  match p with
  | GPopped _ _ (Some x) | TStart x | TSize x _ | TPermit x _ | DStart x
  | AStart x _ | AWait x _ | APush x => if Nat.eqb x o then 1 else 0
  | _ => 0
  end.

(* number of occurrences *)
Fixpoint occ (o : nat) (l : list nat) : Z :=
  match l with
  | [] => 0
  | x :: l' => (if Nat.eqb x o then 1 else 0) + occ o l'
  end.

Ltac pc_cases p :=
  destruct p; cbn;
  repeat match goal with
         | |- context [match ?b with _ => _ end] => destruct b
         | |- context [if ?b then _ else _] => destruct b
         end; lia.

Lemma hp_nonneg p : 0 <= hp p. Proof. pc_cases p. Qed.
Lemma pp_nonneg p : 0 <= pp p. Proof. pc_cases p. Qed.
Lemma hs_nonneg p : 0 <= hs p. Proof. pc_cases p. Qed.
Lemma cs_nonneg p : 0 <= cs p. Proof. pc_cases p. Qed.
Lemma cl_nonneg p : 0 <= cl p. Proof. pc_cases p. Qed.
Lemma nw_nonneg p : 0 <= nw p. Proof. pc_cases p. Qed.
Lemma busy_nonneg p : 0 <= busy p. Proof. pc_cases p. Qed.
Lemma holds_nonneg o p : 0 <= holds o p. Proof. pc_cases p. Qed.
Lemma occ_nonneg o l : 0 <= occ o l.
Proof. induction l as [|x l IH]; cbn [occ]; [lia|]. destruct (Nat.eqb x o); lia. Qed.

(* whoever still has something to do (or owes a clear) is busy *)
Lemma cl_le_busy p : cl p <= busy p. Proof. pc_cases p. Qed.
