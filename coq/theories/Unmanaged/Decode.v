(* Decoding of the harness' integer encoding of configurations and labels. *)
From Coq Require Import List ZArith Lia Bool Arith.
From DP Require Import Common.Tab Unmanaged.Model Unmanaged.Obs.
Import ListNotations.
Open Scope Z_scope.

Definition zn (z : Z) : nat := Z.to_nat z.
Definition nthz (l : list Z) (i : nat) : Z := nth i l 0.

Definition dec_tmo (z : Z) : tmo :=
  if Z.eqb z 0 then TNone else if Z.eqb z 1 then TZero else TFin.

(* cfg = [constructor (0 new, 1 from_config, 2 From<iterator>); max_size; pool timeout; runtime] *)
Definition dec_cfg (l : list Z) : cfg :=
  let k := nthz l 0 in
  {| how := if Z.eqb k 0 then CNew else if Z.eqb k 1 then CConfig else CIter;
     max0 := zn (nthz l 1);
     ptmo := if Z.eqb k 1 then dec_tmo (nthz l 2) else TNone;
     rt := if Z.eqb k 1 then negb (Z.eqb (nthz l 3) 0) else false |}.

(* get modes: 0 get, 1 try_get, 2 timeout_get(None), 3 timeout_get(0), 4 timeout_get(finite) *)
Definition dec_gsel (a : Z) : gsel :=
  if Z.eqb a 0 then SGet else if Z.eqb a 1 then STry else STimeout (dec_tmo (a - 2)).

Definition dec_op (k a b : Z) : op :=
  if Z.eqb k 0 then OpGet (dec_gsel a) (negb (Z.eqb b 0))
  else if Z.eqb k 1 then OpAdd (zn a) (negb (Z.eqb b 0))
  else if Z.eqb k 2 then OpDrop (zn a)
  else if Z.eqb k 3 then OpTake (zn a)
  else if Z.eqb k 4 then OpClose
  else OpStatus.

(* label = [kind; t; a; b; c] *)
Definition dec_label (l : list Z) : label :=
  let k := nthz l 0 in
  let t := zn (nthz l 1) in
  if Z.eqb k 0 then Start t (dec_op (nthz l 2) (nthz l 3) (nthz l 4))
  else if Z.eqb k 1 then Step t
  else if Z.eqb k 3 then Cancel t
  else if Z.eqb k 5 then Fire t
  else Mark t.

Definition run_case_z (x : list Z * list (list Z)) : list Z :=
  run_case (dec_cfg (fst x), map dec_label (snd x)).
