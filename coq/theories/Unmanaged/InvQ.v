(* The wait queue invariants of the two semaphores and the characterisation of
   sem_add / ssem_add (Semaphore::add_permits(1)).
     GQ: the semaphore that carries one permit per queued object; its waiters are getters
     SQ: the size semaphore; its waiters are adders
   Both records have the same shape and the same lemmas. *)
From Coq Require Import List ZArith Lia Bool Arith.
From DP Require Import Common.Tab Unmanaged.Model Unmanaged.Contrib Unmanaged.Simp.
Import ListNotations.
Open Scope Z_scope.

Lemma nodup_snoc (l : list nat) t : NoDup l -> ~ In t l -> NoDup (l ++ [t]).
Proof.
  induction l as [|x l IH]; cbn [app]; intros Hd Hn.
  - constructor; [intros []|constructor].
  - inversion Hd as [|? ? Hx Hd']; subst. constructor.
    + intros Hin. apply in_app_or in Hin. destruct Hin as [Hin|[->|[]]]; [contradiction|].
      apply Hn. left. reflexivity.
    + apply IH; [exact Hd'|]. intros Hin. apply Hn. right. exact Hin.
Qed.

Lemma in_remove_nat x y l : In x (remove_nat y l) -> In x l.
Proof.
  induction l as [|z l IH]; cbn [remove_nat]; [tauto|].
  destruct (Nat.eqb y z); cbn [In]; tauto.
Qed.

Lemma in_remove_nat_other x y l : x <> y -> In x l -> In x (remove_nat y l).
Proof.
  intros Hne. induction l as [|z l IH]; cbn [remove_nat In]; [tauto|].
  destruct (Nat.eqb y z) eqn:E.
  - apply Nat.eqb_eq in E. subst. intros [H|H]; [congruence|exact H].
  - cbn [In]. tauto.
Qed.

Lemma nodup_remove_nat y l : NoDup l -> NoDup (remove_nat y l).
Proof.
  induction l as [|z l IH]; cbn [remove_nat]; intros H; [constructor|].
  inversion H as [|? ? Hn Hd]; subst. destruct (Nat.eqb y z); [exact Hd|].
  constructor; [|apply IH, Hd]. intros Hin. apply Hn, (in_remove_nat _ _ _ Hin).
Qed.

Lemma not_in_remove_nat y l : NoDup l -> ~ In y (remove_nat y l).
Proof.
  induction l as [|z l IH]; cbn [remove_nat]; intros H; [tauto|].
  inversion H as [|? ? Hn Hd]; subst. destruct (Nat.eqb y z) eqn:E.
  - apply Nat.eqb_eq in E. subst. exact Hn.
  - apply Nat.eqb_neq in E. intros [Hin|Hin]; [congruence|]. apply (IH Hd), Hin.
Qed.

(* ================================================================== object semaphore *)

Definition waiting_pc (p : pc) : bool := match p with GWait _ false => true | _ => false end.

Record GQ (s : state) : Prop := {
  q_pc : forall w, In w (queue s) -> waiting_pc (pcof s w) = true;
  q_nodup : NoDup (queue s);
  q_perm : queue s <> [] -> permits s = 0;
  q_closed : closed s = true -> queue s = [];
  q_pnn : 0 <= permits s;
  q_conv : forall t, waiting_pc (pcof s t) = true -> closed s = false -> In t (queue s)
}.

Lemma GQ_fresh s :
  queue s = [] -> closed s = false -> 0 <= permits s -> tasks s = [] -> GQ s.
Proof.
  intros Hq Hc Hp Ht.
  assert (Hpc : forall t, pcof s t = PNone) by (intros t; unfold pcof; rewrite Ht; destruct t; reflexivity).
  constructor; rewrite ?Hq.
  - intros w [].
  - apply NoDup_nil.
  - intros H. exfalso. apply H. reflexivity.
  - reflexivity.
  - exact Hp.
  - intros t Hw _. rewrite Hpc in Hw. discriminate Hw.
Qed.

Lemma GQ_init c : GQ (init c).
Proof. apply GQ_fresh; unfold init; destruct (how c); cbn; try reflexivity; lia. Qed.

Lemma GQ_same s s' :
  queue s' = queue s -> permits s' = permits s -> closed s' = closed s -> tasks s' = tasks s ->
  GQ s -> GQ s'.
Proof.
  intros Hq Hp Hc Ht [H1 H2 H3 H4 H5 H6].
  constructor; unfold pcof in *; rewrite ?Hq, ?Hp, ?Hc, ?Ht; assumption.
Qed.

Lemma q_not_waiting_not_queued s t : GQ s -> waiting_pc (pcof s t) = false -> ~ In t (queue s).
Proof. intros G H Hin. apply (q_pc _ G) in Hin. congruence. Qed.

Lemma GQ_setpc s0 s t p :
  GQ s0 -> tasks s0 = tasks s -> waiting_pc (pcof s t) = false -> waiting_pc p = false -> GQ (setpc s0 t p).
Proof.
  intros G Ht Hw Hp.
  assert (Hw0 : waiting_pc (pcof s0 t) = false) by (unfold pcof in *; rewrite Ht; exact Hw).
  pose proof (q_not_waiting_not_queued _ _ G Hw0) as Hnq.
  destruct G as [H1 H2 H3 H4 H5 H6].
  constructor; sp; try assumption.
  - intros w Hin. destruct (Nat.eq_dec t w) as [->|Hne]; [contradiction|].
    rewrite pcof_setpc_other by exact Hne. apply H1, Hin.
  - intros t' Hw' Hc. destruct (Nat.eq_dec t t') as [->|Hne].
    + rewrite pcof_setpc_same in Hw'. congruence.
    + rewrite pcof_setpc_other in Hw' by exact Hne. apply H6; assumption.
Qed.

(* on a closed semaphore nobody is queued: any task may move *)
Lemma GQ_setpc_closed s t p :
  GQ s -> closed s = true -> waiting_pc p = false -> GQ (setpc s t p).
Proof.
  intros [H1 H2 H3 H4 H5 H6] Hc Hp. constructor; sp; try assumption.
  - intros w Hin. rewrite (H4 Hc) in Hin. contradiction.
  - intros t' _ Hc'. congruence.
Qed.

Lemma GQ_permits_closed s v : GQ s -> closed s = true -> 0 <= v -> GQ (set_permits s v).
Proof.
  intros [H1 H2 H3 H4 H5 H6] Hc Hv. constructor; sp; try assumption.
  intros Hq. rewrite (H4 Hc) in Hq. contradiction.
Qed.

(* taking a free permit *)
Lemma GQ_take s : GQ s -> 0 < permits s -> GQ (set_permits s (permits s - 1)).
Proof.
  intros [H1 H2 H3 H4 H5 H6] Hp. constructor; sp; try assumption; try lia.
  intros Hq. specialize (H3 Hq). lia.
Qed.

(* closing: the flag is set and everybody is woken *)
Lemma GQ_close s : GQ s -> GQ (set_queue (set_closed s true) []).
Proof.
  intros [H1 H2 H3 H4 H5 H6]. constructor; sp; try assumption.
  - intros w [].
  - constructor.
  - intros H. contradiction.
  - reflexivity.
  - intros t _ Hc. discriminate Hc.
Qed.

(* joining the queue *)
Lemma GQ_enqueue s t x :
  GQ s -> waiting_pc (pcof s t) = false -> closed s = false -> permits s <= 0 ->
  GQ (setpc (set_queue s (queue s ++ [t])) t (GWait x false)).
Proof.
  intros G Hw Hc Hp. pose proof (q_not_waiting_not_queued _ _ G Hw) as Hnq.
  destruct G as [H1 H2 H3 H4 H5 H6]. constructor; sp.
  - intros w Hin. destruct (Nat.eq_dec t w) as [->|Hne].
    + rewrite pcof_setpc_same. reflexivity.
    + rewrite pcof_setpc_other by exact Hne. apply in_app_or in Hin. destruct Hin as [Hin|[->|[]]].
      * apply H1 in Hin. exact Hin.
      * congruence.
  - apply nodup_snoc; assumption.
  - intros _. lia.
  - congruence.
  - exact H5.
  - intros t' Hw' _. apply in_or_app. destruct (Nat.eq_dec t t') as [->|Hne].
    + right. left. reflexivity.
    + left. rewrite pcof_setpc_other in Hw' by exact Hne. apply H6; assumption.
Qed.

(* leaving the queue without a permit (cancelled waiter) *)
Lemma GQ_leave s t p :
  GQ s -> waiting_pc p = false -> GQ (setpc (set_queue s (remove_nat t (queue s))) t p).
Proof.
  intros [H1 H2 H3 H4 H5 H6] Hp. constructor; sp.
  - intros w Hin. destruct (Nat.eq_dec t w) as [->|Hne].
    + exfalso. apply (not_in_remove_nat w (queue s) H2), Hin.
    + rewrite pcof_setpc_other by exact Hne. apply H1. apply (in_remove_nat _ _ _ Hin).
  - apply nodup_remove_nat, H2.
  - intros Hq. apply H3. intros E. rewrite E in Hq. apply Hq. reflexivity.
  - intros Hc. rewrite (H4 Hc). reflexivity.
  - exact H5.
  - intros t' Hw' Hc. destruct (Nat.eq_dec t t') as [->|Hne].
    + rewrite pcof_setpc_same in Hw'. congruence.
    + rewrite pcof_setpc_other in Hw' by exact Hne. apply in_remove_nat_other; [congruence|].
      apply H6; assumption.
Qed.

(* characterisation of sem_add under the queue invariant *)
Lemma sem_add_cases s :
  GQ s ->
  (queue s = [] /\ sem_add s = set_permits s (permits s + 1)) \/
  (exists w q x, queue s = w :: q /\ pcof s w = GWait x false /\ permits s = 0 /\ closed s = false /\
                 sem_add s = setpc (set_queue s q) w (GWait x true)).
Proof.
  intros G. unfold sem_add. destruct (queue s) as [|w q] eqn:E.
  - left. split; reflexivity.
  - right. pose proof (q_pc _ G w) as Hw. rewrite E in Hw. specialize (Hw (or_introl eq_refl)).
    destruct (pcof s w) eqn:Ew; try discriminate Hw.
    match type of Hw with waiting_pc (GWait ?y ?a) = true => destruct a; [discriminate Hw|]; exists w, q, y end.
    split; [reflexivity|]. split; [exact Ew|]. split; [apply (q_perm _ G); rewrite E; discriminate|].
    split; [|reflexivity].
    destruct (closed s) eqn:Ec; [|reflexivity]. pose proof (q_closed _ G Ec). congruence.
Qed.

Lemma GQ_sem_add s : GQ s -> GQ (sem_add s).
Proof.
  intros G. destruct (sem_add_cases s G) as [[Eq ->]|(w & q & x & Eq & Hw & Hp & Hc & ->)].
  - destruct G as [H1 H2 H3 H4 H5 H6]. constructor; sp; try assumption.
    + intros Hq. contradiction.
    + lia.
  - destruct G as [H1 H2 H3 H4 H5 H6]. rewrite Eq in *. inversion H2 as [|? ? Hn Hd]; subst.
    constructor; sp.
    + intros y Hin. destruct (Nat.eq_dec w y) as [->|Hne]; [contradiction|].
      rewrite pcof_setpc_other by exact Hne. apply H1. right. exact Hin.
    + exact Hd.
    + intros _. exact Hp.
    + intros Hc'. congruence.
    + exact H5.
    + intros t' Hw' _. destruct (Nat.eq_dec w t') as [->|Hne].
      * rewrite pcof_setpc_same in Hw'. discriminate Hw'.
      * rewrite pcof_setpc_other in Hw' by exact Hne. destruct (H6 t' Hw' Hc) as [E|Hin]; [congruence|exact Hin].
Qed.

(* tasks that are not parked keep their pc across sem_add *)
Lemma pcof_sem_add s t : GQ s -> waiting_pc (pcof s t) = false -> pcof (sem_add s) t = pcof s t.
Proof.
  intros G Hw. destruct (sem_add_cases s G) as [[Eq ->]|(w & q & x & Eq & Hpw & Hp & Hc & ->)].
  - reflexivity.
  - destruct (Nat.eq_dec w t) as [->|Hne].
    + rewrite Hpw in Hw. discriminate.
    + rewrite pcof_setpc_other by exact Hne. reflexivity.
Qed.

(* sums over the task table: only the contribution of the served waiter changes *)
Lemma sem_add_sum f s :
  f PNone = 0 -> (forall x, f (GWait x true) = f (GWait x false)) -> GQ s ->
  sum f (tasks (sem_add s)) = sum f (tasks s).
Proof.
  intros H0 Hf G. destruct (sem_add_cases s G) as [[Eq ->]|(w & q & x & Eq & Hw & Hp & Hc & ->)].
  - reflexivity.
  - rewrite sum_setpc by exact H0. sp. unfold pcof in *. sp. rewrite Hw, Hf. lia.
Qed.

(* ================================================================== size semaphore *)

Definition swaiting_pc (p : pc) : bool := match p with AWait _ false => true | _ => false end.

Record SQ (s : state) : Prop := {
  sq_pc : forall w, In w (squeue s) -> swaiting_pc (pcof s w) = true;
  sq_nodup : NoDup (squeue s);
  sq_perm : squeue s <> [] -> spermits s = 0;
  sq_closed : sclosed s = true -> squeue s = [];
  sq_pnn : 0 <= spermits s;
  sq_conv : forall t, swaiting_pc (pcof s t) = true -> sclosed s = false -> In t (squeue s)
}.

Lemma SQ_fresh s :
  squeue s = [] -> sclosed s = false -> 0 <= spermits s -> tasks s = [] -> SQ s.
Proof.
  intros Hq Hc Hp Ht.
  assert (Hpc : forall t, pcof s t = PNone) by (intros t; unfold pcof; rewrite Ht; destruct t; reflexivity).
  constructor; rewrite ?Hq.
  - intros w [].
  - apply NoDup_nil.
  - intros H. exfalso. apply H. reflexivity.
  - reflexivity.
  - exact Hp.
  - intros t Hw _. rewrite Hpc in Hw. discriminate Hw.
Qed.

Lemma SQ_init c : SQ (init c).
Proof. apply SQ_fresh; unfold init; destruct (how c); cbn; try reflexivity; lia. Qed.

Lemma SQ_same s s' :
  squeue s' = squeue s -> spermits s' = spermits s -> sclosed s' = sclosed s -> tasks s' = tasks s ->
  SQ s -> SQ s'.
Proof.
  intros Hq Hp Hc Ht [H1 H2 H3 H4 H5 H6].
  constructor; unfold pcof in *; rewrite ?Hq, ?Hp, ?Hc, ?Ht; assumption.
Qed.

Lemma sq_not_waiting_not_queued s t : SQ s -> swaiting_pc (pcof s t) = false -> ~ In t (squeue s).
Proof. intros G H Hin. apply (sq_pc _ G) in Hin. congruence. Qed.

Lemma SQ_setpc s0 s t p :
  SQ s0 -> tasks s0 = tasks s -> swaiting_pc (pcof s t) = false -> swaiting_pc p = false -> SQ (setpc s0 t p).
Proof.
  intros G Ht Hw Hp.
  assert (Hw0 : swaiting_pc (pcof s0 t) = false) by (unfold pcof in *; rewrite Ht; exact Hw).
  pose proof (sq_not_waiting_not_queued _ _ G Hw0) as Hnq.
  destruct G as [H1 H2 H3 H4 H5 H6].
  constructor; sp; try assumption.
  - intros w Hin. destruct (Nat.eq_dec t w) as [->|Hne]; [contradiction|].
    rewrite pcof_setpc_other by exact Hne. apply H1, Hin.
  - intros t' Hw' Hc. destruct (Nat.eq_dec t t') as [->|Hne].
    + rewrite pcof_setpc_same in Hw'. congruence.
    + rewrite pcof_setpc_other in Hw' by exact Hne. apply H6; assumption.
Qed.

(* on a closed semaphore nobody is queued: any task may move *)
Lemma SQ_setpc_closed s t p :
  SQ s -> sclosed s = true -> swaiting_pc p = false -> SQ (setpc s t p).
Proof.
  intros [H1 H2 H3 H4 H5 H6] Hc Hp. constructor; sp; try assumption.
  - intros w Hin. rewrite (H4 Hc) in Hin. contradiction.
  - intros t' _ Hc'. congruence.
Qed.

Lemma SQ_permits_closed s v : SQ s -> sclosed s = true -> 0 <= v -> SQ (set_spermits s v).
Proof.
  intros [H1 H2 H3 H4 H5 H6] Hc Hv. constructor; sp; try assumption.
  intros Hq. rewrite (H4 Hc) in Hq. contradiction.
Qed.

(* taking a free permit *)
Lemma SQ_take s : SQ s -> 0 < spermits s -> SQ (set_spermits s (spermits s - 1)).
Proof.
  intros [H1 H2 H3 H4 H5 H6] Hp. constructor; sp; try assumption; try lia.
  intros Hq. specialize (H3 Hq). lia.
Qed.

(* closing: the flag is set and everybody is woken *)
Lemma SQ_close s : SQ s -> SQ (set_squeue (set_sclosed s true) []).
Proof.
  intros [H1 H2 H3 H4 H5 H6]. constructor; sp; try assumption.
  - intros w [].
  - constructor.
  - intros H. contradiction.
  - reflexivity.
  - intros t _ Hc. discriminate Hc.
Qed.

(* joining the queue *)
Lemma SQ_enqueue s t x :
  SQ s -> swaiting_pc (pcof s t) = false -> sclosed s = false -> spermits s <= 0 ->
  SQ (setpc (set_squeue s (squeue s ++ [t])) t (AWait x false)).
Proof.
  intros G Hw Hc Hp. pose proof (sq_not_waiting_not_queued _ _ G Hw) as Hnq.
  destruct G as [H1 H2 H3 H4 H5 H6]. constructor; sp.
  - intros w Hin. destruct (Nat.eq_dec t w) as [->|Hne].
    + rewrite pcof_setpc_same. reflexivity.
    + rewrite pcof_setpc_other by exact Hne. apply in_app_or in Hin. destruct Hin as [Hin|[->|[]]].
      * apply H1 in Hin. exact Hin.
      * congruence.
  - apply nodup_snoc; assumption.
  - intros _. lia.
  - congruence.
  - exact H5.
  - intros t' Hw' _. apply in_or_app. destruct (Nat.eq_dec t t') as [->|Hne].
    + right. left. reflexivity.
    + left. rewrite pcof_setpc_other in Hw' by exact Hne. apply H6; assumption.
Qed.

(* leaving the queue without a permit (cancelled waiter) *)
Lemma SQ_leave s t p :
  SQ s -> swaiting_pc p = false -> SQ (setpc (set_squeue s (remove_nat t (squeue s))) t p).
Proof.
  intros [H1 H2 H3 H4 H5 H6] Hp. constructor; sp.
  - intros w Hin. destruct (Nat.eq_dec t w) as [->|Hne].
    + exfalso. apply (not_in_remove_nat w (squeue s) H2), Hin.
    + rewrite pcof_setpc_other by exact Hne. apply H1. apply (in_remove_nat _ _ _ Hin).
  - apply nodup_remove_nat, H2.
  - intros Hq. apply H3. intros E. rewrite E in Hq. apply Hq. reflexivity.
  - intros Hc. rewrite (H4 Hc). reflexivity.
  - exact H5.
  - intros t' Hw' Hc. destruct (Nat.eq_dec t t') as [->|Hne].
    + rewrite pcof_setpc_same in Hw'. congruence.
    + rewrite pcof_setpc_other in Hw' by exact Hne. apply in_remove_nat_other; [congruence|].
      apply H6; assumption.
Qed.

(* characterisation of ssem_add under the queue invariant *)
Lemma ssem_add_cases s :
  SQ s ->
  (squeue s = [] /\ ssem_add s = set_spermits s (spermits s + 1)) \/
  (exists w q x, squeue s = w :: q /\ pcof s w = AWait x false /\ spermits s = 0 /\ sclosed s = false /\
                 ssem_add s = setpc (set_squeue s q) w (AWait x true)).
Proof.
  intros G. unfold ssem_add. destruct (squeue s) as [|w q] eqn:E.
  - left. split; reflexivity.
  - right. pose proof (sq_pc _ G w) as Hw. rewrite E in Hw. specialize (Hw (or_introl eq_refl)).
    destruct (pcof s w) eqn:Ew; try discriminate Hw.
    match type of Hw with swaiting_pc (AWait ?y ?a) = true => destruct a; [discriminate Hw|]; exists w, q, y end.
    split; [reflexivity|]. split; [exact Ew|]. split; [apply (sq_perm _ G); rewrite E; discriminate|].
    split; [|reflexivity].
    destruct (sclosed s) eqn:Ec; [|reflexivity]. pose proof (sq_closed _ G Ec). congruence.
Qed.

Lemma SQ_ssem_add s : SQ s -> SQ (ssem_add s).
Proof.
  intros G. destruct (ssem_add_cases s G) as [[Eq ->]|(w & q & x & Eq & Hw & Hp & Hc & ->)].
  - destruct G as [H1 H2 H3 H4 H5 H6]. constructor; sp; try assumption.
    + intros Hq. contradiction.
    + lia.
  - destruct G as [H1 H2 H3 H4 H5 H6]. rewrite Eq in *. inversion H2 as [|? ? Hn Hd]; subst.
    constructor; sp.
    + intros y Hin. destruct (Nat.eq_dec w y) as [->|Hne]; [contradiction|].
      rewrite pcof_setpc_other by exact Hne. apply H1. right. exact Hin.
    + exact Hd.
    + intros _. exact Hp.
    + intros Hc'. congruence.
    + exact H5.
    + intros t' Hw' _. destruct (Nat.eq_dec w t') as [->|Hne].
      * rewrite pcof_setpc_same in Hw'. discriminate Hw'.
      * rewrite pcof_setpc_other in Hw' by exact Hne. destruct (H6 t' Hw' Hc) as [E|Hin]; [congruence|exact Hin].
Qed.

(* tasks that are not parked keep their pc across ssem_add *)
Lemma pcof_ssem_add s t : SQ s -> swaiting_pc (pcof s t) = false -> pcof (ssem_add s) t = pcof s t.
Proof.
  intros G Hw. destruct (ssem_add_cases s G) as [[Eq ->]|(w & q & x & Eq & Hpw & Hp & Hc & ->)].
  - reflexivity.
  - destruct (Nat.eq_dec w t) as [->|Hne].
    + rewrite Hpw in Hw. discriminate.
    + rewrite pcof_setpc_other by exact Hne. reflexivity.
Qed.

(* sums over the task table: only the contribution of the served waiter changes *)
Lemma ssem_add_sum f s :
  f PNone = 0 -> (forall x, f (AWait x true) = f (AWait x false)) -> SQ s ->
  sum f (tasks (ssem_add s)) = sum f (tasks s).
Proof.
  intros H0 Hf G. destruct (ssem_add_cases s G) as [[Eq ->]|(w & q & x & Eq & Hw & Hp & Hc & ->)].
  - reflexivity.
  - rewrite sum_setpc by exact H0. sp. unfold pcof in *. sp. rewrite Hw, Hf. lia.
Qed.

(* ================================================================== the two semaphores do not disturb each other *)
Lemma GQ_ssem_add s : GQ s -> SQ s -> GQ (ssem_add s).
Proof.
  intros G S. destruct (ssem_add_cases s S) as [[Eq ->]|(w & q & x & Eq & Hw & Hp & Hc & ->)].
  - apply GQ_same with s; sp; try reflexivity. exact G.
  - apply GQ_setpc with (s := s); [|reflexivity|rewrite Hw; reflexivity|reflexivity].
    apply GQ_same with s; sp; try reflexivity. exact G.
Qed.

Lemma SQ_sem_add s : GQ s -> SQ s -> SQ (sem_add s).
Proof.
  intros G S. destruct (sem_add_cases s G) as [[Eq ->]|(w & q & x & Eq & Hw & Hp & Hc & ->)].
  - apply SQ_same with s; sp; try reflexivity. exact S.
  - apply SQ_setpc with (s := s); [|reflexivity|rewrite Hw; reflexivity|reflexivity].
    apply SQ_same with s; sp; try reflexivity. exact S.
Qed.
