(* close() is final: [closed] is monotone and a closed pool has max_size 0 and no idle
   objects, at every reachable state (not only at rest). *)
From Coq Require Import List ZArith Lia Bool Arith.
From DP Require Import Common.Tab Managed.Model Managed.Contrib Managed.Simp Managed.InvQ
  Managed.Effects Managed.StepCases Managed.Frame Managed.InvG.
Import ListNotations.
Open Scope Z_scope.

Lemma retain_loop_closed t ds v s :
  closed (fst (fst (retain_loop t ds v s))) = closed s
  /\ alive (fst (fst (retain_loop t ds v s))) = alive s
  /\ maxs (fst (fst (retain_loop t ds v s))) = maxs s.
Proof.
  pose proof (retain_loop_effect t ds v s) as E.
  destruct (retain_loop t ds v s) as [[s1 k] r]. cbn [fst].
  destruct E as (E1&E2&E3&E4&E5&E6&E7&E8&E9&E10&E11&E12&E13&E14). auto.
Qed.

Theorem closed_mono c s l s' : step c s l = Some s' -> closed s = true -> closed s' = true.
Proof.
  intros H Hc. step_leaves H; sp; autorewrite with fld; sp; try assumption; try reflexivity; try congruence.
  all: match goal with
       | E : retain_loop ?t ?ds ?v ?s = (?s1, _, _) |- closed ?s1 = true =>
           pose proof (retain_loop_closed t ds v s) as K; rewrite E in K; cbn [fst] in K;
           destruct K as (K1&_); rewrite K1; assumption
       end.
Qed.

Theorem alive_mono c s l s' : step c s l = Some s' -> alive s' = true -> alive s = true.
Proof.
  intros H Ha. step_leaves H; sp; autorewrite with fld in Ha; sp; try assumption; try congruence.
  all: match goal with
       | E : retain_loop ?t ?ds ?v ?s = (?s1, _, _), Ha : alive ?s1 = true |- alive ?s = true =>
           pose proof (retain_loop_closed t ds v s) as K; rewrite E in K; cbn [fst] in K;
           destruct K as (_&K2&_); rewrite <- K2; assumption
       end.
Qed.

(* ---------------------------------------------------------------- closed pools are empty *)
Definition KC (s : state) : Prop :=
  alive s = true -> (closed s = true -> maxs s = 0) /\ (maxs s = 0 -> vec s = []).

Lemma KC_init c : KC (init c).
Proof. intros _. cbn. split; [discriminate|reflexivity]. Qed.

Lemma zlen_zero {A} (l : list A) : zlen l <= 0 -> l = [].
Proof. destruct l; [reflexivity|]. rewrite zlen_cons. pose proof (zlen_nonneg l). lia. Qed.

Lemma resize0_vec_empty s t :
  zlen (vec s) <= size s -> vec (resize_locked s t 0) = [].
Proof.
  intros Hs.
  pose proof (resize_locked_released s t 0) as R. cbv zeta in R.
  rewrite resize_locked_maxs in R. destruct R as [R|R]; [|exact R].
  apply zlen_zero.
  (* size - |vec| is preserved by resize_locked *)
  unfold resize_locked in *. cbv zeta in *.
  match goal with |- context [shrink_idle t ?f ?x] =>
    pose proof (shrink_idle_effect t f x) as H; set (s1 := shrink_idle t f x) in * end.
  cbv zeta in H. sp. destruct H as (H1&H2&H3&H4&H5&H6&H7&H8&H9&H10&H11&H12&H13).
  destruct (Z.ltb 0 (maxs s)); [sp; lia|].
  destruct (Z.ltb (maxs s) 0); [|lia].
  match goal with |- context [sem_add_n ?k ?x] =>
    pose proof (sem_add_n_fields k x) as (F1&F2&F3&F4&F5&F6&F7&F8&F9&F10&F11) end.
  rewrite F1, F2 in *. sp. lia.
Qed.

Lemma pop_idle_nil c : pop_idle c [] = None.
Proof. unfold pop_idle. destruct (lifo c); reflexivity. Qed.

Theorem KC_step c s l s' : GQ s -> GA s -> KC s -> step c s l = Some s' -> KC s'.
Proof.
  intros G A K H. unfold KC. intros Ha'.
  pose proof (alive_mono _ _ _ _ H Ha') as Ha. specialize (K Ha). destruct K as [K1 K2].
  assert (Hsz : zlen (vec s) <= size s).
  { pose proof (a_size _ A Ha). pose proof (sum_nonneg cs (tasks s) cs_nonneg).
    pose proof (zlen_nonneg (out s)). lia. }
  pose proof (a_maxs _ A) as Hm. pose proof (a_size _ A Ha) as Hs. clear Ha'.
  step_leaves H; sp; autorewrite with fld; sp.
  all: try (split; [intros; solve [auto|congruence]|solve [auto]]).
  - (* GPop popped something: not from an empty queue *)
    split; [auto|]. intros Hz. specialize (K2 Hz).
    match goal with E : pop_idle _ (vec s) = Some _ |- _ => rewrite K2, pop_idle_nil in E; discriminate E end.
  - (* RLock keeps the object: impossible with max_size 0 *)
    split; [auto|]. intros Hz. exfalso.
    match goal with E : pcof s ?t = RLock _, L : (size s <=? maxs s) = true |- _ =>
      apply Z.leb_le in L;
      pose proof (sum_ge_get PNone cs t (tasks s) eq_refl cs_nonneg) as Hg;
      unfold pcof in E; rewrite E in Hg; cbn [cs] in Hg;
      pose proof (zlen_nonneg (vec s)); pose proof (zlen_nonneg (out s)); lia end.
  - (* resize on an open pool *)
    split; [congruence|]. intros Hz. rewrite Hz. apply resize0_vec_empty; assumption.
  - (* retain only removes *)
    match goal with E : retain_loop ?t ?ds (vec s) s = (?s1, ?kept, ?rem) |- _ =>
      pose proof (retain_loop_effect t ds (vec s) s) as R; rewrite E in R;
      destruct R as (R1&R2&R3&R4&R5&R6&R7&R8&R9&R10&R11&R12&R13&R14);
      rewrite R2, R6; split; [auto|]; intros Hz; specialize (K2 Hz); rewrite K2 in *;
      apply zlen_zero; pose proof (zlen_nonneg rem); pose proof (zlen_nonneg kept);
      cbn [zlen length Z.of_nat] in R14; lia
    end.
  - (* close *)
    split; [reflexivity|]. intros _. apply resize0_vec_empty; sp; assumption.
Qed.
