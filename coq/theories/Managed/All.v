(* All general invariants bundled, and lifted to every reachable state. *)
From Coq Require Import List ZArith Lia Bool Arith.
From DP Require Import Common.Tab Managed.Model Managed.Contrib Managed.Simp Managed.InvQ
  Managed.Effects Managed.StepCases Managed.Frame Managed.InvG Managed.InvClose Managed.InvW
  Managed.Others.
Import ListNotations.
Open Scope Z_scope.

Record Inv (s : state) : Prop := {
  inv_q : GQ s;    (* wait queue consistent with program counters; queue <> [] -> no free permit *)
  inv_a : GA s;    (* conservation of permits, size, users *)
  inv_k : KC s;    (* closed -> max_size 0; max_size 0 -> no idle objects *)
  inv_w : WQ s     (* open -> every unassigned waiter is queued *)
}.

Lemma Inv_init c : Inv (init c).
Proof. constructor; [apply GQ_init|apply GA_init|apply KC_init|apply WQ_init]. Qed.

Theorem Inv_step c s l s' : Inv s -> step c s l = Some s' -> Inv s'.
Proof.
  intros [Q A K W] H. constructor.
  - eapply GQ_step; [exact Q|exact (a_debt _ A)|exact H].
  - eapply GA_step; eassumption.
  - eapply KC_step; eassumption.
  - eapply WQ_step; eassumption.
Qed.

Theorem Inv_run c tr : forall s s', Inv s -> run c s tr = Some s' -> Inv s'.
Proof.
  induction tr as [|l tr IH]; intros s s' I H; cbn [run] in H.
  - inversion H; subst. exact I.
  - destruct (step c s l) as [s1|] eqn:E; [|discriminate].
    apply (IH s1 s'); [eapply Inv_step; eassumption|exact H].
Qed.

Theorem reachable_inv c s : Reachable c s -> Inv s.
Proof. intros [tr H]. eapply Inv_run; [apply Inv_init|exact H]. Qed.

Lemma run_snoc c tr l s : run c s (tr ++ [l]) =
  match run c s tr with Some s1 => step c s1 l | None => None end.
Proof.
  revert s; induction tr as [|l0 tr IH]; intros s; cbn [run app].
  - destruct (step c s l); reflexivity.
  - destruct (step c s l0); [apply IH|reflexivity].
Qed.

Lemma reachable_step c s l s' : Reachable c s -> step c s l = Some s' -> Reachable c s'.
Proof. intros [tr H] Hs. exists (tr ++ [l]). rewrite run_snoc, H. exact Hs. Qed.

(* ---- immediate consequences *)
Definition at_rest (s : state) : Prop := all_done (tasks s) = true.

Lemma all_done_sum f l :
  (forall r, f (PDone r) = 0) -> all_done l = true -> sum f l = 0.
Proof.
  intros Hf. induction l as [|p l IH]; cbn [all_done forallb sum]; [reflexivity|].
  intros H. apply andb_prop in H. destruct H as [Hp Hl].
  destruct p; try discriminate Hp. rewrite Hf, (IH Hl). reflexivity.
Qed.

(* no counter ever goes below zero (no usize underflow, no "subtract with overflow" panic) *)
Lemma no_underflow s : Inv s -> alive s = true ->
  0 <= permits s /\ 0 <= size s /\ 0 <= users s /\ 0 <= debt s /\ 0 <= maxs s /\ zlen (vec s) <= size s.
Proof.
  intros [Q A K W] Ha.
  pose proof (a_size _ A Ha). pose proof (a_users _ A Ha).
  pose proof (sum_nonneg cs (tasks s) cs_nonneg). pose proof (sum_nonneg up (tasks s) up_nonneg).
  pose proof (zlen_nonneg (vec s)). pose proof (zlen_nonneg (out s)).
  pose proof (q_pnn _ Q). pose proof (a_debt _ A). pose proof (a_maxs _ A). lia.
Qed.

(* at rest, with every object returned, the usable capacity is exactly max_size *)
Lemma rest_capacity s : Inv s -> alive s = true -> at_rest s -> out s = [] ->
  permits s - debt s = maxs s /\ users s = 0 /\ size s = zlen (vec s).
Proof.
  intros [Q A K W] Ha Hr Ho. unfold at_rest in Hr.
  pose proof (a_perm _ A Ha) as H1. pose proof (a_size _ A Ha) as H2. pose proof (a_users _ A Ha) as H3.
  rewrite (all_done_sum hp) in H1 by (auto). rewrite (all_done_sum cs) in H2 by auto.
  rewrite (all_done_sum up) in H3 by auto. rewrite Ho in *. cbn [zlen length Z.of_nat] in *. lia.
Qed.
