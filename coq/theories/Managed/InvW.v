(* Converse of the queue invariant: while the semaphore is open, a task that waits without
   an assigned permit is in the wait queue (so a released permit reaches it). *)
From Coq Require Import List ZArith Lia Bool Arith.
From DP Require Import Common.Tab Managed.Model Managed.Contrib Managed.Simp Managed.InvQ
  Managed.Effects Managed.StepCases Managed.Frame Managed.InvG Managed.InvClose.
Import ListNotations.
Open Scope Z_scope.

Definition WQ (s : state) : Prop :=
  closed s = false -> forall t g, pcof s t = GWait g false -> In t (queue s).

Lemma WQ_init c : WQ (init c).
Proof. intros _ t g H. unfold pcof in H. cbn in H. destruct t; discriminate H. Qed.

Lemma WQ_same s s' :
  queue s' = queue s -> closed s' = closed s -> tasks s' = tasks s -> WQ s -> WQ s'.
Proof. intros Hq Hc Ht W. unfold WQ, pcof in *. rewrite Hq, Hc, Ht. exact W. Qed.

Lemma WQ_setpc s0 t p : WQ s0 -> waiting_pc p = false -> WQ (setpc s0 t p).
Proof.
  intros W Hp Hc t0 g H. sp. destruct (Nat.eq_dec t t0) as [->|Hne].
  - rewrite pcof_setpc_same in H. subst p. discriminate Hp.
  - rewrite pcof_setpc_other in H by exact Hne. apply (W Hc t0 g H).
Qed.

Lemma WQ_sem_add s : GQ s -> WQ s -> WQ (sem_add s).
Proof.
  intros G W. destruct (sem_add_cases s G) as [[Eq ->]|(w & q & g & Eq & Hw & Hp & ->)].
  - apply WQ_same with s; sp; try reflexivity. exact W.
  - intros Hc t0 g0 H. sp. destruct (Nat.eq_dec w t0) as [->|Hne].
    + rewrite pcof_setpc_same in H. discriminate H.
    + rewrite pcof_setpc_other in H by exact Hne.
      change (pcof (set_queue s q) t0) with (pcof s t0) in H.
      pose proof (W Hc t0 g0 H) as Hin. rewrite Eq in Hin. destruct Hin as [->|Hin]; [contradiction|exact Hin].
Qed.

Lemma WQ_sem_add_n n s : GQ s -> WQ s -> WQ (sem_add_n n s).
Proof.
  revert s; induction n as [|n IH]; intros s G W; cbn [sem_add_n]; [exact W|].
  apply IH; [apply GQ_sem_add, G|apply WQ_sem_add; assumption].
Qed.

Lemma WQ_enqueue s t g : WQ s -> WQ (setpc (set_queue s (queue s ++ [t])) t (GWait g false)).
Proof.
  intros W Hc t0 g0 H. sp. apply in_or_app. destruct (Nat.eq_dec t t0) as [->|Hne].
  - right. left. reflexivity.
  - left. rewrite pcof_setpc_other in H by exact Hne. apply (W Hc t0 g0 H).
Qed.

Lemma in_remove_nat_other x y l : x <> y -> In x l -> In x (remove_nat y l).
Proof.
  intros Hne. induction l as [|z l IH]; cbn [remove_nat In]; [tauto|].
  destruct (Nat.eqb y z) eqn:E.
  - apply Nat.eqb_eq in E. subst z. intros [->|H]; [contradiction|exact H].
  - intros [->|H]; [left; reflexivity|right; apply IH, H].
Qed.

Lemma WQ_leave s t p :
  WQ s -> waiting_pc p = false -> WQ (setpc (set_queue s (remove_nat t (queue s))) t p).
Proof.
  intros W Hp Hc t0 g0 H. sp. destruct (Nat.eq_dec t t0) as [->|Hne].
  - rewrite pcof_setpc_same in H. subst p. discriminate Hp.
  - rewrite pcof_setpc_other in H by exact Hne. apply in_remove_nat_other; [congruence|].
    apply (W Hc t0 g0 H).
Qed.

Lemma WQ_acquire c s t g : WQ s -> WQ (acquire c s t g).
Proof.
  intros W. unfold acquire.
  repeat match goal with
         | |- context [match ?x with _ => _ end] => destruct x
         end;
    first [ apply WQ_enqueue; exact W
          | apply WQ_setpc; [|reflexivity]; first [exact W | apply WQ_same with s; sp; try reflexivity; exact W] ].
Qed.

Lemma WQ_leave_wait s t a p : GQ s -> WQ s -> waiting_pc p = false -> WQ (setpc (leave_wait s t a) t p).
Proof.
  intros G W Hp. unfold leave_wait. destruct a.
  - apply WQ_setpc; [apply WQ_sem_add; assumption|exact Hp].
  - apply WQ_leave; assumption.
Qed.

Lemma WQ_resize s t n : GQ s -> WQ s -> WQ (resize_locked s t n).
Proof.
  intros G W. unfold resize_locked. cbv zeta.
  match goal with |- context [shrink_idle t ?f ?x] =>
    pose proof (shrink_idle_effect t f x) as H; set (s1 := shrink_idle t f x) in * end.
  cbv zeta in H. sp. destruct H as (H1&H2&H3&H4&H5&H6&H7&H8&H9&H10&H11&H12&H13).
  assert (W1 : WQ s1) by (apply WQ_same with s; assumption).
  assert (G1 : GQ s1) by (apply GQ_same with s; assumption).
  destruct (Z.ltb n (maxs s)).
  - apply WQ_same with s1; sp; try reflexivity. exact W1.
  - destruct (Z.ltb (maxs s) n); [|exact W1].
    apply WQ_sem_add_n.
    + apply GQ_same with s1; sp; try reflexivity. exact G1.
    + apply WQ_same with s1; sp; try reflexivity. exact W1.
Qed.

Ltac sp0 :=
  cbn [tick hand_out enter_stage enter_postc] in *.

Ltac wq_plain s W :=
  apply WQ_setpc; [|reflexivity]; apply WQ_same with s; sp; try reflexivity; exact W.

Theorem WQ_step c s l s' : GQ s -> WQ s -> step c s l = Some s' -> WQ s'.
Proof.
  intros G W H.
  step_leaves H; sp0;
    (apply WQ_same with (2 := eq_refl) (3 := eq_refl) (1 := eq_refl));
    try exact W;
    try (wq_plain s W).
  all: try (apply WQ_acquire; exact W).
  all: try (apply WQ_setpc; [apply WQ_sem_add; assumption|reflexivity]).
  all: try (apply WQ_leave_wait; [assumption|assumption|reflexivity]).
  all: try (unfold next_stage;
            repeat match goal with
                   | |- context [if ?b then _ else _] => destruct b
                   | |- context [match post ?cc with _ => _ end] => destruct (post cc)
                   | |- context [match ?st with SPre _ => _ | _ => _ end] => destruct st
                   end; sp0; wq_plain s W).
  - (* drop pool *)
    apply WQ_same with (2 := eq_refl) (3 := eq_refl) (1 := eq_refl).
    apply WQ_setpc; [|reflexivity]. apply WQ_same with s; autorewrite with fld; sp; try reflexivity. exact W.
  - (* resize *)
    apply WQ_same with (2 := eq_refl) (3 := eq_refl) (1 := eq_refl).
    apply WQ_setpc; [|reflexivity]. apply WQ_resize; assumption.
  - (* retain *)
    match goal with E : retain_loop ?t ?ds (vec s) s = (?s1, ?kept, ?rem) |- _ =>
      pose proof (retain_loop_effect t ds (vec s) s) as R; rewrite E in R;
      destruct R as (R1&R2&R3&R4&R5&R6&R7&R8&R9&R10&R11&R12&R13&R14) end.
    apply WQ_same with (2 := eq_refl) (3 := eq_refl) (1 := eq_refl).
    apply WQ_setpc; [|reflexivity]. apply WQ_same with s; autorewrite with fld; sp; try assumption.
  - (* close: the semaphore is closed *)
    intros Hc. sp. autorewrite with fld in Hc. sp. discriminate Hc.
Qed.
