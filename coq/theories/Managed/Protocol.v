(* C04: the verification protocol of get(), the fate of rejected objects, the error table. *)
From Coq Require Import List ZArith Lia Bool Arith.
From DP Require Import Common.Tab Managed.Model Managed.Contrib Managed.Simp Managed.InvQ
  Managed.Effects Managed.StepCases Managed.Frame Managed.InvG Managed.InvClose Managed.Count
  Managed.Recs Managed.InvW Managed.Others Managed.All Managed.Ops.
Import ListNotations.
Open Scope Z_scope.

(* ---------------------------------------------------------------- the recycle stages *)
Definition succ_stage (c : cfg) (st : stage) : option stage :=
  match st with
  | SPre k => if Nat.ltb (S k) (length (pre c)) then Some (SPre (S k)) else Some SRecycle
  | SRecycle => match post c with [] => None | _ => Some (SPost 0) end
  | SPost k => if Nat.ltb (S k) (length (post c)) then Some (SPost (S k)) else None
  end.

Lemma next_stage_succ c s t g o st :
  next_stage c s t g o st =
  match succ_stage c st with
  | Some st' => enter_stage s t g o st'
  | None => hand_out s t (recycled_obj s o)
  end.
Proof.
  unfold next_stage, succ_stage. destruct st as [k| |k].
  - destruct (Nat.ltb (S k) (length (pre c))); reflexivity.
  - destruct (post c); reflexivity.
  - destruct (Nat.ltb (S k) (length (post c))); reflexivity.
Qed.

(* the stages in registration order *)
Definition stages (c : cfg) : list stage :=
  map SPre (seq 0 (length (pre c))) ++ [SRecycle] ++ map SPost (seq 0 (length (post c))).

Fixpoint chain (c : cfg) (fuel : nat) (st : stage) : list stage :=
  match fuel with
  | O => []
  | S f => st :: match succ_stage c st with Some st' => chain c f st' | None => [] end
  end.

Lemma chain_post c : forall n k, (k + n = length (post c))%nat -> (0 < n)%nat ->
  forall f, (n <= f)%nat -> chain c f (SPost k) = map SPost (seq k n).
Proof.
  induction n as [|n IH]; intros k Hk Hn f Hf; [lia|].
  destruct f as [|f]; [lia|]. cbn [chain seq map succ_stage].
  destruct (Nat.ltb_spec (S k) (length (post c))) as [Hlt|Hge].
  - f_equal. apply IH; lia.
  - assert (n = 0)%nat by lia. subst n. reflexivity.
Qed.

Lemma chain_recycle c f : (S (length (post c)) <= f)%nat ->
  chain c f SRecycle = SRecycle :: map SPost (seq 0 (length (post c))).
Proof.
  intros Hf. destruct f as [|f]; [lia|]. cbn [chain succ_stage].
  destruct (post c) as [|b r] eqn:E; [reflexivity|].
  assert (Hpos : (0 < length (post c))%nat) by (rewrite E; cbn [length]; lia).
  f_equal. rewrite <- E. apply chain_post; [lia|lia|rewrite E; lia].
Qed.

Lemma chain_pre c : forall n k, (k + n = length (pre c))%nat -> (0 < n)%nat ->
  forall f, (n + S (length (post c)) <= f)%nat ->
  chain c f (SPre k) = map SPre (seq k n) ++ SRecycle :: map SPost (seq 0 (length (post c))).
Proof.
  induction n as [|n IH]; intros k Hk Hn f Hf; [lia|].
  destruct f as [|f]; [lia|]. cbn [chain seq map succ_stage app].
  destruct (Nat.ltb_spec (S k) (length (pre c))) as [Hlt|Hge].
  - f_equal. apply IH; lia.
  - assert (n = 0)%nat by lia. subst n. cbn [seq map app]. f_equal. apply chain_recycle. lia.
Qed.

(* following the successor relation from the first stage visits every pre_recycle hook, the
   manager's recycle, every post_recycle hook - each once, in registration order - and then
   ends (hand-out) *)
Theorem stage_chain c :
  chain c (S (length (pre c) + length (post c))) (first_stage c) = stages c.
Proof.
  unfold first_stage, stages. destruct (pre c) as [|b r] eqn:E.
  - cbn [length seq map app]. apply chain_recycle. lia.
  - assert (Hpos : (0 < length (pre c))%nat) by (rewrite E; cbn [length]; lia).
    rewrite <- E. cbn [app]. rewrite (chain_pre c (length (pre c)) 0); [reflexivity|lia|lia|lia].
Qed.

(* one successful answer moves exactly one stage on, or - after the last one - hands out *)
Theorem stage_progress c s t g o st s' :
  pcof s t = GRec g o st -> step c s (Env t OOk) = Some s' ->
  match succ_stage c st with
  | Some st' => pcof s' t = GRec g o st' /\ out s' = out s
                /\ log s' = (match st' with SPre k => EHookCall 0 k o | SRecycle => ERecycleCall o t
                                          | SPost k => EHookCall 2 k o end) :: log s
  | None => pcof s' t = PDone ROk /\ out s' = bump (recycled_obj s o) :: out s
            /\ log s' = EHandOut (bump (recycled_obj s o)) t :: log s
  end.
Proof.
  intros Hpc H. cbn [step] in H. unfold env_task in H. rewrite Hpc in H. cbn [option_map] in H.
  inversion H; subst. rewrite next_stage_succ. destruct (succ_stage c st) as [st'|].
  - unfold enter_stage. rewrite pcof_tick, pcof_setpc_same. sp. splits; reflexivity.
  - unfold hand_out. rewrite pcof_tick, pcof_setpc_same. sp. splits; reflexivity.
Qed.

(* a failing, timed-out, cancelled or panicking step: the object goes to the discard chain
   (one Detach, one Destroy, see discard_chain); an error or a timeout lets the same get move
   on with the permit it holds, a cancellation or panic ends it *)
Theorem stage_failure c s t g o st :
  pcof s t = GRec g o st ->
  step c s (Env t OErr) = Some (tick (setpc s t (UUnready g o CLoop)))
  /\ step c s (Env t OPanic) = Some (tick (setpc s t (UUnready g o (CRes RPanicked))))
  /\ (stage_async c st = true ->
      step c s (Cancel t) = Some (tick (setpc s t (UUnready g o (CRes RCancelled)))))
  /\ (runtime c = true -> st = SRecycle -> timed (gr g) = true ->
      step c s (Fire t) = Some (tick (setpc s t (UUnready g o CLoop)))).
Proof.
  intros Hpc. cbn [step]. unfold env_task, cancel_task, fire_task. rewrite Hpc. splits; try reflexivity.
  - intros Ha. rewrite Ha. reflexivity.
  - intros Hr -> Ht. rewrite Hr, Ht. reflexivity.
Qed.

(* after the discard the same get continues with the next idle object or a create *)
Theorem moves_on c s t g o :
  pcof s t = UUnready g o CLoop ->
  exists s1 s2, step c s (Step t) = Some s1 /\ step c s1 (Step t) = Some s2
    /\ pcof s2 t = GPop g /\ hp (pcof s2 t) = 1
    /\ log s2 = EDestroy (oid o) t :: EDetach (oid o) t :: log s
    /\ size s2 = size s - 1 /\ permits s2 = permits s /\ users s2 = users s.
Proof.
  intros Hpc. cbn [step]. unfold step_task at 1. rewrite Hpc. cbn [option_map].
  eexists. eexists. split; [reflexivity|].
  unfold step_task. rewrite pcof_tick, pcof_setpc_same. cbn [option_map]. split; [reflexivity|].
  rewrite pcof_tick, pcof_setpc_same. sp. splits; reflexivity.
Qed.

(* ---------------------------------------------------------------- post_create hooks *)
Theorem postcreate_progress c s t g o k s' :
  pcof s t = GPostC g o k -> step c s (Env t OOk) = Some s' ->
  if Nat.ltb (S k) (length (pcr c))
  then pcof s' t = GPostC g o (S k) /\ out s' = out s /\ log s' = EHookCall 4 (S k) o :: log s
  else pcof s' t = PDone ROk /\ out s' = bump o :: out s /\ log s' = EHandOut (bump o) t :: log s.
Proof.
  intros Hpc H. cbn [step] in H. unfold env_task in H. rewrite Hpc in H.
  destruct (Nat.ltb (S k) (length (pcr c))); cbn [option_map] in H; inversion H; subst;
    unfold enter_postc, hand_out; rewrite pcof_tick, pcof_setpc_same; sp; splits; reflexivity.
Qed.

Theorem created_enters_hooks c s t g o s' :
  pcof s t = GCreated g o -> step c s (Step t) = Some s' ->
  size s' = size s + 1
  /\ match pcr c with
     | [] => pcof s' t = PDone ROk /\ out s' = bump o :: out s
     | _ => pcof s' t = GPostC g o 0 /\ out s' = out s /\ log s' = EHookCall 4 0 o :: log s
     end.
Proof.
  intros Hpc H. cbn [step] in H. unfold step_task in H. rewrite Hpc in H.
  destruct (pcr c); cbn [option_map] in H; inversion H; subst;
    unfold enter_postc, hand_out; rewrite pcof_tick, pcof_setpc_same; sp; splits; reflexivity.
Qed.

Theorem postcreate_failure c s t g o k :
  pcof s t = GPostC g o k ->
  step c s (Env t OErr) = Some (tick (setpc s t (UUnready g o (CRes RPostCreate))))
  /\ step c s (Env t OPanic) = Some (tick (setpc s t (UUnready g o (CRes RPanicked)))).
Proof. intros Hpc. cbn [step]. unfold env_task. rewrite Hpc. split; reflexivity. Qed.

(* ---------------------------------------------------------------- the error table *)
Definition carries (p : pc) : option res :=
  match p with
  | UPermit r | UUsers r | PDone r => Some r
  | UUnready _ _ (CRes r) | UDetach _ _ (CRes r) => Some r
  | _ => None
  end.

Definition nonget (p : pc) : bool :=
  match p with
  | RStart _ | RLock _ | RAdd | RSurplus _ | RDetach _ | TStart _ | TLock _ | TAdd _ | TDetach _
  | OResize _ | ORetain _ | OClose | OStatus | ODropPool
  | OResizeL _ | ORetainS _ | ORetainL _ | OCloseL | OStatusL => true
  | _ => false
  end.

(* how each result of an operation comes about; there is no rule for Timeout(Recycle) and
   none that turns an error of a recycle hook into a result *)
Inductive cause (c : cfg) (s : state) (l : label) (t : nat) : res -> Prop :=
| CaOkRecycled g o st : l = Env t OOk -> pcof s t = GRec g o st -> succ_stage c st = None -> cause c s l t ROk
| CaOkCreated g o : l = Step t -> pcof s t = GCreated g o -> pcr c = [] -> cause c s l t ROk
| CaOkHooks g o k : l = Env t OOk -> pcof s t = GPostC g o k ->
    Nat.ltb (S k) (length (pcr c)) = false -> cause c s l t ROk
| CaBackend g : l = Env t OErr -> pcof s t = GCreate g -> cause c s l t RBackend
| CaPostCreate g o k : l = Env t OErr -> pcof s t = GPostC g o k -> cause c s l t RPostCreate
| CaWaitZero g : l = Step t -> pcof s t = GAcq g -> gw g = TZero -> closed s = false ->
    permits s <= 0 -> cause c s l t RTimeoutWait
| CaWaitFire g a : l = Fire t -> pcof s t = GWait g a -> gw g = TFin -> runtime c = true ->
    cause c s l t RTimeoutWait
| CaCreateFire g : l = Fire t -> pcof s t = GCreate g -> timed (gc g) = true -> runtime c = true ->
    cause c s l t RTimeoutCreate
| CaClosedNew g : l = Step t -> pcof s t = GAcq g -> closed s = true -> cause c s l t RClosed
| CaClosedWaiting g a : l = Step t -> pcof s t = GWait g a -> closed s = true -> cause c s l t RClosed
| CaNoRtRecycle g : l = Step t -> pcof s t = GStart g -> runtime c = false -> gr g <> TNone ->
    cause c s l t RNoRuntime
| CaNoRtWait g : l = Step t -> pcof s t = GAcq g -> runtime c = false -> gw g = TFin ->
    cause c s l t RNoRuntime
| CaNoRtCreate g : l = Step t -> pcof s t = GPop g -> runtime c = false -> gc g <> TNone ->
    vec s = [] -> cause c s l t RNoRuntime
| CaPanic : l = Env t OPanic -> cause c s l t RPanicked
| CaCancel : l = Cancel t -> cause c s l t RCancelled
| CaUnit : nonget (pcof s t) = true -> cause c s l t RUnit.

Lemma acquire_result c s t g :
  let p := pcof (acquire c s t g) t in
  p = GSettle g \/ p = GWait g false
  \/ (p = UUsers RClosed /\ closed s = true)
  \/ (p = UUsers RTimeoutWait /\ gw g = TZero /\ closed s = false /\ permits s <= 0)
  \/ (p = UUsers RNoRuntime /\ gw g = TFin /\ runtime c = false).
Proof.
  cbv zeta. unfold acquire. destruct (gw g) eqn:Ew; cbn match.
  - destruct (closed s) eqn:Ec; [right; right; left; rewrite pcof_setpc_same; auto|].
    destruct (Z.ltb 0 (permits s)) eqn:Ep; rewrite pcof_setpc_same; auto.
  - destruct (closed s) eqn:Ec; [right; right; left; rewrite pcof_setpc_same; auto|].
    destruct (Z.ltb 0 (permits s)) eqn:Ep; rewrite pcof_setpc_same; [auto|].
    apply Z.ltb_ge in Ep. right. right. right. left. auto.
  - destruct (runtime c) eqn:Er; cbn [negb].
    + destruct (closed s) eqn:Ec; [right; right; left; rewrite pcof_setpc_same; auto|].
      destruct (Z.ltb 0 (permits s)) eqn:Ep; rewrite pcof_setpc_same; auto.
    + rewrite pcof_setpc_same. right. right. right. right. auto.
Qed.

Theorem result_cause c s l s' t r :
  GQ s -> step c s l = Some s' -> carries (pcof s' t) = Some r ->
  carries (pcof s t) = Some r \/ (label_task l = Some t /\ cause c s l t r).
Proof.
  intros G H Hc.
  assert (Hother : label_task l <> Some t -> carries (pcof s t) = Some r).
  { intros Hl. destruct (step_others c s l s' t G H Hl) as [E|(g&E1&E2)].
    - rewrite <- E. exact Hc.
    - rewrite E2 in Hc. discriminate Hc. }
  destruct (label_task l) as [t1|] eqn:El; [|left; apply Hother; discriminate].
  destruct (Nat.eq_dec t1 t) as [->|Hne]; [|left; apply Hother; congruence].
  clear Hother.
  step_leaves H; cbn [label_task] in El; inversion El; subst;
    try (rewrite pcof_tick in Hc; unfold enter_stage, hand_out, enter_postc in Hc;
         rewrite pcof_setpc_same in Hc; cbn [carries] in Hc);
    try discriminate Hc;
    try (inversion Hc; subst; clear Hc);
    repeat match goal with E : pcof s t = _ |- _ => pose proof E as Hpc; rewrite E; clear E end;
    cbn [carries];
    try (left; reflexivity).
  all: try (right; split; [reflexivity|]).
  all: try (eapply CaUnit; rewrite Hpc; reflexivity).
  all: try (eapply CaPanic; reflexivity).
  all: try (eapply CaCancel; reflexivity).
  - eapply CaNoRtRecycle; try reflexivity; try eassumption. congruence.
  - eapply CaNoRtRecycle; try reflexivity; try eassumption. congruence.
  - (* acquire *)
    rewrite pcof_tick in H0. pose proof (acquire_result c s t g) as A. cbv zeta in A.
    destruct A as [A|[A|[(A&A1)|[(A&A1&A2&A3)|(A&A1&A2)]]]]; rewrite A in H0; cbn [carries] in H0;
      try discriminate H0; inversion H0; subst.
    + eapply CaClosedNew; try reflexivity; eassumption.
    + eapply CaWaitZero; try reflexivity; eassumption.
    + eapply CaNoRtWait; try reflexivity; eassumption.
  - eapply CaClosedWaiting; try reflexivity; eassumption.
  - eapply CaClosedWaiting; try reflexivity; eassumption.
  - (* spurious poll *)
    rewrite pcof_tick, Hpc in H0. discriminate H0.
  - eapply CaNoRtCreate; try reflexivity; try eassumption; [congruence|].
    eapply pop_idle_none. eassumption.
  - eapply CaNoRtCreate; try reflexivity; try eassumption; [congruence|].
    eapply pop_idle_none. eassumption.
  - eapply CaOkCreated; try reflexivity; eassumption.
  - (* next stage *)
    rewrite pcof_tick, next_stage_succ in H0. destruct (succ_stage c st) as [st'|] eqn:Es.
    + unfold enter_stage in H0. rewrite pcof_setpc_same in H0. discriminate H0.
    + unfold hand_out in H0. rewrite pcof_setpc_same in H0. inversion H0; subst.
      eapply CaOkRecycled; try reflexivity; eassumption.
  - eapply CaBackend; try reflexivity; eassumption.
  - eapply CaOkHooks; try reflexivity; eassumption.
  - eapply CaPostCreate; try reflexivity; eassumption.
  - eapply CaWaitFire; try reflexivity; try eassumption.
    match goal with E : negb (runtime c) = false |- _ => apply negb_false_iff in E; exact E end.
  - eapply CaCreateFire; try reflexivity; try eassumption.
    match goal with E : negb (runtime c) = false |- _ => apply negb_false_iff in E; exact E end.
Qed.

(* every result an operation can end with has one of the documented causes; in particular
   Timeout(Recycle) and errors of recycle hooks are never returned *)
Theorem results_have_causes c tr : forall s t r,
  run c (init c) tr = Some s -> carries (pcof s t) = Some r ->
  exists s0 l, Reachable c s0 /\ label_task l = Some t /\ cause c s0 l t r.
Proof.
  induction tr as [|l tr IH] using rev_ind; intros s t r H Hc.
  - cbn [run] in H. inversion H; subst. unfold pcof in Hc. cbn in Hc. destruct t; discriminate Hc.
  - rewrite run_snoc in H. destruct (run c (init c) tr) as [s1|] eqn:E; [|discriminate].
    assert (R1 : Reachable c s1) by (exists tr; exact E).
    destruct (result_cause c s1 l s t r (inv_q _ (reachable_inv c s1 R1)) H Hc) as [K|[K1 K2]].
    + apply (IH s1 t r eq_refl K).
    + exists s1, l. auto.
Qed.

Corollary never_timeout_recycle c s t :
  Reachable c s -> carries (pcof s t) <> Some RTimeoutRecycle.
Proof.
  intros [tr H] Hc. destruct (results_have_causes c tr s t _ H Hc) as (s0 & l & _ & _ & K).
  inversion K.
Qed.
