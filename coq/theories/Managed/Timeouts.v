(* C10: timeouts, non-blocking mode, missing runtime. *)
From Coq Require Import List ZArith Lia Bool Arith.
From DP Require Import Common.Tab Managed.Model Managed.Contrib Managed.Simp Managed.InvQ
  Managed.Effects Managed.StepCases Managed.Frame Managed.InvG Managed.InvClose Managed.Count
  Managed.Recs Managed.InvW Managed.Others Managed.All Managed.Ops Managed.Ops2 Managed.Protocol.
Import ListNotations.
Open Scope Z_scope.

(* a zero wait timeout never waits: the acquire attempt ends at once, with a permit, with
   Timeout(Wait) exactly when no permit is free on an open pool, or with Closed *)
Theorem zero_wait c s t g :
  gw g = TZero ->
  let p := pcof (acquire c s t g) t in
  (p = GSettle g /\ closed s = false /\ 0 < permits s)
  \/ (p = UUsers RTimeoutWait /\ closed s = false /\ permits s <= 0)
  \/ (p = UUsers RClosed /\ closed s = true).
Proof.
  intros Hw. cbv zeta. unfold acquire. rewrite Hw.
  destruct (closed s) eqn:Ec; [right; right; rewrite pcof_setpc_same; auto|].
  destruct (Z.ltb 0 (permits s)) eqn:Ep; rewrite pcof_setpc_same.
  - apply Z.ltb_lt in Ep. left. auto.
  - apply Z.ltb_ge in Ep. right. left. auto.
Qed.

(* the wait deadline passes while the caller is still waiting: Timeout(Wait); the caller
   leaves the queue, and a permit it had just been assigned goes to the next waiter *)
Theorem wait_deadline c s t g a :
  runtime c = true -> pcof s t = GWait g a -> gw g = TFin ->
  step c s (Fire t) = Some (tick (setpc (leave_wait s t a) t (UUsers RTimeoutWait))).
Proof.
  intros Hr Hpc Hw. cbn [step]. unfold fire_task. rewrite Hr, Hpc, Hw. reflexivity.
Qed.

Lemma wait_deadline_leaves_queue s t g a :
  GQ s -> pcof s t = GWait g a ->
  ~ In t (queue (setpc (leave_wait s t a) t (UUsers RTimeoutWait))).
Proof.
  intros G Hpc. sp. unfold leave_wait. destruct a.
  - (* assigned: it was no longer queued, and sem_add only shortens the queue *)
    assert (Hn : ~ In t (queue s)) by (apply (not_waiting_not_queued s t G); rewrite Hpc; reflexivity).
    destruct (sem_add_cases s G) as [[Eq ->]|(w & q & g0 & Eq & Hpw & Hp & ->)]; sp; [exact Hn|].
    intros Hin. apply Hn. rewrite Eq. right. exact Hin.
  - sp. apply not_in_remove_nat. exact (q_nodup _ G).
Qed.

(* the create deadline passes: Timeout(Create), and the undo chain gives the slot back *)
Theorem create_deadline c s t g :
  runtime c = true -> pcof s t = GCreate g -> timed (gc g) = true ->
  exists s1, step c s (Fire t) = Some s1 /\ pcof s1 t = UPermit RTimeoutCreate
    /\ unwind_len (pcof s1 t) = Some (2%nat, RTimeoutCreate)
    /\ vec s1 = vec s /\ size s1 = size s /\ out s1 = out s /\ log s1 = log s.
Proof.
  intros Hr Hpc Ht. cbn [step]. unfold fire_task. rewrite Hr, Hpc, Ht. cbn [negb option_map].
  eexists. split; [reflexivity|]. rewrite pcof_tick, pcof_setpc_same. sp. splits; reflexivity.
Qed.

(* the recycle deadline passes: the object counts as rejected, the get moves on *)
Theorem recycle_deadline c s t g o :
  runtime c = true -> pcof s t = GRec g o SRecycle -> timed (gr g) = true ->
  step c s (Fire t) = Some (tick (setpc s t (UUnready g o CLoop))).
Proof.
  intros Hr Hpc Ht. cbn [step]. unfold fire_task. rewrite Hr, Hpc, Ht. reflexivity.
Qed.

(* no timer exists without a runtime, so nothing can wait for one *)
Theorem no_runtime_no_timer c s t : runtime c = false -> step c s (Fire t) = None.
Proof. intros Hr. cbn [step]. unfold fire_task. rewrite Hr. reflexivity. Qed.

(* without a runtime: a recycle timeout is reported before anything is touched *)
Theorem no_runtime_recycle c s t g :
  runtime c = false -> pcof s t = GStart g -> gr g <> TNone ->
  step c s (Step t) = Some (tick (setpc s t (PDone RNoRuntime))).
Proof.
  intros Hr Hpc Hg. cbn [step]. unfold step_task. rewrite Hpc, Hr.
  destruct (gr g); [contradiction|reflexivity|reflexivity].
Qed.

(* a finite wait timeout: NoRuntimeSpecified instead of waiting, nothing taken *)
Theorem no_runtime_wait c s t g :
  runtime c = false -> gw g = TFin ->
  acquire c s t g = setpc s t (UUsers RNoRuntime).
Proof. intros Hr Hw. unfold acquire. rewrite Hw, Hr. reflexivity. Qed.

(* a create timeout: Manager::create is not called, the slot is given back *)
Theorem no_runtime_create c s t g :
  runtime c = false -> pcof s t = GPop g -> vec s = [] -> gc g <> TNone ->
  step c s (Step t) = Some (tick (setpc s t (UPermit RNoRuntime))).
Proof.
  intros Hr Hpc Hv Hg. cbn [step]. unfold step_task. rewrite Hpc, Hv, pop_idle_nil, Hr.
  destruct (gc g); [contradiction|reflexivity|reflexivity].
Qed.

(* PoolBuilder::build *)
Definition build_err (tw tc tr : tmo) (rt : bool) : bool :=
  (timed tw || timed tc || timed tr) && negb rt.

Theorem build_rule tw tc tr rt :
  build_err tw tc tr rt = true <-> ((tw <> TNone \/ tc <> TNone \/ tr <> TNone) /\ rt = false).
Proof.
  unfold build_err. destruct tw, tc, tr, rt; cbn; split; intros H; try discriminate; try reflexivity;
    try (destruct H as [[H|[H|H]] H']; congruence);
    try (split; [|reflexivity]; auto; fail);
    try (split; [|reflexivity]; first [left; discriminate|right; left; discriminate|right; right; discriminate]).
Qed.
