(* Per-task contributions to the pool's counters, and the projection lemmas used by
   every invariant proof. *)
From Coq Require Import List ZArith Lia Bool Arith.
From DP Require Import Common.Tab Managed.Model.
Import ListNotations.
Open Scope Z_scope.

(* holds a semaphore permit (or has been assigned one, or carries the permit of the
   object it is returning) *)
Definition hp (p : pc) : Z :=
  match p with
  | GWait _ true | GSettle _ | GPop _ | GRec _ _ _ | GCreate _ | GCreated _ _ | GPostC _ _ _
  | UUnready _ _ _ | UDetach _ _ _ | UPermit _
  | RStart _ | RLock _ | RAdd | RSurplus _
  | TStart _ | TLock _ | TAdd _ => 1
  | _ => 0
  end.

(* holds an object that is counted in Slots::size *)
Definition cs (p : pc) : Z :=
  match p with
  | GRec _ _ _ | GPostC _ _ _ | UUnready _ _ _ | RStart _ | RLock _ | TStart _ | TLock _ => 1
  | _ => 0
  end.

(* holds a live object or is committed to creating one (C01's "exists") *)
Definition ell (p : pc) : Z :=
  match p with
  | GRec _ _ _ | GCreate _ | GCreated _ _ | GPostC _ _ _ | UUnready _ _ _
  | RStart _ | RLock _ | TStart _ | TLock _ => 1
  | _ => 0
  end.

(* has incremented [users] and not yet decremented it *)
Definition up (p : pc) : Z :=
  match p with
  | GAcq _ | GWait _ _ | GSettle _ | GPop _ | GRec _ _ _ | GCreate _ | GCreated _ _
  | GPostC _ _ _ | UUnready _ _ _ | UDetach _ _ _ | UPermit _ | UUsers _
  | RStart _ | TStart _ => 1
  | _ => 0
  end.

(* is inside get(), from the caller's point of view *)
Definition inget (p : pc) : Z :=
  match p with
  | GStart _ | GAcq _ | GWait _ _ | GSettle _ | GPop _ | GRec _ _ _ | GCreate _ | GCreated _ _
  | GPostC _ _ _ | UUnready _ _ _ | UDetach _ _ _ | UPermit _ | UUsers _ => 1
  | _ => 0
  end.

Lemma hp_nonneg p : 0 <= hp p. Proof. destruct p as [| | |? []| | | | | | | | | | | | | | | | | | | | | | | | | | | | | | ]; cbn; lia. Qed.
Lemma cs_nonneg p : 0 <= cs p. Proof. destruct p; cbn; lia. Qed.
Lemma ell_nonneg p : 0 <= ell p. Proof. destruct p; cbn; lia. Qed.
Lemma up_nonneg p : 0 <= up p. Proof. destruct p; cbn; lia. Qed.
Lemma ell_le_hp p : ell p <= hp p.
Proof. destruct p as [| | |? []| | | | | | | | | | | | | | | | | | | | | | | | | | | | | | ]; cbn; lia. Qed.
Lemma cs_le_ell p : cs p <= ell p. Proof. destruct p; cbn; lia. Qed.

Definition zlen {A} (l : list A) : Z := Z.of_nat (length l).

Definition live (s : state) : Z := zlen (vec s) + zlen (out s) + sum ell (tasks s).
