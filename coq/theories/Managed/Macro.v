(* Task-level execution: a label is applied and then every task that can run without outside
   help is run until all are blocked (at a gate, queued on the semaphore) or finished. This is
   what an async runtime does between two external events; it is by definition a sequence of
   micro steps, so every invariant holds for it. Used by the virtual-clock harness (H2). *)
From Coq Require Import List ZArith Lia Bool Arith.
From DP Require Import Common.Tab Managed.Model Managed.Obs.
Import ListNotations.
Open Scope Z_scope.

(* what the runtime would do next with task t by itself *)
Inductive auto := ANone | AStep | AFire.

Definition auto_of (c : cfg) (s : state) (p : pc) : auto :=
  match p with
  | PNone | PDone _ => ANone
  | GWait _ a => if a || closed s then AStep else ANone
  | GCreate g => if runtime c then match gc g with TZero => AFire | _ => ANone end else ANone
  | GRec g _ SRecycle => if runtime c then match gr g with TZero => AFire | _ => ANone end else ANone
  | GRec _ _ _ | GPostC _ _ _ => ANone
  | _ => AStep
  end.

Fixpoint first_auto (c : cfg) (s : state) (l : list pc) (i : nat) : option (nat * auto) :=
  match l with
  | [] => None
  | p :: r => match auto_of c s p with
              | ANone => first_auto c s r (S i)
              | a => Some (i, a)
              end
  end.

(* the task the label is about is being polled right now: it runs until it blocks before any
   task it woke gets its turn; the others run in index order *)
Definition next_auto (c : cfg) (s : state) (pri : nat) : option (nat * auto) :=
  match auto_of c s (get PNone pri (tasks s)) with
  | ANone => first_auto c s (tasks s) 0
  | a => Some (pri, a)
  end.

Fixpoint settle (c : cfg) (fuel : nat) (pri : nat) (s : state) : option state :=
  match fuel with
  | O => None                                      (* out of fuel: reported as divergence *)
  | S f =>
      match next_auto c s pri with
      | None => Some s
      | Some (t, AStep) => match step c s (Step t) with Some s' => settle c f pri s' | None => None end
      | Some (t, _) => match step c s (Fire t) with Some s' => settle c f pri s' | None => None end
      end
  end.

Definition macro_fuel : nat := 400.

Definition label_pri (l : label) : nat :=
  match l with Start t _ | Step t | Env t _ | Cancel t | Fire t => t | Mark _ => 0 end.

Definition macro (c : cfg) (s : state) (l : label) : option state :=
  match step c s l with
  | Some s' => settle c macro_fuel (label_pri l) s'
  | None => None
  end.

Fixpoint run_obs_macro (c : cfg) (s : state) (tr : list label) : list Z :=
  match tr with
  | [] => []
  | l :: tr' =>
      match macro c s l with
      | Some s' =>
          let o := obs (length (log s)) s' in
          n2z (length o) :: o ++ run_obs_macro c s' tr'
      | None => [-1]
      end
  end.

Fixpoint first_diff_macro (c : cfg) (s : state) (tr : list label) (os : list (list Z)) (i : Z) : Z :=
  match tr, os with
  | l :: tr', o :: os' =>
      match macro c s l with
      | Some s' =>
          if zlist_eqb (obs (length (log s)) s') o then first_diff_macro c s' tr' os' (i + 1) else i
      | None => i
      end
  | _, _ => -1
  end.

(* a macro run is a micro run *)
Fixpoint settle_trace (c : cfg) (fuel : nat) (pri : nat) (s : state) : list label :=
  match fuel with
  | O => []
  | S f =>
      match next_auto c s pri with
      | None => []
      | Some (t, AStep) => Step t :: match step c s (Step t) with Some s' => settle_trace c f pri s' | None => [] end
      | Some (t, _) => Fire t :: match step c s (Fire t) with Some s' => settle_trace c f pri s' | None => [] end
      end
  end.

Lemma settle_is_run c pri : forall fuel s s',
  settle c fuel pri s = Some s' -> run c s (settle_trace c fuel pri s) = Some s'.
Proof.
  induction fuel as [|f IH]; intros s s' H; cbn [settle settle_trace] in *; [discriminate|].
  destruct (next_auto c s pri) as [[t a]|]; [|inversion H; reflexivity].
  destruct a.
  - destruct (step c s (Fire t)) as [s1|] eqn:E; [|discriminate]. cbn [run]. rewrite E. apply IH, H.
  - destruct (step c s (Step t)) as [s1|] eqn:E; [|discriminate]. cbn [run]. rewrite E. apply IH, H.
  - destruct (step c s (Fire t)) as [s1|] eqn:E; [|discriminate]. cbn [run]. rewrite E. apply IH, H.
Qed.

Theorem macro_is_run c s l s' :
  macro c s l = Some s' -> exists tr, run c s (l :: tr) = Some s'.
Proof.
  unfold macro. generalize macro_fuel. intros fuel.
  destruct (step c s l) as [s1|] eqn:E; [|discriminate]. intros H.
  exists (settle_trace c fuel (label_pri l) s1). cbn [run]. rewrite E. apply settle_is_run, H.
Qed.
