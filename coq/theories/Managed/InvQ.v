(* The semaphore / wait queue invariant and the characterisation of sem_add. *)
From Coq Require Import List ZArith Lia Bool Arith.
From DP Require Import Common.Tab Managed.Model Managed.Contrib Managed.Simp.
Import ListNotations.
Open Scope Z_scope.

Definition waiting_pc (p : pc) : bool := match p with GWait _ false => true | _ => false end.

Record GQ (s : state) : Prop := {
  q_pc : forall w, In w (queue s) -> waiting_pc (pcof s w) = true;
  q_nodup : NoDup (queue s);
  q_perm : queue s <> [] -> permits s = 0;
  q_closed : closed s = true -> queue s = [];
  q_pnn : 0 <= permits s
}.

Lemma GQ_init c : GQ (init c).
Proof.
  constructor; cbn; try (intros; contradiction || constructor || congruence || reflexivity || lia).
Qed.

Lemma GQ_same s s' :
  queue s' = queue s -> permits s' = permits s -> closed s' = closed s -> tasks s' = tasks s ->
  GQ s -> GQ s'.
Proof.
  intros Hq Hp Hc Ht [H1 H2 H3 H4 H5].
  constructor; unfold pcof in *; rewrite ?Hq, ?Hp, ?Hc, ?Ht; assumption.
Qed.

Lemma not_waiting_not_queued s t : GQ s -> waiting_pc (pcof s t) = false -> ~ In t (queue s).
Proof. intros G H Hin. apply (q_pc _ G) in Hin. congruence. Qed.

Lemma GQ_setpc s0 s t p :
  GQ s0 -> tasks s0 = tasks s -> waiting_pc (pcof s t) = false -> GQ (setpc s0 t p).
Proof.
  intros G Ht Hw.
  assert (Hw0 : waiting_pc (pcof s0 t) = false) by (unfold pcof in *; rewrite Ht; exact Hw).
  pose proof (not_waiting_not_queued _ _ G Hw0) as Hnq.
  destruct G as [H1 H2 H3 H4 H5].
  constructor; sp; try assumption.
  intros w Hin. destruct (Nat.eq_dec t w) as [->|Hne]; [contradiction|].
  rewrite pcof_setpc_other by exact Hne. apply H1, Hin.
Qed.

(* taking a free permit *)
Lemma GQ_take s : GQ s -> 0 < permits s -> GQ (set_permits s (permits s - 1)).
Proof.
  intros [H1 H2 H3 H4 H5] Hp. constructor; sp; try assumption; try lia.
  intros Hq. specialize (H3 Hq). lia.
Qed.

Lemma nodup_snoc (l : list nat) t : NoDup l -> ~ In t l -> NoDup (l ++ [t]).
Proof.
  induction l as [|x l IH]; cbn [app]; intros Hd Hn.
  - constructor; [intros []|constructor].
  - inversion Hd as [|? ? Hx Hd']; subst. constructor.
    + intros Hin. apply in_app_or in Hin. destruct Hin as [Hin|[->|[]]]; [contradiction|].
      apply Hn. left. reflexivity.
    + apply IH; [exact Hd'|]. intros Hin. apply Hn. right. exact Hin.
Qed.

(* joining the queue *)
Lemma GQ_enqueue s t g :
  GQ s -> waiting_pc (pcof s t) = false -> closed s = false -> permits s <= 0 ->
  GQ (setpc (set_queue s (queue s ++ [t])) t (GWait g false)).
Proof.
  intros G Hw Hc Hp. pose proof (not_waiting_not_queued _ _ G Hw) as Hnq.
  destruct G as [H1 H2 H3 H4 H5]. constructor; sp.
  - intros w Hin. destruct (Nat.eq_dec t w) as [->|Hne].
    + rewrite pcof_setpc_same. reflexivity.
    + rewrite pcof_setpc_other by exact Hne. apply in_app_or in Hin. destruct Hin as [Hin|[->|[]]].
      * apply H1 in Hin. exact Hin.
      * congruence.
  - apply nodup_snoc; assumption.
  - intros _. lia.
  - congruence.
  - exact H5.
Qed.

Lemma in_remove_nat x y l : In x (remove_nat y l) -> In x l.
Proof.
  induction l as [|z l IH]; cbn [remove_nat]; [tauto|].
  destruct (Nat.eqb y z); cbn [In]; tauto.
Qed.

Lemma nodup_remove_nat y l : NoDup l -> NoDup (remove_nat y l).
Proof.
  induction l as [|z l IH]; cbn [remove_nat]; intros H; [constructor|].
  inversion H as [|? ? Hn Hd]; subst. destruct (Nat.eqb y z); [exact Hd|].
  constructor; [|apply IH, Hd]. intros Hin. apply Hn, (in_remove_nat _ _ _ Hin).
Qed.

Lemma not_in_remove_nat y l : NoDup l -> ~ In y (remove_nat y l).
Proof.
  induction l as [|z l IH]; cbn [remove_nat]; intros H; [tauto|].
  inversion H as [|? ? Hn Hd]; subst. destruct (Nat.eqb y z) eqn:E.
  - apply Nat.eqb_eq in E. subst. exact Hn.
  - apply Nat.eqb_neq in E. intros [Hin|Hin]; [congruence|]. apply (IH Hd), Hin.
Qed.

(* leaving the queue without a permit (cancelled or timed out waiter) *)
Lemma GQ_leave s t p :
  GQ s -> waiting_pc p = false -> GQ (setpc (set_queue s (remove_nat t (queue s))) t p).
Proof.
  intros [H1 H2 H3 H4 H5] Hp. constructor; sp.
  - intros w Hin. destruct (Nat.eq_dec t w) as [->|Hne].
    + exfalso. apply (not_in_remove_nat w (queue s) H2), Hin.
    + rewrite pcof_setpc_other by exact Hne. apply H1. apply (in_remove_nat _ _ _ Hin).
  - apply nodup_remove_nat, H2.
  - intros Hq. apply H3. intros E. rewrite E in Hq. apply Hq. reflexivity.
  - intros Hc. rewrite (H4 Hc). reflexivity.
  - exact H5.
Qed.

(* characterisation of sem_add under the queue invariant *)
Lemma sem_add_cases s :
  GQ s ->
  (queue s = [] /\ sem_add s = set_permits s (permits s + 1)) \/
  (exists w q g, queue s = w :: q /\ pcof s w = GWait g false /\ permits s = 0 /\
                 sem_add s = setpc (set_queue s q) w (GWait g true)).
Proof.
  intros G. unfold sem_add. destruct (queue s) as [|w q] eqn:E.
  - left. split; reflexivity.
  - right. pose proof (q_pc _ G w) as Hw. rewrite E in Hw. specialize (Hw (or_introl eq_refl)).
    destruct (pcof s w) as [| | |g a| | | | | | | | | | | | | | | | | | | | | | | | | | | | | | ] eqn:Ew;
      try discriminate Hw.
    destruct a; [discriminate Hw|].
    exists w, q, g. split; [reflexivity|]. split; [exact Ew|]. split; [|reflexivity].
    apply (q_perm _ G). rewrite E. discriminate.
Qed.

Lemma GQ_sem_add s : GQ s -> GQ (sem_add s).
Proof.
  intros G. destruct (sem_add_cases s G) as [[Eq ->]|(w & q & g & Eq & Hw & Hp & ->)].
  - destruct G as [H1 H2 H3 H4 H5]. constructor.
    + intros w Hin. sp. rewrite Eq in Hin. destruct Hin.
    + sp. exact H2.
    + sp. intros Hq. contradiction.
    + sp. exact H4.
    + sp. lia.
  - destruct G as [H1 H2 H3 H4 H5]. rewrite Eq in *. inversion H2 as [|? ? Hn Hd]; subst.
    constructor; sp.
    + intros x Hin. destruct (Nat.eq_dec w x) as [->|Hne]; [contradiction|].
      rewrite pcof_setpc_other by exact Hne. apply H1. right. exact Hin.
    + exact Hd.
    + intros _. exact Hp.
    + intros Hc. specialize (H4 Hc). discriminate.
    + exact H5.
Qed.

(* tasks that are not waiting keep their pc across sem_add *)
Lemma pcof_sem_add s t : GQ s -> waiting_pc (pcof s t) = false -> pcof (sem_add s) t = pcof s t.
Proof.
  intros G Hw. destruct (sem_add_cases s G) as [[Eq ->]|(w & q & g & Eq & Hpw & Hp & ->)].
  - reflexivity.
  - destruct (Nat.eq_dec w t) as [->|Hne].
    + rewrite Hpw in Hw. discriminate.
    + rewrite pcof_setpc_other by exact Hne. reflexivity.
Qed.

Lemma GQ_sem_add_n n s : GQ s -> GQ (sem_add_n n s).
Proof. revert s; induction n as [|n IH]; intros s G; cbn [sem_add_n]; [exact G|]. apply IH, GQ_sem_add, G. Qed.

Lemma pcof_sem_add_n n s t :
  GQ s -> waiting_pc (pcof s t) = false -> pcof (sem_add_n n s) t = pcof s t.
Proof.
  revert s; induction n as [|n IH]; intros s G Hw; cbn [sem_add_n]; [reflexivity|].
  rewrite IH.
  - apply pcof_sem_add; assumption.
  - apply GQ_sem_add, G.
  - rewrite pcof_sem_add; assumption.
Qed.
