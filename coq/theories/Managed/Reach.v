(* Lifting the one-step invariants to every run (every reachable state). *)
From Coq Require Import List ZArith Lia Bool Arith.
From DP Require Import Common.Tab Managed.Model Managed.Contrib Managed.Simp Managed.InvQ
  Managed.Effects Managed.InvG Managed.InvCore.
Import ListNotations.
Open Scope Z_scope.

Lemma G_run c tr : forall s s', GQ s -> GA s -> run c s tr = Some s' -> GQ s' /\ GA s'.
Proof.
  induction tr as [|l tr IH]; intros s s' G A H; cbn [run] in H.
  - inversion H; subst. split; assumption.
  - destruct (step c s l) as [s1|] eqn:E; [|discriminate].
    apply (IH s1 s'); [eapply GQ_step; [exact G|exact (a_debt _ A)|exact E]|eapply GA_step; eassumption|exact H].
Qed.

Theorem reachable_G c s : Reachable c s -> GQ s /\ GA s.
Proof. intros [tr H]. eapply G_run; [apply GQ_init|apply GA_init|exact H]. Qed.

Lemma CI_run c tr : forall s s',
  GQ s -> GA s -> CI c s -> no_rc tr = true -> run c s tr = Some s' -> CI c s'.
Proof.
  induction tr as [|l tr IH]; intros s s' G A C Hn H; cbn [run] in H.
  - inversion H; subst. exact C.
  - cbn [no_rc forallb] in Hn. apply andb_prop in Hn. destruct Hn as [Hl Hn].
    destruct (step c s l) as [s1|] eqn:E; [|discriminate].
    apply (IH s1 s'); try assumption.
    + eapply GQ_step; [exact G|exact (a_debt _ A)|exact E].
    + eapply GA_step; eassumption.
    + eapply CI_step; eassumption.
Qed.

Lemma run_app c tr1 tr2 s : run c s (tr1 ++ tr2) =
  match run c s tr1 with Some s1 => run c s1 tr2 | None => None end.
Proof.
  revert s; induction tr1 as [|l tr IH]; intros s; cbn [run app]; [reflexivity|].
  destruct (step c s l); [apply IH|reflexivity].
Qed.

(* ---- C01 *)
Lemma live_le_max c s : GQ s -> GA s -> CI c s -> alive s = true -> live s <= Z.of_nat (max0 c).
Proof.
  intros G A C Ha. unfold live.
  pose proof (a_perm _ A Ha). pose proof (ci_back _ _ C Ha).
  pose proof (ci_debt _ _ C). pose proof (ci_maxs _ _ C). lia.
Qed.

Lemma c01_live c tr s :
  run c (init c) tr = Some s -> no_rc tr = true -> alive s = true -> live s <= Z.of_nat (max0 c).
Proof.
  intros H Hn Ha.
  destruct (G_run c tr _ _ (GQ_init c) (GA_init c) H) as [G A].
  pose proof (CI_run c tr _ _ (GQ_init c) (GA_init c) (CI_init c) Hn H) as C.
  apply live_le_max; assumption.
Qed.

Lemma c01_holders c tr s :
  run c (init c) tr = Some s -> no_rc tr = true -> alive s = true ->
  zlen (out s) <= Z.of_nat (max0 c).
Proof.
  intros H Hn Ha. pose proof (c01_live c tr s H Hn Ha) as L. unfold live in L.
  pose proof (sum_nonneg ell (tasks s) ell_nonneg). pose proof (zlen_nonneg (vec s)). lia.
Qed.

(* the manager is only asked to create when the new object fits: every task that sits in
   Manager::create (or holds the created object) is counted in [live] *)
Lemma c01_creating c tr s t g :
  run c (init c) tr = Some s -> no_rc tr = true -> alive s = true -> pcof s t = GCreate g ->
  zlen (vec s) + zlen (out s) + (sum ell (tasks s) - ell (pcof s t)) + 1 <= Z.of_nat (max0 c).
Proof.
  intros H Hn Ha Hpc. pose proof (c01_live c tr s H Hn Ha) as L. unfold live in L.
  rewrite Hpc. cbn [ell]. lia.
Qed.

(* size never exceeds max_size without resize *)
Lemma c01_size c tr s :
  run c (init c) tr = Some s -> no_rc tr = true -> alive s = true -> size s <= Z.of_nat (max0 c).
Proof.
  intros H Hn Ha. pose proof (c01_live c tr s H Hn Ha) as L. unfold live in L.
  destruct (G_run c tr _ _ (GQ_init c) (GA_init c) H) as [G A].
  pose proof (a_size _ A Ha). pose proof (sum_le cs ell (tasks s) cs_le_ell). lia.
Qed.
