(* The capacity is usable (C02, operational form): from any state in which the usable capacity
   permits - debt is k or more and nobody waits, k get() calls issued one after the other - the
   manager and every hook answering Ok - all return an object, and the objects are held
   concurrently. With the conservation theorem this gives: once everything has been returned
   the pool hands out max_size objects again. The run is constructed explicitly (a symbolic
   execution of the model), for every configuration (any number of hooks, either queue mode),
   any outstanding debt and any idle queue. *)
From Coq Require Import List ZArith Lia Bool Arith.
From DP Require Import Common.Tab Managed.Model Managed.Contrib Managed.Simp Managed.InvQ
  Managed.Effects Managed.Frame Managed.InvG Managed.All Managed.Ops Managed.Protocol Managed.Thms.
Import ListNotations.
Open Scope Z_scope.

Definition g0 : getk := {| gw := TNone; gc := TNone; gr := TNone |}.

(* what a solo run of task t leaves alone *)
Record frame (s s' : state) (t : nat) : Prop := {
  f_closed : closed s' = closed s;
  f_alive : alive s' = alive s;
  f_queue : queue s' = queue s;
  f_maxs : maxs s' = maxs s;
  f_others : forall u, u <> t -> pcof s' u = pcof s u;
  f_len : (t < length (tasks s))%nat -> length (tasks s') = length (tasks s)
}.

Lemma frame_refl s t : frame s s t.
Proof. constructor; auto. Qed.

Lemma frame_trans s1 s2 s3 t : (t < length (tasks s1))%nat -> frame s1 s2 t -> frame s2 s3 t -> frame s1 s3 t.
Proof.
  intros Hl [A1 A2 A3 A4 A5 A6] [B1 B2 B3 B4 B5 B6]. specialize (A6 Hl).
  constructor; try congruence.
  - intros u Hu. rewrite B5 by exact Hu. apply A5, Hu.
  - intros _. rewrite B6 by lia. exact A6.
Qed.

(* frame of the basic state transformers *)
Lemma frame_setpc s0 s t p :
  closed s0 = closed s -> alive s0 = alive s -> queue s0 = queue s -> maxs s0 = maxs s ->
  tasks s0 = tasks s -> frame s (tick (setpc s0 t p)) t.
Proof.
  intros H1 H2 H3 H4 H5. constructor; sp; try assumption.
  - intros u Hu. unfold pcof. sp. rewrite (get_upd_other PNone) by congruence. rewrite H5. reflexivity.
  - intros Hl. rewrite H5. apply upd_length_lt. exact Hl.
Qed.

Lemma run_app c : forall tr1 s s1 tr2,
  run c s tr1 = Some s1 -> run c s (tr1 ++ tr2) = run c s1 tr2.
Proof.
  induction tr1 as [|l tr1 IH]; intros s s1 tr2 H; cbn [run app] in *.
  - inversion H; reflexivity.
  - destruct (step c s l) as [s'|]; [|discriminate]. apply IH, H.
Qed.

Lemma run_one c s l s' : step c s l = Some s' -> run c s [l] = Some s'.
Proof. intros H. cbn [run]. rewrite H. reflexivity. Qed.

(* ---------------------------------------------------------------- acquiring, settling the debt *)
Lemma acquire_loop c t : forall d s,
  (t < length (tasks s))%nat ->
  pcof s t = GAcq g0 -> closed s = false -> debt s = Z.of_nat d -> Z.of_nat d < permits s ->
  exists tr s', run c s tr = Some s' /\ pcof s' t = GPop g0
    /\ permits s' = permits s - Z.of_nat d - 1 /\ debt s' = 0
    /\ vec s' = vec s /\ out s' = out s /\ frame s s' t.
Proof.
  induction d as [|d IH]; intros s Hl Hpc Hc Hd Hp.
  - (* acquire, settle (nothing owed) *)
    assert (E1 : step c s (Step t) = Some (tick (setpc (set_permits s (permits s - 1)) t (GSettle g0)))).
    { cbn [step]. unfold step_task. rewrite Hpc. unfold acquire. cbn [gw g0]. rewrite Hc.
      destruct (Z.ltb_spec 0 (permits s)); [reflexivity|cbn in Hp; lia]. }
    set (s1 := tick (setpc (set_permits s (permits s - 1)) t (GSettle g0))) in *.
    assert (E2 : step c s1 (Step t) = Some (tick (setpc s1 t (GPop g0)))).
    { cbn [step]. unfold step_task. unfold s1 at 1. rewrite pcof_tick, pcof_setpc_same.
      replace (debt s1) with 0 by (unfold s1; sp; lia). reflexivity. }
    exists [Step t; Step t]. eexists. split; [cbn [run]; rewrite E1, E2; reflexivity|].
    rewrite pcof_tick, pcof_setpc_same. unfold s1. sp. splits; try reflexivity; try lia.
    apply frame_trans with (tick (setpc (set_permits s (permits s - 1)) t (GSettle g0))); [exact Hl| |].
    + apply frame_setpc; reflexivity.
    + apply frame_setpc; reflexivity.
  - (* acquire, settle one permit of the debt, acquire again *)
    assert (E1 : step c s (Step t) = Some (tick (setpc (set_permits s (permits s - 1)) t (GSettle g0)))).
    { cbn [step]. unfold step_task. rewrite Hpc. unfold acquire. cbn [gw g0]. rewrite Hc.
      destruct (Z.ltb_spec 0 (permits s)); [reflexivity|lia]. }
    set (s1 := tick (setpc (set_permits s (permits s - 1)) t (GSettle g0))) in *.
    assert (D1 : debt s1 = Z.of_nat (S d)) by (unfold s1; sp; exact Hd).
    assert (E2 : step c s1 (Step t) = Some (tick (setpc (set_debt s1 (debt s1 - 1)) t (GAcq g0)))).
    { cbn [step]. unfold step_task. unfold s1 at 1. rewrite pcof_tick, pcof_setpc_same.
      destruct (Z.ltb_spec 0 (debt s1)); [reflexivity|lia]. }
    set (s2 := tick (setpc (set_debt s1 (debt s1 - 1)) t (GAcq g0))) in *.
    assert (F12 : frame s s2 t).
    { apply frame_trans with s1; [exact Hl| |]; [apply frame_setpc; reflexivity|].
      unfold s2. apply frame_setpc; reflexivity. }
    assert (Hl2 : (t < length (tasks s2))%nat) by (rewrite (f_len _ _ _ F12 Hl); exact Hl).
    destruct (IH s2) as (tr & s' & R & Hpc' & Hp' & Hd' & Hv & Ho & Fr).
    + exact Hl2.
    + unfold s2. rewrite pcof_tick, pcof_setpc_same. reflexivity.
    + rewrite (f_closed _ _ _ F12). exact Hc.
    + unfold s2. sp. rewrite D1. lia.
    + unfold s2, s1. sp. lia.
    + exists (Step t :: Step t :: tr), s'. split; [cbn [run]; rewrite E1, E2; exact R|].
      split; [exact Hpc'|]. split; [rewrite Hp'; unfold s2, s1; sp; lia|]. split; [exact Hd'|].
      split; [rewrite Hv; unfold s2, s1; sp; reflexivity|].
      split; [rewrite Ho; unfold s2, s1; sp; reflexivity|].
      apply frame_trans with s2; assumption.
Qed.

(* ---------------------------------------------------------------- the object is handed out *)
Lemma frame_hand_out s t o :
  frame s (tick (hand_out s t o)) t /\ permits (tick (hand_out s t o)) = permits s
  /\ debt (tick (hand_out s t o)) = debt s /\ vec (tick (hand_out s t o)) = vec s
  /\ zlen (out (tick (hand_out s t o))) = zlen (out s) + 1
  /\ pcof (tick (hand_out s t o)) t = PDone ROk.
Proof.
  unfold hand_out. rewrite pcof_tick, pcof_setpc_same. sp. rewrite zlen_cons.
  splits; try reflexivity. apply frame_setpc; reflexivity.
Qed.

(* post_create hooks, all answering Ok *)
Lemma postc_loop c t o : forall n k s,
  (t < length (tasks s))%nat -> (k + n = length (pcr c))%nat -> (0 < n)%nat ->
  pcof s t = GPostC g0 o k ->
  exists tr s', run c s tr = Some s' /\ pcof s' t = PDone ROk
    /\ permits s' = permits s /\ debt s' = debt s /\ vec s' = vec s
    /\ zlen (out s') = zlen (out s) + 1 /\ frame s s' t.
Proof.
  induction n as [|n IH]; intros k s Hl Hk Hn Hpc; [lia|].
  destruct (Nat.ltb (S k) (length (pcr c))) eqn:E.
  - assert (E1 : step c s (Env t OOk) = Some (tick (enter_postc s t g0 o (S k)))).
    { cbn [step]. unfold env_task. rewrite Hpc, E. reflexivity. }
    set (s1 := tick (enter_postc s t g0 o (S k))) in *.
    assert (F1 : frame s s1 t) by (unfold s1, enter_postc; apply frame_setpc; reflexivity).
    apply Nat.ltb_lt in E.
    destruct (IH (S k) s1) as (tr & s' & R & Hpc' & Hp & Hd & Hv & Ho & Fr).
    + rewrite (f_len _ _ _ F1 Hl). exact Hl.
    + lia.
    + lia.
    + unfold s1, enter_postc. rewrite pcof_tick, pcof_setpc_same. reflexivity.
    + exists (Env t OOk :: tr), s'. split; [cbn [run]; rewrite E1; exact R|].
      unfold s1, enter_postc in Hp, Hd, Hv, Ho. sp.
      splits; try assumption. apply frame_trans with s1; assumption.
  - assert (E1 : step c s (Env t OOk) = Some (tick (hand_out s t o))).
    { cbn [step]. unfold env_task. rewrite Hpc, E. reflexivity. }
    destruct (frame_hand_out s t o) as (Fr & Hp & Hd & Hv & Ho & Hpc').
    exists [Env t OOk]. eexists. split; [apply run_one; exact E1|]. splits; assumption.
Qed.

(* the pool is empty: create, post_create hooks, hand-out *)
Lemma create_path c t s :
  (t < length (tasks s))%nat -> pcof s t = GPop g0 -> pop_idle c (vec s) = None ->
  exists tr s', run c s tr = Some s' /\ pcof s' t = PDone ROk
    /\ permits s' = permits s /\ debt s' = debt s
    /\ zlen (out s') = zlen (out s) + 1 /\ frame s s' t.
Proof.
  intros Hl Hpc Hpop.
  assert (E1 : step c s (Step t) = Some (tick (setpc (emit s (ECreateCall t)) t (GCreate g0)))).
  { cbn [step]. unfold step_task. rewrite Hpc, Hpop. reflexivity. }
  set (s1 := tick (setpc (emit s (ECreateCall t)) t (GCreate g0))) in *.
  assert (F1 : frame s s1 t) by (apply frame_setpc; reflexivity).
  assert (Hl1 : (t < length (tasks s1))%nat) by (rewrite (f_len _ _ _ F1 Hl); exact Hl).
  set (o := new_obj s1).
  assert (E2 : step c s1 (Env t OOk)
               = Some (tick (setpc (emit (set_next_oid s1 (S (next_oid s1))) (ECreated (oid o) t)) t (GCreated g0 o)))).
  { cbn [step]. unfold env_task. unfold s1 at 1. rewrite pcof_tick, pcof_setpc_same. reflexivity. }
  set (s2 := tick (setpc (emit (set_next_oid s1 (S (next_oid s1))) (ECreated (oid o) t)) t (GCreated g0 o))) in *.
  assert (F2 : frame s1 s2 t) by (apply frame_setpc; reflexivity).
  assert (Hl2 : (t < length (tasks s2))%nat) by (rewrite (f_len _ _ _ F2 Hl1); exact Hl1).
  assert (Hpc2 : pcof s2 t = GCreated g0 o) by (unfold s2; rewrite pcof_tick, pcof_setpc_same; reflexivity).
  assert (P2 : permits s2 = permits s /\ debt s2 = debt s /\ out s2 = out s)
    by (unfold s2, s1; sp; splits; reflexivity).
  destruct P2 as (P2 & D2 & O2).
  destruct (pcr c) as [|b r] eqn:Epcr.
  - assert (E3 : step c s2 (Step t) = Some (tick (hand_out (set_size s2 (size s2 + 1)) t o))).
    { cbn [step]. unfold step_task. rewrite Hpc2, Epcr. reflexivity. }
    destruct (frame_hand_out (set_size s2 (size s2 + 1)) t o) as (Fr & Hp & Hd & Hv & Ho & Hpc').
    exists [Step t; Env t OOk; Step t]. eexists.
    split; [cbn [run]; rewrite E1, E2, E3; reflexivity|].
    split; [exact Hpc'|]. split; [rewrite Hp; exact P2|]. split; [rewrite Hd; exact D2|].
    split; [rewrite Ho; cbn [out set_size]; rewrite O2; reflexivity|].
    apply frame_trans with s1; [exact Hl|exact F1|]. apply frame_trans with s2; [exact Hl1|exact F2|].
    destruct Fr as [A1 A2 A3 A4 A5 A6]. constructor; try assumption.
  - assert (E3 : step c s2 (Step t) = Some (tick (enter_postc (set_size s2 (size s2 + 1)) t g0 o 0))).
    { cbn [step]. unfold step_task. rewrite Hpc2, Epcr. reflexivity. }
    set (s3 := tick (enter_postc (set_size s2 (size s2 + 1)) t g0 o 0)) in *.
    assert (F3 : frame s2 s3 t) by (unfold s3, enter_postc; apply frame_setpc; reflexivity).
    assert (Hl3 : (t < length (tasks s3))%nat) by (rewrite (f_len _ _ _ F3 Hl2); exact Hl2).
    destruct (postc_loop c t o (length (pcr c)) 0 s3) as (tr & s' & R & Hpc' & Hp & Hd & Hv & Ho & Fr).
    + exact Hl3.
    + lia.
    + rewrite Epcr. cbn [length]. lia.
    + unfold s3, enter_postc. rewrite pcof_tick, pcof_setpc_same. reflexivity.
    + exists (Step t :: Env t OOk :: Step t :: tr), s'.
      split; [cbn [run]; rewrite E1, E2, E3; exact R|]. split; [exact Hpc'|].
      unfold s3, enter_postc in Hp, Hd, Ho. sp.
      split; [rewrite Hp; exact P2|]. split; [rewrite Hd; exact D2|]. split; [rewrite Ho, O2; reflexivity|].
      apply frame_trans with s1; [exact Hl|exact F1|]. apply frame_trans with s2; [exact Hl1|exact F2|].
      apply frame_trans with s3; assumption.
Qed.

(* ---------------------------------------------------------------- an idle object: all stages Ok *)
Definition rank (c : cfg) (st : stage) : nat :=
  match st with
  | SPre k => (length (pre c) - k) + length (post c) + 2
  | SRecycle => length (post c) + 1
  | SPost k => length (post c) - k
  end.

Lemma rank_succ c st st' : succ_stage c st = Some st' -> (rank c st' < rank c st)%nat.
Proof.
  destruct st as [k| |k]; cbn [succ_stage rank].
  - destruct (Nat.ltb_spec (S k) (length (pre c))) as [Hlt|Hge]; intros K; inversion K; subst; cbn [rank]; lia.
  - destruct (post c) eqn:E; intros K; inversion K; subst. cbn [rank]. rewrite ?E. cbn [length]. lia.
  - destruct (Nat.ltb_spec (S k) (length (post c))) as [Hlt|Hge]; intros K; inversion K; subst. cbn [rank]. lia.
Qed.

Lemma stage_loop c t o : forall fuel st s,
  (t < length (tasks s))%nat -> (rank c st < fuel)%nat -> pcof s t = GRec g0 o st ->
  exists tr s', run c s tr = Some s' /\ pcof s' t = PDone ROk
    /\ permits s' = permits s /\ debt s' = debt s /\ vec s' = vec s
    /\ zlen (out s') = zlen (out s) + 1 /\ frame s s' t.
Proof.
  induction fuel as [|fuel IH]; intros st s Hl Hr Hpc; [lia|].
  assert (E1 : step c s (Env t OOk) = Some (tick (next_stage c s t g0 o st))).
  { cbn [step]. unfold env_task. rewrite Hpc. reflexivity. }
  rewrite next_stage_succ in E1. destruct (succ_stage c st) as [st'|] eqn:Es.
  - set (s1 := tick (enter_stage s t g0 o st')) in *.
    assert (F1 : frame s s1 t) by (unfold s1, enter_stage; apply frame_setpc; reflexivity).
    destruct (IH st' s1) as (tr & s' & R & Hpc' & Hp & Hd & Hv & Ho & Fr).
    + rewrite (f_len _ _ _ F1 Hl). exact Hl.
    + pose proof (rank_succ _ _ _ Es). lia.
    + unfold s1, enter_stage. rewrite pcof_tick, pcof_setpc_same. reflexivity.
    + exists (Env t OOk :: tr), s'. split; [cbn [run]; rewrite E1; exact R|].
      unfold s1, enter_stage in Hp, Hd, Hv, Ho. sp. splits; try assumption.
      apply frame_trans with s1; assumption.
  - destruct (frame_hand_out s t (recycled_obj s o)) as (Fr & Hp & Hd & Hv & Ho & Hpc').
    exists [Env t OOk]. eexists. split; [apply run_one; exact E1|]. splits; assumption.
Qed.

Lemma recycle_path c t s o r :
  (t < length (tasks s))%nat -> pcof s t = GPop g0 -> pop_idle c (vec s) = Some (o, r) ->
  exists tr s', run c s tr = Some s' /\ pcof s' t = PDone ROk
    /\ permits s' = permits s /\ debt s' = debt s
    /\ zlen (out s') = zlen (out s) + 1 /\ frame s s' t.
Proof.
  intros Hl Hpc Hpop.
  assert (E1 : step c s (Step t) = Some (tick (enter_stage (set_vec s r) t g0 o (first_stage c)))).
  { cbn [step]. unfold step_task. rewrite Hpc, Hpop. reflexivity. }
  set (s1 := tick (enter_stage (set_vec s r) t g0 o (first_stage c))) in *.
  assert (F1 : frame s s1 t) by (unfold s1, enter_stage; apply frame_setpc; reflexivity).
  destruct (stage_loop c t o (S (rank c (first_stage c))) (first_stage c) s1)
    as (tr & s' & R & Hpc' & Hp & Hd & Hv & Ho & Fr).
  - rewrite (f_len _ _ _ F1 Hl). exact Hl.
  - lia.
  - unfold s1, enter_stage. rewrite pcof_tick, pcof_setpc_same. reflexivity.
  - exists (Step t :: tr), s'. split; [cbn [run]; rewrite E1; exact R|]. split; [exact Hpc'|].
    unfold s1, enter_stage in Hp, Hd, Ho. sp. splits; try assumption.
    apply frame_trans with s1; assumption.
Qed.

(* ---------------------------------------------------------------- one get(), then k of them *)
Lemma one_get c s :
  alive s = true -> closed s = false -> 0 <= debt s -> debt s < permits s ->
  let t := length (tasks s) in
  exists tr s', run c s tr = Some s' /\ pcof s' t = PDone ROk
    /\ zlen (out s') = zlen (out s) + 1
    /\ permits s' = permits s - debt s - 1 /\ debt s' = 0
    /\ closed s' = false /\ alive s' = true /\ maxs s' = maxs s
    /\ (forall u, u <> t -> pcof s' u = pcof s u)
    /\ length (tasks s') = S (length (tasks s)).
Proof.
  intros Ha Hc Hd Hp t.
  (* Start *)
  assert (E0 : step c s (Start t (OpGet g0)) = Some (tick (setpc s t (GStart g0)))).
  { cbn [step]. unfold start. unfold t. rewrite Nat.eqb_refl. cbn [negb]. rewrite Ha. reflexivity. }
  set (s0 := tick (setpc s t (GStart g0))) in *.
  assert (L0 : length (tasks s0) = S t) by (unfold s0; sp; apply upd_length_ge; unfold t; lia).
  assert (O0 : forall u, u <> t -> pcof s0 u = pcof s u).
  { intros u Hu. unfold s0, pcof. sp. apply get_upd_other. congruence. }
  (* users += 1 *)
  assert (E1 : step c s0 (Step t) = Some (tick (setpc (set_users s0 (users s0 + 1)) t (GAcq g0)))).
  { cbn [step]. unfold step_task. unfold s0 at 1. rewrite pcof_tick, pcof_setpc_same. reflexivity. }
  set (s1 := tick (setpc (set_users s0 (users s0 + 1)) t (GAcq g0))) in *.
  assert (Hl0 : (t < length (tasks s0))%nat) by lia.
  assert (F1 : frame s0 s1 t) by (apply frame_setpc; reflexivity).
  assert (Hl1 : (t < length (tasks s1))%nat) by (rewrite (f_len _ _ _ F1 Hl0); exact Hl0).
  (* acquire, settle *)
  destruct (acquire_loop c t (Z.to_nat (debt s)) s1) as (tr2 & s2 & R2 & Hpc2 & P2 & D2 & V2 & O2 & F2).
  - exact Hl1.
  - unfold s1. rewrite pcof_tick, pcof_setpc_same. reflexivity.
  - unfold s1, s0. sp. exact Hc.
  - unfold s1, s0. sp. lia.
  - unfold s1, s0. sp. lia.
  - assert (F02 : frame s0 s2 t) by (apply frame_trans with s1; assumption).
    assert (Hl2 : (t < length (tasks s2))%nat) by (rewrite (f_len _ _ _ F02 Hl0); exact Hl0).
    assert (P2' : permits s2 = permits s - debt s - 1) by (rewrite P2; unfold s1, s0; sp; lia).
    assert (O2' : out s2 = out s) by (rewrite O2; unfold s1, s0; sp; reflexivity).
    assert (Hfin : exists tr3 s3, run c s2 tr3 = Some s3 /\ pcof s3 t = PDone ROk
              /\ permits s3 = permits s2 /\ debt s3 = debt s2
              /\ zlen (out s3) = zlen (out s2) + 1 /\ frame s2 s3 t).
    { destruct (pop_idle c (vec s2)) as [[o r]|] eqn:Epop.
      - apply recycle_path with o r; assumption.
      - apply create_path; assumption. }
    destruct Hfin as (tr3 & s3 & R3 & Hpc3 & P3 & D3 & O3 & F3).
    assert (F03 : frame s0 s3 t) by (apply frame_trans with s2; assumption).
    exists (Start t (OpGet g0) :: Step t :: tr2 ++ tr3), s3.
    split.
    { cbn [run]. rewrite E0, E1. rewrite (run_app c tr2 s1 s2 tr3 R2). exact R3. }
    split; [exact Hpc3|]. split; [rewrite O3, O2'; reflexivity|].
    split; [rewrite P3; exact P2'|]. split; [rewrite D3; exact D2|].
    split; [rewrite (f_closed _ _ _ F03); unfold s0; sp; exact Hc|].
    split; [rewrite (f_alive _ _ _ F03); unfold s0; sp; exact Ha|].
    split; [rewrite (f_maxs _ _ _ F03); unfold s0; sp; reflexivity|].
    split; [intros u Hu; rewrite (f_others _ _ _ F03 u Hu); apply O0, Hu|].
    rewrite (f_len _ _ _ F03 Hl0). exact L0.
Qed.

Lemma k_gets c : forall k s,
  alive s = true -> closed s = false -> 0 <= debt s -> debt s + Z.of_nat k <= permits s ->
  exists tr s', run c s tr = Some s'
    /\ zlen (out s') = zlen (out s) + Z.of_nat k
    /\ closed s' = false /\ alive s' = true /\ maxs s' = maxs s
    /\ (forall i, (i < k)%nat -> pcof s' (length (tasks s) + i) = PDone ROk)
    /\ (forall u, (u < length (tasks s))%nat -> pcof s' u = pcof s u)
    /\ length (tasks s') = (length (tasks s) + k)%nat.
Proof.
  induction k as [|k IH]; intros s Ha Hc Hd Hp.
  - exists [], s. split; [reflexivity|]. splits; try reflexivity; try assumption; try lia.
  - destruct (one_get c s Ha Hc Hd) as (tr1 & s1 & R1 & Hpc1 & O1 & P1 & D1 & C1 & A1 & M1 & Ot1 & L1); [lia|].
    destruct (IH s1 A1 C1) as (tr2 & s2 & R2 & O2 & C2 & A2 & M2 & New2 & Old2 & L2); [lia|lia|].
    exists (tr1 ++ tr2), s2. split; [rewrite (run_app c tr1 s s1 tr2 R1); exact R2|].
    split; [rewrite O2, O1; lia|]. split; [exact C2|]. split; [exact A2|].
    split; [rewrite M2; exact M1|].
    split.
    { intros i Hi. destruct i as [|i].
      - rewrite Nat.add_0_r. rewrite Old2 by lia. exact Hpc1.
      - replace (length (tasks s) + S i)%nat with (length (tasks s1) + i)%nat by lia. apply New2. lia. }
    split.
    { intros u Hu. rewrite Old2 by lia. apply Ot1. lia. }
    rewrite L2, L1. lia.
Qed.

(* C02, operational form: a pool at rest to which every object has been returned or taken can
   hand out max_size objects concurrently - whatever happened before (failed, timed-out,
   cancelled, panicking gets, resizes, retains) *)
Theorem capacity_usable c s :
  Reachable c s -> alive s = true -> closed s = false -> at_rest s -> out s = [] ->
  exists tr s', run c s tr = Some s' /\ Reachable c s'
    /\ zlen (out s') = maxs s /\ maxs s' = maxs s
    /\ (forall i, (i < Z.to_nat (maxs s))%nat -> pcof s' (length (tasks s) + i) = PDone ROk)
    /\ (forall u, (u < length (tasks s))%nat -> pcof s' u = pcof s u).
Proof.
  intros R Ha Hc Hr Ho.
  destruct (t_rest_capacity c s R Ha Hr Ho) as (Hcap & _ & _).
  destruct (t_no_underflow c s R Ha) as (_ & _ & _ & Hd & Hm & _).
  destruct (k_gets c (Z.to_nat (maxs s)) s Ha Hc Hd) as (tr & s' & Rn & O & C & A & M & New & Old & L); [lia|].
  exists tr, s'. split; [exact Rn|]. split.
  { destruct R as [tr0 R0]. exists (tr0 ++ tr). rewrite (run_app c tr0 _ s tr R0). exact Rn. }
  split; [rewrite O, Ho; cbn [zlen length Z.of_nat]; lia|]. split; [exact M|]. split; assumption.
Qed.
