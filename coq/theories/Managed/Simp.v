(* Simplification support: projections of the setters, pcof/setpc, sums over the task table. *)
From Coq Require Import List ZArith Lia Bool Arith.
From DP Require Import Common.Tab Managed.Model Managed.Contrib.
Import ListNotations.
Open Scope Z_scope.

Ltac sp :=
  cbn [permits closed queue vec size maxs debt users tasks out alive clock next_oid log
       set_permits set_closed set_queue set_vec set_size set_maxs set_debt set_users set_tasks
       set_out set_alive set_clock set_next_oid set_log setpc emit tick hand_out enter_stage
       enter_postc] in *.

Ltac splits := repeat match goal with |- _ /\ _ => split end.

Lemma pcof_setpc_same s t p : pcof (setpc s t p) t = p.
Proof. unfold pcof, setpc. sp. apply get_upd_same. Qed.

Lemma pcof_setpc_other s t t' p : t <> t' -> pcof (setpc s t p) t' = pcof s t'.
Proof. intros H. unfold pcof, setpc. sp. apply get_upd_other. exact H. Qed.

Lemma sum_setpc f s t p : f PNone = 0 ->
  sum f (tasks (setpc s t p)) = sum f (tasks s) - f (pcof s t) + f p.
Proof. intros H. unfold setpc, pcof. sp. apply sum_upd. exact H. Qed.

Lemma zlen_cons {A} (x : A) l : zlen (x :: l) = zlen l + 1.
Proof. unfold zlen. cbn [length]. lia. Qed.
Lemma zlen_nil {A} : zlen (@nil A) = 0. Proof. reflexivity. Qed.
Lemma zlen_app {A} (l1 l2 : list A) : zlen (l1 ++ l2) = zlen l1 + zlen l2.
Proof. unfold zlen. rewrite app_length. lia. Qed.
Lemma zlen_nonneg {A} (l : list A) : 0 <= zlen l. Proof. unfold zlen. lia. Qed.
Lemma zlen_rev {A} (l : list A) : zlen (rev l) = zlen l.
Proof. unfold zlen. rewrite rev_length. reflexivity. Qed.

Lemma find_remove_oid x l o : find_oid x l = Some o -> zlen (remove_oid x l) = zlen l - 1.
Proof.
  induction l as [|y l IH]; cbn [find_oid remove_oid]; [discriminate|].
  destruct (Nat.eqb x (oid y)); intros H.
  - rewrite zlen_cons. lia.
  - rewrite !zlen_cons, IH by exact H. lia.
Qed.

Lemma pop_idle_len c v o r : pop_idle c v = Some (o, r) -> zlen v = zlen r + 1.
Proof.
  unfold pop_idle. destruct (lifo c).
  - destruct (rev v) as [|x l] eqn:E; [discriminate|]. intros H. inversion H; subst.
    rewrite <- (zlen_rev v), E, zlen_cons, zlen_rev. reflexivity.
  - destruct v as [|x l]; [discriminate|]. intros H. inversion H; subst. apply zlen_cons.
Qed.

Lemma pop_idle_none c v : pop_idle c v = None -> v = [].
Proof.
  unfold pop_idle. destruct (lifo c).
  - destruct (rev v) as [|x l] eqn:E; [|discriminate]. intros _.
    rewrite <- (rev_involutive v), E. reflexivity.
  - destruct v; [reflexivity|discriminate].
Qed.
