(* The general invariants of the managed pool model, for every label (including resize,
   close, retain, take, cancellation, panics, timers):
     GQ  wait queue / semaphore consistency                      (InvQ.v)
     GA  conservation of permits, size and users                 (this file)   *)
From Coq Require Import List ZArith Lia Bool Arith.
From DP Require Import Common.Tab Managed.Model Managed.Contrib Managed.Simp Managed.InvQ
  Managed.Effects.
Import ListNotations.
Open Scope Z_scope.

Record GA (s : state) : Prop := {
  a_perm : alive s = true -> permits s + sum hp (tasks s) + zlen (out s) = maxs s + debt s;
  a_size : alive s = true -> size s = zlen (vec s) + zlen (out s) + sum cs (tasks s);
  a_users : alive s = true -> users s = sum up (tasks s) + zlen (out s);
  a_debt : 0 <= debt s;
  a_maxs : 0 <= maxs s
}.

Lemma GA_init c : GA (init c).
Proof. constructor; cbn; intros; lia. Qed.

Lemma GQ_tick s : GQ s -> GQ (tick s).
Proof. intros G. apply GQ_same with s; sp; try reflexivity; exact G. Qed.

Lemma pcof_fresh s t : Nat.eqb t (length (tasks s)) = true -> pcof s t = PNone.
Proof. intros H. apply Nat.eqb_eq in H. unfold pcof. apply get_beyond. lia. Qed.

(* GQ only looks at queue, permits, closed and tasks *)
Ltac gq_same G := apply GQ_same with (1 := eq_refl) (2 := eq_refl) (3 := eq_refl) (4 := eq_refl); exact G.

(* goal: GQ (setpc X t p) where X differs from s only in fields GQ does not read *)
Ltac gq_plain s G Hpc :=
  apply GQ_setpc with (s := s);
  [ apply GQ_same with s; sp; try reflexivity; exact G
  | sp; reflexivity
  | rewrite Hpc; reflexivity ].

(* goal: GQ (setpc (sem_add s) t p) *)
Ltac gq_sem s G Hpc :=
  apply GQ_setpc with (s := sem_add s);
  [ apply GQ_sem_add; exact G
  | reflexivity
  | rewrite pcof_sem_add; [rewrite Hpc; reflexivity | exact G | rewrite Hpc; reflexivity] ].

Lemma GQ_acquire c s t g :
  GQ s -> waiting_pc (pcof s t) = false -> GQ (acquire c s t g).
Proof.
  intros G Hw. unfold acquire.
  assert (Hplain : forall p, GQ (setpc s t p)).
  { intros p. apply GQ_setpc with (s := s); [exact G|reflexivity|exact Hw]. }
  assert (Htake : 0 < permits s -> forall p, GQ (setpc (set_permits s (permits s - 1)) t p)).
  { intros Hp p. apply GQ_setpc with (s := s); [apply GQ_take; assumption|reflexivity|exact Hw]. }
  destruct (gw g).
  - cbn match. destruct (closed s) eqn:Ec; [apply Hplain|].
    destruct (Z.ltb 0 (permits s)) eqn:Ep.
    + apply Z.ltb_lt in Ep. apply Htake, Ep.
    + apply Z.ltb_ge in Ep. apply GQ_enqueue; assumption.
  - destruct (closed s); [apply Hplain|].
    destruct (Z.ltb 0 (permits s)) eqn:Ep; [apply Z.ltb_lt in Ep; apply Htake, Ep|apply Hplain].
  - destruct (negb (runtime c)); [apply Hplain|].
    destruct (closed s) eqn:Ec; [apply Hplain|].
    destruct (Z.ltb 0 (permits s)) eqn:Ep.
    + apply Z.ltb_lt in Ep. apply Htake, Ep.
    + apply Z.ltb_ge in Ep. apply GQ_enqueue; assumption.
Qed.

Lemma GQ_leave_wait s t a p :
  GQ s -> (a = true -> waiting_pc (pcof s t) = false) -> waiting_pc p = false ->
  GQ (setpc (leave_wait s t a) t p).
Proof.
  intros G Ha Hp. unfold leave_wait. destruct a.
  - apply GQ_setpc with (s := sem_add s); [apply GQ_sem_add, G|reflexivity|].
    rewrite pcof_sem_add; auto.
  - apply GQ_leave; assumption.
Qed.

Theorem GQ_step c s l s' : GQ s -> 0 <= debt s -> step c s l = Some s' -> GQ s'.
Proof.
  intros G Hd H. destruct l as [t o|t|t r|t|t|n]; cbn [step] in H.
  - (* Start *)
    unfold start in H. destruct (Nat.eqb t (length (tasks s))) eqn:Et; cbn [negb] in H; [|discriminate].
    pose proof (pcof_fresh s t Et) as Hpc.
    destruct o as [g|x|x|n|ds| | | ]; cbn [option_map] in H.
    + destruct (alive s); inversion H; subst. apply GQ_tick. gq_plain s G Hpc.
    + destruct (find_oid x (out s)); inversion H; subst. apply GQ_tick. gq_plain s G Hpc.
    + destruct (find_oid x (out s)); inversion H; subst. apply GQ_tick. gq_plain s G Hpc.
    + destruct (alive s); inversion H; subst. apply GQ_tick. gq_plain s G Hpc.
    + destruct (alive s); inversion H; subst. apply GQ_tick. gq_plain s G Hpc.
    + destruct (alive s); inversion H; subst. apply GQ_tick. gq_plain s G Hpc.
    + destruct (alive s); inversion H; subst. apply GQ_tick. gq_plain s G Hpc.
    + destruct (alive s && all_done (tasks s)); inversion H; subst. apply GQ_tick. gq_plain s G Hpc.
  - (* Step *)
    unfold step_task in H.
    destruct (pcof s t) as [|g|g|g a|g|g|g o st|g|g o|g o k|g o k|g o k|r|r|o|o| |o|o|o|o|o|o|n|ds| | | |n|ds|ds| | |r] eqn:Hpc;
      cbn [option_map] in H; try discriminate H.
    + (* GStart *) destruct (gr g); [|destruct (runtime c)..]; inversion H; subst; apply GQ_tick; gq_plain s G Hpc.
    + (* GAcq *) inversion H; subst. apply GQ_tick, GQ_acquire; [exact G|rewrite Hpc; reflexivity].
    + (* GWait *)
      destruct (closed s) eqn:Ec.
      * inversion H; subst. apply GQ_tick.
        assert (Hnq : ~ In t (queue s)) by (rewrite (q_closed _ G Ec); intros []).
        destruct a.
        -- apply GQ_setpc with (s := s); [|reflexivity|rewrite Hpc; reflexivity].
           destruct G as [H1 H2 H3 H4 H5]. constructor; sp; try assumption; try lia.
           intros Hq. rewrite (H4 Ec) in Hq. contradiction.
        -- destruct G as [H1 H2 H3 H4 H5]. constructor; sp; try assumption.
           intros w Hin. destruct (Nat.eq_dec t w) as [->|Hne]; [contradiction|].
           rewrite pcof_setpc_other by exact Hne. apply H1, Hin.
      * destruct a; inversion H; subst; apply GQ_tick; [gq_plain s G Hpc|exact G].
    + (* GSettle *) destruct (Z.ltb 0 (debt s)); inversion H; subst; apply GQ_tick; gq_plain s G Hpc.
    + (* GPop *)
      destruct (pop_idle c (vec s)) as [[o r]|].
      * inversion H; subst. apply GQ_tick. unfold enter_stage. gq_plain s G Hpc.
      * destruct (gc g); [|destruct (runtime c)..]; inversion H; subst; apply GQ_tick; gq_plain s G Hpc.
    + (* GCreated *)
      destruct (pcr c); inversion H; subst; apply GQ_tick; unfold hand_out, enter_postc; gq_plain s G Hpc.
    + (* UUnready *) inversion H; subst. apply GQ_tick. gq_plain s G Hpc.
    + (* UDetach *) destruct k; inversion H; subst; apply GQ_tick; gq_plain s G Hpc.
    + (* UPermit *) inversion H; subst. apply GQ_tick. gq_sem s G Hpc.
    + (* UUsers *) inversion H; subst. apply GQ_tick. gq_plain s G Hpc.
    + (* RStart *) destruct (alive s); inversion H; subst; apply GQ_tick; gq_plain s G Hpc.
    + (* RLock *) destruct (Z.leb (size s) (maxs s)); inversion H; subst; apply GQ_tick; gq_plain s G Hpc.
    + (* RAdd *) inversion H; subst. apply GQ_tick. gq_sem s G Hpc.
    + (* RSurplus *) inversion H; subst. apply GQ_tick. gq_sem s G Hpc.
    + (* RDetach *) inversion H; subst. apply GQ_tick. gq_plain s G Hpc.
    + (* TStart *) destruct (alive s); inversion H; subst; apply GQ_tick; gq_plain s G Hpc.
    + (* TLock *) inversion H; subst. apply GQ_tick. gq_plain s G Hpc.
    + (* TAdd *) inversion H; subst. apply GQ_tick. gq_sem s G Hpc.
    + (* TDetach *) inversion H; subst. apply GQ_tick. gq_plain s G Hpc.
    + (* OResize: to its lock point *) inversion H; subst. apply GQ_tick. gq_plain s G Hpc.
    + (* ORetain: to the lock point of its status() call *) inversion H; subst. apply GQ_tick. gq_plain s G Hpc.
    + (* OClose: to its lock point *) inversion H; subst. apply GQ_tick. gq_plain s G Hpc.
    + (* OStatus: to its lock point *) inversion H; subst. apply GQ_tick. gq_plain s G Hpc.
    + (* ODropPool *)
      inversion H; subst. apply GQ_tick.
      match goal with |- GQ (setpc (emit_destroyed t ?l ?x) t _) =>
        pose proof (emit_destroyed_fields t l x) as F; cbv zeta in F; sp;
        destruct F as (F1&F2&F3&F4&F5&F6&F7&F8&F9&F10&F11&F12&F13) end.
      eapply GQ_setpc with (s := s); [|rewrite F9; reflexivity|rewrite Hpc; reflexivity].
      apply GQ_same with s; [rewrite F3; reflexivity|rewrite F1; reflexivity|rewrite F2; reflexivity|rewrite F9; reflexivity|exact G].
    + (* OResizeL *)
      destruct (closed s); inversion H; subst; apply GQ_tick; [gq_plain s G Hpc|].
      pose proof (resize_locked_effect s t (Z.of_nat n) G Hd (Zle_0_nat n)) as E. cbv zeta in E.
      destruct E as (_&_&_&_&_&_&_&_&_&_&_&_&_&_&_&G'&Hpcs).
      apply GQ_setpc with (s := resize_locked s t (Z.of_nat n)); [exact G'|reflexivity|].
      rewrite Hpcs; rewrite Hpc; reflexivity.
    + (* ORetainS: to retain's own lock point *) inversion H; subst. apply GQ_tick. gq_plain s G Hpc.
    + (* ORetainL *)
      pose proof (retain_loop_effect t ds (vec s) s) as E.
      destruct (retain_loop t ds (vec s) s) as [[s1 kept] removed].
      destruct E as (E1&E2&E3&E4&E5&E6&E7&E8&E9&E10&E11&E12&E13&E14).
      inversion H; subst. apply GQ_tick.
      match goal with |- GQ (setpc (emit_removed t removed ?x) t _) =>
        pose proof (emit_removed_fields t removed x) as F; cbv zeta in F; sp;
        destruct F as (F1&F2&F3&F4&F5&F6&F7&F8&F9&F10&F11&F12&F13) end.
      eapply GQ_setpc with (s := s); [|rewrite F9; exact E9|rewrite Hpc; reflexivity].
      apply GQ_same with s; [rewrite F3; exact E3|rewrite F1; exact E1|rewrite F2; exact E2|rewrite F9; exact E9|exact G].
    + (* OCloseL *)
      inversion H; subst. apply GQ_tick.
      set (s0 := set_queue (set_closed s true) []).
      assert (G0 : GQ s0).
      { destruct G as [H1 H2 H3 H4 H5]. subst s0. constructor; sp; try assumption.
        - intros w [].
        - constructor.
        - intros Hq. contradiction.
        - reflexivity. }
      assert (Hd0 : 0 <= debt s0) by (subst s0; sp; exact Hd).
      pose proof (resize_locked_effect s0 t 0 G0 Hd0 (Z.le_refl 0)) as E. cbv zeta in E.
      destruct E as (_&_&_&_&_&_&_&_&_&_&_&_&_&_&_&G'&Hpcs).
      apply GQ_setpc with (s := resize_locked s0 t 0); [exact G'|reflexivity|].
      rewrite Hpcs; (change (pcof s0 t) with (pcof s t)); rewrite Hpc; reflexivity.
    + (* OStatusL *) inversion H; subst. apply GQ_tick. gq_plain s G Hpc.
  - (* Env *)
    unfold env_task in H.
    destruct (pcof s t) as [|g|g|g a|g|g|g o st|g|g o|g o k|g o k|g o k|r0|r0|o|o| |o|o|o|o|o|o|n|ds| | | |n|ds|ds| | |r0] eqn:Hpc;
      cbn [option_map] in H; try discriminate H.
    + (* GRec *)
      destruct r; inversion H; subst; apply GQ_tick; try (gq_plain s G Hpc).
      unfold next_stage.
      destruct st as [k| |k];
        repeat match goal with
               | |- context [if ?b then _ else _] => destruct b
               | |- context [match post c with _ => _ end] => destruct (post c)
               end; unfold enter_stage, hand_out; gq_plain s G Hpc.
    + (* GCreate *) destruct r; inversion H; subst; apply GQ_tick; gq_plain s G Hpc.
    + (* GPostC *)
      destruct r; [destruct (Nat.ltb (S k) (length (pcr c)))|..]; inversion H; subst; apply GQ_tick;
        unfold enter_postc, hand_out; gq_plain s G Hpc.
  - (* Cancel *)
    unfold cancel_task in H.
    destruct (pcof s t) as [|g|g|g a|g|g|g o st|g|g o|g o k|g o k|g o k|r0|r0|o|o| |o|o|o|o|o|o|n|ds| | | |n|ds|ds| | |r0] eqn:Hpc;
      cbn [option_map] in H; try discriminate H.
    + inversion H; subst. apply GQ_tick. apply GQ_leave_wait; [exact G| |reflexivity].
      intros ->. rewrite Hpc. reflexivity.
    + destruct (stage_async c st); inversion H; subst. apply GQ_tick. gq_plain s G Hpc.
    + inversion H; subst. apply GQ_tick. gq_plain s G Hpc.
    + destruct (is_async (pcr c) k); inversion H; subst. apply GQ_tick. gq_plain s G Hpc.
  - (* Fire *)
    unfold fire_task in H. destruct (negb (runtime c)); [discriminate|].
    destruct (pcof s t) as [|g|g|g a|g|g|g o st|g|g o|g o k|g o k|g o k|r0|r0|o|o| |o|o|o|o|o|o|n|ds| | | |n|ds|ds| | |r0] eqn:Hpc;
      cbn [option_map] in H; try discriminate H.
    + destruct (gw g); inversion H; subst. apply GQ_tick. apply GQ_leave_wait; [exact G| |reflexivity].
      intros ->. rewrite Hpc. reflexivity.
    + destruct st; try discriminate H. destruct (timed (gr g)); inversion H; subst. apply GQ_tick. gq_plain s G Hpc.
    + destruct (timed (gc g)); inversion H; subst. apply GQ_tick. gq_plain s G Hpc.
  - inversion H; subst. exact G.
Qed.

(* ------------------------------------------------------------------ GA *)
Lemma GA_tick s : GA s -> GA (tick s).
Proof. intros [A1 A2 A3 A4 A5]. constructor; sp; assumption. Qed.

Ltac ga_arith Hpc :=
  rewrite ?(sum_upd PNone) by reflexivity;
  unfold pcof in Hpc; rewrite ?Hpc; cbn [hp cs up];
  rewrite ?zlen_cons, ?zlen_app, ?zlen_nil; cbn [zlen length Z.of_nat]; first [lia|congruence|idtac].

(* goal: GA (setpc X t p) where X is s changed by plain setters *)
Ltac ga_plain A Hpc :=
  let A1 := fresh "A1" in let A2 := fresh "A2" in let A3 := fresh "A3" in
  let A4 := fresh "A4" in let A5 := fresh "A5" in let Ha := fresh "Ha" in
  destruct A as [A1 A2 A3 A4 A5];
  constructor; sp; try (intros Ha; try discriminate Ha; specialize (A1 Ha); specialize (A2 Ha); specialize (A3 Ha));
  ga_arith Hpc.

(* goal: GA (setpc (sem_add s) t p) *)
Ltac ga_sem s t G A Hpc :=
  let A1 := fresh "A1" in let A2 := fresh "A2" in let A3 := fresh "A3" in
  let A4 := fresh "A4" in let A5 := fresh "A5" in let Ha := fresh "Ha" in
  let S1 := fresh "S1" in let S2 := fresh "S2" in let S3 := fresh "S3" in
  let S4 := fresh "S4" in let S5 := fresh "S5" in let Hpc' := fresh "Hpc'" in
  pose proof (sem_add_sums s G) as (S1&S2&S3&S4&S5);
  assert (Hpc' : pcof (sem_add s) t = pcof s t)
    by (apply pcof_sem_add; [exact G|rewrite Hpc; reflexivity]);
  destruct A as [A1 A2 A3 A4 A5];
  constructor; sp; autorewrite with fld;
  try (intros Ha; specialize (A1 Ha); specialize (A2 Ha); specialize (A3 Ha));
  rewrite ?(sum_upd PNone) by reflexivity;
  unfold pcof in Hpc, Hpc'; rewrite ?Hpc', ?Hpc, ?S2, ?S3; cbn [hp cs up]; try lia.

Lemma GA_acquire c s t g :
  GQ s -> GA s -> pcof s t = GAcq g -> GA (acquire c s t g).
Proof.
  intros G A Hpc. unfold acquire.
  destruct (gw g); cbn match;
    repeat match goal with |- context [if ?b then _ else _] => destruct b end;
    ga_plain A Hpc.
Qed.

Lemma GA_leave_wait s t g a p :
  GQ s -> GA s -> pcof s t = GWait g a -> hp p = 0 -> cs p = 0 -> up p = 1 ->
  GA (setpc (leave_wait s t a) t p).
Proof.
  intros G A Hpc Hh Hc Hu. unfold leave_wait. destruct a.
  - ga_sem s t G A Hpc.
  - ga_plain A Hpc.
Qed.

Theorem GA_step c s l s' : GQ s -> GA s -> step c s l = Some s' -> GA s'.
Proof.
  intros G A H. destruct l as [t o|t|t r|t|t|n]; cbn [step] in H.
  - (* Start *)
    unfold start in H. destruct (Nat.eqb t (length (tasks s))) eqn:Et; cbn [negb] in H; [|discriminate].
    pose proof (pcof_fresh s t Et) as Hpc.
    destruct o as [g|x|x|n|ds| | | ]; cbn [option_map] in H.
    + destruct (alive s); inversion H; subst. apply GA_tick. ga_plain A Hpc.
    + destruct (find_oid x (out s)) eqn:Ef; inversion H; subst. apply GA_tick.
      pose proof (find_remove_oid _ _ _ Ef). ga_plain A Hpc.
    + destruct (find_oid x (out s)) eqn:Ef; inversion H; subst. apply GA_tick.
      pose proof (find_remove_oid _ _ _ Ef). ga_plain A Hpc.
    + destruct (alive s); inversion H; subst. apply GA_tick. ga_plain A Hpc.
    + destruct (alive s); inversion H; subst. apply GA_tick. ga_plain A Hpc.
    + destruct (alive s); inversion H; subst. apply GA_tick. ga_plain A Hpc.
    + destruct (alive s); inversion H; subst. apply GA_tick. ga_plain A Hpc.
    + destruct (alive s && all_done (tasks s)); inversion H; subst. apply GA_tick. ga_plain A Hpc.
  - (* Step *)
    unfold step_task in H.
    destruct (pcof s t) as [|g|g|g a|g|g|g o st|g|g o|g o k|g o k|g o k|r|r|o|o| |o|o|o|o|o|o|n|ds| | | |n|ds|ds| | |r] eqn:Hpc;
      cbn [option_map] in H; try discriminate H.
    + (* GStart *) destruct (gr g); [|destruct (runtime c)..]; inversion H; subst; apply GA_tick; ga_plain A Hpc.
    + (* GAcq *) inversion H; subst. apply GA_tick, GA_acquire; assumption.
    + (* GWait *)
      destruct (closed s) eqn:Ec.
      * inversion H; subst. apply GA_tick. destruct a; ga_plain A Hpc.
      * destruct a; inversion H; subst; apply GA_tick; [ga_plain A Hpc|exact A].
    + (* GSettle *)
      destruct (Z.ltb 0 (debt s)) eqn:Ed; inversion H; subst; apply GA_tick;
        [apply Z.ltb_lt in Ed|]; ga_plain A Hpc.
    + (* GPop *)
      destruct (pop_idle c (vec s)) as [[o r]|] eqn:Ep.
      * inversion H; subst. apply GA_tick. pose proof (pop_idle_len _ _ _ _ Ep). ga_plain A Hpc.
      * destruct (gc g); [|destruct (runtime c)..]; inversion H; subst; apply GA_tick; ga_plain A Hpc.
    + (* GCreated *)
      destruct (pcr c); inversion H; subst; apply GA_tick; ga_plain A Hpc.
    + (* UUnready *) inversion H; subst. apply GA_tick. ga_plain A Hpc.
    + (* UDetach *) destruct k; inversion H; subst; apply GA_tick; ga_plain A Hpc.
    + (* UPermit *) inversion H; subst. apply GA_tick. ga_sem s t G A Hpc.
    + (* UUsers *) inversion H; subst. apply GA_tick. ga_plain A Hpc.
    + (* RStart *) destruct (alive s) eqn:Eal; inversion H; subst; apply GA_tick; ga_plain A Hpc.
    + (* RLock *) destruct (Z.leb (size s) (maxs s)); inversion H; subst; apply GA_tick; ga_plain A Hpc.
    + (* RAdd *) inversion H; subst. apply GA_tick. ga_sem s t G A Hpc.
    + (* RSurplus *) inversion H; subst. apply GA_tick. ga_sem s t G A Hpc.
    + (* RDetach *) inversion H; subst. apply GA_tick. ga_plain A Hpc.
    + (* TStart *) destruct (alive s) eqn:Eal; inversion H; subst; apply GA_tick; ga_plain A Hpc.
    + (* TLock *) inversion H; subst. apply GA_tick. ga_plain A Hpc.
    + (* TAdd *) inversion H; subst. apply GA_tick. ga_sem s t G A Hpc.
    + (* TDetach *) inversion H; subst. apply GA_tick. ga_plain A Hpc.
    + (* OResize: to its lock point *) inversion H; subst. apply GA_tick. ga_plain A Hpc.
    + (* ORetain: to the lock point of its status() call *) inversion H; subst. apply GA_tick. ga_plain A Hpc.
    + (* OClose: to its lock point *) inversion H; subst. apply GA_tick. ga_plain A Hpc.
    + (* OStatus: to its lock point *) inversion H; subst. apply GA_tick. ga_plain A Hpc.
    + (* ODropPool *)
      inversion H; subst. apply GA_tick.
      match goal with |- GA (setpc (emit_destroyed t ?l ?x) t _) =>
        pose proof (emit_destroyed_fields t l x) as F; cbv zeta in F; sp;
        destruct F as (F1&F2&F3&F4&F5&F6&F7&F8&F9&F10&F11&F12&F13) end.
      destruct A as [A1 A2 A3 A4 A5].
      constructor; sp; rewrite ?F11, ?F6, ?F7; try (intros Ha; discriminate Ha); assumption.
    + (* OResizeL *)
      destruct (closed s); inversion H; subst; apply GA_tick; [ga_plain A Hpc|].
      pose proof (resize_locked_effect s t (Z.of_nat n) G (a_debt _ A) (Zle_0_nat n)) as E. cbv zeta in E.
      destruct E as (E1&E2&E3&E4&E5&E6&E7&E8&E9&E10&E11&E12&E13&E14&E15&G'&Hpcs).
      assert (Hpc' : pcof (resize_locked s t (Z.of_nat n)) t = pcof s t) by (apply Hpcs; rewrite Hpc; reflexivity).
      destruct A as [A1 A2 A3 A4 A5].
      constructor; sp; rewrite ?E1, ?E2, ?E3, ?E4;
        try (intros Ha; specialize (A1 Ha); specialize (A2 Ha); specialize (A3 Ha));
        rewrite ?(sum_upd PNone) by reflexivity; unfold pcof in Hpc, Hpc'; rewrite ?Hpc', ?Hpc, ?E10, ?E11;
        cbn [hp cs up]; lia.
    + (* ORetainS: to retain's own lock point *) inversion H; subst. apply GA_tick. ga_plain A Hpc.
    + (* ORetainL *)
      pose proof (retain_loop_effect t ds (vec s) s) as E.
      destruct (retain_loop t ds (vec s) s) as [[s1 kept] removed].
      destruct E as (E1&E2&E3&E4&E5&E6&E7&E8&E9&E10&E11&E12&E13&E14).
      inversion H; subst. apply GA_tick.
      match goal with |- GA (setpc (emit_removed t removed ?x) t _) =>
        pose proof (emit_removed_fields t removed x) as F; cbv zeta in F; sp;
        destruct F as (F1&F2&F3&F4&F5&F6&F7&F8&F9&F10&F11&F12&F13) end.
      destruct A as [A1 A2 A3 A4 A5].
      constructor; sp; rewrite ?F1, ?F4, ?F5, ?F6, ?F7, ?F8, ?F9, ?F10, ?F11, ?E1, ?E5, ?E6, ?E7, ?E8, ?E9, ?E10, ?E11;
        try (intros Ha; specialize (A1 Ha); specialize (A2 Ha); specialize (A3 Ha));
        rewrite ?(sum_upd PNone) by reflexivity; unfold pcof in Hpc; rewrite ?Hpc;
        cbn [hp cs up]; unfold zlen in *; lia.
    + (* OCloseL *)
      inversion H; subst. apply GA_tick.
      set (s0 := set_queue (set_closed s true) []).
      assert (G0 : GQ s0).
      { destruct G as [H1 H2 H3 H4 H5]. subst s0. constructor; sp; try assumption.
        - intros w [].
        - constructor.
        - intros Hq. contradiction.
        - reflexivity. }
      assert (Hd0 : 0 <= debt s0) by (subst s0; sp; exact (a_debt _ A)).
      pose proof (resize_locked_effect s0 t 0 G0 Hd0 (Z.le_refl 0)) as E. cbv zeta in E.
      destruct E as (E1&E2&E3&E4&E5&E6&E7&E8&E9&E10&E11&E12&E13&E14&E15&G'&Hpcs).
      assert (Hpc' : pcof (resize_locked s0 t 0) t = pcof s t).
      { rewrite Hpcs; [reflexivity|]. change (pcof s0 t) with (pcof s t). rewrite Hpc. reflexivity. }
      subst s0. sp.
      destruct A as [A1 A2 A3 A4 A5].
      constructor; sp; rewrite ?E1, ?E2, ?E3, ?E4;
        try (intros Ha; specialize (A1 Ha); specialize (A2 Ha); specialize (A3 Ha));
        rewrite ?(sum_upd PNone) by reflexivity; unfold pcof in Hpc, Hpc'; rewrite ?Hpc', ?Hpc, ?E10, ?E11;
        cbn [hp cs up]; lia.
    + (* OStatusL *) inversion H; subst. apply GA_tick. ga_plain A Hpc.
  - (* Env *)
    unfold env_task in H.
    destruct (pcof s t) as [|g|g|g a|g|g|g o st|g|g o|g o k|g o k|g o k|r0|r0|o|o| |o|o|o|o|o|o|n|ds| | | |n|ds|ds| | |r0] eqn:Hpc;
      cbn [option_map] in H; try discriminate H.
    + (* GRec *)
      destruct r; inversion H; subst; apply GA_tick; [|ga_plain A Hpc..].
      unfold next_stage.
      destruct st as [k| |k];
        repeat match goal with
               | |- context [if ?b then _ else _] => destruct b
               | |- context [match post c with _ => _ end] => destruct (post c)
               end; ga_plain A Hpc.
    + (* GCreate *) destruct r; inversion H; subst; apply GA_tick; ga_plain A Hpc.
    + (* GPostC *)
      destruct r; [destruct (Nat.ltb (S k) (length (pcr c)))|..]; inversion H; subst; apply GA_tick;
        ga_plain A Hpc.
  - (* Cancel *)
    unfold cancel_task in H.
    destruct (pcof s t) as [|g|g|g a|g|g|g o st|g|g o|g o k|g o k|g o k|r0|r0|o|o| |o|o|o|o|o|o|n|ds| | | |n|ds|ds| | |r0] eqn:Hpc;
      cbn [option_map] in H; try discriminate H.
    + inversion H; subst. apply GA_tick. eapply GA_leave_wait; try eassumption; reflexivity.
    + destruct (stage_async c st); inversion H; subst. apply GA_tick. ga_plain A Hpc.
    + inversion H; subst. apply GA_tick. ga_plain A Hpc.
    + destruct (is_async (pcr c) k); inversion H; subst. apply GA_tick. ga_plain A Hpc.
  - (* Fire *)
    unfold fire_task in H. destruct (negb (runtime c)); [discriminate|].
    destruct (pcof s t) as [|g|g|g a|g|g|g o st|g|g o|g o k|g o k|g o k|r0|r0|o|o| |o|o|o|o|o|o|n|ds| | | |n|ds|ds| | |r0] eqn:Hpc;
      cbn [option_map] in H; try discriminate H.
    + destruct (gw g); inversion H; subst. apply GA_tick. eapply GA_leave_wait; try eassumption; reflexivity.
    + destruct st; try discriminate H. destruct (timed (gr g)); inversion H; subst. apply GA_tick. ga_plain A Hpc.
    + destruct (timed (gc g)); inversion H; subst. apply GA_tick. ga_plain A Hpc.
  - inversion H; subst. exact A.
Qed.
